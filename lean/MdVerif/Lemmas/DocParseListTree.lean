/-
Helper lemmas for C01 on documents with lists (`Props/C01d.lean`), part 1: element trees of any shape whose tags are
`hr p h1…h6 blockquote ul ol li` and whose texts are fully escaped one-line texts (`GT`), through the inline
processor, prettify, unescape, the serializer and the end of `convert`.  This generalises the leaves of
`Lemmas/DocParse.lean` and the quote trees of `Lemmas/DocParseQuote.lean` (an element may have both a text and child
elements: the item of a tight list).  Core Lean only.
-/
import MdVerif.Lemmas.DocParseQuote

namespace MdVerif.DocParse
open Py Inline Escape

/-- an element `tag` with an optional text (given unescaped) and child elements -/
inductive GT where
  | el (tag : Str) (t : Option Str) (kids : List GT)

/-- the block-level tags of the documents considered -/
def gtTags : List Str :=
  ["hr", "p", "h1", "h2", "h3", "h4", "h5", "h6", "blockquote", "ul", "ol", "li"].map String.toList

mutual
/-- as the block parser builds it: the texts escaped -/
def GT.src (esc : List Char) : GT → Node
  | .el tag t ks => { tag := .name tag, text := t.map (escAll esc), children := GT.srcs esc ks }
def GT.srcs (esc : List Char) : List GT → List Node
  | [] => []
  | t :: r => t.src esc :: GT.srcs esc r
end

mutual
/-- after the inline processor: the texts coded -/
def GT.mid (esc : List Char) : GT → Node
  | .el tag t ks => { tag := .name tag, text := t.map (coded esc), children := GT.mids esc ks }
def GT.mids (esc : List Char) : List GT → List Node
  | [] => []
  | t :: r => t.mid esc :: GT.mids esc r
end

/-- after the visit of its parent: the own text is done, the children are still to be visited -/
def GT.half (esc : List Char) : GT → Node
  | .el tag t ks => { tag := .name tag, text := t.map (coded esc), children := GT.srcs esc ks }

mutual
/-- tags of the family, texts that are line texts or empty, `hr` without text and children -/
def GT.ok : GT → Bool
  | .el tag t ks =>
    gtTags.contains tag && (match t with | some x => x.isEmpty || lineText x | none => true) &&
      (tag != "hr".toList || (t.isNone && ks.isEmpty)) && GT.oks ks
def GT.oks : List GT → Bool
  | [] => true
  | t :: r => t.ok && GT.oks r
end

def GT.kids : GT → List GT
  | .el _ _ ks => ks

mutual
/-- the number of elements that `run` pops below this one -/
def GT.pops : GT → Nat
  | .el _ _ ks => if ks.isEmpty then 0 else 1 + GT.popsL ks
def GT.popsL : List GT → Nat
  | [] => 0
  | t :: r => t.pops + GT.popsL r
end

mutual
def GT.size : GT → Nat
  | .el _ _ ks => 1 + GT.sizeL ks
def GT.sizeL : List GT → Nat
  | [] => 0
  | t :: r => t.size + GT.sizeL r
end

section gtInline

theorem gsrcs_eq_map (esc : List Char) (ts : List GT) : GT.srcs esc ts = ts.map (GT.src esc) := by
  induction ts with
  | nil => rfl
  | cons t r ih => simp [GT.srcs, ih]

theorem gmids_eq_map (esc : List Char) (ts : List GT) : GT.mids esc ts = ts.map (GT.mid esc) := by
  induction ts with
  | nil => rfl
  | cons t r ih => simp [GT.mids, ih]

theorem goks_mem {ts : List GT} (h : GT.oks ts = true) : ∀ t ∈ ts, t.ok = true := by
  induction ts with
  | nil => intro t ht; cases ht
  | cons a r ih =>
    simp only [GT.oks, Bool.and_eq_true] at h
    intro t ht
    rcases List.mem_cons.1 ht with rfl | ht
    · exact h.1
    · exact ih h.2 t ht

/-- an element with a text and any children, visited as a child: the text is processed, the children wait -/
theorem visitChild_txt_kids (cfg : Inline.Cfg) (hE : EscOK cfg.esc) (tag : Str) (t : Str) (ht : lineText t = true)
    (kids : List Node) (v : Visit) :
    visitChild cfg { tag := .name tag, text := some (escAll cfg.esc t), children := kids } v =
      some ({ tag := .name tag, text := some (coded cfg.esc t), children := kids }, [],
        { v with pushes := if kids.isEmpty then v.pushes else [v.done.length] :: v.pushes,
                 st := { v.st with stash := v.st.stash ++ stashOf cfg.esc t } }) := by
  obtain ⟨hne, hamp, _, hstx, _, hbr, _, _⟩ := lineText_facts ht
  have h1 := handleInlineTop_escAll cfg t v.st hE.bs hE.tick hE.lbr hE.bang hE.star hE.under hamp hbr
  have h2 := ppTop_resid_gen cfg.esc v.st.stash t hstx v.st.html { tag := .name tag, children := kids }
  simp only [visitChild, truthy_some (escAll_ne_nil hne), Bool.not_false, Bool.and_self,
    if_true, Option.getD_some, h1]
  rw [h2]
  have hcn : (coded cfg.esc t).isEmpty = false := by
    cases hcd : coded cfg.esc t with
    | nil => exact absurd hcd (coded_ne_nil hne)
    | cons a b => rfl
  cases kids <;> simp [appendText, hcn, Node.truthy]

theorem visitChild_bare' (cfg : Inline.Cfg) (tag : Tag) (kids : List Node) (v : Visit) :
    visitChild cfg { tag := tag, children := kids } v =
      some ({ tag := tag, children := kids }, [],
        { v with pushes := if kids.isEmpty then v.pushes else [v.done.length] :: v.pushes }) := by
  cases kids <;> simp [visitChild, Node.truthy]

/-- an element whose text is the empty string: nothing to process -/
theorem visitChild_empty' (cfg : Inline.Cfg) (tag : Tag) (kids : List Node) (v : Visit) :
    visitChild cfg { tag := tag, text := some [], children := kids } v =
      some ({ tag := tag, text := some [], children := kids }, [],
        { v with pushes := if kids.isEmpty then v.pushes else [v.done.length] :: v.pushes }) := by
  cases kids <;> simp [visitChild, Node.truthy]

/-- the paths pushed for the children that have children themselves, the last one first -/
def pushesG : List GT → Nat → List Path
  | [], _ => []
  | t :: r, i => pushesG r (i + 1) ++ (if t.kids.isEmpty then [] else [[i]])

theorem visitChild_gt (cfg : Inline.Cfg) (hE : EscOK cfg.esc) (t : GT) (hok : t.ok = true) (v : Visit) :
    ∃ st', st'.html = v.st.html ∧
      visitChild cfg (t.src cfg.esc) v =
        some (t.half cfg.esc, [],
          { v with pushes := if t.kids.isEmpty then v.pushes else [v.done.length] :: v.pushes, st := st' }) := by
  cases t with
  | el tag t ks =>
    simp only [GT.ok, Bool.and_eq_true] at hok
    have hke : (GT.srcs cfg.esc ks).isEmpty = ks.isEmpty := by cases ks <;> rfl
    cases t with
    | none =>
      refine ⟨v.st, rfl, ?_⟩
      have := visitChild_bare' cfg (.name tag) (GT.srcs cfg.esc ks) v
      simpa [GT.src, GT.half, GT.kids, hke] using this
    | some x =>
      cases x with
      | nil =>
        refine ⟨v.st, rfl, ?_⟩
        have := visitChild_empty' cfg (.name tag) (GT.srcs cfg.esc ks) v
        simpa [GT.src, GT.half, GT.kids, hke, escAll, coded] using this
      | cons a b =>
        refine ⟨{ v.st with stash := v.st.stash ++ stashOf cfg.esc (a :: b) }, rfl, ?_⟩
        have := visitChild_txt_kids cfg hE tag (a :: b) (by simpa using hok.1.1.2) (GT.srcs cfg.esc ks) v
        simpa [GT.src, GT.half, GT.kids, hke] using this

theorem visitLoop_gt (cfg : Inline.Cfg) (hE : EscOK cfg.esc) (ts : List GT) (hok : GT.oks ts = true) :
    ∀ (i0 : Nat) (v : Visit) (g : Nat), v.done.length = i0 → (∀ x ∈ v.posmap, x.1 = x.2) →
      ∃ v', visitLoop cfg (g + ts.length + 1) (withIdx (ts.map (GT.src cfg.esc)) i0) v = some v' ∧
        v'.done = (ts.map (GT.half cfg.esc)).reverse ++ v.done ∧
        v'.pushes = pushesG ts i0 ++ v.pushes ∧ (∀ x ∈ v'.posmap, x.1 = x.2) ∧ v'.st.html = v.st.html := by
  induction ts with
  | nil =>
    intro i0 v g _ hpm
    exact ⟨v, by simp [visitLoop, withIdx], by simp, by simp [pushesG], hpm, rfl⟩
  | cons t r ih =>
    intro i0 v g hlen hpm
    simp only [GT.oks, Bool.and_eq_true] at hok
    rw [show g + (t :: r).length + 1 = (g + r.length + 1) + 1 by simp; omega]
    obtain ⟨st1, hs1, hv⟩ := visitChild_gt cfg hE t hok.1 v
    obtain ⟨v', h1, h2, h3, h4, h5⟩ := ih hok.2 (i0 + 1)
      { done := t.half cfg.esc :: v.done, posmap := (i0, v.done.length) :: v.posmap,
        pushes := if t.kids.isEmpty then v.pushes else [v.done.length] :: v.pushes, st := st1 } g (by simp [hlen])
      (by intro x hx; rcases List.mem_cons.1 hx with rfl | hx
          · exact hlen.symm
          · exact hpm x hx)
    refine ⟨v', ?_, ?_, ?_, h4, ?_⟩
    · simp only [List.map_cons, withIdx, visitLoop, hv, List.map_nil, List.nil_append]
      exact h1
    · rw [h2]; simp
    · rw [h3]
      by_cases hk : t.kids.isEmpty = true <;> simp [pushesG, hk, hlen]
    · rw [h5, hs1]

/-- one pop of the stack loop at an element whose children are trees still to be processed -/
theorem pop_step_gt (cfg : Inline.Cfg) (hE : EscOK cfg.esc) (g2 : Nat) (root : Node) (q : Path) (cur : Node)
    (ts : List GT) (hcur : getAt root q = some cur) (hch : cur.children = ts.map (GT.src cfg.esc))
    (hok : GT.oks ts = true) (hg2 : ts.length + 1 ≤ g2) (stack : List Path) (st : St) (g : Nat) :
    ∃ st', st'.html = st.html ∧
      runLoop cfg g2 (g + 1) root (q :: stack) st =
        runLoop cfg g2 g (setAt root q { cur with children := ts.map (GT.half cfg.esc) })
          ((pushesG ts 0).map (q ++ ·) ++ stack) st' := by
  obtain ⟨v', h1, h2, h3, h4, h5⟩ := visitLoop_gt cfg hE ts hok 0 { st := st } (g2 - ts.length - 1) rfl
    (by intro x hx; cases hx)
  rw [show g2 - ts.length - 1 + ts.length + 1 = g2 by omega] at h1
  refine ⟨v'.st, h5, ?_⟩
  simp only [runLoop, hcur, hch, h1, h2, h3, List.append_nil, List.reverse_reverse]
  have hmap : stack.map (remap q v'.posmap) = stack := by
    rw [show remap q v'.posmap = id from funext (remap_id' q _ h4)]; simp
  rw [hmap]

mutual
theorem glength_le_sizeL : (ts : List GT) → ts.length ≤ GT.sizeL ts
  | [] => by simp [GT.sizeL]
  | t :: r => by
    have := glength_le_sizeL r
    have h1 : 1 ≤ t.size := by cases t; simp [GT.size]
    simp only [List.length_cons, GT.sizeL]; omega
end

/-- what the stack loop does with a pushed element -/
def PopsG (cfg : Inline.Cfg) (g2 : Nat) (t : GT) : Prop :=
  t.kids ≠ [] → ∀ (root : Node) (q : Path) (stack : List Path) (st : St) (g : Nat),
    getAt root q = some (GT.half cfg.esc t) →
    ∃ st', st'.html = st.html ∧
      runLoop cfg g2 (g + t.pops) root (q :: stack) st =
        runLoop cfg g2 g (setAt root q (GT.mid cfg.esc t)) stack st'

mutual
theorem popsG (cfg : Inline.Cfg) (hE : EscOK cfg.esc) (g2 : Nat) :
    (t : GT) → t.ok = true → t.size + 1 ≤ g2 → PopsG cfg g2 t
  | .el tag tx ks, hok, hsz => by
    intro hne root q stack st g hcur
    simp only [GT.kids] at hne
    simp only [GT.ok, Bool.and_eq_true] at hok
    simp only [GT.size] at hsz
    have hlen := glength_le_sizeL ks
    obtain ⟨st1, hs1, e1⟩ := pop_step_gt cfg hE g2 root q (GT.half cfg.esc (.el tag tx ks)) ks hcur
      (by simp [GT.half, gsrcs_eq_map]) hok.2 (by omega) stack st (g + GT.popsL ks)
    obtain ⟨st2, hs2, e2⟩ := popsGL cfg hE g2 ks hok.2 (by omega) [] (GT.half cfg.esc (.el tag tx ks)) root q
      ⟨_, hcur⟩ stack st1 g
    refine ⟨st2, by rw [hs2, hs1], ?_⟩
    have hp : GT.pops (.el tag tx ks) = 1 + GT.popsL ks := by
      cases ks with
      | nil => exact absurd rfl hne
      | cons a b => simp [GT.pops]
    rw [hp, show g + (1 + GT.popsL ks) = (g + GT.popsL ks) + 1 by omega, e1]
    simp only [List.nil_append, List.length_nil] at e2
    rw [e2]
    simp [GT.mid, GT.half, gmids_eq_map]
theorem popsGL (cfg : Inline.Cfg) (hE : EscOK cfg.esc) (g2 : Nat) :
    (ts : List GT) → GT.oks ts = true → GT.sizeL ts + 1 ≤ g2 →
    ∀ (pre : List Node) (Xb root : Node) (p : Path), (∃ X0, getAt root p = some X0) →
    ∀ (stack : List Path) (st : St) (g : Nat),
      ∃ st', st'.html = st.html ∧
        runLoop cfg g2 (g + GT.popsL ts)
            (setAt root p { Xb with children := pre ++ ts.map (GT.half cfg.esc) })
            ((pushesG ts pre.length).map (p ++ ·) ++ stack) st =
          runLoop cfg g2 g (setAt root p { Xb with children := pre ++ ts.map (GT.mid cfg.esc) }) stack st'
  | [], _, _ => by
    intro pre Xb root p _ stack st g
    exact ⟨st, rfl, by simp [GT.popsL, pushesG]⟩
  | t :: r, hok, hsz => by
    intro pre Xb root p hvalid stack st g
    obtain ⟨X0, hX0⟩ := hvalid
    simp only [GT.oks, Bool.and_eq_true] at hok
    simp only [GT.sizeL] at hsz
    have hrec := popsGL cfg hE g2 r hok.2 (by omega)
    have hpre : pre ++ (t :: r).map (GT.half cfg.esc) = (pre ++ [GT.half cfg.esc t]) ++ r.map (GT.half cfg.esc) := by
      simp
    have hlen : (pre ++ [GT.half cfg.esc t]).length = pre.length + 1 := by simp
    by_cases hpush : t.kids = []
    · -- nothing is pushed for `t`, and it is already in its final form
      have hpops : GT.pops t = 0 := by cases t; simp only [GT.kids] at hpush; simp [GT.pops, hpush]
      have hhm : GT.half cfg.esc t = GT.mid cfg.esc t := by
        cases t; simp only [GT.kids] at hpush; subst hpush; simp [GT.half, GT.mid, GT.srcs, GT.mids]
      obtain ⟨st1, hs1, e1⟩ := hrec (pre ++ [GT.half cfg.esc t]) Xb root p ⟨X0, hX0⟩ stack st g
      refine ⟨st1, hs1, ?_⟩
      rw [hpre, show GT.popsL (t :: r) = GT.popsL r by simp [GT.popsL, hpops]]
      have hpq : pushesG (t :: r) pre.length = pushesG r (pre ++ [GT.half cfg.esc t]).length := by
        simp [pushesG, hpush, hlen]
      rw [hpq, e1, hhm]
      simp [List.append_assoc]
    · have hT := popsG cfg hE g2 t hok.1 (by omega) hpush
      obtain ⟨st1, hs1, e1⟩ := hrec (pre ++ [GT.half cfg.esc t]) Xb root p ⟨X0, hX0⟩
        ((p ++ [pre.length]) :: stack) st (g + t.pops)
      have hvalidA := getAt_setAt_self hX0
        { Xb with children := (pre ++ [GT.half cfg.esc t]) ++ r.map (GT.mid cfg.esc) }
      have hcurA : getAt (setAt root p
          { Xb with children := (pre ++ [GT.half cfg.esc t]) ++ r.map (GT.mid cfg.esc) })
          (p ++ [pre.length]) = some (GT.half cfg.esc t) := by
        rw [getAt_append' hvalidA]
        simp only [List.append_assoc, List.singleton_append, getAt, getElem?_at_length]
      obtain ⟨st2, hs2, e2⟩ := hT _ (p ++ [pre.length]) stack st1 g hcurA
      refine ⟨st2, by rw [hs2, hs1], ?_⟩
      rw [hpre, show g + GT.popsL (t :: r) = (g + t.pops) + GT.popsL r by simp only [GT.popsL]; omega]
      have hpq : (pushesG (t :: r) pre.length).map (p ++ ·) ++ stack =
          (pushesG r (pre ++ [GT.half cfg.esc t]).length).map (p ++ ·) ++ ((p ++ [pre.length]) :: stack) := by
        have hk : t.kids.isEmpty = false := by
          cases hx : t.kids with
          | nil => exact absurd hx hpush
          | cons a b => rfl
        simp [pushesG, hlen, hk]
      rw [hpq, e1, e2]
      rw [setAt_child hvalidA pre.length (GT.half cfg.esc t) _
        (by simp only [List.append_assoc, List.singleton_append, getElem?_at_length]),
        setAt_setAt_self hX0]
      simp [List.append_assoc]
end

mutual
theorem gpops_le_size : (t : GT) → t.pops ≤ t.size
  | .el _ _ ks => by
    have := gpopsL_le_sizeL ks
    simp only [GT.pops, GT.size]
    split <;> omega
theorem gpopsL_le_sizeL : (ts : List GT) → GT.popsL ts ≤ GT.sizeL ts
  | [] => by simp [GT.popsL]
  | t :: r => by
    have h1 := gpops_le_size t
    have h2 := gpopsL_le_sizeL r
    simp only [GT.popsL, GT.sizeL]; omega
end

mutual
theorem gsize_le_size (esc : List Char) : (t : GT) → t.size ≤ Inline.size (t.src esc)
  | .el tag tx ks => by
    have := gsizeL_le_size esc ks
    simp only [GT.size, GT.src, Inline.size]; omega
theorem gsizeL_le_size (esc : List Char) : (ts : List GT) → GT.sizeL ts ≤ Inline.sizeList (GT.srcs esc ts)
  | [] => by simp [GT.sizeL]
  | t :: r => by
    have h1 := gsize_le_size esc t
    have h2 := gsizeL_le_size esc r
    simp only [GT.sizeL, GT.srcs, Inline.sizeList]; omega
end

/-- **`InlineProcessor.run`** on a `<div>` of such trees: every text is processed where it sits, the shape stays, the
    HTML stash stays as it was -/
theorem run_gt (cfg : Inline.Cfg) (hE : EscOK cfg.esc) (ts : List GT) (hok : GT.oks ts = true) (html : List Str) :
    ∃ st', st'.html = html ∧
      Inline.run cfg (divOf (ts.map (GT.src cfg.esc))) html = some (divOf (ts.map (GT.mid cfg.esc)), st') := by
  have hsz := gsizeL_le_size cfg.esc ts
  rw [gsrcs_eq_map] at hsz
  have hpops := gpopsL_le_sizeL ts
  have hfuel : GT.sizeL ts + 3 ≤ runFuel (divOf (ts.map (GT.src cfg.esc))) := by
    simp only [runFuel, divOf, Inline.size]; omega
  obtain ⟨g, hg⟩ : ∃ g, runFuel (divOf (ts.map (GT.src cfg.esc))) = ((g + 1) + GT.popsL ts) + 1 :=
    ⟨runFuel (divOf (ts.map (GT.src cfg.esc))) - GT.popsL ts - 2, by omega⟩
  obtain ⟨st1, hs1, e1⟩ := pop_step_gt cfg hE (runFuel (divOf (ts.map (GT.src cfg.esc))))
    (divOf (ts.map (GT.src cfg.esc))) [] (divOf (ts.map (GT.src cfg.esc))) ts rfl rfl hok
    (by have := glength_le_sizeL ts; omega) [] { html := html } ((g + 1) + GT.popsL ts)
  obtain ⟨st2, hs2, e2⟩ := popsGL cfg hE (runFuel (divOf (ts.map (GT.src cfg.esc)))) ts hok (by omega) []
    (divOf (ts.map (GT.src cfg.esc))) (divOf (ts.map (GT.src cfg.esc))) [] ⟨_, rfl⟩ [] st1 (g + 1)
  refine ⟨st2, by rw [hs2, hs1], ?_⟩
  have e1' : runLoop cfg (runFuel (divOf (ts.map (GT.src cfg.esc)))) (g + 1 + GT.popsL ts + 1)
      (divOf (ts.map (GT.src cfg.esc))) [[]] { html := html } =
      runLoop cfg (runFuel (divOf (ts.map (GT.src cfg.esc)))) (g + 1 + GT.popsL ts)
        (divOf (ts.map (GT.half cfg.esc))) (pushesG ts 0) st1 := by
    simpa [setAt, divOf] using e1
  have e2' : runLoop cfg (runFuel (divOf (ts.map (GT.src cfg.esc)))) (g + 1 + GT.popsL ts)
        (divOf (ts.map (GT.half cfg.esc))) (pushesG ts 0) st1 =
      runLoop cfg (runFuel (divOf (ts.map (GT.src cfg.esc)))) (g + 1) (divOf (ts.map (GT.mid cfg.esc))) [] st2 := by
    simpa [setAt, divOf] using e2
  simp only [Inline.run]
  conv => lhs; arg 3; rw [hg]
  rw [e1', e2']
  simp [runLoop]

end gtInline

/-! ### prettify, unescape, serializer -/

/-- the text of an element after `prettify`: its own text, or a line feed when it has none (or an empty one) but has
    children -/
def gtText (f : Str → Str) (t : Option Str) (ks : List GT) : Option Str :=
  match t with
  | some (a :: b) => some (f (a :: b))
  | some [] => if ks.isEmpty then some [] else some ['\n']
  | none => if ks.isEmpty then none else some ['\n']

mutual
def GT.pretty (esc : List Char) : GT → Node
  | .el tag t ks =>
    { tag := .name tag, text := gtText (coded esc) t ks, children := GT.pretties esc ks, tail := some ['\n'] }
def GT.pretties (esc : List Char) : List GT → List Node
  | [] => []
  | t :: r => t.pretty esc :: GT.pretties esc r
end

mutual
def GT.fin : GT → Node
  | .el tag t ks => { tag := .name tag, text := gtText id t ks, children := GT.fins ks, tail := some ['\n'] }
def GT.fins : List GT → List Node
  | [] => []
  | t :: r => t.fin :: GT.fins r
end

/-- what is written between the start tag and the children -/
def midOut (t : Option Str) (noKids : Bool) : Str :=
  match t with
  | some (a :: b) => Ser.escCdata (a :: b)
  | _ => if noKids then [] else ['\n']

theorem midOut_some {x : Str} (h : x ≠ []) (nk : Bool) : midOut (some x) nk = Ser.escCdata x := by
  cases x with
  | nil => exact absurd rfl h
  | cons a b => rfl

theorem midOut_lineText {x : Str} (h : lineText x = true) (nk : Bool) : midOut (some x) nk = Ser.escCdata x :=
  midOut_some (lineText_facts h).1 nk

mutual
/-- serialised (xhtml), without the line feed after it -/
def GT.out : GT → Str
  | .el tag t ks =>
    if tag = ['h', 'r'] then ['<', 'h', 'r', ' ', '/', '>']
    else '<' :: tag ++ ['>'] ++ midOut t ks.isEmpty ++ GT.outsNl ks ++ ('<' :: '/' :: tag ++ ['>'])
/-- the children, each followed by a line feed -/
def GT.outsNl : List GT → Str
  | [] => []
  | t :: r => t.out ++ ['\n'] ++ GT.outsNl r
end

def GT.outs : List GT → List Str
  | [] => []
  | t :: r => t.out :: GT.outs r

section gtStages

/-- what is known of the tags of the family -/
theorem gtTagFacts : ∀ tag ∈ gtTags,
    TreeProc.isBlockLevel TreeProc.defaultBlockLevel (.name tag) = true ∧
    tag ≠ ['c', 'o', 'd', 'e'] ∧ tag ≠ ['p', 'r', 'e'] ∧ tag ≠ ['b', 'r'] ∧ Ser.isRawTextTag tag = false ∧
    (Ser.isEmptyTag tag = (tag == ['h', 'r'])) ∧ Post.STX ∉ tag := by decide

theorem gt_tag_mem {tag : Str} {t : Option Str} {ks : List GT} (h : (GT.el tag t ks).ok = true) : tag ∈ gtTags := by
  simp only [GT.ok, Bool.and_eq_true] at h
  exact List.contains_iff_mem.1 h.1.1.1

theorem coded_not_blank {esc : List Char} {x : Str} (h : lineText x = true) : isBlank (coded esc x) = false := by
  obtain ⟨hne, _, _, _, _, _, hv, _⟩ := lineText_facts h
  cases x with
  | nil => exact absurd rfl hne
  | cons c r =>
    have hc : isSpace c = false := by simpa [startsVisible] using hv
    by_cases hm : c ∈ esc
    · simp [coded, hm, escCode, isBlank, show isSpace Inline.STX = false by decide]
    · simp [coded, hm, isBlank, hc]

theorem mid_blockLevel_gt (esc : List Char) (t : GT) (h : t.ok = true) :
    TreeProc.isBlockLevel TreeProc.defaultBlockLevel (t.mid esc).tag = true := by
  cases t with
  | el tag tx ks => exact (gtTagFacts _ (gt_tag_mem h)).1

/-- `_prettifyETree` on an element of the family without tail: no children -/
theorem prettifyETree_node_nil (tag : Str) (hm : tag ∈ gtTags) (text : Option Str) :
    TreeProc.prettifyETree TreeProc.defaultBlockLevel { tag := .name tag, text := text } =
      { tag := .name tag, text := text, tail := some ['\n'] } := by
  have hf := gtTagFacts _ hm
  simp [TreeProc.prettifyETree, hf.1, hf.2.1, hf.2.2.1, TreeProc.blankOrNone, Node.truthy, TreeProc.prettifyKids]

/-- … with a block-level first child -/
theorem prettifyETree_node_cons (tag : Str) (hm : tag ∈ gtTags) (text : Option Str) (c : Node) (r : List Node)
    (hc : TreeProc.isBlockLevel TreeProc.defaultBlockLevel c.tag = true) :
    TreeProc.prettifyETree TreeProc.defaultBlockLevel { tag := .name tag, text := text, children := c :: r } =
      { tag := .name tag, text := if TreeProc.blankOrNone text then some ['\n'] else text,
        children := TreeProc.prettifyKids TreeProc.defaultBlockLevel (c :: r), tail := some ['\n'] } := by
  have hf := gtTagFacts _ hm
  simp [TreeProc.prettifyETree, hf.1, hf.2.1, hf.2.2.1, hc, TreeProc.blankOrNone, Node.truthy]

theorem blankOrNone_coded {esc : List Char} {x : Str} (h : lineText x = true) :
    TreeProc.blankOrNone (some (coded esc x)) = false := by
  have hb := coded_not_blank (esc := esc) h
  obtain ⟨a, b, hab⟩ : ∃ a b, coded esc x = a :: b := by
    cases hc : coded esc x with
    | nil => rw [hc] at hb; simp [isBlank] at hb
    | cons a b => exact ⟨a, b, rfl⟩
  rw [hab] at hb ⊢
  simp [TreeProc.blankOrNone, Node.truthy, hb]

mutual
theorem prettifyETree_gt (esc : List Char) : (t : GT) → t.ok = true →
    TreeProc.prettifyETree TreeProc.defaultBlockLevel (t.mid esc) = t.pretty esc
  | .el tag tx ks, h => by
    have hm := gt_tag_mem h
    simp only [GT.ok, Bool.and_eq_true] at h
    have hk := prettifyKids_gt esc ks h.2
    cases ks with
    | nil =>
      rw [GT.mid, GT.pretty]
      simp only [GT.mids, GT.pretties]
      rw [prettifyETree_node_nil tag hm]
      rcases tx with _ | _ | ⟨a, b⟩ <;> simp [gtText, coded]
    | cons k r =>
      have hkb := mid_blockLevel_gt esc k (by simp only [GT.oks, Bool.and_eq_true] at h; exact h.2.1)
      rw [GT.mid, GT.pretty]
      simp only [GT.mids] at hk ⊢
      rw [prettifyETree_node_cons tag hm _ _ _ hkb, hk]
      cases tx with
      | some x =>
        cases x with
        | nil => simp [gtText, coded, TreeProc.blankOrNone, Node.truthy]
        | cons a b => simp [gtText, blankOrNone_coded (by simpa using h.1.1.2 : lineText (a :: b) = true)]
      | none => simp [gtText, TreeProc.blankOrNone, Node.truthy]
theorem prettifyKids_gt (esc : List Char) : (ts : List GT) → GT.oks ts = true →
    TreeProc.prettifyKids TreeProc.defaultBlockLevel (GT.mids esc ts) = GT.pretties esc ts
  | [], _ => rfl
  | t :: r, h => by
    simp only [GT.oks, Bool.and_eq_true] at h
    simp only [GT.mids, GT.pretties, TreeProc.prettifyKids, mid_blockLevel_gt esc t h.1, if_true,
      prettifyETree_gt esc t h.1, prettifyKids_gt esc r h.2]
end

theorem brRule_tag (n : Node) (tag : Str) (h : n.tag = .name tag) (hne : tag ≠ ['b', 'r']) : TreeProc.brRule n = n := by
  have : TreeProc.tagIs n "br" = false := by simp [TreeProc.tagIs, h, hne]
  simp [TreeProc.brRule, this]

theorem preRule_tag (n : Node) (tag : Str) (h : n.tag = .name tag) (hne : tag ≠ ['p', 'r', 'e']) :
    TreeProc.preRule n = n := by
  have : TreeProc.tagIs n "pre" = false := by simp [TreeProc.tagIs, h, hne]
  simp [TreeProc.preRule, this]

theorem mapTree_node (f : Node → Node) (tag : Tag) (text : Option Str) (kids : List Node) (tail : Option Str) :
    TreeProc.mapTree f { tag := tag, text := text, children := kids, tail := tail } =
      f { tag := tag, text := text, children := TreeProc.mapKids f kids, tail := tail } := rfl

mutual
theorem mapTree_br_gt (esc : List Char) : (t : GT) → t.ok = true →
    TreeProc.mapTree TreeProc.brRule (t.pretty esc) = t.pretty esc
  | .el tag tx ks, h => by
    have hf := gtTagFacts _ (gt_tag_mem h)
    simp only [GT.ok, Bool.and_eq_true] at h
    rw [GT.pretty, mapTree_node, mapKids_br_gt esc ks h.2]
    exact brRule_tag _ tag rfl hf.2.2.2.1
theorem mapKids_br_gt (esc : List Char) : (ts : List GT) → GT.oks ts = true →
    TreeProc.mapKids TreeProc.brRule (GT.pretties esc ts) = GT.pretties esc ts
  | [], _ => rfl
  | t :: r, h => by
    simp only [GT.oks, Bool.and_eq_true] at h
    rw [GT.pretties, TreeProc.mapKids, mapTree_br_gt esc t h.1, mapKids_br_gt esc r h.2]
end

mutual
theorem mapTree_pre_gt (esc : List Char) : (t : GT) → t.ok = true →
    TreeProc.mapTree TreeProc.preRule (t.pretty esc) = t.pretty esc
  | .el tag tx ks, h => by
    have hf := gtTagFacts _ (gt_tag_mem h)
    simp only [GT.ok, Bool.and_eq_true] at h
    rw [GT.pretty, mapTree_node, mapKids_pre_gt esc ks h.2]
    exact preRule_tag _ tag rfl hf.2.2.1
theorem mapKids_pre_gt (esc : List Char) : (ts : List GT) → GT.oks ts = true →
    TreeProc.mapKids TreeProc.preRule (GT.pretties esc ts) = GT.pretties esc ts
  | [], _ => rfl
  | t :: r, h => by
    simp only [GT.oks, Bool.and_eq_true] at h
    rw [GT.pretties, TreeProc.mapKids, mapTree_pre_gt esc t h.1, mapKids_pre_gt esc r h.2]
end

theorem prettify_gt (esc : List Char) (ts : List GT) (hne : ts ≠ []) (hok : GT.oks ts = true) :
    TreeProc.prettify (divOf (GT.mids esc ts)) = prettyDiv (GT.pretties esc ts) := by
  have h1 : TreeProc.isBlockLevel TreeProc.defaultBlockLevel (.name "div".toList) = true := by decide
  have h3 : (Tag.name "div".toList == Tag.name "code".toList) = false := by decide
  have h4 : (Tag.name "div".toList == Tag.name "pre".toList) = false := by decide
  have h7 : (Tag.name "div".toList == Tag.name "br".toList) = false := by decide
  obtain ⟨t, r, rfl⟩ : ∃ t r, ts = t :: r := by
    cases ts with
    | nil => exact absurd rfl hne
    | cons t r => exact ⟨t, r, rfl⟩
  have hb := mid_blockLevel_gt esc t (by simp only [GT.oks, Bool.and_eq_true] at hok; exact hok.1)
  have hk := prettifyKids_gt esc (t :: r) hok
  have hbr := mapKids_br_gt esc (t :: r) hok
  have hpre := mapKids_pre_gt esc (t :: r) hok
  simp only [GT.mids] at hk
  simp only [TreeProc.prettify, divOf, GT.mids, TreeProc.prettifyETree, h1, h3, h4, hb, TreeProc.blankOrNone,
    Node.truthy, Bool.not_false, Bool.true_or, Bool.and_self, if_true, hk, TreeProc.mapTree, hbr, hpre,
    TreeProc.brRule, TreeProc.preRule, TreeProc.tagIs, h7, Bool.false_eq_true, if_false, prettyDiv]

theorem unescapeTree_node_some (tag : Str) (hcode : tag ≠ ['c', 'o', 'd', 'e']) (a : Char) (b y : Str)
    (kids kids' : List Node) (ht : TreeProc.unescapeText 0 (a :: b) = some y)
    (hk : TreeProc.unescapeKids kids = some kids') :
    TreeProc.unescapeTree { tag := .name tag, text := some (a :: b), children := kids, tail := some ['\n'] } =
      some { tag := .name tag, text := some y, children := kids', tail := some ['\n'] } := by
  have hnl : TreeProc.unescapeText 0 ['\n'] = some ['\n'] := by decide
  simp [TreeProc.unescapeTree, hcode, ht, hk, TreeProc.unescAttrs, hnl, Node.truthy]

theorem unescapeTree_node_none (tag : Str) (kids kids' : List Node)
    (hk : TreeProc.unescapeKids kids = some kids') :
    TreeProc.unescapeTree { tag := .name tag, text := none, children := kids, tail := some ['\n'] } =
      some { tag := .name tag, text := none, children := kids', tail := some ['\n'] } := by
  have hnl : TreeProc.unescapeText 0 ['\n'] = some ['\n'] := by decide
  simp [TreeProc.unescapeTree, hk, TreeProc.unescAttrs, hnl, Node.truthy]

theorem unescapeTree_node_empty (tag : Str) (kids kids' : List Node)
    (hk : TreeProc.unescapeKids kids = some kids') :
    TreeProc.unescapeTree { tag := .name tag, text := some [], children := kids, tail := some ['\n'] } =
      some { tag := .name tag, text := some [], children := kids', tail := some ['\n'] } := by
  have hnl : TreeProc.unescapeText 0 ['\n'] = some ['\n'] := by decide
  simp [TreeProc.unescapeTree, hk, TreeProc.unescAttrs, hnl, Node.truthy]

mutual
theorem unescapeTree_gt (esc : List Char) : (t : GT) → t.ok = true →
    TreeProc.unescapeTree (t.pretty esc) = some t.fin
  | .el tag tx ks, h => by
    have hf := gtTagFacts _ (gt_tag_mem h)
    simp only [GT.ok, Bool.and_eq_true] at h
    have hk := unescapeKids_gt esc ks h.2
    rw [GT.pretty, GT.fin]
    cases tx with
    | some x =>
      cases x with
      | nil =>
        cases ks with
        | nil => simpa [gtText] using unescapeTree_node_empty tag _ _ hk
        | cons k r =>
          have hnl : TreeProc.unescapeText 0 ['\n'] = some ['\n'] := by decide
          simpa [gtText] using unescapeTree_node_some tag hf.2.1 '\n' [] ['\n'] _ _ hnl hk
      | cons a0 b0 =>
        have hlt : lineText (a0 :: b0) = true := by simpa using h.1.1.2
        have hne := coded_ne_nil (esc := esc) (lineText_facts hlt).1
        have hu := unescapeText_coded (esc := esc) (a0 :: b0) (lineText_facts hlt).2.2.2.1
        obtain ⟨a, b, hab⟩ : ∃ a b, coded esc (a0 :: b0) = a :: b := by
          cases hc : coded esc (a0 :: b0) with
          | nil => exact absurd hc hne
          | cons a b => exact ⟨a, b, rfl⟩
        simp only [gtText, id]
        rw [hab] at hu ⊢
        exact unescapeTree_node_some tag hf.2.1 a b (a0 :: b0) _ _ hu hk
    | none =>
      cases ks with
      | nil => simpa [gtText] using unescapeTree_node_none tag _ _ hk
      | cons k r =>
        have hnl : TreeProc.unescapeText 0 ['\n'] = some ['\n'] := by decide
        simpa [gtText] using unescapeTree_node_some tag hf.2.1 '\n' [] ['\n'] _ _ hnl hk
theorem unescapeKids_gt (esc : List Char) : (ts : List GT) → GT.oks ts = true →
    TreeProc.unescapeKids (GT.pretties esc ts) = some (GT.fins ts)
  | [], _ => rfl
  | t :: r, h => by
    simp only [GT.oks, Bool.and_eq_true] at h
    simp only [GT.pretties, GT.fins, TreeProc.unescapeKids, unescapeTree_gt esc t h.1, unescapeKids_gt esc r h.2]
end

theorem unescapeTree_div_gt (esc : List Char) (ts : List GT) (hok : GT.oks ts = true) :
    TreeProc.unescapeTree (prettyDiv (GT.pretties esc ts)) = some (prettyDiv (GT.fins ts)) := by
  have hnl : TreeProc.unescapeText 0 ['\n'] = some ['\n'] := by decide
  simp [prettyDiv, TreeProc.unescapeTree, unescapeKids_gt esc ts hok, TreeProc.unescAttrs, hnl, Node.truthy]

theorem out_el (tag : Str) (t : Option Str) (ks : List GT) :
    (GT.el tag t ks).out =
      if tag = ['h', 'r'] then ['<', 'h', 'r', ' ', '/', '>']
      else '<' :: tag ++ ['>'] ++ midOut t ks.isEmpty ++ GT.outsNl ks ++ ('<' :: '/' :: tag ++ ['>']) := rfl

theorem outsNl_cons (t : GT) (r : List GT) : GT.outsNl (t :: r) = t.out ++ ['\n'] ++ GT.outsNl r := by
  rw [GT.outsNl]

/-- the serializer on an element of the family other than `hr`, with a line feed as tail -/
theorem serialize_node (tag : Str) (hm : tag ∈ gtTags) (hhr : tag ≠ ['h', 'r']) (text : Option Str)
    (kids : List Node) :
    Ser.serialize .xhtml { tag := .name tag, text := text, children := kids, tail := some ['\n'] } =
      '<' :: tag ++ ['>'] ++ (if Node.truthy text then Ser.escCdata (text.getD []) else []) ++
        Ser.serializeList .xhtml kids ++ ('<' :: '/' :: tag ++ ['>']) ++ ['\n'] := by
  have hf := gtTagFacts _ hm
  have he : Ser.isEmptyTag tag = false := by rw [hf.2.2.2.2.2.1]; simpa using hhr
  have h5 : Ser.escCdata ['\n'] = ['\n'] := by decide
  simp only [Ser.serialize, Ser.element, Ser.sortAttrs, List.foldr_nil, Ser.writeAttrs, he, hf.2.2.2.2.1, h5,
    Option.getD_some, Bool.false_eq_true, if_false, List.append_nil, Bool.and_false]
  simp [Node.truthy, List.append_assoc]

theorem serialize_hr :
    Ser.serialize .xhtml { tag := .name ['h', 'r'], text := none, children := [], tail := some ['\n'] } =
      ['<', 'h', 'r', ' ', '/', '>', '\n'] := by decide

mutual
theorem serialize_gt : (t : GT) → t.ok = true → Ser.serialize .xhtml t.fin = t.out ++ ['\n']
  | .el tag tx ks, h => by
    have hm := gt_tag_mem h
    simp only [GT.ok, Bool.and_eq_true, Bool.or_eq_true, bne_iff_ne, ne_eq] at h
    have hk := serializeList_gt ks h.2
    rw [GT.fin, out_el]
    by_cases hhr : tag = ['h', 'r']
    · subst hhr
      have h2 : tx.isNone = true ∧ ks.isEmpty = true := by
        rcases h.1.2 with hh | hh
        · exact absurd rfl hh
        · simpa using hh
      have htx : tx = none := by cases tx <;> simp_all
      have hks : ks = [] := by cases ks <;> simp_all
      subst htx; subst hks
      simp only [gtText, GT.fins, if_true, List.isEmpty_nil]
      exact serialize_hr
    · rw [serialize_node tag hm hhr, hk]
      simp only [hhr, if_false]
      cases tx with
      | some x =>
        cases x with
        | nil =>
          cases ks with
          | nil => simp [gtText, midOut, Node.truthy, List.append_assoc]
          | cons k r =>
            have h5 : Ser.escCdata ['\n'] = ['\n'] := by decide
            simp [gtText, midOut, Node.truthy, h5, List.append_assoc]
        | cons a b => simp [gtText, midOut, Node.truthy, List.append_assoc]
      | none =>
        cases ks with
        | nil => simp [gtText, midOut, Node.truthy, List.append_assoc]
        | cons k r =>
          have h5 : Ser.escCdata ['\n'] = ['\n'] := by decide
          simp [gtText, midOut, Node.truthy, h5, List.append_assoc]
theorem serializeList_gt : (ts : List GT) → GT.oks ts = true →
    Ser.serializeList .xhtml (GT.fins ts) = GT.outsNl ts
  | [], _ => rfl
  | t :: r, h => by
    simp only [GT.oks, Bool.and_eq_true] at h
    rw [GT.fins, outsNl_cons, Ser.serializeList, serialize_gt t h.1, serializeList_gt r h.2]
end

theorem gouts_cons (t : GT) (r : List GT) : GT.outs (t :: r) = t.out :: GT.outs r := rfl

theorem outsNl_eq (ts : List GT) : GT.outsNl ts = (GT.outs ts).flatMap (· ++ ['\n']) := by
  induction ts with
  | nil => rfl
  | cons t r ih => rw [outsNl_cons, gouts_cons, List.flatMap_cons, ih]

theorem gouts_ne_nil (ts : List GT) (h : ts ≠ []) : GT.outs ts ≠ [] := by
  cases ts with
  | nil => exact absurd rfl h
  | cons t r => rw [gouts_cons]; simp

theorem serialize_div_gt (ts : List GT) (hne : ts ≠ []) (hok : GT.oks ts = true) :
    Ser.serialize .xhtml (prettyDiv (GT.fins ts)) =
      "<div>".toList ++ ('\n' :: join ['\n'] (GT.outs ts) ++ ['\n']) ++ "</div>\n".toList := by
  have h1 : Ser.isEmptyTag "div".toList = false := by decide
  have h3 : Ser.isRawTextTag "div".toList = false := by decide
  have h5 : Ser.escCdata ['\n'] = ['\n'] := by decide
  have hk := serializeList_gt ts hok
  rw [outsNl_eq, flatMap_nl _ (gouts_ne_nil ts hne)] at hk
  simp only [prettyDiv, Ser.serialize, Ser.element, Ser.sortAttrs, List.foldr_nil, Ser.writeAttrs, h1, h3, h5,
    Node.truthy, Option.getD_some, Bool.false_eq_true, if_false, if_true, List.append_nil, hk, Bool.and_false]
  simp [List.append_assoc]

mutual
theorem out_facts_gt : (t : GT) → t.ok = true →
    Post.STX ∉ t.out ∧ t.out.head? = some '<' ∧ t.out.getLast? = some '>'
  | .el tag tx ks, h => by
    have hf := gtTagFacts _ (gt_tag_mem h)
    simp only [GT.ok, Bool.and_eq_true] at h
    have hk := outsNl_stx ks h.2
    rw [out_el]
    by_cases hhr : tag = ['h', 'r']
    · simp only [hhr, if_true]; exact ⟨by decide, rfl, rfl⟩
    · simp only [hhr, if_false]
      refine ⟨?_, rfl, ?_⟩
      · intro hm
        have hmid : Post.STX ∉ midOut tx ks.isEmpty := by
          cases tx with
          | some x =>
            cases x with
            | nil => simp only [midOut]; split <;> decide
            | cons a b =>
              have hlt : lineText (a :: b) = true := by simpa using h.1.1.2
              simp only [midOut]
              rw [Ser.onepass_cdata']; exact stx_not_mem_esc1 _ _ (a :: b) (lineText_facts hlt).2.2.2.1
          | none => simp only [midOut]; split <;> decide
        have d1 : Post.STX ≠ '<' := by decide
        have d2 : Post.STX ≠ '>' := by decide
        have d3 : Post.STX ≠ '/' := by decide
        have h7 := hf.2.2.2.2.2.2
        simp only [List.mem_append, List.mem_cons] at hm
        rcases hm with (((h' | h' | h') | h') | h') | (h' | h' | h' | h') <;> simp_all
      · have : ('<' :: tag ++ ['>'] ++ midOut tx ks.isEmpty ++ GT.outsNl ks ++ ('<' :: '/' :: tag ++ ['>'])) =
            ('<' :: tag ++ ['>'] ++ midOut tx ks.isEmpty ++ GT.outsNl ks ++ ('<' :: '/' :: tag)) ++ ['>'] := by simp
        rw [this, List.getLast?_append]; rfl
theorem outsNl_stx : (ts : List GT) → GT.oks ts = true → Post.STX ∉ GT.outsNl ts
  | [], _ => by simp [GT.outsNl]
  | t :: r, h => by
    simp only [GT.oks, Bool.and_eq_true] at h
    rw [outsNl_cons]
    intro hm
    simp only [List.mem_append, List.mem_singleton] at hm
    rcases hm with (hm | hm) | hm
    · exact (out_facts_gt t h.1).1 hm
    · exact absurd hm (by decide)
    · exact outsNl_stx r h.2 hm
end

theorem gouts_facts (ts : List GT) (hok : GT.oks ts = true) :
    ∀ o ∈ GT.outs ts, Post.STX ∉ o ∧ o.head? = some '<' ∧ o.getLast? = some '>' := by
  induction ts with
  | nil => intro o ho; cases ho
  | cons t r ih =>
    simp only [GT.oks, Bool.and_eq_true] at hok
    intro o ho
    rw [gouts_cons] at ho
    rcases List.mem_cons.1 ho with rfl | ho
    · exact out_facts_gt t hok.1
    · exact ih hok.2 o ho

/-- **the stages after the block parser** on a `<div>` of element trees of the family -/
theorem render_gt (cfg : Pipeline.Cfg) (hE : EscOK cfg.esc) (hbl : cfg.blockLevel = TreeProc.defaultBlockLevel)
    (hfmt : cfg.fmt = .xhtml) (refs : List (Str × Str × Option Str)) (ts : List GT) (hne : ts ≠ [])
    (hok : GT.oks ts = true) :
    Probe.render cfg refs (divOf (ts.map (GT.src cfg.esc))) = .ok (join ['\n'] (GT.outs ts)) := by
  obtain ⟨st', hst, h1⟩ := run_gt { esc := cfg.esc, refs := refs } hE ts hok []
  have h2 := prettify_gt cfg.esc ts hne hok
  have h3 := unescapeTree_div_gt cfg.esc ts hok
  have h4 := serialize_div_gt ts hne hok
  obtain ⟨j1, j2, j3⟩ := join_facts (GT.outs ts) (gouts_ne_nil ts hne) (gouts_facts ts hok)
  have h5 := finish_wrapped cfg.blockLevel (join ['\n'] (GT.outs ts)) j1
    (fun c hc => by rw [j2] at hc; cases hc; decide) (fun c hc => by rw [j3] at hc; cases hc; decide)
  rw [← gmids_eq_map] at h1
  simp only [Probe.render, h1, hbl, h2, h3, hfmt, h4, hst]
  rw [hbl] at h5
  simp only [h5]

end gtStages

end MdVerif.DocParse
