/-
Helper lemmas for C03 with extensions enabled (`Props/C03X.lean`), continued: the tree processors of the extensions
never change the text of a `code` element — on ANY tree, wherever the element sits.  Core Lean only.

P. `codeTexts`: the atomic texts of the `code` elements of a tree, in document order
Q. `AbbrTreeprocessor` (any abbreviation table), `AttrListTreeprocessor`, `TocTreeprocessor.replace_marker` keep them
R. the inline processor over the extended pattern table skips atomic text (`visitChildX_atomic`,
   `applyPatternX_atomic`)
-/
import MdVerif.Lemmas.CodeXPara

namespace MdVerif.CodeX
open Py CodeLaw

/-! ### P. the code texts of a tree -/

def isCodeTag (tag : Tag) : Bool := tag == .name "code".toList

mutual
/-- the `AtomicString` texts of the `code` elements of the tree, in document order -/
def codeTexts : Node → List Str
  | ⟨tag, _, text, ta, children, _, _⟩ =>
    (if isCodeTag tag && ta then [text.getD []] else []) ++ codeTextsKids children
def codeTextsKids : List Node → List Str
  | [] => []
  | c :: r => codeTexts c ++ codeTextsKids r
end

theorem codeTextsKids_append (a b : List Node) : codeTextsKids (a ++ b) = codeTextsKids a ++ codeTextsKids b := by
  induction a with
  | nil => rfl
  | cons c r ih => simp [codeTextsKids, ih]

/-! ### Q. the tree processors of the extensions -/

theorem codeTextsKids_mkAbbr (abbrs : List (Str × Str)) (l : List (Str × Str)) :
    codeTextsKids (l.map (AbbrTree.mkAbbr abbrs)) = [] := by
  induction l with
  | nil => rfl
  | cons m r ih =>
    simp only [List.map_cons, codeTextsKids, ih, List.append_nil]
    simp [AbbrTree.mkAbbr, codeTexts, codeTextsKids, isCodeTag]

mutual
theorem codeTexts_abbrNode (abbrs : List (Str × Str)) (keys : List Str) (isRoot : Bool) :
    ∀ n : Node, codeTexts (AbbrTree.abbrNode abbrs keys isRoot n).1 = codeTexts n ∧
      codeTextsKids (AbbrTree.abbrNode abbrs keys isRoot n).2 = []
  | ⟨tag, attrs, text, ta, children, tail, tla⟩ => by
    have ih := codeTextsKids_abbrKids abbrs keys children
    simp only [AbbrTree.abbrNode]
    constructor
    · simp only [codeTexts, codeTextsKids_append, ih]
      by_cases hc : (Node.truthy text && !ta) = true
      · have hta : ta = false := by
          cases ta with
          | false => rfl
          | true => simp at hc
        subst hta
        simp only [hc, if_true]
        by_cases he : (AbbrTree.segs keys none 0 (text.getD [])).2.isEmpty = true
        · simp [he, codeTextsKids]
        · simp [he, codeTextsKids_mkAbbr]
      · simp [hc, codeTextsKids]
    · by_cases hc : (!isRoot && Node.truthy tail && !tla) = true
      · simp only [hc, if_true]
        by_cases he : (AbbrTree.segs keys none 0 (tail.getD [])).2.isEmpty = true
        · simp [he, codeTextsKids]
        · simp [he, codeTextsKids_mkAbbr]
      · simp [hc, codeTextsKids]
theorem codeTextsKids_abbrKids (abbrs : List (Str × Str)) (keys : List Str) :
    ∀ l : List Node, codeTextsKids (AbbrTree.abbrKids abbrs keys l) = codeTextsKids l
  | [] => rfl
  | c :: r => by
    have h1 := codeTexts_abbrNode abbrs keys false c
    have h2 := codeTextsKids_abbrKids abbrs keys r
    simp only [AbbrTree.abbrKids, codeTextsKids, codeTextsKids_append, h1.1, h1.2, h2, List.nil_append, List.append_nil]
end

/-- **`AbbrTreeprocessor` never touches code**: with ANY table of abbreviations, on ANY tree, the texts of the `code`
    elements (their `AtomicString`s) are what they were, in the same order — `abbr` elements are inserted around
    them, never inside -/
theorem codeTexts_abbr (abbrs : List (Str × Str)) (root : Node) :
    codeTexts (AbbrTree.run abbrs root) = codeTexts root := by
  unfold AbbrTree.run
  split
  · rfl
  · exact (codeTexts_abbrNode abbrs _ true root).1

mutual
theorem codeTexts_attrNode (bl : List Str) (hbl : TreeProc.isBlockLevel bl (.name "code".toList) = false) :
    ∀ (n : Node) (ov : Option Str), codeTexts (AttrListTree.attrNode bl ov n) = codeTexts n
  | ⟨tag, attrs, text, ta, children, tail, tla⟩, ov => by
    have ih := fun o i => codeTextsKids_attrKids bl hbl children o i
    simp only [AttrListTree.attrNode]
    by_cases hb : TreeProc.isBlockLevel bl tag = true
    · have hnc : isCodeTag tag = false := by
        cases hct : isCodeTag tag with
        | false => rfl
        | true =>
          have : tag = .name "code".toList := by simpa [isCodeTag] using hct
          rw [this, hbl] at hb; cases hb
      simp only [hb, if_true, codeTexts, hnc, Bool.false_and, Bool.false_eq_true, if_false, List.nil_append, ih]
    · simp only [hb, Bool.false_eq_true, if_false]
      cases ov with
      | none =>
        simp only
        by_cases ht : Node.truthy tail = true
        · simp only [ht, if_true]
          split <;> simp only [codeTexts, ih]
        · simp only [ht, Bool.false_eq_true, if_false, codeTexts, ih]
      | some t =>
        simp only
        by_cases ht : Node.truthy (some t) = true
        · simp only [ht, if_true]
          split <;> simp only [codeTexts, ih]
        · simp only [ht, Bool.false_eq_true, if_false, codeTexts, ih]
theorem codeTextsKids_attrKids (bl : List Str) (hbl : TreeProc.isBlockLevel bl (.name "code".toList) = false) :
    ∀ (l : List Node) (ov : Option (Nat × Str)) (i : Nat),
      codeTextsKids (AttrListTree.attrKids bl ov i l) = codeTextsKids l
  | [], _, _ => rfl
  | c :: r, ov, i => by
    simp only [AttrListTree.attrKids, codeTextsKids, codeTexts_attrNode bl hbl c, codeTextsKids_attrKids bl hbl r]
end

/-- **`AttrListTreeprocessor` never touches code text** (as long as `code` is not declared block-level): on ANY tree
    the texts of the `code` elements are what they were — an attribute list is looked for in the text of block-level
    elements and in tails only -/
theorem codeTexts_attrList (bl : List Str) (hbl : TreeProc.isBlockLevel bl (.name "code".toList) = false)
    (root : Node) : codeTexts (AttrListTree.run bl root) = codeTexts root :=
  codeTexts_attrNode bl hbl root none

mutual
theorem codeTexts_replNode (div : Node) (hdiv : codeTexts div = []) :
    ∀ n : Node, codeTexts (TocTree.replNode div n) = codeTexts n
  | ⟨tag, attrs, text, ta, children, tail, tla⟩ => by
    simp only [TocTree.replNode, codeTexts, codeTextsKids_replKids div hdiv children]
theorem codeTextsKids_replKids (div : Node) (hdiv : codeTexts div = []) :
    ∀ l : List Node, codeTextsKids (TocTree.replKids div l) = codeTextsKids l
  | [] => rfl
  | c :: r => by
    have ih := codeTextsKids_replKids div hdiv r
    simp only [TocTree.replKids]
    split
    · simp only [codeTextsKids, ih]
    · rename_i h1
      split
      · rename_i h2
        -- the replaced element: not a `code`, no children
        obtain ⟨tag, attrs, text, ta, children, tail, tla⟩ := c
        simp only [Bool.and_eq_true, List.isEmpty_iff] at h2
        have hch : children = [] := h2.2
        have hnc : isCodeTag tag = false := by
          cases hct : isCodeTag tag with
          | false => rfl
          | true =>
            have : tag = Tag.name "code".toList := by simpa [isCodeTag] using hct
            subst this
            simp at h1
        simp only [codeTextsKids, hdiv, ih, codeTexts, hnc, hch, Bool.false_and, Bool.false_eq_true, if_false,
          List.nil_append]
      · simp only [codeTextsKids, ih, codeTexts_replNode div hdiv c]
end

/-! #### the table of contents that `toc` inserts holds no `code` element -/

mutual
/-- no element of the tree is a `code` -/
def noCode : Node → Bool
  | ⟨tag, _, _, _, children, _, _⟩ => !isCodeTag tag && noCodeKids children
def noCodeKids : List Node → Bool
  | [] => true
  | c :: r => noCode c && noCodeKids r
end

mutual
theorem codeTexts_of_noCode : ∀ n : Node, noCode n = true → codeTexts n = []
  | ⟨tag, _, _, _, children, _, _⟩, h => by
    simp only [noCode, Bool.and_eq_true, Bool.not_eq_true'] at h
    simp only [codeTexts, h.1, Bool.false_and, Bool.false_eq_true, if_false, List.nil_append]
    exact codeTextsKids_of_noCode children h.2
theorem codeTextsKids_of_noCode : ∀ l : List Node, noCodeKids l = true → codeTextsKids l = []
  | [], _ => rfl
  | c :: r, h => by
    simp only [noCodeKids, Bool.and_eq_true] at h
    simp only [codeTextsKids, codeTexts_of_noCode c h.1, codeTextsKids_of_noCode r h.2, List.append_nil]
end

mutual
theorem noCode_prettifyETree (bl : List Str) : ∀ n : Node, noCode (TreeProc.prettifyETree bl n) = noCode n
  | ⟨tag, attrs, text, ta, children, tail, tla⟩ => by
    simp only [TreeProc.prettifyETree, noCode]
    split
    · rw [noCodeKids_prettifyKids bl children]
    · rfl
theorem noCodeKids_prettifyKids (bl : List Str) : ∀ l : List Node, noCodeKids (TreeProc.prettifyKids bl l) = noCodeKids l
  | [] => rfl
  | c :: r => by
    simp only [TreeProc.prettifyKids, noCodeKids, noCodeKids_prettifyKids bl r]
    split
    · rw [noCode_prettifyETree bl c]
    · rfl
end

mutual
theorem noCode_mapTree (f : Node → Node) (hf : ∀ m : Node, noCode (f m) = noCode m) :
    ∀ n : Node, noCode (TreeProc.mapTree f n) = noCode n
  | ⟨tag, attrs, text, ta, children, tail, tla⟩ => by
    simp only [TreeProc.mapTree, hf, noCode, noCodeKids_mapKids f hf children]
theorem noCodeKids_mapKids (f : Node → Node) (hf : ∀ m : Node, noCode (f m) = noCode m) :
    ∀ l : List Node, noCodeKids (TreeProc.mapKids f l) = noCodeKids l
  | [] => rfl
  | c :: r => by simp only [TreeProc.mapKids, noCodeKids, noCode_mapTree f hf c, noCodeKids_mapKids f hf r]
end

theorem noCode_eq (n : Node) : noCode n = (!isCodeTag n.tag && noCodeKids n.children) := by
  cases n; rfl

theorem noCode_brRule (m : Node) : noCode (TreeProc.brRule m) = noCode m := by
  unfold TreeProc.brRule
  split
  · split <;> simp only [noCode_eq]
  · rfl

theorem noCode_preRule (m : Node) : noCode (TreeProc.preRule m) = noCode m := by
  unfold TreeProc.preRule
  split
  · split
    · rename_i code rest hch
      split
      · split
        · rw [noCode_eq, noCode_eq m, hch]
          simp only [noCodeKids, noCode_eq code]
          rfl
        · rfl
      · rfl
    · rfl
  · rfl

theorem noCode_prettify (bl : List Str) (n : Node) : noCode (TreeProc.prettify n bl) = noCode n := by
  unfold TreeProc.prettify
  rw [noCode_mapTree _ noCode_preRule, noCode_mapTree _ noCode_brRule, noCode_prettifyETree]

mutual
theorem noCode_buildLi : ∀ t : Toc.TokTree, noCode (TocTree.buildLi t) = true
  | .mk t cs => by
    cases cs with
    | nil => simp [TocTree.buildLi, TocTree.el, noCode, noCodeKids, isCodeTag]
    | cons c r =>
      have := noCodeKids_buildLis (c :: r)
      simp [TocTree.buildLi, TocTree.el, noCode, noCodeKids, isCodeTag, this]
theorem noCodeKids_buildLis : ∀ l : List Toc.TokTree, noCodeKids (TocTree.buildLis l) = true
  | [] => rfl
  | c :: r => by simp only [TocTree.buildLis, noCodeKids, noCode_buildLi c, noCodeKids_buildLis r, Bool.and_self]
end

theorem codeTexts_buildDiv (bl : List Str) (toks : List Toc.Tok) : codeTexts (TocTree.buildDiv bl toks) = [] := by
  apply codeTexts_of_noCode
  unfold TocTree.buildDiv
  rw [noCode_prettify]
  simp [TocTree.buildUl, TocTree.el, noCode, noCodeKids, isCodeTag, noCodeKids_buildLis]

mutual
theorem codeTexts_walkNode (env : TocTree.Env) :
    ∀ (n : Node) (st : TocTree.St) (n' : Node) (st' : TocTree.St),
      TocTree.walkNode env n st = .ok (n', st') → codeTexts n' = codeTexts n
  | ⟨tag, attrs, text, ta, children, tail, tla⟩, st, n', st', h => by
    simp only [TocTree.walkNode] at h
    split at h
    · cases h
    · cases h
    · cases h
    · rename_i attrs' st1 _
      split at h
      · cases h
      · cases h
      · cases h
      · rename_i ks st2 hk
        simp only [TocTree.R.ok.injEq, Prod.mk.injEq] at h
        obtain ⟨rfl, _⟩ := h
        simp only [codeTexts, codeTextsKids_walkKids env children st1 ks st2 hk]
theorem codeTextsKids_walkKids (env : TocTree.Env) :
    ∀ (l : List Node) (st : TocTree.St) (l' : List Node) (st' : TocTree.St),
      TocTree.walkKids env l st = .ok (l', st') → codeTextsKids l' = codeTextsKids l
  | [], st, l', st', h => by
    simp only [TocTree.walkKids, TocTree.R.ok.injEq, Prod.mk.injEq] at h
    obtain ⟨rfl, _⟩ := h
    rfl
  | c :: r, st, l', st', h => by
    simp only [TocTree.walkKids] at h
    split at h
    · cases h
    · cases h
    · cases h
    · rename_i c' st1 hc
      split at h
      · cases h
      · cases h
      · cases h
      · rename_i r' st2 hr
        simp only [TocTree.R.ok.injEq, Prod.mk.injEq] at h
        obtain ⟨rfl, _⟩ := h
        simp only [codeTextsKids, codeTexts_walkNode env c st c' st1 hc, codeTextsKids_walkKids env r st1 r' st2 hr]
end

/-- **`TocTreeprocessor` never touches code**: whatever it answers on ANY tree, the texts of the `code` elements are
    what they were — headings get ids, an element whose text is the marker `[TOC]` is replaced by the table (never a
    `pre` or a `code`, which `replace_marker` skips), and the table itself holds no `code` element -/
theorem codeTexts_toc (env : TocTree.Env) (bl : List Str) (root r : Node) (h : TocTree.run env bl root = .ok r) :
    codeTexts r = codeTexts root := by
  unfold TocTree.run at h
  split at h
  · cases h
  · split at h
    · cases h
    · cases h
    · cases h
    · rename_i root' st hw
      simp only [TocTree.R.ok.injEq] at h
      subst h
      rw [codeTexts_replNode _ (codeTexts_buildDiv _ _), codeTexts_walkNode env root _ root' st hw]

/-! ### R. the inline processor over the extended pattern table skips atomic text -/

open InlineX Inline in
/-- `InlineProcessor.run` with the extension patterns reads the text of an element only through `visitChildX`; an
    atomic text is left alone: same text, still atomic, same tag and attributes, same children -/
theorem visitChildX_atomic (xc : InlineX.XCfg) (child : Node) (v : VisitX) (c' : Node) (tr : List Node) (v' : VisitX)
    (h : visitChildX xc child v = some (c', tr, v')) (ha : child.textAtomic = true) :
    c'.text = child.text ∧ c'.textAtomic = true ∧ c'.tag = child.tag ∧ c'.attrs = child.attrs ∧
      c'.children = child.children := by
  unfold visitChildX at h
  simp only [ha, Bool.not_true, Bool.and_false, Bool.false_eq_true, if_false] at h
  split at h
  · cases h
  · rename_i c2 tr2 st2 heq
    simp only [Option.some.injEq, Prod.mk.injEq] at h
    obtain ⟨rfl, _, _⟩ := h
    split at heq
    · split at heq
      · cases heq
      · rename_i data st3 hh
        split at heq
        · cases heq
        · rename_i tr3 dumby hpp
          simp only [Option.some.injEq, Prod.mk.injEq] at heq
          obtain ⟨rfl, _, _⟩ := heq
          split <;> simp
    · simp only [Option.some.injEq, Prod.mk.injEq] at heq
      obtain ⟨rfl, _, _⟩ := heq
      simp [ha]

open InlineX Inline in
/-- a matched element whose text is atomic (the backtick pattern's `<code>`) goes into the stash as it is: none of
    the patterns of the table — core, footnote, wikilink, nl2br — is run on it -/
theorem applyPatternX_atomic (xc : InlineX.XCfg) (hi : HIX) (pi : Nat) (k : PatK) (data : Str) (si : Nat)
    (x x' : InlineX.XSt) (n : Node) (s : Nat) (e : Int) (hk : xc.table[pi]? = some k)
    (h : findX xc k data si x = some (some ⟨.el n, s, e⟩, x'))
    (h1 : n.text.isSome = true) (h2 : n.textAtomic = true) :
    applyPatternX xc hi pi data si x =
      some (data.take s ++ placeholder x'.st.stash.length ++ pyDrop data e, true, 0,
        { x' with st := { x'.st with stash := x'.st.stash ++ [.node n] } }) := by
  unfold applyPatternX
  rw [hk]
  simp only [h]
  simp [h1, h2, stashX, stashNode]

/-! ### S. `UnescapeTreeprocessor`, and the stages from `attr_list` to `unescape` together -/

mutual
theorem codeTexts_unescapeTree : ∀ (n n' : Node), TreeProc.unescapeTree n = some n' → codeTexts n' = codeTexts n
  | ⟨tag, attrs, text, ta, children, tail, tla⟩, n', h => by
    simp only [TreeProc.unescapeTree] at h
    split at h
    · rename_i t tl a ks h1 h2 h3 h4
      simp only [Option.some.injEq] at h
      subst h
      simp only [codeTexts, codeTextsKids_unescapeKids children ks h4]
      by_cases hc : isCodeTag tag = true
      · have hc' : (tag == Tag.name "code".toList) = true := hc
        simp only [hc', Bool.not_true, Bool.and_false, Bool.false_eq_true, if_false, Option.some.injEq] at h1 ⊢
        rw [← h1]
      · have hc' : isCodeTag tag = false := by simpa using hc
        simp only [hc', Bool.false_and, Bool.false_eq_true, if_false]
    · cases h
theorem codeTextsKids_unescapeKids : ∀ (l l' : List Node), TreeProc.unescapeKids l = some l' →
    codeTextsKids l' = codeTextsKids l
  | [], l', h => by
    simp only [TreeProc.unescapeKids, Option.some.injEq] at h
    subst h; rfl
  | c :: r, l', h => by
    simp only [TreeProc.unescapeKids] at h
    split at h
    · rename_i c' r' hc hr
      simp only [Option.some.injEq] at h
      subst h
      simp only [codeTextsKids, codeTexts_unescapeTree c c' hc, codeTextsKids_unescapeKids r r' hr]
    · cases h
end

open PipelineX in
/-- **the stages after `prettify` — attr_list 8, abbr 7, toc 5, unescape 0 — never change a code text**: whatever
    extensions are enabled, whatever abbreviations are defined, on ANY tree `t` handed over by `prettify`, the tree `u`
    that goes to the serializer has the same `code` texts in the same order -/
theorem codeTexts_lateStages (attrList abbr toc : Bool) (bl : List Str)
    (hbl : TreeProc.isBlockLevel bl (.name "code".toList) = false) (abbrs : List (Str × Str)) (env : TocTree.Env)
    (t u : Node)
    (h : (let t1 := if attrList then AttrListTree.run bl t else t
          let t2 := if abbr then AbbrTree.run abbrs t1 else t1
          match (if toc then TocTree.run env bl t2 else TocTree.R.ok t2) with
          | .ok t3 => TreeProc.unescapeTree t3
          | _ => none) = some u) :
    codeTexts u = codeTexts t := by
  simp only at h
  have e1 : codeTexts (if attrList then AttrListTree.run bl t else t) = codeTexts t := by
    split
    · exact codeTexts_attrList bl hbl t
    · rfl
  have e2 : codeTexts (if abbr then AbbrTree.run abbrs (if attrList then AttrListTree.run bl t else t)
      else (if attrList then AttrListTree.run bl t else t)) = codeTexts t := by
    split
    · rw [codeTexts_abbr, e1]
    · exact e1
  generalize (if abbr then AbbrTree.run abbrs (if attrList then AttrListTree.run bl t else t)
      else (if attrList then AttrListTree.run bl t else t)) = t2 at h e2
  split at h
  · rename_i t3 h3
    rw [codeTexts_unescapeTree t3 u h, ← e2]
    cases toc with
    | false =>
      simp only [Bool.false_eq_true, if_false, TocTree.R.ok.injEq] at h3
      rw [h3]
    | true =>
      simp only [if_true] at h3
      exact codeTexts_toc env bl t2 t3 h3
  · cases h

end MdVerif.CodeX
