/-
Lemmas for C05 on the extension model, well-formedness: from the vocabulary of the tree (`NI (qtX x)`,
`Props/C05X.lean`) and the invariant `WF` (`Lemmas/VocabXWFDefs.lean`: distinct attribute names, empty void elements)
to `Ser.WFTree` and to the tree class `GN` of the output-level lemmas — given that every attribute name of the tree is a
name (`Ser.isName`), which holds without attr_list (`C05X_names`).  Core Lean only.
-/
import MdVerif.Props.C05X
import MdVerif.Lemmas.VocabXWFDefs
import MdVerif.Lemmas.VocabXWFOut

namespace MdVerif.VocabXWF
open Py Ser PipelineX VocabX VocabXOut
open BlockExt (NI NI_iff allNodes allKids)

/-- every attribute name of the tree is a name -/
def keysNamed (_ : Tag) (attrs : List (Str × Str)) : Bool := attrs.all (fun kv => isName kv.1)

mutual
theorem allNodes_mono {q1 q2 : Tag → List (Str × Str) → Bool} (h : ∀ tag attrs, q1 tag attrs = true → q2 tag attrs = true) :
    (n : Node) → allNodes q1 n = true → allNodes q2 n = true
  | ⟨tag, attrs, text, ta, children, tail, tla⟩, hn => by
    simp only [allNodes, Bool.and_eq_true] at hn ⊢
    exact ⟨h _ _ hn.1, allKids_mono h children hn.2⟩
theorem allKids_mono {q1 q2 : Tag → List (Str × Str) → Bool} (h : ∀ tag attrs, q1 tag attrs = true → q2 tag attrs = true) :
    (l : List Node) → allKids q1 l = true → allKids q2 l = true
  | [], _ => rfl
  | c :: r, hl => by
    simp only [allKids, Bool.and_eq_true] at hl ⊢
    exact ⟨allNodes_mono h c hl.1, allKids_mono h r hl.2⟩
end

/-- the element names of every flag set are names, and none is a raw-text element -/
theorem tagOkX_isName (x : Exts) {t : Str} (h : tagOkX x t = true) : isName t = true ∧ isRawTextTag t = false :=
  (C05.C05X_names { x with attrList := false } rfl t []).1 h

mutual
theorem gn_of (x : Exts) : (n : Node) → NI (qtX x) n → NI keysNamed n → WF n → GN n = true
  | ⟨tag, attrs, text, ta, children, tail, tla⟩, hq, hn, hw => by
    rw [NI_iff] at hq hn
    rw [WF_iff] at hw
    have hk := gnl_of x children hq.2 hn.2 hw.2
    cases tag with
    | name t =>
      have h1 := hq.1
      simp only [qtX, Bool.and_eq_true] at h1
      obtain ⟨hname, hraw⟩ := tagOkX_isName x h1.1
      have h2 : attrs.all (fun kv => isName kv.1) = true := hn.1
      obtain ⟨hnd, hv⟩ := hw.1
      simp only [GN, hname, hraw, h2, hk, Bool.not_false, Bool.true_and, Bool.and_true, Bool.and_eq_true,
        Bool.or_eq_true, Bool.not_eq_true', List.isEmpty_iff]
      refine ⟨hnd, ?_⟩
      cases he : isEmptyTag t with
      | false => exact Or.inl rfl
      | true => exact Or.inr (hv he)
    | comment => have := hq.1; simp [qtX] at this
    | pi => have := hq.1; simp [qtX] at this
    | none => have := hq.1; simp [qtX] at this
    | qname q => have := hq.1; simp [qtX] at this
theorem gnl_of (x : Exts) : (l : List Node) → (∀ c ∈ l, NI (qtX x) c) → (∀ c ∈ l, NI keysNamed c) → (∀ c ∈ l, WF c) →
    GNL l = true
  | [], _, _, _ => rfl
  | c :: r, hq, hn, hw => by
    rw [gnl_cons, Bool.and_eq_true]
    exact ⟨gn_of x c (hq c (by simp)) (hn c (by simp)) (hw c (by simp)),
      gnl_of x r (fun y hy => hq y (by simp [hy])) (fun y hy => hn y (by simp [hy])) (fun y hy => hw y (by simp [hy]))⟩
end

/-- without attr_list every attribute name of the vocabulary is a name -/
theorem keysNamed_of_qtX (x : Exts) (hal : x.attrList = false) : ∀ {n : Node}, NI (qtX x) n → NI keysNamed n := by
  intro n h
  have hmono : ∀ tag attrs, qtX x tag attrs = true → keysNamed tag attrs = true := by
    intro tag attrs hq
    cases tag with
    | name t =>
      simp only [qtX, Bool.and_eq_true, List.all_eq_true] at hq
      simp only [keysNamed, List.all_eq_true]
      intro kv hkv
      exact (C05.C05X_names x hal t kv.1).2 (hq.2 kv hkv)
    | comment => simp [qtX] at hq
    | pi => simp [qtX] at hq
    | none => simp [qtX] at hq
    | qname q => simp [qtX] at hq
  exact allNodes_mono hmono n h

/-- **the tree is in the domain of the round-trip theorem C14** -/
theorem wfTree_of (x : Exts) {u : Node} (hq : NI (qtX x) u) (hn : NI keysNamed u) (hw : WF u) : WFTree u = true :=
  (gn_wf u (gn_of x u hq hn hw)).1

end MdVerif.VocabXWF
