/-
Helper lemmas for C10c (`Props/C10c.lean`): umbrella of the parts, and the composition of the stage lemmas along
`Pipeline.convert` on the domain with inline links and images (`C10DomainC`).  As `Lemmas/PlaceholdersB.lean`, with
the block stage of `PlaceholdersCBlock` (strict regions, closed under end-restricted cuts and newline-joins) and the
inline engine of `PlaceholdersC{PP,Run,HI,Em,Link,FM}` (lax regions).  Core Lean only.
-/
import MdVerif.Lemmas.PlaceholdersB
import MdVerif.Lemmas.PlaceholdersCAdj
import MdVerif.Lemmas.PlaceholdersCFM
import MdVerif.Lemmas.PlaceholdersCBlock

namespace MdVerif.NoCtl
open Py Inline

/-! ### the text handed to the block parser -/

/-- on the widened domain the prepared text is the normalised text, and it is in the domain -/
theorem prepare_domC (cfg : Pipeline.Cfg) {s : Str} (h : C10DomainC cfg.tab s) :
    Blk.AllC (fun c => Blk.okc c && domCharB c) (Pipeline.prepare cfg s) ∧ AdjC false (Pipeline.prepare cfg s) := by
  have hn : ∀ c ∈ Normalize.normalize cfg.tab s, domCharB c = true := by
    intro c hc
    rcases (Normalize.mem_normalize hc).1 with rfl | rfl | hm
    · decide
    · decide
    · exact h.1 c hm
  have hamp : '&' ∉ Normalize.normalize cfg.tab s := by
    intro hm
    have := hn _ hm
    simp [domCharB] at this
  have hprep : Pipeline.prepare cfg s = Normalize.normalize cfg.tab s := extract_no_amp hamp
  rw [hprep]
  refine ⟨?_, h.2⟩
  intro c hc
  have hok := noCtl_iff.1 (normalize_noctl cfg.tab s) c hc
  simp only [Bool.and_eq_true]
  exact ⟨by simp [Blk.okc, hok.1, hok.2], hn c hc⟩

/-! ### from the block tree to the invariants of the inline engine -/

theorem wnodeC_of_bnodeP {n : Node}
    (h : BlkB.BNodeP (fun c => Blk.okc c && domCharB c) Blk.okc
      (fun s => Blk.AllC (fun c => Blk.okc c && domCharB c) s ∧ AdjC false s) n) : WNodeC 0 n := by
  obtain ⟨⟨b1, b2, b3, b4, b5, b6, b7⟩, p1, p2⟩ := h
  have hattrs : attrsNoCtl n.attrs := by rw [b2]; intro kv hkv; cases hkv
  have htail := allC_domB p1.1
  refine ⟨b1, hattrs, b3, strT_of_noCtlC htail.1 htail.2 p1.2.lax, ?_, fun hc => b7 (by simpa [isCode] using hc)⟩
  split
  · rename_i hat
    rw [if_pos hat] at b5
    exact allC_okc b5
  · rename_i hat
    have hat' : n.textAtomic = false := by simpa using hat
    have ht := p2 hat'
    have htx := allC_domB ht.1
    exact strT_of_noCtlC htx.1 htx.2 ht.2.lax

theorem fnode_of_wnodeC {n : Node} (h : WNodeC 0 n) : FNode n := by
  obtain ⟨h1, h2, h3, h4, h5, h6⟩ := h
  refine ⟨h1, h2, h4.1, ?_, ?_⟩
  · by_cases hat : n.textAtomic = true
    · rw [if_pos hat] at h5; exact WF.of_noCtl h5
    · rw [if_neg hat] at h5; exact h5.1
  · intro hc
    have := h6 hc
    rw [if_pos this] at h5; exact h5

/-! ### end to end -/

theorem convert_noctlLC {cfg : Pipeline.Cfg} (hcfg : EscOK cfg.esc) {src out : Str} (hd : C10DomainC cfg.tab src)
    (h : Pipeline.convert cfg src = .ok out) : NoCtl out := by
  unfold Pipeline.convert at h
  split at h
  · cases h
  · split at h
    · cases h; exact noCtl_nil
    · cases ht : Pipeline.tree cfg src with
      | none => simp [ht] at h
      | some r =>
        cases r with
        | none => simp [ht] at h
        | some p =>
          obtain ⟨u, html⟩ := p
          simp only [ht] at h
          cases hf : Post.finish cfg.blockLevel html (Ser.serialize cfg.fmt u) with
          | none => simp [hf] at h
          | some r2 =>
            cases r2 with
            | none => simp [hf] at h
            | some o =>
              simp only [hf, Pipeline.Outcome.ok.injEq] at h
              subst h
              unfold Pipeline.tree at ht
              cases hb : Block.parseDocument cfg.tab (Pipeline.prepare cfg src) with
              | none => simp [hb] at ht
              | some br =>
                obtain ⟨root, refs⟩ := br
                simp only [hb] at ht
                cases hr : Inline.run { esc := cfg.esc, refs := refs.reverse } root with
                | none => simp [hr] at ht
                | some ir =>
                  obtain ⟨t, st⟩ := ir
                  simp only [hr] at ht
                  cases hu : TreeProc.unescapeTree (TreeProc.prettify t cfg.blockLevel) with
                  | none => simp [hu] at ht
                  | some u' =>
                    simp only [hu, Option.some.injEq, Prod.mk.injEq] at ht
                    obtain ⟨rfl, rfl⟩ := ht
                    obtain ⟨hroot, hrefs, -⟩ := BlkC.parseDocument_strs BlkC.strDomC_adjC cfg.tab _ (prepare_domC cfg hd) hb
                    have htree : root.Forall (WNodeC 0) := Node.Forall.mono (fun _ hn => wnodeC_of_bnodeP hn) root hroot
                    have hhi : HISpecC { esc := cfg.esc, refs := refs.reverse } :=
                      hiSpecC (cfg := { esc := cfg.esc, refs := refs.reverse }) hcfg (refsOK_of_refsC cfg.esc hrefs)
                    obtain ⟨ht', hhtml⟩ := run_specC hhi htree hr
                    have hfn : t.Forall FNode := Node.Forall.mono (fun _ hn => fnode_of_wnodeC hn) t ht'
                    have hun := unescapeTree_fnode (prettify_fnode hfn cfg.blockLevel) hu
                    have hser := serialize_noctl cfg.fmt hun
                    rw [hhtml] at hf
                    exact finish_noctl hser hf

/-- the domain with reference links only (no `](`, no `![`) is inside the domain with inline links and images -/
theorem domainC_of_L {tab : Nat} {s : Str} (h : C10DomainL tab s) : C10DomainC tab s :=
  ⟨h.1, adjC_of_adj3 h.2 false⟩

end MdVerif.NoCtl
