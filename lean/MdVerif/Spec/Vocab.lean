/-
The element vocabulary of Markdown (specification side of C05).

* `vocabTags`: the element names a Markdown document may be rendered with; `attrNames`: the attribute names.
* `vocabNode n`: every node of the tree `n` is an ordinary element whose name is in the vocabulary, whose attribute
  names are allowed and pairwise distinct.
* `voidOk n`: the void elements of the vocabulary (`hr`, `br`, `img`) carry no text and no children anywhere in `n`.
* `vocabDoc root`: what the pipeline is expected to hand to the serializer: the wrapper `div` (stripped from the output
  afterwards), without attributes, whose content satisfies `vocabNodes` and `voidOkNodes`; `div` occurs only there.
* `onlyTags ts n`: every node of `n` is an ordinary element whose name is in `ts`; `blockStageTags`: the elements
  the block stage creates (the inline stage adds `br`, `em`, `strong`, `a`, `img`).
* `noAttrs n`: no node of `n` has an attribute.
* `atomicOnlyCode inPre n`: the only `AtomicString` texts in `n` are the texts of `code` elements that are children of
  a `pre` (`inPre` = the parent of `n` is a `pre`); no tail is atomic.

`MdVerif/Lemmas/BlockVocab.lean` proves `vocabNode n → voidOk n → WFTree n` (`WFTree` = the domain of the
serialise/read round trip C14).
-/
import MdVerif.Spec.Reader

namespace MdVerif.Vocab
open Py

def vocabTags : List String :=
  ["p", "h1", "h2", "h3", "h4", "h5", "h6", "ul", "ol", "li", "blockquote", "pre", "code", "hr", "br",
   "em", "strong", "a", "img"]

def attrNames : List String := ["href", "title", "src", "alt"]

def voidTags : List String := ["hr", "br", "img"]

def isVocabTag (t : Str) : Bool := vocabTags.any (fun e => e.toList = t)
def attrOk (k : Str) : Bool := attrNames.any (fun e => e.toList = k)
def isVoidTag (t : Str) : Bool := voidTags.any (fun e => e.toList = t)

/-- attribute names allowed and pairwise distinct (`attrib` is a `dict` in the code) -/
def attrsOk (attrs : List (Str × Str)) : Bool := attrs.all (fun kv => attrOk kv.1) && Ser.keysNodup attrs

mutual
def vocabNode : Node → Bool
  | ⟨tag, attrs, _, _, children, _, _⟩ =>
    (match tag with
     | .name t => isVocabTag t && attrsOk attrs
     | _ => false)
    && vocabNodes children
def vocabNodes : List Node → Bool
  | [] => true
  | n :: r => vocabNode n && vocabNodes r
end

mutual
def voidOk : Node → Bool
  | ⟨tag, _, text, _, children, _, _⟩ =>
    (match tag with
     | .name t => !isVoidTag t || (!Node.truthy text && children.isEmpty)
     | _ => true)
    && voidOkNodes children
def voidOkNodes : List Node → Bool
  | [] => true
  | n :: r => voidOk n && voidOkNodes r
end

/-- the tree handed to the serializer: the wrapper `div` around vocabulary content -/
def vocabDoc (root : Node) : Bool :=
  root.tag == .name "div".toList && root.attrs.isEmpty && vocabNodes root.children && voidOkNodes root.children

def blockStageTags : List String :=
  ["p", "h1", "h2", "h3", "h4", "h5", "h6", "ul", "ol", "li", "blockquote", "pre", "code", "hr"]

mutual
def onlyTags (ts : List String) : Node → Bool
  | ⟨tag, _, _, _, children, _, _⟩ =>
    (match tag with
     | .name t => ts.any (fun e => e.toList = t)
     | _ => false)
    && onlyTagsNodes ts children
def onlyTagsNodes (ts : List String) : List Node → Bool
  | [] => true
  | n :: r => onlyTags ts n && onlyTagsNodes ts r
end

mutual
def noAttrs : Node → Bool
  | ⟨_, attrs, _, _, children, _, _⟩ => attrs.isEmpty && noAttrsNodes children
def noAttrsNodes : List Node → Bool
  | [] => true
  | n :: r => noAttrs n && noAttrsNodes r
end

mutual
def atomicOnlyCode : Bool → Node → Bool
  | inPre, ⟨tag, _, _, textAtomic, children, _, tailAtomic⟩ =>
    (!textAtomic || (inPre && tag == .name "code".toList)) && !tailAtomic &&
    atomicOnlyCodeNodes (tag == .name "pre".toList) children
def atomicOnlyCodeNodes : Bool → List Node → Bool
  | _, [] => true
  | inPre, n :: r => atomicOnlyCode inPre n && atomicOnlyCodeNodes inPre r
end

end MdVerif.Vocab
