/-
Specification side of the documented-rendering clause of C16 for fenced code blocks: how a block is *written*
(`printFence`) and the HTML it stands for (`specFence`).  Core Lean only.

    printFence 3 '`' "py" "x < 1\n\ny"   =   ```py          specFence "py" "x < 1\n\ny"  =
                                             x < 1            <pre><code class="language-py">x &lt; 1⏎⏎y⏎</code></pre>
                                             ⏎
                                             y
                                             ```
-/
import MdVerif.Model.Ext.FencedCode
import MdVerif.Model.Code

namespace MdVerif.FenceDoc
open Py Fenced

/-- the source: `n` fence characters, the language, the body, the same fence -/
def printFence (n : Nat) (ch : Char) (lang b : Str) : Str :=
  List.replicate n ch ++ lang ++ '\n' :: (b ++ '\n' :: List.replicate n ch)

/-- the documented HTML: the body with its final newline, `&`, `<`, `>`, `"` escaped one character at a time
    (`Code.fenceEscape1`); the language as a `language-` class of the `code` element -/
def specFence (lang b : Str) : Str :=
  "<pre><code".toList ++ ((if lang.isEmpty then [] else " class=\"language-".toList ++ (lang ++ ['"'])) ++
    ('>' :: (Code.fenceEscape1 (b ++ ['\n']) ++ "</code></pre>".toList)))

/-- a language name: characters of `[\w#.+-]`, not starting with `.` (`.name` is the brace-less class syntax) -/
def LangOK (lang : Str) : Bool := lang.all isLangChar && lang.head? != some '.'

/-- a character of the body: not `<` (raw HTML is outside the model) and none of the characters the first
    preprocessor removes or rewrites (STX, ETX, tab, carriage return) -/
def srcCh (c : Char) : Bool := c != '<' && c != Char.ofNat 2 && c != Char.ofNat 3 && c != '\t' && c != '\r'

/-- a line of the body: empty or with a character other than a space (lines of spaces are emptied by the first
    preprocessor) -/
def lineOK (l : Str) : Bool := l.isEmpty || l.any (· != ' ')

/-- a fenced block: fence of at least three backticks or tildes, a language name (possibly empty), no line of the body
    closes the fence, body characters and lines as above -/
def FenceOK (n : Nat) (ch : Char) (lang b : Str) : Bool :=
  (ch == '`' || ch == '~') && decide (3 ≤ n) && LangOK lang && noCloseLine (List.replicate n ch) b &&
    b.all srcCh && (lines b).all lineOK

end MdVerif.FenceDoc
