/-
Vocabulary of the C07 statements (backslash escapes), block-parser stage (`Props/C07Block.lean`).

* `escAll esc t`: the text `t` with every character that is in `esc` prefixed by a backslash.
* `EscDomain t`: the source texts the property quantifies over; `EscBlockDomain t`: the (weaker) conditions that
  the block-parser stage really needs.
* `Guarded esc s`, `LineStartsOk esc s`: the two facts about `escAll esc t` that the block recognisers depend on.
  They are stated about an arbitrary text `s` so that the per-recogniser theorems can be reused.

Nothing here is used by the executable model of the code.
-/
import MdVerif.Py.Basic

namespace MdVerif.Escape
open Py

/-- `t` with every character of `esc` prefixed by a backslash -/
def escAll (esc : List Char) : Str → Str
  | [] => []
  | c :: r => if esc.contains c then '\\' :: c :: escAll esc r else c :: escAll esc r

/-! ### what the recognisers of the block parser depend on -/

/-- `guardedFrom esc pb s`: every character of `s` that is in `esc` and is not the backslash is immediately preceded
    by a backslash; `pb` says whether the character before `s` is a backslash. -/
def guardedFrom (esc : List Char) : Bool → Str → Bool
  | _, [] => true
  | pb, c :: r => (pb || c == '\\' || !esc.contains c) && guardedFrom esc (c == '\\') r

/-- every occurrence in `s` of a character of `esc` other than the backslash is immediately preceded by a backslash -/
def Guarded (esc : List Char) (s : Str) : Bool := guardedFrom esc false s

/-- the first character of `r` that is not a space (if any) is a backslash or is not in `esc` -/
def startOk (esc : List Char) (r : Str) : Bool :=
  match r.dropWhile (· == ' ') with
  | [] => true
  | c :: _ => c == '\\' || !esc.contains c

/-- `startOk` for what follows every line feed of the text -/
def startsOkNl (esc : List Char) : Str → Bool
  | [] => true
  | c :: r => (c != '\n' || startOk esc r) && startsOkNl esc r

/-- every line of `s` starts (after any number of spaces) with a backslash or a character that is not in `esc`, or
    consists of spaces only -/
def LineStartsOk (esc : List Char) (s : Str) : Bool := startOk esc s && startsOkNl esc s

/-! ### domains -/

/-- `=+[ ]*`: what `SetextHeaderProcessor.RE` accepts as a level-1 underline -/
def isEqUnderline (l : Str) : Bool :=
  let i := spanLen (· == '=') l
  i > 0 && (l.drop i).all (· == ' ')

/-- the first character exists and is not white space -/
def startsVisible (t : Str) : Bool :=
  match t with
  | c :: _ => !isSpace c
  | [] => false

/-- What the block-parser stage needs of the text `t` (before escaping):
    * no line is empty (so `t` is not empty, does not begin or end with a line feed, has no blank line);
    * the first character is not white space (`ParagraphProcessor` strips the block on the left);
    * the second line is not a Setext underline `=+[ ]*` (`=` is not escapable). -/
def EscBlockDomain (t : Str) : Bool :=
  (lines t).all (fun l => !l.isEmpty) && startsVisible t &&
  !(match (lines t)[1]? with | some l => isEqUnderline l | none => false)

/-- characters that the preprocessors treat specially: `<`, `&` (raw HTML / entities), STX, ETX, tab, CR
    (removed or rewritten by `NormalizeWhitespace`) -/
def isPlainChar (c : Char) : Bool :=
  c != '<' && c != '&' && c != Char.ofNat 2 && c != Char.ofNat 3 && c != '\t' && c != '\r'

/-- The source texts C07 quantifies over: no `<`, `&`, STX, ETX, tab, CR; every line has a character other than a
    space (no empty or whitespace-only line, in particular no leading/trailing line feed); the first character is
    not white space (no leading indentation); no line is a Setext underline `=+[ ]*`.
    Later lines may be indented by any amount (lazy continuation) and lines may end with spaces. -/
def EscDomain (t : Str) : Bool :=
  t.all isPlainChar && (lines t).all (fun l => l.any (· != ' ')) && startsVisible t &&
  (lines t).all (fun l => !isEqUnderline l)

end MdVerif.Escape
