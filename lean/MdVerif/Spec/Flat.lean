/-
Specification side of C06, inline half: the *visible text* of a string that contains inline placeholders.

While the inline processor works, a piece of running text is represented by a string `data` in which every span
already recognised has been replaced by a placeholder `STX klzzwxh:NNNN ETX`; the span itself sits in the stash
(`stashed_nodes`) as a string or as an element whose own texts may contain placeholders of *earlier* entries.  The
reader's words are therefore spread over `data` and the stash, and the placeholder stem itself is made of letters
(`k l z w x h`).  Letters are measured on the placeholder-expanded view:

* `table stash` — the visible text of every stash entry, computed front to back: entry `i` is expanded with the table
  of the entries before it (an entry only refers to earlier ones), so no fuel is needed;
* `flatT tbl 0 s` — `s` with every well-formed placeholder whose id is in the table replaced by the table entry
  (any other `STX` is left as it is); `flat stash s := flatT (table stash) 0 s`;
* `nodeFlat tbl n` — text content of an element in document order (text, then for each child its content and its
  tail), every field expanded; `content n` the same without expansion;
* `letters L s` — the letters of `s` for an arbitrary predicate `L`; `LetterClass L` lists what the proofs need of
  `L`: markup characters, white space, digits and the two control characters are not letters.

`ok L n s` is the invariant of every string the inline processor handles: no `[`, `&`, `<`, `>` (the domain of C06),
and every `STX` in `s` starts a complete token — either an escape token `STX ddd ETX` whose character `chr ddd` is
not a letter, or a placeholder with a canonical id `< n`.  `nodeOk`, `stashOk` lift it to elements and to the stash
(a stashed element has no tail, and the texts of its descendants are ordinary strings: `nonAtomic`).  `treeClean` is the
hypothesis on the input tree (texts of the domain, no `STX`); `ok L 0` = no placeholder at all.

Core Lean only.
-/
import MdVerif.Model.Inline
import MdVerif.Model.TreeProc

namespace MdVerif.Flat
open Py Inline

/-! ### letters -/

/-- the letters of a string, in order -/
def letters (L : Char → Bool) (s : Str) : Str := s.filter L

/-- what is assumed of the predicate "is a letter": the characters the inline processor removes or inserts are not
    letters -/
structure LetterClass (L : Char → Bool) : Prop where
  stx : L STX = false
  etx : L ETX = false
  digit : ∀ c, isAsciiDigit c = true → L c = false
  space : ∀ c, isSpace c = true → L c = false
  star : L '*' = false
  under : L '_' = false
  tick : L '`' = false
  bslash : L '\\' = false

/-- the escapable characters of the configuration are not letters (and `STX`, `&` are not escapable) -/
def EscNotLetter (L : Char → Bool) (cfg : Cfg) : Prop := ∀ c ∈ cfg.esc, L c = false ∧ c ≠ STX ∧ c ≠ '&'

/-! ### text content of elements -/

mutual
/-- text content in document order: text, then for each child its content and its tail (the element's own tail is
    not part of it) -/
def content : Node → Str
  | ⟨_, _, text, _, children, _, _⟩ => text.getD [] ++ contentKids children
def contentKids : List Node → Str
  | [] => []
  | c :: r => content c ++ c.tail.getD [] ++ contentKids r
end

/-- the letters of a document tree -/
def docLetters (L : Char → Bool) (tree : Node) : Str := letters L (content tree)

/-! ### the placeholder-expanded view -/

/-- the table entry of a placeholder id (`'%04d'` form only, as `stashGet`) -/
def tblGet (tbl : List Str) (id : Str) : Option Str :=
  if pad4 (decToNat id) = id then tbl[decToNat id]? else none

/-- one-level substitution of placeholders by table entries; the counter = characters of the current placeholder
    still to skip -/
def flatT (tbl : List Str) : Nat → Str → Str
  | _, [] => []
  | k + 1, _ :: s => flatT tbl k s
  | 0, c :: s =>
    if c = STX && startsWith (c :: s) phPrefix then
      match phAt ((c :: s).drop phPrefixLen) with
      | some (id, l) =>
        match tblGet tbl id with
        | some v => v ++ flatT tbl (phPrefixLen + l - 1) s
        | none => c :: flatT tbl 0 s
      | none => c :: flatT tbl 0 s
    else c :: flatT tbl 0 s

mutual
/-- text content with every field expanded -/
def nodeFlat (tbl : List Str) : Node → Str
  | ⟨_, _, text, _, children, _, _⟩ => flatT tbl 0 (text.getD []) ++ kidsFlat tbl children
def kidsFlat (tbl : List Str) : List Node → Str
  | [] => []
  | c :: r => nodeFlat tbl c ++ flatT tbl 0 (c.tail.getD []) ++ kidsFlat tbl r
end

/-- visible text of a stash entry, given the table of the entries before it.  A string entry is used literally
    (`linkText(node)`), an element is expanded field by field. -/
def itemText (tbl : List Str) : StashItem → Str
  | .str s => s
  | .node n => nodeFlat tbl n

def tableAux : List StashItem → List Str → List Str
  | [], acc => acc
  | it :: r, acc => tableAux r (acc ++ [itemText acc it])

/-- visible text of every stash entry -/
def table (stash : List StashItem) : List Str := tableAux stash []

/-- `s` with the placeholders of the stash expanded, recursively -/
def flat (stash : List StashItem) (s : Str) : Str := flatT (table stash) 0 s

/-- the letters of the visible text of `s` -/
def lettersF (L : Char → Bool) (stash : List StashItem) (s : Str) : Str := letters L (flat stash s)

/-- the letters of the visible text of an element (without its tail) -/
def lettersN (L : Char → Bool) (stash : List StashItem) (n : Node) : Str := letters L (nodeFlat (table stash) n)

/-- the letters of the visible text of a list of siblings (with their tails) -/
def lettersK (L : Char → Bool) (stash : List StashItem) (ns : List Node) : Str :=
  letters L (kidsFlat (table stash) ns)

/-! ### the invariant of the strings handled by the inline processor -/

/-- characters of the C06 domain -/
def charOk (c : Char) : Bool := c != '[' && c != '&' && c != '<' && c != '>'

/-- what an escape token may stand for: not a letter, not `&` (which the serializer would not leave alone), not `STX` -/
def tokChar (L : Char → Bool) (c : Char) : Bool := !L c && c != '&' && c != STX

/-- after an `STX`: `ddd ETX` with `chr ddd` defined and acceptable (`tokChar`) -/
def escTok (L : Char → Bool) (r : Str) : Bool :=
  match phAt r with
  | some (id, _) => decide (decToNat id < 0x110000) && tokChar L (Char.ofNat (decToNat id))
  | none => false

/-- after an `STX`: `klzzwxh:NNNN ETX` with a canonical id below `n` -/
def phTok (n : Nat) (r : Str) : Bool :=
  startsWith r (phPrefix.drop 1) &&
  match phAt (r.drop (phPrefixLen - 1)) with
  | some (id, _) => decide (pad4 (decToNat id) = id) && decide (decToNat id < n)
  | none => false

/-- every character is in the domain and every `STX` starts a complete token -/
def ok (L : Char → Bool) (n : Nat) : Str → Bool
  | [] => true
  | c :: r => charOk c && (c != STX || escTok L r || phTok n r) && ok L n r

mutual
def nodeOk (L : Char → Bool) (n : Nat) : Node → Bool
  | ⟨_, _, text, _, children, tail, _⟩ => ok L n (text.getD []) && ok L n (tail.getD []) && kidsOk L n children
def kidsOk (L : Char → Bool) (n : Nat) : List Node → Bool
  | [] => true
  | c :: r => nodeOk L n c && kidsOk L n r
end

mutual
/-- no text of the element or of its descendants is an `AtomicString`, and none of them has an attribute -/
def nonAtomic : Node → Bool
  | ⟨_, attrs, _, ta, children, _, _⟩ => !ta && attrs.isEmpty && kidsNonAtomic children
def kidsNonAtomic : List Node → Bool
  | [] => true
  | c :: r => nonAtomic c && kidsNonAtomic r
end

/-- entry `i` of the stash: a string without placeholders, or an element without a tail whose placeholders refer to
    earlier entries and whose descendants have ordinary (non-atomic) texts -/
def itemOk (L : Char → Bool) (i : Nat) : StashItem → Bool
  | .str s => ok L 0 s
  | .node nd => nodeOk L i nd && nd.tail.isNone && nd.attrs.isEmpty && kidsNonAtomic nd.children

def stashOkAux (L : Char → Bool) : List StashItem → Nat → Bool
  | [], _ => true
  | it :: r, i => itemOk L i it && stashOkAux L r (i + 1)

def stashOk (L : Char → Bool) (stash : List StashItem) : Bool := stashOkAux L stash 0

/-! ### hypotheses on whole trees -/

/-- a source string of the C06 domain: no `[`, `&`, `<`, `>` and no `STX` (so no forged placeholder or escape) -/
def strClean (s : Str) : Bool := s.all (fun c => charOk c && c != STX)

mutual
/-- every text and tail of the tree is in the domain, and no element has an attribute -/
def treeClean : Node → Bool
  | ⟨_, attrs, text, _, children, tail, _⟩ =>
    strClean (text.getD []) && strClean (tail.getD []) && kidsClean children && attrs.isEmpty
def kidsClean : List Node → Bool
  | [] => true
  | c :: r => treeClean c && kidsClean r
end

mutual
/-- no text or tail of the tree contains the placeholder stem -/
def phFree : Node → Bool
  | ⟨_, _, text, _, children, tail, _⟩ =>
    !contains (text.getD []) phPrefix && !contains (tail.getD []) phPrefix && kidsPhFree children
def kidsPhFree : List Node → Bool
  | [] => true
  | c :: r => phFree c && kidsPhFree r
end

end MdVerif.Flat
