/-
Vocabulary of the end-to-end C07 statements (`Props/C07.lean`): the final domain `EscDomainFull`, and the
intermediate texts of the inline stage on a fully escaped text.
-/
import MdVerif.Spec.Escape
import MdVerif.Model.Inline

namespace MdVerif.Escape
open Py

/-- The source texts of C07, final form: `EscDomain` and no hard line break `"  \n"` (two spaces before a line feed
    are documented markup of their own, `<br />`, and cannot be escaped). -/
def EscDomainFull (t : Str) : Bool := EscDomain t && !(contains t [' ', ' ', '\n'])

/-- what `EscapeInlineProcessor` stashes for `\c`: `STX ord(c) ETX` -/
def escCode (c : Char) : Str := Inline.STX :: natToDec c.toNat ++ [Inline.ETX]

/-- the text `t` after the escape pass over `escAll esc t`: the `k`-th escapable character (counted from `n`) has
    become the inline placeholder number `k` -/
def resid (esc : List Char) : Nat → Str → Str
  | _, [] => []
  | n, c :: r => if esc.contains c then Inline.placeholder n ++ resid esc (n + 1) r else c :: resid esc n r

/-- the stash entries made by that pass, in order -/
def stashOf (esc : List Char) : Str → List Inline.StashItem
  | [] => []
  | c :: r => if esc.contains c then .str (escCode c) :: stashOf esc r else stashOf esc r

/-- `t` with every escapable character replaced by its code `STX ord ETX`: the text of the paragraph after the inline
    processor -/
def coded (esc : List Char) : Str → Str
  | [] => []
  | c :: r => if esc.contains c then escCode c ++ coded esc r else c :: coded esc r

end MdVerif.Escape
