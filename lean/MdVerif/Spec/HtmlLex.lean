/-
A lexer for the grammar of `Spec/HtmlFrag.lean`: `lex s` reads a text as a sequence of tokens (maximal text runs,
`&name;`, `&#n;`, `<!--…-->`, start / end / self-closing tags with attributes, a bare `<` / `&` in front of a character
that cannot start a tag / reference) and CHECKS its own answer: it returns
`some ts` only when `renderToks ts = s` and `toksOk ts`.  So `(lex s).isSome` is a decidable, purely syntactic
predicate on texts -- "every `<` that is followed by a letter, `/`, `!` or `?` starts a complete tag or comment of the
grammar, every `&` that is followed by a letter or `#` a complete reference, and neither is the last character" --
and it is sound by construction (`lex_sound`); how much it accepts is a matter of the scanner below (measured by
`harness/corr/htmltok.py`, `dist['lex_accepts']`).
-/
import MdVerif.Spec.HtmlFrag

namespace MdVerif.HtmlFrag
open Py

/-- the value part behind an attribute name -/
def lexVal (s : Str) : Option (AVal × Str) :=
  match s with
  | '=' :: '"' :: r =>
    match r.dropWhile (· != '"') with
    | _ :: rest => some (.dq (r.takeWhile (· != '"')), rest)
    | [] => none
  | '=' :: '\'' :: r =>
    match r.dropWhile (· != '\'') with
    | _ :: rest => some (.sq (r.takeWhile (· != '\'')), rest)
    | [] => none
  | '=' :: r => some (.bare (r.takeWhile nameCh), r.dropWhile nameCh)
  | _ => some (.none, s)

/-- attributes, trailing white space and the closing `>` / `/>`: attributes, trail, self-closing?, rest
    (fuel: one unit per attribute) -/
def lexAttrs : Nat → Str → Option (List Attr × Str × Bool × Str)
  | 0, _ => none
  | f + 1, s =>
    let w := s.takeWhile spCh
    match s.dropWhile spCh with
    | '>' :: rest => some ([], w, false, rest)
    | '/' :: '>' :: rest => some ([], w, true, rest)
    | r =>
      let n := r.takeWhile nameCh
      match lexVal (r.dropWhile nameCh) with
      | none => none
      | some (v, r3) =>
        match lexAttrs f r3 with
        | none => none
        | some (as, tr, sc, rest) => some (⟨w, n, v⟩ :: as, tr, sc, rest)

/-- `"--"` occurs at the start -/
def dashDash : Str → Bool
  | '-' :: '-' :: _ => true
  | _ => false

/-- split a comment body at the first `--` -/
def lexComment : Str → Str × Str
  | [] => ([], [])
  | c :: r => if dashDash (c :: r) then ([], c :: r) else let (b, rest) := lexComment r; (c :: b, rest)

/-- one token at the start of `s` and the rest -/
def lexOne (s : Str) : Option (Tok × Str) :=
  match s with
  | [] => none
  | '&' :: '#' :: r =>
    match r.dropWhile (· != ';') with
    | _ :: rest => some (.charref (r.takeWhile (· != ';')), rest)
    | [] => none
  | '&' :: r =>
    if (r.head?.map isAsciiAlpha).getD false then
      match r.dropWhile (· != ';') with
      | _ :: rest => some (.entity (r.takeWhile (· != ';')), rest)
      | [] => none
    else some (.bare '&', r)
  | '<' :: '!' :: '-' :: '-' :: r =>
    match lexComment r with
    | (b, '-' :: '-' :: '>' :: rest) => some (.comment b, rest)
    | _ => none
  | '<' :: '/' :: r =>
    match r.dropWhile nameCh with
    | '>' :: rest => some (.close (r.takeWhile nameCh), rest)
    | _ => none
  | '<' :: r =>
    if (r.head?.map isAsciiAlpha).getD false then
      let n := r.takeWhile nameCh
      match lexAttrs r.length (r.dropWhile nameCh) with
      | some (as, tr, true, rest) => some (.selfClose n as tr, rest)
      | some (as, tr, false, rest) => some (.open_ n as tr, rest)
      | none => none
    else some (.bare '<', r)
  | _ => some (.text (s.takeWhile (fun c => c != '<' && c != '&')), s.dropWhile (fun c => c != '<' && c != '&'))

/-- the scanner (fuel: one unit per token) -/
def lexRaw : Nat → Str → Option (List Tok)
  | 0, _ => none
  | _ + 1, [] => some []
  | f + 1, s =>
    match lexOne s with
    | none => none
    | some (t, rest) =>
      -- every token consumes at least one character; stop otherwise
      if rest.length < s.length then (lexRaw f rest).map (t :: ·) else none

/-- read `s` as a token sequence of the grammar; the answer is checked -/
def lex (s : Str) : Option (List Tok) :=
  match lexRaw (s.length + 1) s with
  | some ts => if renderToks ts = s && toksOk ts then some ts else none
  | none => none

/-- the lexer is sound by construction -/
theorem lex_sound {s : Str} {ts : List Tok} (h : lex s = some ts) : renderToks ts = s ∧ toksOk ts = true := by
  unfold lex at h
  split at h
  · rename_i ts' _
    split at h
    · rename_i hc
      simp only [Option.some.injEq] at h
      subst h
      simpa using hc
    · cases h
  · cases h

end MdVerif.HtmlFrag
