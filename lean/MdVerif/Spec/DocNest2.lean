/-
Vocabulary of the C01 theorem of `Props/C01f.lean`: the sub-grammar of `Doc` in which block quotes and lists nest in
each other to any depth (as in `NestDoc`, `Spec/DocNest.lean`) and every paragraph / heading carries the inline content
of `C01_em_nested` (`deep2Run`, `Spec/DocFlat2.lean`: words, backslash escapes, code spans without `<`, and emphasis /
strong, two levels deep, around words, escapes and code spans).

* `Nest2Doc`     every block, at every depth, is a thematic break, a paragraph / ATX heading / Setext heading with such
                 content, a block quote of such blocks, or a bullet / ordered list whose items are made of such blocks.
                 No indented code blocks.  Contains `NestDoc`.
-/
import MdVerif.Spec.DocFlat2

namespace MdVerif.DocSpec
open MdVerif MdVerif.Py

/-- a rule, or a paragraph / ATX heading / Setext heading whose content is `deep2Run` -/
def isDeep2Flat : Block → Bool
  | .rule => true
  | .para c => deep2Run c
  | .atx _ c => deep2Run c
  | .setext _ c => deep2Run c
  | _ => false

mutual
/-- a flat block with `deep2Run` content, a quote of such blocks, or a list whose items are made of such blocks -/
def isNest2Block : Block → Bool
  | .rule => true
  | .para c => deep2Run c
  | .atx _ c => deep2Run c
  | .setext _ c => deep2Run c
  | .code _ => false
  | .quote bs => isNest2Blocks bs
  | .ulist _ items => isNest2Items items
  | .olist _ items => isNest2Items items
def isNest2Blocks : List Block → Bool
  | [] => true
  | b :: r => isNest2Block b && isNest2Blocks r
def isNest2Items : List (List Block) → Bool
  | [] => true
  | it :: r => isNest2Blocks it && isNest2Items r
end

/-- documents of flat blocks (words, escapes, code spans, emphasis to two levels), quotes and lists nested in each other
    to any depth -/
def Nest2Doc (d : Doc) : Bool := isNest2Blocks d

end MdVerif.DocSpec
