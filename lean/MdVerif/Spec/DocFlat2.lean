/-
Vocabulary of the C01 theorems of `Props/C01b.lean`: the sub-grammars of `Doc` that extend `FlatDoc`
(`Spec/DocFlat.lean`) by indented code blocks (rung A), code spans (rung B) and one level of emphasis (rung C).

Domain restriction common to all of them: no `<` inside code (`noLt`) — the pipeline model `Pipeline.convert` answers
`ood` (outside the modelled domain) on any source that contains `<`.  The other restriction of the C03 theorems, closed
numeric character references, is already part of `WF` (`noAmpHash`: no `&#` in code, known defect F-C03-1).
-/
import MdVerif.Spec.Doc
import MdVerif.Spec.DocFlat

namespace MdVerif.DocSpec
open MdVerif MdVerif.Py

/-- no `<` in the string -/
def noLt (s : Str) : Bool := !s.contains '<'

/-! ### rung A: indented code blocks among flat blocks -/

/-- a flat block (`isFlatBlock`) or an indented code block without `<` -/
def isFlatCodeBlock : Block → Bool
  | .code ls => ls.all noLt
  | b => isFlatBlock b

/-- a document of rules, plain paragraphs / headings and code blocks, all at top level -/
def FlatCodeDoc (d : Doc) : Bool := d.all isFlatCodeBlock

/-! ### rung B: code spans among words and escapes -/

/-- words, a backslash escape, or a code span without `<` -/
def isSpanItem : Inline → Bool
  | .text _ => true
  | .esc _ => true
  | .code b => noLt b
  | _ => false

/-- no escaped backslash directly before a code span.  (There `BACKTICK_RE`'s first alternative `((?:\\{2})+)(?=`+)`,
    not the escape pattern, consumes the backslashes; the rendering is the same — tested — but that path of the inline
    engine is not covered by the proof.) -/
def noBsBeforeCode : List Inline → Bool
  | .esc c :: .code b :: r => c != '\\' && noBsBeforeCode (.code b :: r)
  | _ :: r => noBsBeforeCode r
  | [] => true

/-- inline content made of words, escapes and code spans -/
def spanRun (c : List Inline) : Bool := c.all isSpanItem && noBsBeforeCode c

/-- a rule, an indented code block without `<`, or a paragraph / ATX heading / Setext heading whose content is words,
    escapes and code spans -/
def isSpanBlock : Block → Bool
  | .rule => true
  | .code ls => ls.all noLt
  | .para c => spanRun c
  | .atx _ c => spanRun c
  | .setext _ c => spanRun c
  | _ => false

/-- a document made of such blocks (all at top level) -/
def SpanDoc (d : Doc) : Bool := d.all isSpanBlock

/-! ### rung C: one level of emphasis around words -/

/-- words, a backslash escape, or `em` / `strong` around words -/
def isEmItem : Inline → Bool
  | .text _ => true
  | .esc _ => true
  | .em [.text _] => true
  | .strong [.text _] => true
  | _ => false

/-- inline content made of words, escapes and emphasised words -/
def emRun (c : List Inline) : Bool := c.all isEmItem

/-- a block of `SpanDoc`, or a paragraph / ATX heading / Setext heading whose content is words, escapes and
    emphasised words (code spans and emphasis are not mixed within one paragraph or heading) -/
def isEmBlock : Block → Bool
  | .para c => spanRun c || emRun c
  | .atx _ c => spanRun c || emRun c
  | .setext _ c => spanRun c || emRun c
  | b => isSpanBlock b

/-- a document made of such blocks (all at top level) -/
def EmDoc (d : Doc) : Bool := d.all isEmBlock

/-! ### rung C grown: code spans and one level of emphasis in the same paragraph or heading -/

/-- words, a backslash escape, a code span without `<`, or `em` / `strong` around words -/
def isMixItem : Inline → Bool
  | .text _ => true
  | .esc _ => true
  | .code b => noLt b
  | .em [.text _] => true
  | .strong [.text _] => true
  | _ => false

/-- inline content made of words, escapes, code spans and emphasised words, in any order -/
def mixRun (c : List Inline) : Bool := c.all isMixItem && noBsBeforeCode c

/-- a rule, an indented code block without `<`, or a paragraph / ATX heading / Setext heading whose content is words,
    escapes, code spans and emphasised words -/
def isMixBlock : Block → Bool
  | .rule => true
  | .code ls => ls.all noLt
  | .para c => mixRun c
  | .atx _ c => mixRun c
  | .setext _ c => mixRun c
  | _ => false

/-- a document made of such blocks (all at top level); contains `SpanDoc` and `EmDoc` -/
def MixDoc (d : Doc) : Bool := d.all isMixBlock

/-! ### rung C grown further: emphasis around words, escapes and code spans -/

/-- words, a backslash escape, a code span without `<`, or `em` / `strong` around such items (one level) -/
def isDeepItem : Inline → Bool
  | .text _ => true
  | .esc _ => true
  | .code b => noLt b
  | .em c => c.all isSpanItem && noBsBeforeCode c
  | .strong c => c.all isSpanItem && noBsBeforeCode c
  | _ => false

def deepRun (c : List Inline) : Bool := c.all isDeepItem && noBsBeforeCode c

def isDeepBlock : Block → Bool
  | .rule => true
  | .code ls => ls.all noLt
  | .para c => deepRun c
  | .atx _ c => deepRun c
  | .setext _ c => deepRun c
  | _ => false

/-- a document of rules, code blocks, and paragraphs / headings of words, escapes, code spans and one level of
    emphasis around words, escapes and code spans; contains `MixDoc` -/
def DeepDoc (d : Doc) : Bool := d.all isDeepBlock

/-! ### rung C grown again: emphasis inside emphasis -/

/-- words, a backslash escape, a code span without `<`, or `em` / `strong` around items of `isDeepItem` (so: two levels
    of emphasis, which is all that well-formedness allows) -/
def isDeep2Item : Inline → Bool
  | .text _ => true
  | .esc _ => true
  | .code b => noLt b
  | .em c => c.all isDeepItem && noBsBeforeCode c
  | .strong c => c.all isDeepItem && noBsBeforeCode c
  | _ => false

def deep2Run (c : List Inline) : Bool := c.all isDeep2Item && noBsBeforeCode c

def isDeep2Block : Block → Bool
  | .rule => true
  | .code ls => ls.all noLt
  | .para c => deep2Run c
  | .atx _ c => deep2Run c
  | .setext _ c => deep2Run c
  | _ => false

/-- a document of rules, code blocks, and paragraphs / headings of words, escapes, code spans and emphasis (two levels:
    `em` in `strong`, `strong` in `em`) around words, escapes and code spans; contains `DeepDoc` -/
def Deep2Doc (d : Doc) : Bool := d.all isDeep2Block

/-- a hard break (two spaces and a newline), or an item of `isDeep2Item` -/
def isBrItem : Inline → Bool
  | .br => true
  | x => isDeep2Item x

def brRun (c : List Inline) : Bool := c.all isBrItem && noBsBeforeCode c

/-- as `isDeep2Block`, and paragraphs may contain hard breaks (at top level, where well-formedness allows them) -/
def isBrBlock : Block → Bool
  | .para c => brRun c
  | b => isDeep2Block b

/-- a document of rules, code blocks, headings with two levels of emphasis, and paragraphs of several lines: two levels
    of emphasis, and hard breaks between the lines; contains `Deep2Doc` -/
def BrDoc (d : Doc) : Bool := d.all isBrBlock

/-! ### inline links -/

/-- no bracket in the printed form: no escaped bracket, no bracket in a code span -/
def noBracketItem : Inline → Bool
  | .esc c => c != '[' && c != ']'
  | .code b => b.all (fun c => c != '[' && c != ']')
  | _ => true

/-- a destination without `_` and `&` -/
def simpleDest (d : Str) : Bool := d.all (fun c => c != '_' && c != '&')

/-- an item of `isMixItem`, or an inline link whose text is made of such items and whose destination is simple -/
def isLinkItem : Inline → Bool
  | .link c d _ => c.all isMixItem && noBsBeforeCode c && simpleDest d
  | x => isMixItem x

/-- a link that starts the paragraph has no bracket in its printed text: `[a]: b](u)` would be a reference
    definition -/
def firstLinkOK : List Inline → Bool
  | .link c _ _ :: _ => c.all noBracketItem
  | _ => true

def linkRun (c : List Inline) : Bool := c.all isLinkItem && noBsBeforeCode c && firstLinkOK c

/-- as `isBrBlock`, and a paragraph may instead be a line of `linkRun`: words, escapes, code spans, emphasised words
    and inline links around such content -/
def isLinkBlock : Block → Bool
  | .para c => brRun c || linkRun c
  | b => isDeep2Block b

def LinkDoc (d : Doc) : Bool := d.all isLinkBlock

/-- the spelling draws the inline style without angle brackets for every link (`linkStyle` 0): the printed source has
    no `<` (style 1 writes `<dest>`) and no reference definition (styles 2, 3, 4) -/
def inlineStyle (d : Doc) (sp : Spelling) : Bool :=
  (print d sp).all (fun c => c != '<') && (printBlocks true d ⟨sp.choices, 1, []⟩).2.defs.isEmpty

end MdVerif.DocSpec
