/-
Vocabulary of the C01 theorems of `Props/C01b.lean`: the sub-grammars of `Doc` that extend `FlatDoc`
(`Spec/DocFlat.lean`) by indented code blocks (rung A), code spans (rung B) and one level of emphasis (rung C).

Domain restriction common to all of them: no `<` inside code (`noLt`) — the pipeline model `Pipeline.convert` answers
`ood` (outside the modelled domain) on any source that contains `<`.  The other restriction of the C03 theorems, closed
numeric character references, is already part of `WF` (`noAmpHash`: no `&#` in code, known defect F-C03-1).
-/
import MdVerif.Spec.Doc
import MdVerif.Spec.DocFlat

namespace MdVerif.DocSpec
open MdVerif MdVerif.Py

/-- no `<` in the string -/
def noLt (s : Str) : Bool := !s.contains '<'

/-! ### rung A: indented code blocks among flat blocks -/

/-- a flat block (`isFlatBlock`) or an indented code block without `<` -/
def isFlatCodeBlock : Block → Bool
  | .code ls => ls.all noLt
  | b => isFlatBlock b

/-- a document of rules, plain paragraphs / headings and code blocks, all at top level -/
def FlatCodeDoc (d : Doc) : Bool := d.all isFlatCodeBlock

end MdVerif.DocSpec
