/-
Vocabulary of the C10X statements (`Props/C10X*.lean`): the tree between the inline stage and `UnescapeTreeprocessor`
when extensions are enabled.

`FNode` (`Spec/NoCtl.lean`) says: escape tokens `STX <code> ETX` only, in texts and tails, none in `code` text, and
attribute names AND VALUES free of STX/ETX.  `AttrListTreeprocessor` (priority 8, after the inline stage) moves text
into attribute values, escape tokens included (`{: title="a \* b" }`); `UnescapeTreeprocessor` restores them there
too (`unescAttrs`).  `FNodeX` is `FNode` with attribute values that may hold escape tokens.

Nothing here is used by the executable model of the code.
-/
import MdVerif.Spec.NoCtl

namespace MdVerif.NoCtl
open Py Inline

/-- attribute names without STX/ETX, values made of ordinary characters and escape tokens -/
def attrsTok (attrs : List (Str × Str)) : Prop := ∀ kv ∈ attrs, NoCtl kv.1 ∧ WF true 0 kv.2

/-- an element of the tree handed from one late tree processor (prettify, attr_list, abbr, toc) to the next, and
    finally to `UnescapeTreeprocessor`: escape tokens only (texts, tails, attribute values), none in `code` text -/
def FNodeX (n : Node) : Prop :=
  tagNoCtl n.tag ∧ attrsTok n.attrs ∧ WFO true 0 n.tail ∧ WFO true 0 n.text ∧ (isCode n = true → NoCtlO n.text)

end MdVerif.NoCtl
