/-
A grammar of well-delimited raw HTML, as TEXT (C04, text level).

`Tok` is one lexical unit -- a run of text, an entity or character reference, a comment, a start tag with attributes
in all quoting styles, an end tag, a self-closing tag -- `Tok.render` its source text, `Tok.ok` the (decidable) side
conditions under which that source text is read back as exactly that unit by the tokenizer, `renderToks` the source
text of a sequence.  `stackRun` is the tag-stack discipline of `HTMLExtractor.handle_starttag` / `handle_endtag` on
such a sequence (start tags push -- `hr` excepted --, an end tag whose name is on the stack pops down to and including
the nearest such entry, other end tags pop nothing); `closesOk tag body` says that `body` never empties a stack that
starts as `[tag]`, and that afterwards `tag` is still there exactly once, at the bottom: then `</tag>` right behind
`body` is the end tag that ends the raw block opened by `<tag …>`.  Properly nested bodies satisfy it, and so do
bodies with unclosed `<br>` / `<img>` / `<li>` or stray end tags.
-/
import MdVerif.Model.ExtractEv

namespace MdVerif.HtmlFrag
open Py Extract

/-- characters of tag names, attribute names and unquoted attribute values of the fragment:
    ASCII letters and digits, `-`, `_`, `:`, `.` -/
def nameCh (c : Char) : Bool := isAsciiAlnum c || c = '-' || c = '_' || c = ':' || c = '.'

/-- a name: an ASCII letter followed by `nameCh` characters -/
def nameOk : Str → Bool
  | c :: r => isAsciiAlpha c && r.all nameCh
  | [] => false

/-- a space or a newline -/
def spCh (c : Char) : Bool := c = ' ' || c = '\n'

/-- a (possibly empty) run of spaces and newlines -/
def spacesOk (s : Str) : Bool := s.all spCh

/-- a non-empty run of spaces and newlines -/
def sepOk (s : Str) : Bool := !s.isEmpty && s.all spCh

/-- attribute value styles -/
inductive AVal
  /-- no value: `hidden` -/
  | none
  /-- `="v"` -/
  | dq (v : Str)
  /-- `='v'` -/
  | sq (v : Str)
  /-- `=v` -/
  | bare (v : Str)
deriving DecidableEq, Repr

def AVal.render : AVal → Str
  | .none => []
  | .dq v => '=' :: '"' :: v ++ ['"']
  | .sq v => '=' :: '\'' :: v ++ ['\'']
  | .bare v => '=' :: v

/-- a quoted value is any text without its own quote character (newlines, blank lines, `<`, `>`, `&` included);
    a bare value is a non-empty run of `nameCh` characters -/
def AVal.ok : AVal → Bool
  | .none => true
  | .dq v => !v.contains '"'
  | .sq v => !v.contains '\''
  | .bare v => !v.isEmpty && v.all nameCh

def AVal.isBare : AVal → Bool
  | .bare _ => true
  | _ => false

/-- one attribute with the white space in front of it -/
structure Attr where
  sep : Str
  name : Str
  val : AVal
deriving DecidableEq, Repr

def Attr.render (a : Attr) : Str := a.sep ++ a.name ++ a.val.render
def Attr.ok (a : Attr) : Bool := sepOk a.sep && nameOk a.name && a.val.ok

/-- the text between the tag name and the closing `>` / `/>`: the attributes, then optional white space -/
def afterName : List Attr → Str → Str
  | [], trail => trail
  | a :: as, trail => a.render ++ afterName as trail

inductive Tok
  /-- a run of text without `<` and `&` -/
  | text (t : Str)
  /-- `&name;` -/
  | entity (name : Str)
  /-- `&#digits;` / `&#xhex;` -/
  | charref (name : Str)
  /-- `<!--body-->` -/
  | comment (body : Str)
  /-- `<name attrs trail>` -/
  | open_ (name : Str) (attrs : List Attr) (trail : Str)
  /-- `</name>` -/
  | close (name : Str)
  /-- `<name attrs trail/>` -/
  | selfClose (name : Str) (attrs : List Attr) (trail : Str)
  /-- a bare `<` or `&` that is plain text because of the character behind it (`1 < 2`, `a & b`) -/
  | bare (c : Char)
deriving Repr

def Tok.render : Tok → Str
  | .text t => t
  | .entity n => '&' :: n ++ [';']
  | .charref n => '&' :: '#' :: n ++ [';']
  | .comment b => '<' :: '!' :: '-' :: '-' :: b ++ ['-', '-', '>']
  | .open_ n as tr => '<' :: n ++ afterName as tr ++ ['>']
  | .close n => '<' :: '/' :: n ++ ['>']
  | .selfClose n as tr => '<' :: n ++ afterName as tr ++ ['/', '>']
  | .bare c => [c]

/-- source text of a token sequence -/
def renderToks : List Tok → Str
  | [] => []
  | t :: ts => t.render ++ renderToks ts

/-- `&name;`: a letter, then letters, digits, `-`, `.` -/
def entityNameOk : Str → Bool
  | c :: r => isAsciiAlpha c && r.all (fun d => isAsciiAlnum d || d = '-' || d = '.')
  | [] => false

/-- `&#…;`: decimal digits, or `x`/`X` and hexadecimal digits -/
def charrefNameOk : Str → Bool
  | c :: r =>
    if c = 'x' || c = 'X' then !r.isEmpty && r.all isHexDigit
    else (c :: r).all isAsciiDigit
  | [] => false

def isText : Tok → Bool
  | .text _ => true
  | _ => false

def isBare : Tok → Bool
  | .bare _ => true
  | _ => false

/-- what may stand behind a bare `<` (anything but a letter, `/`, `!`, `?`: those start tags, comments, processing
    instructions, declarations) or a bare `&` (anything but a letter or `#`: those start references) -/
def bareFollow (c d : Char) : Bool :=
  if c = '<' then !isAsciiAlpha d && d != '/' && d != '!' && d != '?'
  else !isAsciiAlpha d && d != '#'

/-- `"script"`, `"style"`: their content is tokenized in another mode (outside the fragment) -/
def cdataNames : List Str := [['s', 'c', 'r', 'i', 'p', 't'], ['s', 't', 'y', 'l', 'e']]

def Tok.ok : Tok → Bool
  | .text t => !t.isEmpty && !t.contains '<' && !t.contains '&'
  | .entity n => entityNameOk n
  | .charref n => charrefNameOk n
  | .comment b => !Py.contains b ['-', '-']
  | .open_ n as tr => nameOk n && as.all Attr.ok && spacesOk tr && !cdataNames.contains (lower n)
  | .close n => nameOk n
  | .selfClose n as tr =>
    nameOk n && as.all Attr.ok && spacesOk tr &&
      (!tr.isEmpty || (as.getLast?.map (fun a => !a.val.isBare)).getD true)
  | .bare c => c = '<' || c = '&'

/-- a bare `<` / `&` must be followed by a token whose first character keeps it bare -/
def followOk (t u : Tok) : Bool :=
  match t with
  | .bare c => (u.render.head?.map (bareFollow c)).getD false
  | _ => true

/-- every token is well-formed, no two text runs are adjacent (a text run is maximal), a bare `<` / `&` is followed
    by a character that keeps it bare (so it is never the last token) -/
def toksOk : List Tok → Bool
  | [] => true
  | [t] => t.ok && !isBare t
  | t :: u :: r => t.ok && !(isText t && isText u) && followOk t u && toksOk (u :: r)

/-! ### the tag stack -/

/-- `"hr"` -/
def hrTag : Str := ['h', 'r']

/-- what one token does to the tag stack (top first) of a raw block; `none`: the stack would become empty
    (the raw block would end here) -/
def stackStep (S : List Str) : Tok → Option (List Str)
  | .open_ n _ _ => if lower n = hrTag then some S else some (lower n :: S)
  | .close n =>
    if S.contains (lower n) then (if popTo (lower n) S = [] then none else some (popTo (lower n) S))
    else some S
  | _ => some S

def stackRun : List Str → List Tok → Option (List Str)
  | S, [] => some S
  | S, t :: ts =>
    match stackStep S t with
    | some S' => stackRun S' ts
    | none => none

/-- `body` keeps a raw block that was opened by `<tag …>` open, and `</tag>` behind it closes it -/
def closesOk (tag : Str) (body : List Tok) : Bool :=
  match stackRun [tag] body with
  | some S => S.getLast? = some tag && !S.dropLast.contains tag
  | none => false

/-- plain paragraph text: no `<`, no `&` -/
def plainOk (s : Str) : Bool := !s.contains '<' && !s.contains '&'

/-- a blank line: `"\n\n"` -/
def nn : Str := ['\n', '\n']

/-- the tokens of a block element: start tag, body, end tag -/
def blockToks (name : Str) (attrs : List Attr) (trail : Str) (body : List Tok) : List Tok :=
  .open_ name attrs trail :: (body ++ [.close name])

/-- source text of a block element `<name attrs trail>` body `</name>` -/
def blockText (name : Str) (attrs : List Attr) (trail : Str) (body : List Tok) : Str :=
  renderToks (blockToks name attrs trail body)

/-- an inline token: text, a reference, a tag (start, end, self-closing) whose name is not block-level -/
def inlineTok : Tok → Bool
  | .text _ => true
  | .entity _ => true
  | .charref _ => true
  | .comment _ => false
  | .open_ n _ _ => !isBlockLevelTag (lower n)
  | .close _ => true
  | .selfClose n _ _ => !isBlockLevelTag (lower n)
  | .bare _ => true

end MdVerif.HtmlFrag
