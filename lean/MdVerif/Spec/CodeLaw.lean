/-
Vocabulary of the C03 pipeline statements (`Props/C03.lean`): how code is typed in a document and what the property
says must come out.

* `indentLines tab ls`: the lines `ls` typed as an indented code block (every non-empty line prefixed by `tab`
  spaces, empty lines left empty).
* A code block is a first run of lines and further runs, each preceded by `e + 1` blank lines (`more : List (Nat ×
  List Str)`); `codeSource tab first more` is the source text, `codeTyped first more` the text typed (without the
  indentation), `trimSpec first more` what the property lets the output be: the typed text with the trailing white
  space of every run of lines, and of the whole block, removed.
* `codePre t`: the element `<pre><code>t</code></pre>` with atomic text the block parser builds; `codeSpan t`: the
  `<code>` of a span.
* `refsClosed s`: no numeric character reference of `s` lacks its `;` (`&#38;` is fine, `&#38 ` is not): the domain
  restriction that excludes the known defect F-C03-1 (the raw-HTML preprocessor re-spells `&#38 ` as `&#38; `, in
  code as anywhere else).
* `paraCodeSource`: a paragraph line, a blank line, a code block.
* Code spans: `spanSource k a body b` = text, fence of `k` backticks, body, fence, text; `spanBodyOk k body`: what a
  body fenced by `k` backticks must satisfy (not empty, no backtick at either end, no run of exactly `k` backticks
  inside); `isSpanContext`, `isWordSp`: the surrounding text (letters and spaces); `spanP`: the paragraph element
  the inline processor builds.
* Calm trees (`calmNode`, `calmTree`, `calmKids`, `isQuietCh`): trees on which the inline processor has nothing to
  do — texts are absent, atomic (code) or plain words.

Nothing here is used by the executable model of the code.
-/
import MdVerif.Model.Block
import MdVerif.Model.Code

namespace MdVerif.CodeLaw
open Py

/-! ### typing code -/

/-- one line of an indented code block -/
def indentLine (tab : Nat) (l : Str) : Str := if l.isEmpty then [] else Block.spaces tab ++ l

/-- the lines of an indented code block -/
def indentLines (tab : Nat) (ls : List Str) : List Str := ls.map (indentLine tab)

/-- `n` line feeds -/
def nls (n : Nat) : Str := List.replicate n '\n'

/-- runs of lines put together: the first run, then each further run after `e + 1` blank lines; `f` renders a run -/
def runsText (f : List Str → Str) (first : List Str) (more : List (Nat × List Str)) : Str :=
  f first ++ more.flatMap (fun er => nls (er.1 + 2) ++ f er.2)

/-- the source of an indented code block -/
def codeSource (tab : Nat) (first : List Str) (more : List (Nat × List Str)) : Str :=
  runsText (fun r => joinLines (indentLines tab r)) first more

/-- the code as typed -/
def codeTyped (first : List Str) (more : List (Nat × List Str)) : Str := runsText joinLines first more

/-- the code with the trailing white space of each run of lines and of the whole block removed -/
def trimSpec (first : List Str) (more : List (Nat × List Str)) : Str :=
  rstrip (runsText (fun r => rstrip (joinLines r)) first more)

/-- all the lines of the block, blank ones included -/
def allLines (first : List Str) (more : List (Nat × List Str)) : List Str :=
  first ++ more.flatMap (fun er => List.replicate (er.1 + 1) [] ++ er.2)

/-- a paragraph line, a blank line, an indented code block -/
def paraCodeSource (tab : Nat) (p : Str) (first : List Str) (more : List (Nat × List Str)) : Str :=
  p ++ '\n' :: '\n' :: codeSource tab first more

/-! ### domains -/

/-- characters a code body may not contain in these statements: `<` (outside the modelled domain of the pipeline),
    line feed (bodies are given line by line), CR, tab, STX, ETX (rewritten or removed by `NormalizeWhitespace`) -/
def isCodeChar (c : Char) : Bool :=
  c != '<' && c != '\n' && c != '\r' && c != '\t' && c != Char.ofNat 2 && c != Char.ofNat 3

/-- is the `&` followed by `r` harmless for `html.parser`?  It is not when `r` is `#`, decimal digits (or `x` and
    hexadecimal digits), and then a character that is neither a hexadecimal digit nor `;` — or nothing. -/
def refClosedAt (r : Str) : Bool :=
  match r with
  | '#' :: r1 =>
    let q := spanLen isAsciiDigit r1
    if q > 0 then
      match r1[q]? with
      | some c => c = ';' || isHexDigit c
      | none => false
    else
      match r1 with
      | x :: r2 =>
        if x = 'x' || x = 'X' then
          let k := spanLen isHexDigit r2
          if k > 0 then r2[k]? == some ';' else true
        else true
      | [] => true
  | _ => true

/-- every numeric character reference of `s` has its `;` -/
def refsClosed : Str → Bool
  | [] => true
  | c :: r => (c != '&' || refClosedAt r) && refsClosed r

/-- a line of code: allowed characters, something other than a space on it, closed references -/
def isCodeLine (l : Str) : Bool := l.all isCodeChar && l.any (· != ' ') && refsClosed l

/-- a run of code lines: at least one line -/
def isCodeRun (r : List Str) : Bool := !r.isEmpty && r.all isCodeLine

/-! ### what the block parser builds -/

/-- `<pre><code>t</code></pre>`, the text an `AtomicString` -/
def codePre (t : Str) : Node :=
  { Node.el "pre" with children := [{ Node.el "code" with text := some t, textAtomic := true }] }

/-- the `<code>` element of a code span -/
def codeSpan (t : Str) : Node := { Node.el "code" with text := some t, textAtomic := true }

/-- the text of the code element after the blocks `b₀, b₁, …` of a code block: what `CodeBlockProcessor` and
    `EmptyBlockProcessor` append for one more run (`"\n"`, the escaped right-trimmed run, `"\n"`) -/
def runText (r : List Str) : Str := Code.codeEscape (rstrip (joinLines r)) ++ ['\n']

/-- the code text after all runs: the first run, then for each further run the fillers for its blank lines and the
    run itself -/
def codeAccum (first : List Str) (more : List (Nat × List Str)) : Str :=
  runText first ++ more.flatMap (fun er => nls (er.1 + 1) ++ runText er.2)

/-! ### code spans -/

/-- characters of the text around a code span in these statements: ASCII letters and spaces -/
def isWordSp (c : Char) : Bool := isAsciiAlpha c || c = ' '

/-- a fence of `k` backticks -/
def ticks (k : Nat) : Str := List.replicate k '`'

/-- the last character of `prev :: s` -/
def lastCh (prev : Char) : Str → Char
  | [] => prev
  | c :: r => lastCh c r

/-- no position of `s` (read after the character `prev`) is preceded by a character other than a backtick and
    starts a run of exactly `k` backticks: nothing in `s` closes a fence of `k` backticks -/
def noCloser (k : Nat) : Char → Str → Bool
  | _, [] => true
  | prev, c :: r => !(prev != '`' && countPrefix '`' none (c :: r) == k) && noCloser k c r

/-- the body of a code span fenced by `k` backticks: not empty, no backtick at either end, no run of exactly `k`
    backticks inside -/
def spanBodyOk (k : Nat) (body : Str) : Bool :=
  match body with
  | [] => false
  | c :: r => c != '`' && lastCh c r != '`' && noCloser k c r

/-- a paragraph with one code span: text, fence, body, fence, text -/
def spanSource (k : Nat) (a body b : Str) : Str := a ++ ticks k ++ body ++ ticks k ++ b

/-- the text around the span: letters and spaces, not starting with a space -/
def isSpanContext (a : Str) : Bool := a.all isWordSp && a.head? != some ' '

/-- `None` for the empty string: what the tree holds where there is no text -/
def optStr (s : Str) : Option Str := if s.isEmpty then none else some s

/-- the paragraph of a code span after the inline processor: text, `<code>` child with atomic text, its tail -/
def spanP (a t b : Str) : Node :=
  { Node.el "p" with text := optStr a, children := [{ codeSpan t with tail := optStr b }] }

/-! ### calm trees -/

/-- a character no inline pattern reacts to, and not the placeholder delimiter -/
def isQuietCh (c : Char) : Bool :=
  c != '`' && c != '\\' && c != '[' && c != '\n' && c != '&' && c != '*' && c != '_' && c != Char.ofNat 2

/-- nothing for the inline processor to do on this element itself: its text is absent, atomic (code) or plain words,
    its tail absent or plain words -/
def calmNode (n : Node) : Bool :=
  (match n.text with | none => true | some s => n.textAtomic || s.all isQuietCh) &&
  (match n.tail with | none => true | some s => s.all isQuietCh)

mutual
/-- every element of the subtree is calm -/
def calmTree : Node → Bool
  | ⟨_, _, text, ta, children, tail, _⟩ =>
    (match text with | none => true | some s => ta || s.all isQuietCh) &&
    (match tail with | none => true | some s => s.all isQuietCh) && calmKids children
def calmKids : List Node → Bool
  | [] => true
  | c :: r => calmTree c && calmKids r
end

end MdVerif.CodeLaw
