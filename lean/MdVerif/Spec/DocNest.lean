/-
Vocabulary of the C01 theorems of `Props/C01e.lean`: sub-grammars of `Doc` in which block quotes and lists nest in
each other to any depth and every paragraph / heading carries MIXED inline content (`mixRun`, `Spec/DocFlat2.lean`:
words, backslash escapes, code spans without `<`, one level of emphasis / strong around words).

* `NestDoc`      every block, at every depth, is a thematic break, a paragraph / ATX heading / Setext heading with
                 mixed content, a block quote of such blocks, or a bullet / ordered list whose items are made of such
                 blocks.  (`WF` adds the canonical-spelling constraints: an item starts with a paragraph, a tight item
                 holds nothing else but one tight list, lists inside a loose item are loose, no two lists and no two
                 quotes next to each other, …)  No indented code blocks.
* `ListMixDoc`   the shape of `ListDoc` (`Spec/DocList.lean`) with mixed content instead of words and escapes: flat
                 blocks, tight lists nested to any depth, loose lists nested to any depth whose items hold flat blocks
                 and loose lists.
* `QuoteListDoc` one step of mutual nesting: quotes that hold flat blocks and lists of flat items, and loose lists whose
                 items hold flat blocks and quotes of flat blocks.
-/
import MdVerif.Spec.DocFlat2

namespace MdVerif.DocSpec
open MdVerif MdVerif.Py

/-- a rule, or a paragraph / ATX heading / Setext heading whose content is mixed -/
def isMixFlat : Block → Bool
  | .rule => true
  | .para c => mixRun c
  | .atx _ c => mixRun c
  | .setext _ c => mixRun c
  | _ => false

/-- a paragraph with mixed content -/
def isMixPara : Block → Bool
  | .para c => mixRun c
  | _ => false

mutual
/-- a flat block with mixed content, a quote of such blocks, or a list whose items are made of such blocks -/
def isNestBlock : Block → Bool
  | .rule => true
  | .para c => mixRun c
  | .atx _ c => mixRun c
  | .setext _ c => mixRun c
  | .code _ => false
  | .quote bs => isNestBlocks bs
  | .ulist _ items => isNestItems items
  | .olist _ items => isNestItems items
def isNestBlocks : List Block → Bool
  | [] => true
  | b :: r => isNestBlock b && isNestBlocks r
def isNestItems : List (List Block) → Bool
  | [] => true
  | it :: r => isNestBlocks it && isNestItems r
end

/-- documents of flat blocks (mixed inline content), quotes and lists nested in each other to any depth -/
def NestDoc (d : Doc) : Bool := isNestBlocks d

/-! ### the shape of `ListDoc`, with mixed content -/

mutual
/-- a tight list whose items are a mixed paragraph, or a mixed paragraph and one such list -/
def isTightMix : Block → Bool
  | .ulist loose items => !loose && tightMixItems items
  | .olist loose items => !loose && tightMixItems items
  | .para _ => false
  | .atx _ _ => false
  | .setext _ _ => false
  | .rule => false
  | .code _ => false
  | .quote _ => false
def tightMixLists : List Block → Bool
  | [] => true
  | b :: r => isTightMix b && tightMixLists r
def tightMixItems : List (List Block) → Bool
  | [] => true
  | it :: r =>
    (match it with
     | [] => false
     | b :: bs => isMixPara b && tightMixLists bs && decide (bs.length ≤ 1)) && tightMixItems r
end

mutual
/-- a loose list whose items are a mixed paragraph followed by flat mixed blocks and such lists -/
def isLooseMix : Block → Bool
  | .ulist loose items => loose && looseMixItems items
  | .olist loose items => loose && looseMixItems items
  | .para _ => false
  | .atx _ _ => false
  | .setext _ _ => false
  | .rule => false
  | .code _ => false
  | .quote _ => false
def looseMixBlocks : List Block → Bool
  | [] => true
  | b :: r => (isMixFlat b || isLooseMix b) && looseMixBlocks r
def looseMixItems : List (List Block) → Bool
  | [] => true
  | it :: r =>
    (match it with
     | [] => false
     | b :: bs => isMixPara b && looseMixBlocks bs) && looseMixItems r
end

/-- flat blocks, tight lists and loose lists (nested to any depth), all with mixed inline content -/
def ListMixDoc (d : Doc) : Bool := d.all (fun b => isMixFlat b || isTightMix b || isLooseMix b)

/-! ### one step of mutual nesting -/

/-- items that are one mixed paragraph, or a mixed paragraph followed by flat mixed blocks -/
def flatItems : List (List Block) → Bool
  | [] => true
  | it :: r =>
    (match it with
     | [] => false
     | b :: bs => isMixPara b && bs.all isMixFlat) && flatItems r

/-- a list (tight or loose) whose items hold flat blocks only -/
def isFlatList : Block → Bool
  | .ulist _ items => flatItems items
  | .olist _ items => flatItems items
  | _ => false

/-- a quote that holds flat blocks and lists of flat items -/
def isQuoteOfLists : Block → Bool
  | .quote bs => bs.all (fun b => isMixFlat b || isFlatList b)
  | _ => false

/-- a quote that holds flat blocks only -/
def isFlatQuote : Block → Bool
  | .quote bs => bs.all isMixFlat
  | _ => false

/-- items that are a mixed paragraph followed by flat mixed blocks and quotes of flat blocks -/
def quoteItems : List (List Block) → Bool
  | [] => true
  | it :: r =>
    (match it with
     | [] => false
     | b :: bs => isMixPara b && bs.all (fun x => isMixFlat x || isFlatQuote x)) && quoteItems r

/-- a loose list whose items hold flat blocks and quotes of flat blocks -/
def isListOfQuotes : Block → Bool
  | .ulist loose items => loose && quoteItems items
  | .olist loose items => loose && quoteItems items
  | _ => false

/-- flat blocks, quotes with lists inside, loose lists with quotes inside their items -/
def QuoteListDoc (d : Doc) : Bool := d.all (fun b => isMixFlat b || isQuoteOfLists b || isListOfQuotes b)

end MdVerif.DocSpec
