/-
Specification vocabulary for the AtomicString / htmlStash half of C18 (`Props/C18Stash.lean`).

* `htmlPlaceholder i`      what `HtmlStash.store` returns for the entry of index `i` (`HTML_PLACEHOLDER % i`);
* `render`                 everything `Markdown.convert` does AFTER the block stage, as one function of the tree the
                           block stage (or an extension) built and of the HTML stash filled so far; `Pipeline.convert`
                           is `render` applied to the result of `Block.parseDocument` (`convert_eq_render`);
* `probeText`, `probeTail` the trees an extension builds when it inserts an `AtomicString` as the text of a
                           paragraph / as the tail of an inline element of a paragraph;
* `Emb`, `EmbList`         "the first tree is still there inside the second one": same tags and attributes, the
                           children in the same order (with further elements possibly inserted between them), and
                           every text / tail that was an `AtomicString` is the same string, still an `AtomicString`;
* `elems`                  all elements of a tree;
* `weave`                  a text made of pieces and items in alternation (several placeholders in one text).

Core Lean only.
-/
import MdVerif.Model.Pipeline

namespace MdVerif.Probe
open Py

/-- `HTML_PLACEHOLDER % i`, the string `HtmlStash.store` returns for the entry of index `i` -/
def htmlPlaceholder (i : Nat) : Str := Post.htmlPrefix ++ natToDec i ++ [Post.ETX]

/-- `<p>` -/
def pOpen : Str := "<p>".toList
/-- `</p>` -/
def pClose : Str := "</p>".toList

/-- the stages of `Markdown.convert` after the block parser: inline patterns, prettify, unescape, serializer,
    strip of the `<div>` wrapper, raw-HTML restore, `&` substitute, `.strip()`.  `html0` = what is in `md.htmlStash` when the tree
    processors start. -/
def render (cfg : Pipeline.Cfg) (refs : List (Str × Str × Option Str)) (root : Node) (html0 : List Str := []) :
    Pipeline.Outcome :=
  match Inline.run { esc := cfg.esc, refs := refs } root html0 with
  | none => .oof
  | some (t, st) =>
    match TreeProc.unescapeTree (TreeProc.prettify t cfg.blockLevel) with
    | none => .err
    | some u =>
      match Post.finish cfg.blockLevel st.html (Ser.serialize cfg.fmt u) with
      | none => .oof
      | some none => .err
      | some (some out) => .ok out

/-- `render` is the second half of the pipeline model -/
theorem convert_eq_render (cfg : Pipeline.Cfg) (src : Str) :
    Pipeline.convert cfg src =
      if src.contains '<' then .ood
      else if Normalize.isBlankDoc src then .ok []
      else
        match Block.parseDocument cfg.tab (Pipeline.prepare cfg src) with
        | none => .oof
        | some (root, refs) => render cfg refs.reverse root := by
  unfold Pipeline.convert Pipeline.tree render
  split
  · rfl
  · split
    · rfl
    · cases Block.parseDocument cfg.tab (Pipeline.prepare cfg src) with
      | none => rfl
      | some rr =>
        obtain ⟨root, refs⟩ := rr
        simp only
        cases Inline.run { esc := cfg.esc, refs := refs.reverse } root with
        | none => rfl
        | some ts =>
          obtain ⟨t, st⟩ := ts
          simp only
          cases TreeProc.unescapeTree (TreeProc.prettify t cfg.blockLevel) <;> rfl

/-- `<div><p>a</p></div>` where `a` is an `AtomicString` -/
def probeText (a : Str) : Node :=
  { tag := .name "div".toList,
    children := [{ tag := .name "p".toList, text := some a, textAtomic := true }] }

/-- `<div><p><span></span>a</p></div>` where the tail `a` of the `span` is an `AtomicString` -/
def probeTail (a : Str) : Node :=
  { tag := .name "div".toList,
    children := [{ tag := .name "p".toList,
                   children := [{ tag := .name "span".toList, tail := some a, tailAtomic := true }] }] }

mutual
/-- `Emb a b`: `b` is `a` with possibly more children inserted and other non-atomic strings: same tag, same
    attributes; a text that is an `AtomicString` is the same string and still an `AtomicString`; so is a tail, when
    it does not contain the prefix `STX klzzwxh:` of an inline placeholder (a tail, atomic or not, is looked
    through for placeholders by `__processPlaceholders`); the children of `a` are found, in order, among the
    children of `b`, each related in the same way. -/
def Emb : Node → Node → Prop
  | ⟨tag, attrs, text, ta, children, tail, tla⟩, b =>
    b.tag = tag ∧ b.attrs = attrs ∧
    (ta = true → b.text = text ∧ b.textAtomic = true) ∧
    (tla = true → contains (tail.getD []) Inline.phPrefix = false → b.tail = tail ∧ b.tailAtomic = true) ∧
    EmbList children b.children
/-- order-preserving embedding of a list of elements into another -/
def EmbList : List Node → List Node → Prop
  | [], _ => True
  | a :: as, bs => ∃ pre b rest, bs = pre ++ b :: rest ∧ Emb a b ∧ EmbList as rest
end

mutual
/-- all elements of a tree (`root.iter()`) -/
def elems : Node → List Node
  | ⟨tag, attrs, text, ta, children, tail, tla⟩ => ⟨tag, attrs, text, ta, children, tail, tla⟩ :: elemsList children
def elemsList : List Node → List Node
  | [] => []
  | c :: r => elems c ++ elemsList r
end

/-- pieces and items in alternation: `p₀ x₀ p₁ x₁ … last` -/
def weave : List (Str × Str) → Str → Str
  | [], last => last
  | (p, x) :: r, last => p ++ x ++ weave r last

end MdVerif.Probe
