/-
Vocabulary of the C01 theorems of `Props/C01d.lean`: the sub-grammar `ListDoc` — documents whose top-level blocks are
flat blocks, block quotes of the sub-grammar `QuoteDoc`, TIGHT lists nested to any depth (every item is a paragraph
of words and backslash escapes, optionally followed by one tight list) and LOOSE lists nested to any depth (every item
is such a paragraph followed by any number of flat blocks and loose lists).
-/
import MdVerif.Spec.DocQuote

namespace MdVerif.DocSpec
open MdVerif MdVerif.Py

/-- a paragraph of words and backslash escapes -/
def isPlainPara : Block → Bool
  | .para c => plainRun c
  | _ => false

mutual
/-- a tight bullet or ordered list whose items are a plain paragraph, or a plain paragraph and one such list -/
def isTightList : Block → Bool
  | .ulist loose items => !loose && tightItems items
  | .olist loose items => !loose && tightItems items
  | .para _ => false
  | .atx _ _ => false
  | .setext _ _ => false
  | .rule => false
  | .code _ => false
  | .quote _ => false
def tightLists : List Block → Bool
  | [] => true
  | b :: r => isTightList b && tightLists r
def tightItems : List (List Block) → Bool
  | [] => true
  | it :: r =>
    (match it with
     | [] => false
     | b :: bs => isPlainPara b && tightLists bs && decide (bs.length ≤ 1)) && tightItems r
end

mutual
/-- a loose bullet or ordered list whose items are a plain paragraph followed by flat blocks and such lists -/
def isLooseList : Block → Bool
  | .ulist loose items => loose && looseItems items
  | .olist loose items => loose && looseItems items
  | .para _ => false
  | .atx _ _ => false
  | .setext _ _ => false
  | .rule => false
  | .code _ => false
  | .quote _ => false
/-- the blocks of an item after its first paragraph -/
def looseBlocks : List Block → Bool
  | [] => true
  | b :: r => (isFlatBlock b || isLooseList b) && looseBlocks r
def looseItems : List (List Block) → Bool
  | [] => true
  | it :: r =>
    (match it with
     | [] => false
     | b :: bs => isPlainPara b && looseBlocks bs) && looseItems r
end

/-- a flat block, a quote of flat blocks and quotes, a tight list or a loose list nested to any depth -/
def isListDocBlock (b : Block) : Bool := isQuoteBlock b || isTightList b || isLooseList b

/-- documents of such blocks (all at top level) -/
def ListDoc (d : Doc) : Bool := d.all isListDocBlock

end MdVerif.DocSpec
