/-
C01 — the specification side: documents made of the documented Markdown constructs (`Doc`), the choices the
syntax leaves to the writer (`Spelling`), the Markdown source of a document under a spelling (`print`), the
output the syntax rules assign to the document (`spec`, xhtml, formatted as Python-Markdown formats its output) and
the canonical-spelling constraints (`WF`).

This file is a SPECIFICATION, not a model of code: nothing here looks at the implementation.  `spec` does not
take the spelling — "a different equivalent spelling never changes the rendering" is true of `spec` by type.
`print`/`spec`/`WF` are compared with the real converter by `harness/corr/doc.py`
(`markdown.markdown (print d sp) = spec d` for random well-formed `d` and random `sp`).

Core Lean only; everything is structurally recursive.
-/
import MdVerif.Py.Basic
import MdVerif.Generated.Tables

namespace MdVerif.DocSpec
open MdVerif MdVerif.Py

/-! ### documents -/

inductive Inline where
  /-- words: letters, digits, single spaces -/
  | text (words : Str)
  | em (c : List Inline)
  | strong (c : List Inline)
  /-- code span with literal body -/
  | code (body : Str)
  | link (c : List Inline) (dest : Str) (title : Option Str)
  | image (alt : Str) (dest : Str) (title : Option Str)
  /-- `<url>` -/
  | autolink (url : Str)
  /-- hard line break -/
  | br
  /-- backslash escape of one of the escapable characters -/
  | esc (c : Char)
  deriving Repr

inductive Block where
  | para (c : List Inline)
  | atx (level : Nat) (c : List Inline)
  | setext (level : Nat) (c : List Inline)
  | rule
  /-- indented code block; an empty string is a blank line inside the block -/
  | code (lines : List Str)
  | quote (bs : List Block)
  | ulist (loose : Bool) (items : List (List Block))
  | olist (loose : Bool) (items : List (List Block))
  deriving Repr

abbrev Doc := List Block

abbrev S (s : String) : Str := s.toList

/-! ### `spec`: the rendering the syntax rules assign -/

/-- `&`, `<`, `>` in text and code -/
def htmlEsc : Str → Str
  | [] => []
  | c :: r =>
    if c = '&' then S "&amp;" ++ htmlEsc r
    else if c = '<' then S "&lt;" ++ htmlEsc r
    else if c = '>' then S "&gt;" ++ htmlEsc r
    else c :: htmlEsc r

/-- the same plus `"`, inside attribute values -/
def attrEsc : Str → Str
  | [] => []
  | c :: r =>
    if c = '&' then S "&amp;" ++ attrEsc r
    else if c = '<' then S "&lt;" ++ attrEsc r
    else if c = '>' then S "&gt;" ++ attrEsc r
    else if c = '"' then S "&quot;" ++ attrEsc r
    else c :: attrEsc r

def titleAttr : Option Str → Str
  | none => []
  | some t => S " title=\"" ++ attrEsc t ++ S "\""

mutual
/-- one inline construct -/
def specInline : Inline → Str
  | .text w => htmlEsc w
  | .em c => S "<em>" ++ specInlines c ++ S "</em>"
  | .strong c => S "<strong>" ++ specInlines c ++ S "</strong>"
  | .code b => S "<code>" ++ htmlEsc b ++ S "</code>"
  | .link c d t => S "<a href=\"" ++ attrEsc d ++ S "\"" ++ titleAttr t ++ S ">" ++ specInlines c ++ S "</a>"
  | .image a d t => S "<img alt=\"" ++ attrEsc a ++ S "\" src=\"" ++ attrEsc d ++ S "\"" ++ titleAttr t ++ S " />"
  | .autolink u => S "<a href=\"" ++ attrEsc u ++ S "\">" ++ htmlEsc u ++ S "</a>"
  | .br => S "<br />\n"
  | .esc c => htmlEsc [c]
def specInlines : List Inline → Str
  | [] => []
  | i :: r => specInline i ++ specInlines r
end

mutual
/-- one block; no newline after it -/
def specBlock : Block → Str
  | .para c => S "<p>" ++ specInlines c ++ S "</p>"
  | .atx l c => S "<h" ++ natToDec l ++ S ">" ++ specInlines c ++ S "</h" ++ natToDec l ++ S ">"
  | .setext l c => S "<h" ++ natToDec l ++ S ">" ++ specInlines c ++ S "</h" ++ natToDec l ++ S ">"
  | .rule => S "<hr />"
  | .code ls => S "<pre><code>" ++ htmlEsc (join ['\n'] ls) ++ S "\n</code></pre>"
  | .quote bs => S "<blockquote>\n" ++ specBlocks bs ++ S "\n</blockquote>"
  | .ulist loose items => S "<ul>\n" ++ specItems loose items ++ S "\n</ul>"
  | .olist loose items => S "<ol>\n" ++ specItems loose items ++ S "\n</ol>"
/-- blocks, one per line group -/
def specBlocks : List Block → Str
  | [] => []
  | [b] => specBlock b
  | b :: b' :: r => specBlock b ++ S "\n" ++ specBlocks (b' :: r)
/-- a tight item: its paragraphs are not wrapped, a nested list follows the text directly -/
def specTight : List Block → Str
  | [] => []
  | .para c :: r => specInlines c ++ specTight r
  | b :: r => specBlock b ++ S "\n" ++ specTight r
def specItems (loose : Bool) : List (List Block) → Str
  | [] => []
  | [bs] => if loose then S "<li>\n" ++ specBlocks bs ++ S "\n</li>" else S "<li>" ++ specTight bs ++ S "</li>"
  | bs :: bs' :: r =>
    (if loose then S "<li>\n" ++ specBlocks bs ++ S "\n</li>" else S "<li>" ++ specTight bs ++ S "</li>") ++
      S "\n" ++ specItems loose (bs' :: r)
end

/-- the expected output of the conversion -/
def spec (d : Doc) : Str := specBlocks d

/-! ### `print`: the Markdown source under a spelling -/

/-- the writer's choices, consumed left to right; an exhausted stream answers `0` -/
structure Spelling where
  choices : List Nat
  deriving Repr

/-- printer state: remaining choices, next reference id, reference definitions collected so far -/
structure PSt where
  ch : List Nat
  next : Nat
  defs : List Str

def draw (s : PSt) : Nat × PSt :=
  match s.ch with
  | [] => (0, s)
  | c :: r => (c, { s with ch := r })

def isWordCh (c : Char) : Bool := isAsciiAlnum c || c = '_'

def rep (n : Nat) (c : Char) : Str := List.replicate n c

/-- longest run of backticks -/
def tickRunAux : Nat → Nat → Str → Nat
  | cur, best, [] => max cur best
  | cur, best, c :: r => if c = '`' then tickRunAux (cur + 1) best r else tickRunAux 0 (max cur best) r

def longestTickRun (s : Str) : Nat := tickRunAux 0 0 s

/-- does the printed form of the inline start with a character that is not a word character?  (`false` for
    emphasis, whose delimiter is not known yet) -/
def startsBoundary : Inline → Bool
  | .text w => w.head? = some ' '
  | .em _ => false
  | .strong _ => false
  | _ => true

/-- the plain words of a link text that consists of one text node: only such links use the collapsed and
    shortcut reference forms -/
def plainLabel : List Inline → Option Str
  | [.text w] => some w
  | _ => none

/-- may a reference-style link be followed by these siblings?  (`[a] [b]` and `[a][b]` would read the second
    bracket as the id of the first) -/
def safeAfterRef : List Inline → Bool
  | [] => true
  | .link _ _ _ :: _ => false
  | .text w :: .link _ _ _ :: _ => w != [' ']
  | _ => true

def otherDelim (d : Char) : Char := if d = '*' then '_' else '*'

/-- `"t"`, `'t'`, `(t)` -/
def quoteTitle (style : Nat) (t : Str) : Str :=
  if style = 1 then '\'' :: t ++ ['\''] else if style = 2 then '(' :: t ++ [')'] else '"' :: t ++ ['"']

def inlineTail (angle : Bool) (d : Str) (t : Option Str) (q : Nat) : Str :=
  S "(" ++ (if angle then '<' :: d ++ ['>'] else d) ++
    (match t with | none => [] | some t => ' ' :: quoteTitle (q % 2) t) ++ S ")"

def defLine (id : Str) (angle : Bool) (d : Str) (t : Option Str) (q : Nat) : Str :=
  S "[" ++ id ++ S "]: " ++ (if angle then '<' :: d ++ ['>'] else d) ++
    (match t with | none => [] | some t => ' ' :: quoteTitle (q % 3) t)

/-- link styles: `0` inline `(dest "title")`, `1` inline with `<dest>`, `2` `[id]` with a generated id, `3` `[]`,
    `4` nothing.  The reference styles need a position where a bracket may follow (`safe`); the last two use the link
    text itself as the id and are kept for plain labels -/
def linkStyle (k : Nat) (label : Option Str) (safe : Bool) : Nat :=
  let style := k % 5
  let style := if style ≥ 2 && !safe then 0 else style
  if style ≥ 3 && label.isNone then 2 else style

/-- the part of a link or image after the bracketed text in the given style, and the new state (reference styles
    add their definition) -/
def linkTailOf (style q : Nat) (label : Option Str) (d : Str) (t : Option Str) (st : PSt) : Str × PSt :=
  if style = 0 then (inlineTail false d t q, st)
  else if style = 1 then (inlineTail true d t q, st)
  else if style = 2 then
    (S "[" ++ (S "r-" ++ natToDec st.next) ++ S "]",
     { st with next := st.next + 1,
               defs := st.defs ++ [defLine (S "r-" ++ natToDec st.next) (q / 3 % 2 = 1) d t q] })
  else
    (if style = 3 then S "[]" else [],
     { st with defs := st.defs ++ [defLine (label.getD []) (q / 3 % 2 = 1) d t q] })

/-- draws the style and the title quotes -/
def linkTail (label : Option Str) (safe : Bool) (d : Str) (t : Option Str) (st : PSt) : Str × PSt :=
  let (k, st) := draw st
  let (q, st) := draw st
  linkTailOf (linkStyle k label safe) q label d t st

/-- is the character after the current inline not a word character?  `endB` answers at the end of the run -/
def nextBoundary (endB : Bool) : List Inline → Bool
  | [] => endB
  | y :: _ => startsBoundary y

/-- is the last printed character not a word character?  `prevB` answers when nothing was printed -/
def afterBoundary (prevB : Bool) (printed : Str) : Bool :=
  match printed.getLast? with
  | none => prevB
  | some c => !isWordCh c

/-- the emphasis character: the other one than that of a directly enclosing emphasis; otherwise `_` may be chosen
    where the characters before and after are not word characters, and `*` anywhere -/
def chooseDelim (pd : Option Char) (k : Nat) (prevB nextB : Bool) : Char :=
  match pd with
  | some p => otherDelim p
  | none => if k % 2 = 1 && prevB && nextB then '_' else '*'

/-- a space on both sides when the body starts or ends with a backtick -/
def codePad (b : Str) : Str := if b.head? = some '`' || b.getLast? = some '`' then [' '] else []

mutual
/-- `pd` = delimiter of the directly enclosing emphasis; `prevB`/`nextB` = the characters before and after are not
    word characters; `safe` = a reference-style link may stand here -/
def printInline (pd : Option Char) (prevB nextB safe : Bool) : Inline → PSt → Str × PSt
  | .text w, st => (w, st)
  | .esc c, st => (['\\', c], st)
  | .br, st => (S "  \n", st)
  | .autolink u, st => ('<' :: u ++ ['>'], st)
  | .code b, st =>
    let (k, st) := draw st
    let n0 := longestTickRun b + 1
    let n := n0 + k % (4 - n0)
    (rep n '`' ++ codePad b ++ b ++ codePad b ++ rep n '`', st)
  | .em c, st =>
    let (k, st) := draw st
    let d := chooseDelim pd k prevB nextB
    let (s, st) := printInlines (some d) (d = '*') (d = '*') c st
    (d :: s ++ [d], st)
  | .strong c, st =>
    let (k, st) := draw st
    let d := chooseDelim pd k prevB nextB
    let (s, st) := printInlines (some d) (d = '*') (d = '*') c st
    (d :: d :: s ++ [d, d], st)
  | .link c d t, st =>
    let (s, st) := printInlines none true true c st
    let (tail, st) := linkTail (plainLabel c) safe d t st
    ('[' :: s ++ [']'] ++ tail, st)
  | .image a d t, st =>
    let (tail, st) := linkTail (some a) safe d t st
    ('!' :: '[' :: a ++ [']'] ++ tail, st)
def printInlines (pd : Option Char) (prevB endB : Bool) : List Inline → PSt → Str × PSt
  | [], st => ([], st)
  | x :: r, st =>
    let (sx, st) := printInline pd prevB (nextBoundary endB r) (safeAfterRef r) x st
    let (sr, st) := printInlines pd (afterBoundary prevB sx) endB r st
    (sx ++ sr, st)
end

/-- the inline content of a block, as lines (hard breaks end a line) -/
def printContent (c : List Inline) (st : PSt) : List Str × PSt :=
  let (s, st) := printInlines none true true c st
  (splitC '\n' s, st)

def prefixLines (p : Str) (ls : List Str) : List Str := ls.map (fun l => if l.isEmpty then [] else p ++ l)

/-- `> ` before every line of a quoted block (`>` alone for its blank lines) -/
def quoteLines (ls : List Str) : List Str := ls.map (fun l => if l.isEmpty then ['>'] else '>' :: ' ' :: l)

def indentFirst (n : Nat) : List Str → List Str
  | [] => []
  | l :: r => (rep n ' ' ++ l) :: r

/-- `***`, `- - -`, `_  _  _  _`, … -/
def rulePattern (ch : Char) : Nat → Nat → Str
  | 0, _ => []
  | 1, _ => [ch]
  | n + 1, gap => ch :: rep gap ' ' ++ rulePattern ch n gap

def ruleChar (k : Nat) : Char := if k % 3 = 0 then '*' else if k % 3 = 1 then '-' else '_'
def markerChar (k : Nat) : Char := if k % 3 = 0 then '*' else if k % 3 = 1 then '+' else '-'

/-- no closing hashes, ` #`, or as many as the level -/
def atxClosing (k l : Nat) : Str := if k % 3 = 0 then [] else if k % 3 = 1 then S " #" else ' ' :: rep l '#'

def atxLine (l : Nat) (content : List Str) (k : Nat) : Str :=
  rep l '#' ++ [' '] ++ join ['\n'] content ++ atxClosing k l

/-- one to eight `=` (level 1) or `-` (level 2) -/
def setextUnderline (l k : Nat) : Str := rep (k % 8 + 1) (if l = 1 then '=' else '-')

/-- three to five rule characters, separated by up to two spaces, indented by up to three, with trailing spaces -/
def ruleLine (top : Bool) (i ch n g t : Nat) : Str :=
  rep (if top then i % 4 else 0) ' ' ++ rulePattern (ruleChar ch) (3 + n % 3) (g % 3) ++ rep (t % 3) ' '

/-- a top-level paragraph or Setext heading may start with up to three spaces -/
def indentTop (top : Bool) (i : Nat) (ls : List Str) : List Str := if top then indentFirst (i % 4) ls else ls

/-- `* `, `+ `, `- ` or `<num>. ` -/
def itemMarker (marker : Option Char) (num : Nat) : Str :=
  match marker with
  | some c => [c, ' ']
  | none => natToDec num ++ S ". "

/-- the marker goes before the first line of the item -/
def withMarker (m : Str) : List Str → List Str
  | [] => [m]
  | l :: ls => (m ++ l) :: ls

mutual
/-- the lines of one block; `top` = a top-level block (which may be indented by up to three spaces) -/
def printBlock (top : Bool) : Block → PSt → List Str × PSt
  | .para c, st =>
    let (i, st) := draw st
    let (ls, st) := printContent c st
    (indentTop top i ls, st)
  | .atx l c, st =>
    let (k, st) := draw st
    let (ls, st) := printContent c st
    ([atxLine l ls k], st)
  | .setext l c, st =>
    let (i, st) := draw st
    let (k, st) := draw st
    let (ls, st) := printContent c st
    (indentTop top i ls ++ [setextUnderline l k], st)
  | .rule, st =>
    let (i, st) := draw st
    let (ch, st) := draw st
    let (n, st) := draw st
    let (g, st) := draw st
    let (t, st) := draw st
    ([ruleLine top i ch n g t], st)
  | .code ls, st => (prefixLines (rep 4 ' ') ls, st)
  | .quote bs, st =>
    let (i, st) := draw st
    let (k, st) := draw st
    let (q, st) := printQuoted (k % 2 = 1) bs st
    (if top then prefixLines (rep (i % 4) ' ') q else q, st)
  | .ulist loose items, st =>
    let (m, st) := draw st
    printItems loose (some (markerChar m)) 0 0 items st
  | .olist loose items, st =>
    let (a, st) := draw st
    let (b, st) := draw st
    printItems loose none (a % 10) (b % 3) items st
/-- blocks separated by one blank line -/
def printBlocks (top : Bool) : List Block → PSt → List Str × PSt
  | [], st => ([], st)
  | [b], st => printBlock top b st
  | b :: b' :: r, st =>
    let (l1, st) := printBlock top b st
    let (l2, st) := printBlocks top (b' :: r) st
    (l1 ++ [[]] ++ l2, st)
/-- the blocks of a quote, separated by a `>` line or by a blank line -/
def printQuoted (blank : Bool) : List Block → PSt → List Str × PSt
  | [], st => ([], st)
  | [b], st =>
    let (l1, st) := printBlock false b st
    (quoteLines l1, st)
  | b :: b' :: r, st =>
    let (l1, st) := printBlock false b st
    let (l2, st) := printQuoted blank (b' :: r) st
    (quoteLines l1 ++ [if blank then [] else ['>']] ++ l2, st)
/-- the blocks of an item after its first one: in a tight item directly below it, in a loose item after a blank
    line; indented by four spaces -/
def printRest (loose : Bool) : List Block → PSt → List Str × PSt
  | [], st => ([], st)
  | b :: r, st =>
    let (l1, st) := printBlock false b st
    let (l2, st) := printRest loose r st
    ((if loose then [[]] else []) ++ prefixLines (rep 4 ' ') l1 ++ l2, st)
/-- one item: the marker, the first block on the same line, the other blocks -/
def printItem (loose : Bool) (m : Str) : List Block → PSt → List Str × PSt
  | [], st => ([m], st)
  | b :: bs, st =>
    let (f, st) := printBlock false b st
    let (rest, st) := printRest loose bs st
    (withMarker m f ++ rest, st)
/-- items; `marker` = bullet character, or `none` for an ordered list numbered `num`, `num + step`, …; loose items are
    separated by a blank line -/
def printItems (loose : Bool) (marker : Option Char) (num step : Nat) :
    List (List Block) → PSt → List Str × PSt
  | [], st => ([], st)
  | item :: r, st =>
    let (l1, st) := printItem loose (itemMarker marker num) item st
    let (l2, st) := printItems loose marker (num + step) step r st
    (l1 ++ (if loose && !r.isEmpty then [[]] else []) ++ l2, st)
end

/-- the Markdown source of `d` under the spelling `sp`: the blocks, then the reference definitions -/
def print (d : Doc) (sp : Spelling) : Str :=
  let (ls, st) := printBlocks true d ⟨sp.choices, 1, []⟩
  join ['\n'] (ls ++ (if st.defs.isEmpty then [] else [] :: st.defs))

/-! ### `WF`: canonical spelling -/

def isAlnumSp (c : Char) : Bool := isAsciiAlnum c || c = ' '

def noDoubleSpace : Str → Bool
  | ' ' :: ' ' :: _ => false
  | _ :: r => noDoubleSpace r
  | [] => true

/-- letters, digits and single spaces; not empty -/
def wfWords (w : Str) : Bool := !w.isEmpty && w.all isAlnumSp && noDoubleSpace w

/-- words that neither start nor end with a space -/
def wfLabel (w : Str) : Bool := wfWords w && w.head? != some ' ' && w.getLast? != some ' '

def isPrintable (c : Char) : Bool := 32 ≤ c.toNat && c.toNat ≤ 126

def destChar (c : Char) : Bool :=
  isAsciiAlnum c || c = '/' || c = ':' || c = '.' || c = '-' || c = '_' || c = '#' || c = '?' || c = '=' ||
  c = '&' || c = '%' || c = '~' || c = '+'

/-- no `&#`: a numeric character reference without `;` inside code or a destination is re-spelled with `;` (known defect F-C03-1) -/
def noAmpHash (s : Str) : Bool := !contains s (S "&#")

/-- link destinations: not empty, URL characters without spaces, quotes, parentheses, brackets, `;` -/
def wfDest (d : Str) : Bool := !d.isEmpty && d.all destChar && d != ['/'] && noAmpHash d

def wfTitle : Option Str → Bool
  | none => true
  | some t => wfLabel t

def wfUrl (u : Str) : Bool :=
  (startsWith u (S "http://") || startsWith u (S "https://") || startsWith u (S "ftp://")) && u.all destChar &&
    noAmpHash u

/-- code span bodies: printable, not blank, no space at either end, tick runs of at most two -/
def wfCodeSpan (b : Str) : Bool :=
  !b.isEmpty && b.all isPrintable && b.head? != some ' ' && b.getLast? != some ' ' && longestTickRun b ≤ 2 &&
    noAmpHash b

def isEmph : Inline → Bool
  | .em _ => true
  | .strong _ => true
  | _ => false

def isCodeSpan : Inline → Bool
  | .code _ => true
  | _ => false

def isText : Inline → Bool
  | .text _ => true
  | _ => false

def isBr : Inline → Bool
  | .br => true
  | _ => false

def endsSpace : Inline → Bool
  | .text w => w.getLast? = some ' '
  | .br => true
  | _ => false

def startsSpace : Inline → Bool
  | .text w => w.head? = some ' '
  | .br => true
  | _ => false

/-- siblings that must not touch: two texts (they are one text), two code spans, two breaks; the line after a break
    does not start with a space -/
def okAdjacent (a b : Inline) : Bool :=
  !(isText a && isText b) && !(isBr a && startsSpace b) && !(isCodeSpan a && isCodeSpan b) && !(isBr a && isBr b)

def okAdjacents : List Inline → Bool
  | a :: b :: r => okAdjacent a b && okAdjacents (b :: r)
  | _ => true

def startsOk : List Inline → Bool
  | [] => false
  | .text w :: _ => w.head? != some ' '
  | .br :: _ => false
  | _ => true

def endsOk : List Inline → Bool
  | [] => false
  | [.text w] => w.getLast? != some ' '
  | [.br] => false
  | [_] => true
  | _ :: r => endsOk r

/-- every emphasis in the list stands between spaces (or at an end of the list) -/
def emphAtBoundaries : Bool → List Inline → Bool
  | _, [] => true
  | prev, x :: r =>
    (!isEmph x || (prev && (match r with | [] => true | y :: _ => startsSpace y))) && emphAtBoundaries (endsSpace x) r

/-- kind of the directly enclosing emphasis -/
inductive Par where
  | none | em | strong | inner
  deriving DecidableEq

/-- a non-empty run of inlines that starts and ends with something visible, whose neighbours may touch, and whose
    emphases stand between spaces when the run is itself directly inside an emphasis -/
def wfRun (par : Par) (c : List Inline) : Bool :=
  startsOk c && endsOk c && okAdjacents c && (par = .none || emphAtBoundaries true c)

mutual
/-- `inLink`: inside a link text; `par`: directly enclosing emphasis (`inner` = already two deep); `brOk`: hard
    breaks allowed -/
def wfInline (inLink : Bool) (par : Par) (brOk : Bool) : Inline → Bool
  | .text w => wfWords w
  | .em c => par != .em && par != .inner && wfRun (if par = .none then .em else .inner) c &&
      wfInlineList inLink (if par = .none then .em else .inner) brOk c
  | .strong c => par != .strong && par != .inner && wfRun (if par = .none then .strong else .inner) c &&
      wfInlineList inLink (if par = .none then .strong else .inner) brOk c
  | .code b => wfCodeSpan b
  | .link c d t => !inLink && wfDest d && wfTitle t && wfRun .none c && wfInlineList true .none brOk c
  | .image a d t => wfLabel a && wfDest d && wfTitle t
  | .autolink u => !inLink && wfUrl u
  | .br => brOk
  | .esc c => Generated.escapedChars.contains c
def wfInlineList (inLink : Bool) (par : Par) (brOk : Bool) : List Inline → Bool
  | [] => true
  | x :: r => wfInline inLink par brOk x && wfInlineList inLink par brOk r
end

/-- the inline content of a block -/
def wfInlines (inLink : Bool) (par : Par) (brOk : Bool) (c : List Inline) : Bool :=
  wfRun par c && wfInlineList inLink par brOk c

/-- lines of a code block: printable, no trailing space; blank lines are empty -/
def wfCodeLine (l : Str) : Bool := l.all isPrintable && l.getLast? != some ' ' && noAmpHash l

def wfCodeLines (ls : List Str) : Bool :=
  ls.all wfCodeLine && (ls.head?.map (fun l => !l.isEmpty)).getD false &&
    (ls.getLast?.map (fun l => !l.isEmpty)).getD false

/-- no two consecutive blank lines -/
def noDoubleBlank : List Str → Bool
  | a :: b :: r => !(a.isEmpty && b.isEmpty) && noDoubleBlank (b :: r)
  | _ => true

def isList : Block → Bool
  | .ulist _ _ => true
  | .olist _ _ => true
  | _ => false

def isCode : Block → Bool
  | .code _ => true
  | _ => false

def isQuote : Block → Bool
  | .quote _ => true
  | _ => false

/-- neighbours that merge by design -/
def okNext (a b : Block) : Bool :=
  !(isList a && isList b) && !((isCode a || isList a) && isCode b) && !(isQuote a && isQuote b)

def okNexts : List Block → Bool
  | a :: b :: r => okNext a b && okNexts (b :: r)
  | _ => true

def isPara : Block → Bool
  | .para _ => true
  | _ => false

mutual
/-- `mode`: looseness of the enclosing list, if any -/
def wfBlock (mode : Option Bool) : Block → Bool
  | .para c => wfInlines false .none true c
  | .atx l c => 1 ≤ l && l ≤ 6 && wfInlines false .none false c
  | .setext l c => (l = 1 || l = 2) && wfInlines false .none false c
  | .rule => true
  | .code ls => wfCodeLines ls && (mode = none || noDoubleBlank ls)
  | .quote bs => !bs.isEmpty && okNexts bs && wfBlockList none bs
  | .ulist loose items => (mode = none || mode = some loose) && !items.isEmpty && wfItems loose items &&
      (!loose || items.length ≥ 2 || items.any (fun i => i.length ≥ 2))
  | .olist loose items => (mode = none || mode = some loose) && !items.isEmpty && wfItems loose items &&
      (!loose || items.length ≥ 2 || items.any (fun i => i.length ≥ 2))
def wfBlockList (mode : Option Bool) : List Block → Bool
  | [] => true
  | b :: r => wfBlock mode b && wfBlockList mode r
/-- an item starts with a paragraph; a tight item holds nothing else but one nested list; in a loose item the
    block after the paragraph is not a code block -/
def wfItems (loose : Bool) : List (List Block) → Bool
  | [] => true
  | item :: r =>
    (match item with
     | [] => false
     | b :: bs =>
       isPara b && okNexts (b :: bs) && wfBlock (some loose) b && wfBlockList (some loose) bs &&
       (if loose then (match bs with | c :: _ => !isCode c | [] => true)
        else (match bs with | [] => true | [l] => isList l | _ => false))) &&
    wfItems loose r
end

mutual
/-- labels (lower case) of the links with a plain text and of the images -/
def labelsInline : Inline → List Str
  | .em c => labelsInlines c
  | .strong c => labelsInlines c
  | .link c _ _ => (match plainLabel c with | some w => [lower w] | none => []) ++ labelsInlines c
  | .image a _ _ => [lower a]
  | _ => []
def labelsInlines : List Inline → List Str
  | [] => []
  | x :: r => labelsInline x ++ labelsInlines r
end

mutual
def labelsBlock : Block → List Str
  | .para c => labelsInlines c
  | .atx _ c => labelsInlines c
  | .setext _ c => labelsInlines c
  | .rule => []
  | .code _ => []
  | .quote bs => labelsBlocks bs
  | .ulist _ items => labelsItems items
  | .olist _ items => labelsItems items
def labelsBlocks : List Block → List Str
  | [] => []
  | b :: r => labelsBlock b ++ labelsBlocks r
def labelsItems : List (List Block) → List Str
  | [] => []
  | i :: r => labelsBlocks i ++ labelsItems r
end

def nodupStr : List Str → Bool
  | [] => true
  | a :: r => !r.contains a && nodupStr r

/-- the canonical-spelling constraints -/
def WF (d : Doc) : Bool := !d.isEmpty && okNexts d && wfBlockList none d && nodupStr (labelsBlocks d)

end MdVerif.DocSpec
