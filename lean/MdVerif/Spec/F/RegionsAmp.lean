/-
The regions behind `](` and `![` (`Spec/NoCtlC.lean`) in a text WITH AMPERSANDS (worker amp).

An inline link destination / title or an image alt text of the domain `C10DomainC` is made of `destChar`s / `altChar`s;
`&`, `#`, `;`, letters and digits are such characters, so an entity `&amp;` may stand inside a region.  When the link or
image pattern takes the region (it runs before the entity pattern) nothing happens; but in a region that no pattern
takes (`a](b&amp;c)`) the entity pattern replaces `&amp;` by a raw-HTML placeholder, whose STX is no `destChar`: the
static invariant `RegionsOK` of the C chain does not survive that (the implementation does not leak there — the
restriction is one of the proof, not of the code).  So the domain with ampersands keeps entities out of the regions:

* `NoEntR s`: the run of destination/title characters (`rcChar`) behind every `](` of `s`, and the run of `altChar`s
  behind every `![`, holds neither `;` (no entity can match inside) nor `&#` (the raw-HTML preprocessor inserts no `;`
  inside).  Bare ampersands are fine: `[a](b?x=1&y=2)`, `![i&j](u)`.
* `AdjCA lax s`: `AdjC lax s`, and `NoEntR s` when the parameter `HtmlBound.amp` of the chain admits ampersands (`NoEntA`);
  in place of `AdjC` in the F twins of the C chain.  With `amp = false` it is `AdjC lax s`.

Nothing here is used by the executable model of the code.  Core Lean only.
-/
import MdVerif.Spec.NoCtlC
import MdVerif.Spec.F.HtmlBound

namespace MdVerif.NoCtlF
open Py
open MdVerif.NoCtl (destChar altChar AdjC)

/-- a character of a destination or title region, or a quote that opens / closes a title -/
def rcChar (c : Char) : Bool := destChar c || c == '"' || c == '\''

/-- neither `;` nor `&#` -/
def cleanR (t : Str) : Bool := !t.contains ';' && !Py.contains t ['&', '#']

/-- the runs behind `](` and `![` hold neither `;` nor `&#` -/
def noEntR : Str → Bool
  | [] => true
  | c :: r =>
    (match c, r with
     | ']', '(' :: r' => cleanR (r'.takeWhile rcChar)
     | '!', '[' :: r' => cleanR (r'.takeWhile altChar)
     | _, _ => true) && noEntR r

def NoEntR (s : Str) : Prop := noEntR s = true

instance (s : Str) : Decidable (NoEntR s) := by unfold NoEntR; infer_instance

/-- a character that ends every run and opens no region: neither a destination/title character, nor a quote, nor an
    alt-text character, nor `(`, `[` (e.g. STX, `*`, `_`, line feed) -/
def stopChar (c : Char) : Bool := !rcChar c && !altChar c && c != '(' && c != '['

/-- the string starts with a `stopChar`: every placeholder and token does (STX), and so do the strings `*`, `__` … that
    the `not_strong` pattern stashes -/
def HeadStop (s : Str) : Prop := ∃ d r, s = d :: r ∧ stopChar d = true

variable [HtmlBound]

/-- in a domain with ampersands (`HtmlBound.amp`): no entity material inside a region -/
def NoEntA (s : Str) : Prop := HtmlBound.amp = true → NoEntR s

instance (s : Str) : Decidable (NoEntA s) := by unfold NoEntA; infer_instance

/-- `AdjC`, and — in a domain with ampersands — no entity material inside a region -/
def AdjCA (lax : Bool) (s : Str) : Prop := AdjC lax s ∧ NoEntA s

instance (lax : Bool) (s : Str) : Decidable (AdjCA lax s) := by unfold AdjCA; infer_instance

end MdVerif.NoCtlF
