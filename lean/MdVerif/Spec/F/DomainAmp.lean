/-
The source domains of the C10 end-to-end theorems WITH AMPERSANDS (`Props/C10XAllAmp.lean`, `Props/C10XCAllAmp.lean`): `C10DomainW` /
`C10DomainCW` (`Lemmas/PlaceholdersX.lean`, `Lemmas/PlaceholdersXC.lean`) with "no `<`" in place of "no `<`, no `&`"
(`DomB`).  `&`, entities `&amp;` `&copy;` `&#38;` `&#x26;`, unterminated character references `&#38x` (which the raw-HTML
preprocessor re-spells as `&#38;x`) and bare ampersands `AT&T` are inside.

Nothing here is used by the executable model of the code.  Core Lean only.
-/
import MdVerif.Spec.NoCtlB
import MdVerif.Model.Normalize
import MdVerif.Spec.F.RegionsAmp

namespace MdVerif.NoCtlXF
open Py
open MdVerif.NoCtl (Adj3 NoPair AdjC)
open MdVerif.NoCtlF (NoEntR)

/-- no `<`; in the normalised text no backslash immediately before a backtick, no `![` (images) and no `](` (inline
    links); with wikilinks no `[` immediately followed by a blank (`C10DomainW` without the exclusion of `&`) -/
def C10DomainWA (wl : Bool) (tab : Nat) (s : Str) : Prop :=
  ('<' ∉ s ∧ Adj3 (Normalize.normalize tab s)) ∧ (wl = true → NoPair '[' ' ' (Normalize.normalize tab s))

instance (wl : Bool) (tab : Nat) (s : Str) : Decidable (C10DomainWA wl tab s) := by unfold C10DomainWA; infer_instance

/-- with inline links and images: no `<`; in the normalised text no backslash immediately before a backtick, every `](`
    followed by a simple destination (with an optional title) and every `![` by a simple alt text, closed on the same
    line (`AdjC false`, as in `C10DomainC`), and no `;` and no `&#` inside such a destination, title or alt text
    (`NoEntR`: no entity or character reference inside a region; a bare `&` is fine: `[a](b?x=1&y=2)`, `![i&j](u)`);
    with wikilinks no `[` immediately followed by a blank (`C10DomainCW` without the exclusion of `&`) -/
def C10DomainCWA (wl : Bool) (tab : Nat) (s : Str) : Prop :=
  ('<' ∉ s ∧ AdjC false (Normalize.normalize tab s) ∧ NoEntR (Normalize.normalize tab s)) ∧
    (wl = true → NoPair '[' ' ' (Normalize.normalize tab s))

instance (wl : Bool) (tab : Nat) (s : Str) : Decidable (C10DomainCWA wl tab s) := by unfold C10DomainCWA; infer_instance

end MdVerif.NoCtlXF
