/-
The invariants of the inline engine of `Spec/NoCtlC.lean` (inline links and images with SIMPLE regions: `AdjCA true` in
place of `Adj3`) over the generalised token grammar of `Spec/F/NoCtl.lean` (foreign tokens: the two tokens of the
footnotes extension and the live raw-HTML placeholders), in the namespace `MdVerif.NoCtlF`: the `C` twins of the
declarations of `Spec/F/NoCtlB.lean` (`code` texts `WFO false 0`, `BtSafe` relative to foreign tokens).
The regions themselves (`destChar`, `altChar`, `RegionsOK`, `AdjCA`, `cutOK`, `C10DomainC`) do not depend on the grammar
and are used from `Spec/NoCtlC.lean`: a foreign token starts with STX, which `destChar`/`altChar` exclude, so a region
never contains a token.
Nothing here is used by the executable model of the code.  Core Lean only.
-/
import MdVerif.Spec.NoCtlC
import MdVerif.Spec.F.NoCtlB
import MdVerif.Spec.F.RegionsAmp

namespace MdVerif.NoCtlF
variable [HtmlBound]
set_option linter.unusedSectionVars false
open Py
open Inline hiding STX ETX
open MdVerif.NoCtl hiding Clean CleanB DNode EscOK FNode FoundOK HISpec HISpecB ItemOK ItemOKB RawNode SNode SNodeB Splice StOK StOKB StrB StrT StrW TNode WF WF.nil WF.ph WF.plain WF.tok WFO WNode WNodeB inner BtSafe StrC StrTC SNodeC ItemOKC StOKC WNodeC HISpecC

/-- a string of a stashed element -/
def StrC (k : Nat) (t : Option Str) : Prop :=
  WF true k (t.getD []) ∧ DomA (t.getD []) ∧ AdjCA true (t.getD []) ∧ BtDone (t.getD [])

/-- a string of the tree -/
def StrTC (k : Nat) (t : Option Str) : Prop :=
  WF true k (t.getD []) ∧ DomA (t.getD []) ∧ AdjCA true (t.getD []) ∧ BtSafe (t.getD [])

/-- an element made by a pattern (in the stash, or below a stashed element); a `code` element is a leaf with an atomic
    text made of ordinary characters and foreign tokens -/
def SNodeC (k : Nat) (n : Node) : Prop :=
  tagNoCtl n.tag ∧ attrsNoCtl n.attrs ∧ n.tailAtomic = false ∧ StrC k n.tail ∧
  (if isCode n = true then n.textAtomic = true ∧ WFO false 0 n.text ∧ n.children = [] ∧ n.tail = none
   else n.textAtomic = false ∧ StrC k n.text)

def ItemOKC (i : Nat) : StashItem → Prop
  | .str s => WF true 0 s ∧ DomA s ∧ SepOK3 s ∧ HeadStop s
  | .node n => n.Forall (SNodeC i) ∧ n.tail = none

/-- `ids_bounded` for the stash -/
def StOKC (stash : List StashItem) : Prop := ∀ i it, stash[i]? = some it → ItemOKC i it

/-- an element of the tree during `InlineProcessor.run` -/
def WNodeC (k : Nat) (n : Node) : Prop :=
  tagNoCtl n.tag ∧ attrsNoCtl n.attrs ∧ n.tailAtomic = false ∧ StrTC k n.tail ∧
  (if n.textAtomic = true then WFO false 0 n.text else StrTC k n.text) ∧
  (isCode n = true → n.textAtomic = true)

/-- the contract of `handleInline` on a whole text -/
def HISpecC (cfg : Cfg) : Prop :=
  ∀ (data : Str) (st : St) (d : Str) (st' : St), StrTC st.stash.length (some data) → StOKC st.stash →
    handleInlineTop cfg data st = some (d, st') → st'.html.length ≤ HtmlBound.h →
    StrC st'.stash.length (some d) ∧ StOKC st'.stash ∧ st.stash.length ≤ st'.stash.length ∧ HtmlOK st'.html st.html

end MdVerif.NoCtlF
