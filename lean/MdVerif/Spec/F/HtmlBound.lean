/-
The parameters of the generalised token grammar of `Spec/F/NoCtl.lean`: which foreign tokens the postprocessors will
remove.  A raw-HTML placeholder `STX wzxhzdk:N ETX` is admitted by the grammar only when it is LIVE (`N < HtmlBound.h`,
the number of entries of the raw-HTML stash), i.e. when `RawHtmlPostprocessor` will replace it; the two tokens of the
footnotes extension only when `HtmlBound.fn` (footnotes enabled: `FootnotePostprocessor` runs).  Every file of `Spec/F`
and `Lemmas/F` has `variable [HtmlBound]`; the end-to-end theorems instantiate it with the length of the stash that the
preprocessors return and the footnotes flag (`⟨0, true⟩` for footnotes without fenced_code).
Core Lean only.
-/
namespace MdVerif.NoCtlF

/-- the foreign tokens that will be removed behind the serialiser -/
class HtmlBound where
  /-- the number of entries of the raw-HTML stash -/
  h : Nat
  /-- is the footnotes extension enabled? -/
  fn : Bool

/-- footnote tokens are admitted (a class, so that the lemmas about `FootnoteTreeprocessor` find it by themselves) -/
class FnOn [HtmlBound] : Prop where
  out : HtmlBound.fn = true

end MdVerif.NoCtlF
