/-
The parameters of the generalised token grammar of `Spec/F/NoCtl.lean`: which foreign tokens the postprocessors will
remove.  A raw-HTML placeholder `STX wzxhzdk:N ETX` is admitted by the grammar only when it is LIVE (`N < HtmlBound.h`,
the number of entries of the raw-HTML stash), i.e. when `RawHtmlPostprocessor` will replace it; the two tokens of the
footnotes extension only when `HtmlBound.fn` (footnotes enabled: `FootnotePostprocessor` runs).  The third parameter
`HtmlBound.amp` says whether the character domain of the chain admits the AMPERSAND (`domCharA` in `Spec/F/NoCtl.lean`):
with `amp = false` the domain is "no `<`, no `&`" (the entity pattern never fires, the inline stage leaves the raw-HTML
stash alone); with `amp = true` it is "no `<`": the entity pattern `&(#[0-9]+|#x[0-9a-fA-F]+|[a-zA-Z0-9]+);` stores the
entity in the raw-HTML stash and leaves the placeholder `STX wzxhzdk:N ETX` (N = length of the stash at that moment),
which the grammar admits because `h` is then the length of the FINAL stash.  Every file of `Spec/F`
and `Lemmas/F` has `variable [HtmlBound]`; the end-to-end theorems instantiate it with the length of the raw-HTML stash
behind the inline stage, the footnotes flag and the ampersand flag.
Core Lean only.
-/
namespace MdVerif.NoCtlF

/-- the foreign tokens that will be removed behind the serialiser -/
class HtmlBound where
  /-- the number of entries of the raw-HTML stash -/
  h : Nat
  /-- is the footnotes extension enabled? -/
  fn : Bool
  /-- does the character domain admit `&` (the entity pattern is live)? -/
  amp : Bool

/-- footnote tokens are admitted (a class, so that the lemmas about `FootnoteTreeprocessor` find it by themselves) -/
class FnOn [HtmlBound] : Prop where
  out : HtmlBound.fn = true

end MdVerif.NoCtlF
