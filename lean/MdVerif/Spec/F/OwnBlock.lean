/-
The shape of the text that `FencedBlockPreprocessor` hands to the block parser (worker fc2; interface between the
preprocessor part — fc1 — and the block stage — fc2 — of `C10X_partial_all`).

`Fenced.fencedLoopA` replaces a fenced block by `text[:start] + "\n" + placeholder + "\n" + text[end:]`, where
`text[:start]` is empty or ends with a line feed and `text[end:]` is empty or starts with one: every placeholder is a
BLOCK of its own (blank line or text boundary on both sides), not merely a line of its own.  The block stage needs the
stronger shape: with a placeholder merely on a line of its own, `[a]:\nPH` is a reference definition with url `PH`,
`*[k]:\nPH` an abbreviation with title `PH`, and the log / attributes would hold STX.
-/
import MdVerif.Spec.NoCtl
import MdVerif.Model.Ext.FencedCode

namespace MdVerif.NoCtlF
open Py
open MdVerif.NoCtl (STX ETX)

/-- the separator of `parseChunk` -/
abbrev nn : Str := ['\n', '\n']

/-- a piece of text that may stand on either side of a placeholder inside its block: nothing or one line feed -/
def NlOpt (a : Str) : Prop := a = [] ∨ a = ['\n']

/-- what precedes a placeholder: the start of the text, one line feed at the start of the text, or a blank line -/
def BeforeTok (u : Str) : Prop := u = [] ∨ u = ['\n'] ∨ nn <:+ u

/-- what follows a placeholder: the end of the text, one line feed at the end of the text, or a blank line -/
def AfterTok (r : Str) : Prop := r = [] ∨ r = ['\n'] ∨ nn <+: r

/-- **every STX of `s` starts a raw-HTML placeholder `STX wzxhzdk:n ETX` with `n < h` that is a block of its own, and
    every ETX of `s` ends such a placeholder** -/
def OwnBlock (h : Nat) (s : Str) : Prop :=
  (∀ u w, s = u ++ STX :: w → ∃ n r, n < h ∧ STX :: w = Fenced.placeholder n ++ r ∧ BeforeTok u ∧ AfterTok r) ∧
  (∀ u w, s = u ++ ETX :: w → ∃ n u', n < h ∧ u ++ [ETX] = u' ++ Fenced.placeholder n)

/-- a block that is one placeholder, with at most one line feed on either side -/
def TokBlock (h : Nat) (x : Str) : Prop :=
  ∃ n a b, n < h ∧ NlOpt a ∧ NlOpt b ∧ x = a ++ Fenced.placeholder n ++ b

end MdVerif.NoCtlF
