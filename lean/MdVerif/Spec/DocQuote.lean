/-
Vocabulary of the C01 theorems of `Props/C01c.lean`: the sub-grammar `QuoteDoc` — flat blocks (`isFlatBlock`: rules,
paragraphs, ATX and Setext headings of words and backslash escapes) and block quotes of such blocks and quotes, to any
depth.
-/
import MdVerif.Spec.DocFlat

namespace MdVerif.DocSpec
open MdVerif MdVerif.Py

mutual
/-- a flat block, or a quote whose blocks are again such blocks -/
def isQuoteBlock : Block → Bool
  | .quote bs => isQuoteBlocks bs
  | .rule => true
  | .para c => plainRun c
  | .atx _ c => plainRun c
  | .setext _ c => plainRun c
  | .code _ => false
  | .ulist _ _ => false
  | .olist _ _ => false
def isQuoteBlocks : List Block → Bool
  | [] => true
  | b :: r => isQuoteBlock b && isQuoteBlocks r
end

/-- a document of flat blocks and quotes nested to any depth -/
def QuoteDoc (d : Doc) : Bool := isQuoteBlocks d

end MdVerif.DocSpec
