/-
Vocabulary of the C10c statements (`Props/C10c.lean`): the leak-free inline subset of `Props/C10b.lean` widened by
**inline links and images** `[text](url "title")`, `![alt](url "title")`, `![alt][label]`, `![alt]`.

`C10DomainL` (reference links) excludes the adjacencies `](` and `![` altogether.  Here they are allowed when what
follows is *simple*:

* after `](` — an inline link destination: characters of `destChar` (no backtick, backslash, `*`, `_`, brackets,
  parentheses, quotes, line feed), then either `)` or a title `"…"` / `'…'` of such characters, blanks, and `)`
  (`destClose`);
* after `![` — an image alt text: characters of `altChar` (no backtick, backslash, `*`, `_`, brackets, line feed), then
  `]` (`altClose`).

`RegionsOK lax s` says this of every `](` and every `![` of `s`.  With `lax = false` the closing character must be
there (source, block parser); with `lax = true` the string may also end inside such a region (the strings of the
inline engine, which are cut at placeholders and delimiters).  Known leaks that the restriction keeps outside:
F-C10-1 (a link with marked-up text inside a destination, title or alt text: brackets are not `destChar`/`altChar`),
F-C10-2 (a quote in a destination that does not close as a title: rejected by `destClose`).

`cutOK v`: what may be cut off the end of a string without opening a region — `v` has neither `)` nor `]` before its
first line feed (the block parser cuts at line ends, before trailing blanks and before the closing `#`s of a heading).

Nothing here is used by the executable model of the code.
-/
import MdVerif.Spec.NoCtlB

namespace MdVerif.NoCtl
open Py Inline

/-! ### regions -/

/-- a character of an inline link destination or title of the domain -/
def destChar (c : Char) : Bool :=
  c != '`' && c != '\\' && c != '*' && c != '_' && c != '[' && c != ']' && c != '(' && c != ')' &&
  c != '"' && c != '\'' && c != '\n' && c != STX && c != ETX

/-- a character of an image alt text of the domain -/
def altChar (c : Char) : Bool :=
  c != '`' && c != '\\' && c != '*' && c != '_' && c != '[' && c != ']' && c != '\n' && c != STX && c != ETX

/-- after the closing quote of a title: blanks, then `)` -/
def destClose2 (lax : Bool) : Str → Bool
  | [] => lax
  | c :: r => if c = ')' then true else if c = ' ' then destClose2 lax r else false

/-- inside a title that was opened by `q`: `destChar`s, then `q` -/
def destClose1 (lax : Bool) (q : Char) : Str → Bool
  | [] => lax
  | c :: r => if c = q then destClose2 lax r else if destChar c then destClose1 lax q r else false

/-- what follows `](`: `destChar`s, then `)`, or a quote that opens a title -/
def destClose (lax : Bool) : Str → Bool
  | [] => lax
  | c :: r =>
    if c = ')' then true
    else if c = '"' || c = '\'' then destClose1 lax c r
    else if destChar c then destClose lax r else false

/-- what follows `![`: `altChar`s, then `]` -/
def altClose (lax : Bool) : Str → Bool
  | [] => lax
  | c :: r => if c = ']' then true else if altChar c then altClose lax r else false

/-- every `](` is followed by a simple destination, every `![` by a simple alt text -/
def regionsOK (lax : Bool) : Str → Bool
  | [] => true
  | c :: r =>
    (match c, r with
     | ']', '(' :: r' => destClose lax r'
     | '!', '[' :: r' => altClose lax r'
     | _, _ => true) && regionsOK lax r

def RegionsOK (lax : Bool) (s : Str) : Prop := regionsOK lax s = true

instance (lax : Bool) (s : Str) : Decidable (RegionsOK lax s) := by unfold RegionsOK; infer_instance

/-- no backslash–backtick (F-C10-4), and the regions behind `](` and `![` are simple -/
def AdjC (lax : Bool) (s : Str) : Prop := NoAdj s ∧ RegionsOK lax s

instance (lax : Bool) (s : Str) : Decidable (AdjC lax s) := by unfold AdjC; infer_instance

/-- neither `)` nor `]` before the first line feed: cutting `v` off the end of a string opens no region -/
def cutOK (v : Str) : Bool :=
  match v with
  | [] => true
  | c :: r => if c = '\n' then true else if c = ')' || c = ']' then false else cutOK r

/-! ### invariants of the inline engine (as `Spec/NoCtlB.lean`, with `AdjC true` in place of `Adj3`) -/

/-- a string of a stashed element -/
def StrC (k : Nat) (t : Option Str) : Prop :=
  WF true k (t.getD []) ∧ DomB (t.getD []) ∧ AdjC true (t.getD []) ∧ BtDone (t.getD [])

/-- a string of the tree -/
def StrTC (k : Nat) (t : Option Str) : Prop :=
  WF true k (t.getD []) ∧ DomB (t.getD []) ∧ AdjC true (t.getD []) ∧ BtSafe (t.getD [])

/-- an element made by a pattern (in the stash, or below a stashed element) -/
def SNodeC (k : Nat) (n : Node) : Prop :=
  tagNoCtl n.tag ∧ attrsNoCtl n.attrs ∧ n.tailAtomic = false ∧ StrC k n.tail ∧
  (if isCode n = true then n.textAtomic = true ∧ NoCtlO n.text ∧ n.children = [] ∧ n.tail = none
   else n.textAtomic = false ∧ StrC k n.text)

def ItemOKC (i : Nat) : StashItem → Prop
  | .str s => WF true 0 s ∧ DomB s ∧ SepOK3 s
  | .node n => n.Forall (SNodeC i) ∧ n.tail = none

/-- `ids_bounded` for the stash -/
def StOKC (stash : List StashItem) : Prop := ∀ i it, stash[i]? = some it → ItemOKC i it

/-- an element of the tree during `InlineProcessor.run` -/
def WNodeC (k : Nat) (n : Node) : Prop :=
  tagNoCtl n.tag ∧ attrsNoCtl n.attrs ∧ n.tailAtomic = false ∧ StrTC k n.tail ∧
  (if n.textAtomic = true then NoCtlO n.text else StrTC k n.text) ∧
  (isCode n = true → n.textAtomic = true)

/-- the contract of `handleInline` on a whole text -/
def HISpecC (cfg : Cfg) : Prop :=
  ∀ (data : Str) (st : St) (d : Str) (st' : St), StrTC st.stash.length (some data) → StOKC st.stash →
    handleInlineTop cfg data st = some (d, st') →
    StrC st'.stash.length (some d) ∧ StOKC st'.stash ∧ st.stash.length ≤ st'.stash.length ∧ st'.html = st.html

/-! ### the source domain -/

/-- no `<`, `&`; in the normalised text no backslash immediately before a backtick, and every `](` / `![` is followed
    by a simple destination (with an optional title) / a simple alt text that is closed on the same line -/
def C10DomainC (tab : Nat) (s : Str) : Prop := DomB s ∧ AdjC false (Normalize.normalize tab s)

instance (tab : Nat) (s : Str) : Decidable (C10DomainC tab s) := by unfold C10DomainC; infer_instance

end MdVerif.NoCtl
