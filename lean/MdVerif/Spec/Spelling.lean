/-
"Differ only in spelling" for the two output formats, on strings (specification side of the document-level clause of C14).

`Respell h x`: the xhtml string `x` is the html string `h` in which some `>` were written ` />` and some bare
attribute names ` k` were written ` k="k"`; every other character is the same, in the same order.  (In serializer
output a raw `>` occurs only as the end of a tag and a blank followed by a name only inside a start tag or in text —
`>` of text and of attribute values is written `&gt;`.)
-/
import MdVerif.Spec.Reader

namespace MdVerif.Ser

inductive Respell : Str → Str → Prop
  | nil : Respell [] []
  | same (c : Char) {a b : Str} : Respell a b → Respell (c :: a) (c :: b)
  /-- `<br>` → `<br />` -/
  | void {a b : Str} : Respell a b → Respell ('>' :: a) (' ' :: '/' :: '>' :: b)
  /-- ` checked` → ` checked="checked"` -/
  | bool (k : Str) {a b : Str} : isName k = true → Respell a b →
      Respell (' ' :: (k ++ a)) (' ' :: (k ++ '=' :: '"' :: (k ++ '"' :: b)))

end MdVerif.Ser
