/-
Specification side of the documented-rendering clause of C16 for wiki links: how a link is *written*
(`printWiki`: a paragraph `pre[[label]]post`) and the HTML it stands for (`specWiki`).  Core Lean only.

    printWiki "see " "Front Page" "."  =  see [[Front Page]].
    specWiki  "see " "Front Page" "."  =  <p>see <a class="wikilink" href="/Front_Page/">Front Page</a>.</p>

(default configuration of the extension: `base_url = '/'`, `end_url = '/'`, `html_class = 'wikilink'`.)
-/
import MdVerif.Py.Basic

namespace MdVerif.WikiDoc
open Py

/-- the source: one paragraph with the link between two running texts -/
def printWiki (pre label post : Str) : Str := pre ++ '[' :: '[' :: (label ++ ']' :: ']' :: post)

/-- the target of the link: `/`, the label with every space replaced by `_`, `/` -/
def wikiUrl (label : Str) : Str := '/' :: (label.map (fun c => if c = ' ' then '_' else c) ++ ['/'])

/-- the documented HTML -/
def specWiki (pre label post : Str) : Str :=
  "<p>".toList ++ (pre ++ ("<a class=\"wikilink\" href=\"".toList ++ (wikiUrl label ++ ("\">".toList ++
    (label ++ ("</a>".toList ++ (post ++ "</p>".toList)))))))

/-- a character of the running text: ASCII letter or digit, space, `.` or `,` -/
def textCh (c : Char) : Bool := isAsciiAlnum c || c = ' ' || c = '.' || c = ','

/-- a character of the label: ASCII letter or digit, space or `-` -/
def labelCh (c : Char) : Bool := isAsciiAlnum c || c = ' ' || c = '-'

/-- no two spaces in a row -/
def singleSpaced : Str → Bool
  | [] => true
  | c :: r => !(c == ' ' && r.head? == some ' ') && singleSpaced r

/-- a label: not empty, label characters, no space at either end (the label is stripped), words separated by one
    space (runs of spaces become one `_`) -/
def LabelOK (label : Str) : Bool :=
  !label.isEmpty && label.all labelCh && label.head? != some ' ' && label.getLast? != some ' ' && singleSpaced label

/-- the paragraph does not start with a space or a digit (indentation, ordered list) -/
def StartOK (pre : Str) : Bool :=
  match pre with
  | [] => true
  | c :: _ => c != ' ' && !isAsciiDigit c

/-- a wiki-link paragraph -/
def WikiOK (pre label post : Str) : Bool := pre.all textCh && StartOK pre && LabelOK label && post.all textCh

end MdVerif.WikiDoc
