/-
Specification-level notions for C17 (footnotes part).
-/
import MdVerif.Model.Ext.Footnotes

namespace MdVerif.Footnotes.Spec
open MdVerif.Py MdVerif.Footnotes

/-- the `sup` id of the reference number `n` (counted from 0) to the footnote `id`:
    `fnref:ID`, `fnref2:ID`, `fnref3:ID`, … -/
def refName (id : Str) : Nat → Str
  | 0 => fnref ++ ':' :: id
  | n + 1 => fnref ++ natToDec (n + 2) ++ ':' :: id

/-- the `sup` ids handed out to the references to the footnote `id`, in processing order: those results of
    `processRefs` whose link points to the footnote -/
def supsOf (id : Str) (out : List (Str × Str)) : List Str :=
  (out.filter (fun p => p.2 = '#' :: footnoteId id)).map (·.1)

/-- the references as they should come out: reference number `n` to `u` gets `refName u n`; `hist` = the linked
    references met before -/
def refsFrom (defs : List Str) : List Str → List Str → List (Str × Str)
  | _, [] => []
  | hist, u :: us =>
    if u ∈ defs then (refName u (hist.count u), '#' :: footnoteId u) :: refsFrom defs (u :: hist) us
    else refsFrom defs hist us

end MdVerif.Footnotes.Spec
