/-
Specification side of C15 (reference definitions): how a definition is *written* (`printDef`), which entry of
`md.references` it stands for (`defEntry`), and the two label normalisations of the code:

* definition side (`ReferenceProcessor.run`):   `id = m.group(1).strip().lower()`            — `normDef`
* use side (`ReferenceInlineProcessor`):        `id = NEWLINE_CLEANUP_RE.sub(' ', id.lower())` — `normUse`
  with `NEWLINE_CLEANUP_RE = re.compile(r'\s+', re.MULTILINE)`; `wsCollapse` is that substitution written
  structurally (every maximal run of `\s` characters becomes one space).

Core Lean only; everything is structurally recursive.
-/
import MdVerif.Model.Block

namespace MdVerif.RefDef
open Py Block

/-! ### label normalisation -/

/-- `re.sub(r'\s+', ' ', s)`; `prevSp` = the previous character belonged to a run that has already been replaced -/
def wsCollapseAux : Bool → Str → Str
  | _, [] => []
  | prevSp, c :: r =>
    if isSpace c then (if prevSp then wsCollapseAux true r else ' ' :: wsCollapseAux true r)
    else c :: wsCollapseAux false r

/-- `NEWLINE_CLEANUP_RE.sub(' ', s)` -/
def wsCollapse (s : Str) : Str := wsCollapseAux false s

/-- the key under which a definition `[l]: …` is stored -/
def normDef (l : Str) : Str := lower (strip l)

/-- the key that `[text][l]` (or `[l][]`, `[l]`) looks up -/
def normUse (l : Str) : Str := wsCollapse (lower l)

/-! ### labels and their variants at the place of use -/

/-- a word: a non-empty run of characters that are not white space -/
def isWord (w : Str) : Bool := !w.isEmpty && w.all (fun c => !isSpace c)

/-- a separator at the place of use: a non-empty run of white space (spaces, line breaks, tabs, …) -/
def isSep (s : Str) : Bool := !s.isEmpty && s.all isSpace

/-- `w'` is `w` with the case of some characters changed: character by character the lower-case forms agree
    (`lowerChar 'A' = lowerChar 'a'`) -/
def sameLower : Str → Str → Bool
  | [], [] => true
  | a :: w, b :: w' => lowerChar a == lowerChar b && sameLower w w'
  | _, _ => false

/-- a label written with single spaces between its words -/
def labelOf (ws : List Str) : Str := join [' '] ws

/-- the label at the place of use: first word, then (separator, word) pairs -/
def useVariant (w0 : Str) (vs : List (Str × Str)) : Str := w0 ++ vs.flatMap (fun v => v.1 ++ v.2)

/-- every further word is a case variant of the corresponding word of the label and is preceded by a separator -/
def variantOK : List Str → List (Str × Str) → Bool
  | [], [] => true
  | w :: ws, v :: vs => isSep v.1 && sameLower w v.2 && variantOK ws vs
  | _, _ => false

/-- no two adjacent white-space characters -/
def noAdjSp : Str → Bool
  | c :: d :: r => !(isSpace c && isSpace d) && noAdjSp (d :: r)
  | _ => true

/-- the keys defined in `md.references` -/
def refKeys (refs : Refs) : List Str := refs.map (·.1)

/-! ### how a definition is written -/

inductive TitleStyle | dq | sq | paren
  deriving DecidableEq, Repr, Inhabited

def TitleStyle.openCh : TitleStyle → Char
  | .dq => '"' | .sq => '\'' | .paren => '('
def TitleStyle.closeCh : TitleStyle → Char
  | .dq => '"' | .sq => '\'' | .paren => ')'

/-- the destination as written: `<url>` or `url` -/
def urlWritten (url : Str) (angle : Bool) : Str := if angle then '<' :: url ++ ['>'] else url

/-- `"t"`, `'t'`, `(t)` -/
def titleWritten (t : TitleStyle × Str) : Str := t.1.openCh :: t.2 ++ [t.1.closeCh]

/-- `[label]: url` after `indent` spaces -/
def defHead (indent : Nat) (label url : Str) (angle : Bool) : Str :=
  spaces indent ++ '[' :: label ++ ']' :: ':' :: ' ' :: urlWritten url angle

/-- the lines of a definition: one, or two when the title stands on the next line (indented by four spaces, as in
    the syntax documentation) -/
def defLines (indent : Nat) (label url : Str) (angle : Bool) (title : Option (TitleStyle × Str))
    (titleOnNextLine : Bool) : List Str :=
  match title with
  | none => [defHead indent label url angle]
  | some t =>
    if titleOnNextLine then [defHead indent label url angle, spaces 4 ++ titleWritten t]
    else [defHead indent label url angle ++ ' ' :: titleWritten t]

/-- `[label]: url`, `[label]: <url> "title"`, `[label]: url⏎    (title)`, … -/
def printDef (indent : Nat) (label url : Str) (angle : Bool) (title : Option (TitleStyle × Str))
    (titleOnNextLine : Bool) : Str :=
  defHead indent label url angle ++
    match title with
    | none => []
    | some t => (if titleOnNextLine then '\n' :: spaces 4 else [' ']) ++ titleWritten t

/-- group 5 of `ReferenceProcessor.RE` (the text of a quoted title) -/
def group5 : Option (TitleStyle × Str) → Option Str
  | some (.dq, t) => some t
  | some (.sq, t) => some t
  | _ => none

/-- group 6 of `ReferenceProcessor.RE` (the text of a parenthesised title) -/
def group6 : Option (TitleStyle × Str) → Option Str
  | some (.paren, t) => some t
  | _ => none

/-- `m.group(5) or m.group(6)` for the definition written by `printDef`: an empty quoted title is `None`
    (`'' or None`), an empty parenthesised title is `''` (`None or ''`); the inline side only tests truthiness, so the
    two are indistinguishable in the output. -/
def storedTitle (title : Option (TitleStyle × Str)) : Option Str :=
  if Node.truthy (group5 title) then group5 title else group6 title

/-- the entry of `md.references` that the definition stands for -/
def defEntry (label url : Str) (title : Option (TitleStyle × Str)) : Str × (Str × Option Str) :=
  (normDef label, (url, storedTitle title))

/-! ### well-formedness of the parts -/

/-- a label: no `[`, no `]`, no line break -/
def LabelOK (label : Str) : Bool := label.all (fun c => c != '[' && c != ']' && c != '\n')

/-- a destination: a non-empty run of non-space characters that does not begin with `<` or end with `>` (those
    are stripped by `lstrip('<').rstrip('>')`) -/
def UrlOK (url : Str) : Bool :=
  !url.isEmpty && url.all (fun c => !isSpace c) && url.head? != some '<' && url.getLast? != some '>'

/-- a title: any text without a line break -/
def TitleOK : Option (TitleStyle × Str) → Bool
  | none => true
  | some (_, t) => t.all notNl

end MdVerif.RefDef
