/-
Vocabulary of the C10b statements (`Props/C10b.lean`): the leak-free inline subset widened (a) to the exact region of
F-C10-4 — no `<`, `&`, `[`, `]`, and no backslash immediately followed by a backtick (`C10DomainE2`): code spans,
backslash escapes, hard line breaks and emphasis together — and (b) by reference-style links (`C10DomainL`: brackets
allowed; none of the adjacencies backslash–backtick, `![`, `](`).

New with respect to `Spec/NoCtl.lean`:
* `NoAdj s`: no backslash immediately followed by a backtick in `s`; `NoPair a b s`, `Adj3 s`: the three adjacencies;
* `FailsAt s j`, `BtDone s`, `BtSafe s`: where `BACKTICK_RE` can match.  `BtDone s`: it matches nowhere (the state of a
  text after the backtick pattern has run over it).  `BtSafe s`: it matches nowhere at or before an STX of `s`, so the
  first match lies behind every placeholder and token (the state of a text in which the backtick pattern has replaced
  some code spans: "a code span never encloses an earlier placeholder");
* `Opens`, `HasRun`: the same in terms of runs of backticks (`Lemmas/PlaceholdersBBt.lean` proves the equivalence);
* `SepOK`, `SepOK3`: strings that may stand where a match stood (placeholders, escape tokens, runs of `*`/`_`);
* the invariants `StrB` (strings of stashed elements), `StrT` (strings of the tree), `SNodeB`, `WNodeB`, `StOKB`,
  `RefsOK` (the reference definitions), and the contract `HISpecB` of `handleInline`.

Nothing here is used by the executable model of the code.
-/
import MdVerif.Spec.NoCtl

namespace MdVerif.NoCtl
open Py Inline

/-! ### backslash–backtick adjacency -/

/-- no backslash immediately followed by a backtick -/
def NoAdj (s : Str) : Prop := contains s ['\\', '`'] = false

instance (s : Str) : Decidable (NoAdj s) := by unfold NoAdj; infer_instance

/-! ### where the backtick pattern can match -/

/-- `BACKTICK_RE` does not match at offset `j` of `s` (as tried by `btScan`) -/
def FailsAt (s : Str) (j : Nat) : Prop := btAt (if j = 0 then none else s[j - 1]?) (s.drop j) j = none

/-- `BACKTICK_RE.search(s)` finds nothing -/
def BtDone (s : Str) : Prop := btFind s 0 = none

instance (s : Str) : Decidable (BtDone s) := by unfold BtDone; infer_instance

/-- no match at or before an STX: the first match, if any, lies behind every placeholder and token -/
def BtSafe (s : Str) : Prop := ∀ j i, j ≤ i → s[i]? = some STX → FailsAt s j

/-- `m` backticks, after a non-empty text that does not end in a backtick, and not followed by a backtick: a closing
    run for an opening run of `m` backticks -/
def HasRun (m : Nat) (x : Str) : Prop :=
  ∃ u v, x = u ++ List.replicate m '`' ++ v ∧ u ≠ [] ∧ u.getLast? ≠ some '`' ∧ v.head? ≠ some '`'

/-- a code span can start at offset `j`: `m ≥ 1` backticks there, and a closing run of exactly `m` later -/
def Opens (s : Str) (j : Nat) : Prop :=
  ∃ m, 1 ≤ m ∧ (s.drop j).take m = List.replicate m '`' ∧ HasRun m (s.drop (j + m))

/-- a string that may stand for a placeholder: not empty, no backtick, no backslash -/
def SepOK (t : Str) : Prop := t ≠ [] ∧ '`' ∉ t ∧ '\\' ∉ t

/-! ### more adjacencies: inline links `](` and images `![` stay outside the domain, reference links are inside -/

/-- the character `a` is never immediately followed by `b` -/
def NoPair (a b : Char) (s : Str) : Prop := contains s [a, b] = false

instance (a b : Char) (s : Str) : Decidable (NoPair a b s) := by unfold NoPair; infer_instance

/-- no backslash–backtick (F-C10-4), no `![` (image patterns), no `](` (inline link pattern) -/
def Adj3 (s : Str) : Prop := NoAdj s ∧ NoPair '!' '[' s ∧ NoPair ']' '(' s

instance (s : Str) : Decidable (Adj3 s) := by unfold Adj3; infer_instance

/-- `SepOK`, and none of the characters of the other two adjacencies -/
def SepOK3 (t : Str) : Prop := SepOK t ∧ '!' ∉ t ∧ '[' ∉ t ∧ ']' ∉ t ∧ '(' ∉ t

/-! ### the character domain -/

/-- no `<`, `&` -/
def domCharB (c : Char) : Bool := c != '<' && c != '&'

def DomB (s : Str) : Prop := ∀ c ∈ s, domCharB c = true

instance (s : Str) : Decidable (DomB s) := by unfold DomB; infer_instance

/-! ### invariants of the inline engine (one mode: escape tokens and code spans) -/

/-- a string of a stashed element: tokens in range, in the domain, and the backtick pattern is through with it -/
def StrB (k : Nat) (t : Option Str) : Prop :=
  WF true k (t.getD []) ∧ DomB (t.getD []) ∧ Adj3 (t.getD []) ∧ BtDone (t.getD [])

/-- a string of the tree: the backtick pattern may still find code spans, but only behind the last token -/
def StrT (k : Nat) (t : Option Str) : Prop :=
  WF true k (t.getD []) ∧ DomB (t.getD []) ∧ Adj3 (t.getD []) ∧ BtSafe (t.getD [])

/-- an element made by a pattern (in the stash, or below a stashed element).  A `code` element is a leaf with an atomic
    text free of STX/ETX (never visited again, skipped by `UnescapeTreeprocessor`); every other element has
    non-atomic strings. -/
def SNodeB (k : Nat) (n : Node) : Prop :=
  tagNoCtl n.tag ∧ attrsNoCtl n.attrs ∧ n.tailAtomic = false ∧ StrB k n.tail ∧
  (if isCode n = true then n.textAtomic = true ∧ NoCtlO n.text ∧ n.children = [] ∧ n.tail = none
   else n.textAtomic = false ∧ StrB k n.text)

def ItemOKB (i : Nat) : StashItem → Prop
  | .str s => WF true 0 s ∧ DomB s ∧ SepOK3 s
  | .node n => n.Forall (SNodeB i) ∧ n.tail = none

/-- `ids_bounded` for the stash -/
def StOKB (stash : List StashItem) : Prop := ∀ i it, stash[i]? = some it → ItemOKB i it

/-- an element of the tree during `InlineProcessor.run`.  Atomic texts (block parser: `code_escape` output; inline:
    code spans) are free of STX/ETX; every `code` element has an atomic text. -/
def WNodeB (k : Nat) (n : Node) : Prop :=
  tagNoCtl n.tag ∧ attrsNoCtl n.attrs ∧ n.tailAtomic = false ∧ StrT k n.tail ∧
  (if n.textAtomic = true then NoCtlO n.text else StrT k n.text) ∧
  (isCode n = true → n.textAtomic = true)

/-- text and tail hold no inline placeholder -/
def CleanB (n : Node) : Prop := WFO true 0 n.text ∧ WFO true 0 n.tail

/-- the contract of `handleInline` on a whole text -/
def HISpecB (cfg : Cfg) : Prop :=
  ∀ (data : Str) (st : St) (d : Str) (st' : St), StrT st.stash.length (some data) → StOKB st.stash →
    handleInlineTop cfg data st = some (d, st') →
    StrB st'.stash.length (some d) ∧ StOKB st'.stash ∧ st.stash.length ≤ st'.stash.length ∧ st'.html = st.html

/-! ### the source domain -/

/-- the reference definitions handed to the inline processor: url and title without STX/ETX -/
def RefsOK (cfg : Cfg) : Prop := ∀ r ∈ cfg.refs, NoCtl r.2.1 ∧ NoCtl (r.2.2.getD [])

/-- no `<`, `&`, `[`, `]`, and the normalised text (`NormalizeWhitespace`: STX/ETX deleted, tabs expanded, …) has no
    backslash immediately followed by a backtick: exactly the region that F-C10-4 excludes -/
def C10DomainE2 (tab : Nat) (s : Str) : Prop :=
  (∀ c ∈ s, c ≠ '<' ∧ c ≠ '&' ∧ c ≠ '[' ∧ c ≠ ']') ∧ NoAdj (Normalize.normalize tab s)

instance (tab : Nat) (s : Str) : Decidable (C10DomainE2 tab s) := by unfold C10DomainE2; infer_instance

/-- with reference links: no `<`, `&`; in the normalised text no backslash immediately before a backtick, no `![`
    (images) and no `](` (inline links).  Brackets are allowed: `[text][label]`, `[text][]`, `[label]` with their
    definitions `[label]: url "title"` are inside. -/
def C10DomainL (tab : Nat) (s : Str) : Prop := DomB s ∧ Adj3 (Normalize.normalize tab s)

instance (tab : Nat) (s : Str) : Decidable (C10DomainL tab s) := by unfold C10DomainL; infer_instance

end MdVerif.NoCtl
