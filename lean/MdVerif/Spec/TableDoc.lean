/-
Specification side of the documented-rendering clause of C16 for pipe tables: how a table is *written*
(`printTable`) and the HTML it stands for (`specTable`).  Core Lean only; everything is structurally recursive.

A table is a header row, a list of column alignments and body rows, all lists of cell texts; `border` says whether
every line is written with the outer pipes (`| a | b |`) or without (`a | b`).

    printTable ["a","b"] [some .left, none] [["1","2"],["3"]] true  =  | a | b |
                                                                       | :--- | --- |
                                                                       | 1 | 2 |
                                                                       | 3 |

    specTable …  =  <table>⏎<thead>⏎<tr>⏎<th style="text-align: left;">a</th>⏎<th>b</th>⏎</tr>⏎</thead>⏎<tbody>⏎
                    <tr>⏎<td style="text-align: left;">1</td>⏎<td>2</td>⏎</tr>⏎
                    <tr>⏎<td style="text-align: left;">3</td>⏎<td></td>⏎</tr>⏎</tbody>⏎</table>

Every body row has exactly as many cells as the header (`fit`: short rows padded with empty cells, long rows cut);
the alignment of a column comes from its cell of the delimiter row; a table without body rows gets one row of bare
cells (`_build_empty_row`: no `style`).
-/
import MdVerif.Model.Ext.Tables
import MdVerif.Spec.Tables

namespace MdVerif.TableDoc
open Py Tables

/-- alignment of a column: `none` = no alignment -/
abbrev Al := Option Tables.Align

/-- the cell of the delimiter row -/
def sepCell : Al → Str
  | none => "---".toList
  | some .left => ":---".toList
  | some .right => "---:".toList
  | some .center => ":---:".toList

/-- ` c ` -/
def pad (c : Str) : Str := ' ' :: c ++ [' ']

/-- the pieces between the pipes of a line without outer pipes, after the first: ` c `, the last one ` c` -/
def piecesRest : List Str → List Str
  | [] => []
  | [c] => [' ' :: c]
  | c :: d :: r => pad c :: piecesRest (d :: r)

/-- the pieces between the pipes of a line: with outer pipes every cell is padded (`| a | b |`); without, the first
    cell has no space in front and the last none behind (`a | b`) -/
def pieces (border : Bool) (cells : List Str) : List Str :=
  if border then cells.map pad
  else match cells with
    | [] => []
    | [c] => [c]
    | c :: d :: r => (c ++ [' ']) :: piecesRest (d :: r)

/-- one line of the table -/
def printRow (border : Bool) (cells : List Str) : Str :=
  if border then '|' :: (joinPipe (pieces true cells) ++ ['|']) else joinPipe (pieces false cells)

/-- the source of the table: header line, delimiter line, body lines -/
def printTable (header : List Str) (aligns : List Al) (rows : List (List Str)) (border : Bool) : Str :=
  joinLines (printRow border header :: printRow border (aligns.map sepCell) :: rows.map (printRow border))

/-! ### the documented HTML -/

def alName : Tables.Align → Str
  | .left => "left".toList
  | .right => "right".toList
  | .center => "center".toList

/-- `<tag style="text-align: …;">text</tag>⏎` (the `style` only for an aligned column) -/
def cellHtml (tag : Str) (text : Str) (a : Al) : Str :=
  '<' :: tag ++
    (match a with
     | some al => " style=\"text-align: ".toList ++ alName al ++ ";\"".toList
     | none => []) ++
    ['>'] ++ text ++ "</".toList ++ tag ++ ">\n".toList

def cellsHtml (tag : Str) : List Str → List Al → Str
  | t :: ts, a :: as => cellHtml tag t a ++ cellsHtml tag ts as
  | _, _ => []

/-- a row cut or padded to `n` cells -/
def fit (n : Nat) (r : List Str) : List Str := (List.range n).map (fun i => r.getD i [])

/-- `<tr>⏎ cells </tr>⏎` -/
def rowHtml (tag : Str) (cells : List Str) (aligns : List Al) : Str :=
  "<tr>\n".toList ++ cellsHtml tag cells aligns ++ "</tr>\n".toList

/-- the row of a table without body: bare cells -/
def emptyRowHtml (n : Nat) : Str :=
  "<tr>\n".toList ++ (List.replicate n "<td></td>\n".toList).flatten ++ "</tr>\n".toList

def bodyHtml (n : Nat) (aligns : List Al) (rows : List (List Str)) : Str :=
  if rows.isEmpty then emptyRowHtml n else (rows.map (fun r => rowHtml "td".toList (fit n r) aligns)).flatten

/-- the HTML of the table -/
def specTable (header : List Str) (aligns : List Al) (rows : List (List Str)) : Str :=
  "<table>\n<thead>\n".toList ++ rowHtml "th".toList header aligns ++ "</thead>\n<tbody>\n".toList ++
    bodyHtml header.length aligns rows ++ "</tbody>\n</table>".toList

/-! ### well-formedness -/

/-- a character of a plain cell: ASCII letter or digit, space, `.` or `,` -/
def cellCh (c : Char) : Bool := isAsciiAlnum c || c = ' ' || c = '.' || c = ','

/-- a cell text: plain characters, no space at either end (cell texts are stripped) -/
def CellOK (c : Str) : Bool := c.all cellCh && c.head? != some ' ' && c.getLast? != some ' '

/-- a row of a table written without outer pipes: first and last cell not empty (an empty first or last cell would
    put a pipe at the end of the line, which *is* an outer pipe) -/
def EndsOK (border : Bool) (r : List Str) : Bool :=
  border || (!(r.headD []).isEmpty && !(r.getLastD []).isEmpty)

/-- a row: at least one cell, well-formed cells, ends as required -/
def RowOK (border : Bool) (r : List Str) : Bool := !r.isEmpty && r.all CellOK && EndsOK border r

/-- a table: as many alignments as header cells; without outer pipes at least two columns (a single column needs the
    outer pipes to be a table); every row well-formed -/
def TableOK (header : List Str) (aligns : List Al) (rows : List (List Str)) (border : Bool) : Bool :=
  header.length == aligns.length && RowOK border header && (border || decide (2 ≤ header.length)) &&
    rows.all (RowOK border)

end MdVerif.TableDoc
