/-
Specification-level notions for C17 (toc part): the sequence of candidates tried by `unique`, the ids that
`assignIds` generated, and the outline parent of an entry of a flat token list.
-/
import MdVerif.Model.Ext.Toc

namespace MdVerif.Toc.Spec
open MdVerif.Toc

/-- the `k`-th candidate examined by the loop of `unique(id, ids)`: `id`, `step id`, `step (step id)`, … -/
def candidate : Str → Nat → Str
  | id, 0 => id
  | id, k + 1 => candidate (uniqueStep id) k

/-- the exit condition of the loop: `not (id in ids or not id)` -/
def Fresh (ids : List Str) (id : Str) : Prop := id ∉ ids ∧ id ≠ []

/-- the ids of those tokens whose heading carried no `id` attribute, i.e. the ids that `unique` generated -/
def generatedIds : List Heading → List Tok → List Str
  | (_, none, _) :: hs, t :: ts => t.id :: generatedIds hs ts
  | (_, some _, _) :: hs, _ :: ts => generatedIds hs ts
  | _, _ => []

/-- the ids of those tokens whose heading already carried an `id` attribute -/
def presetIds : List Heading → List Str
  | [] => []
  | (_, some i, _) :: hs => i :: presetIds hs
  | (_, none, _) :: hs => presetIds hs

/-- outline parent of an entry `t` that follows the entries `pre` (document order): the nearest preceding entry
    whose level is strictly smaller; `none` = `t` is a top-level entry -/
def outlineParent (pre : List Tok) (t : Tok) : Option Tok :=
  pre.reverse.find? (fun p => p.level < t.level)

/-- every entry of `ts` paired with its outline parent, in document order (`pre` = what precedes `ts`) -/
def outlinePairsFrom : List Tok → List Tok → List (Tok × Option Tok)
  | _, [] => []
  | pre, t :: ts => (t, outlineParent pre t) :: outlinePairsFrom (pre ++ [t]) ts

def outlinePairs (ts : List Tok) : List (Tok × Option Tok) := outlinePairsFrom [] ts


/-! ### positions instead of values

`nest_toc_tokens` never looks at `id`/`name`.  To speak about *positions* (two entries may carry the same
values) the entries are relabelled by their index; `restore` maps an index-labelled entry back. -/

/-- the entries with their id replaced by their position in the document (`n` = position of the first) -/
def indexedFrom : Nat → List Tok → List Tok
  | _, [] => []
  | n, t :: ts => ⟨t.level, MdVerif.Py.natToDec n, t.name⟩ :: indexedFrom (n + 1) ts

def indexed (ts : List Tok) : List Tok := indexedFrom 0 ts

/-- back from an index-labelled entry to the entry of `ts` at that position (the level is kept) -/
def restore (ts : List Tok) (t : Tok) : Tok :=
  match ts[MdVerif.Py.decToNat t.id]? with
  | some o => ⟨t.level, o.id, o.name⟩
  | none => t

mutual
def mapTree (f : Tok → Tok) : TokTree → TokTree
  | .mk t cs => .mk (f t) (mapForest f cs)
/-- relabel every entry of a nested token list, keeping the shape -/
def mapForest (f : Tok → Tok) : List TokTree → List TokTree
  | [] => []
  | c :: cs => mapTree f c :: mapForest f cs
end

end MdVerif.Toc.Spec
