/-
Vocabulary of the C09 statements (`Props/C09.lean`): respelling a document with other line terminators, the
column at which a tab is met, blank-ish characters.  Nothing here is used by the executable model of the code
except `STX`/`ETX`/`stripCtl`, which come from it.
-/
import MdVerif.Model.Normalize

namespace MdVerif.Normalize

/-- `"\n"` -/
def LF : Str := ['\n']
/-- `"\r"` -/
def CR : Str := ['\r']
/-- `"\r\n"` -/
def CRLF : Str := ['\r', '\n']

/-- the three spellings of a line break -/
def isTerminator (e : Str) : Bool := e = LF || e = CRLF || e = CR

/-- a piece of text without line-break characters -/
def isLine (l : Str) : Bool := l.all (fun c => c != '\n' && c != '\r')

/-- The document whose lines are `ls`, the `i`-th gap between two lines being spelled `ends[i]`
    (`"\n"` when `ends` is too short): `l₀ ++ ends₀ ++ l₁ ++ ends₁ ++ … ++ lₙ`. -/
def respell : List Str → List Str → Str
  | _, [] => []
  | _, [l] => l
  | es, l :: l' :: ls => l ++ es.headD LF ++ respell es.tail (l' :: ls)

/-- The one spelling that cannot be read back: a gap spelled `"\r"`, then a line that is empty (up to STX/ETX), then
    a gap spelled `"\n"` — the text reads `\r\n`, which *is* a single CRLF line break.
    `splitsCRLF ends ls` tells whether the respelling contains that configuration. -/
def splitsCRLF : List Str → List Str → Bool
  | es, _ :: l :: l' :: ls =>
    (es.headD LF = CR && stripCtl l = [] && es.tail.headD LF = LF) || splitsCRLF es.tail (l :: l' :: ls)
  | _, _ => false

/-- The column reached after the text `pre`, as `str.expandtabs(tab)` counts it on the normalised text: a line
    break (`\n` or `\r`) resets it, STX/ETX are not there any more, a tab advances to the next multiple of `tab`,
    any other character counts one. -/
def colFrom (tab : Nat) : Nat → Str → Nat
  | n, [] => n
  | n, c :: s =>
    if c = '\n' || c = '\r' then colFrom tab 0 s
    else if c = STX || c = ETX then colFrom tab n s
    else if c = '\t' then colFrom tab (n + (tab - n % tab)) s
    else colFrom tab (n + 1) s

def col (tab : Nat) (pre : Str) : Nat := colFrom tab 0 pre

/-- space, tab, STX or ETX: the characters of a line that normalises to the empty line -/
def isBlankish (c : Char) : Bool := c = ' ' || c = '\t' || c = STX || c = ETX

end MdVerif.Normalize
