/-
Abstract specification of the registry's observations: everything is computed from `view (log …)`.
-/
import MdVerif.Model.Registry

namespace MdVerif.Registry
variable {α : Type} [DecidableEq α]

/-- what the specification says an operation returns, given the specified view `v` of the registry -/
def specObs (v : List (Entry α)) : Op α → Obs α
  | .register _ _ _ => .unit
  | .deregister n strict =>
      if v.any (fun e => e.name == n) then .unit else if strict then .err .valueError else .unit
  | .iter => .items (v.map (·.item))
  | .len => .nat v.length
  | .containsName n => .bool (v.any (fun e => e.name == n))
  | .containsItem a => .bool (v.any (fun e => e.item == a))
  | .getIdx i => match normIdx v.length i with
      | none => .err .indexError
      | some j => match v[j]? with
        | some e => .item e.item
        | none => .err .indexError
  | .getName n => match v.find? (fun e => e.name == n) with
      | some e => .item e.item
      | none => .err .keyError
  | .getSlice a b c => match sliceIdx v.length a b c with
      | none => .err .valueError
      | some idxs => .sliced ((view (idxs.filterMap (fun i => v[i]?))).map (fun e => (e.name, e.prio, e.item)))
  | .indexFor n =>
      if v.any (fun e => e.name == n) then .nat (v.findIdx (fun e => e.name == n)) else .err .valueError

/-- the specification run: observations are computed from the view of the log alone -/
def specRun (l : List (Entry α)) : List (Op α) → List (Obs α)
  | [] => []
  | op :: ops => specObs (view l) op :: specRun (logStep l op) ops

end MdVerif.Registry
