/-
The documented syntax of the `meta` extension (docs/extensions/meta_data.md): a header at the very top of the document,

    Title:   My Document
    Authors: Waylan Limberg
             John Doe
    blank-value:

    first paragraph …

"a keyword (letters, numbers, underscores and dashes) followed by a colon; the value is what follows the colon; a
line indented four or more spaces is an additional line of the value of the previous keyword; the first blank line
ends the meta data; optionally the header is wrapped in YAML style deliminators, `---` before it and `---` or `...`
after it".  Keys are case-insensitive (stored lower-cased), `md.Meta` maps each key to the list of its lines,
stripped.

`Entry` is one keyword with its lines, `Entry.lines` its spelling, `specDict` the documented dictionary
(`list(md.Meta.items())`: keys in the order of their first occurrence; a repeated key extends its list).
-/
import MdVerif.Model.Ext.Meta

namespace MdVerif.MetaSpec
open Py

/-- one keyword of a header -/
structure Entry where
  /-- blanks before the keyword (0 to 3) -/
  indent : Nat := 0
  key : Str
  /-- the rest of the keyword's line after the colon -/
  raw : Str
  /-- the additional lines: number of leading blanks (at least 4) and the text after them -/
  conts : List (Nat × Str) := []
  deriving DecidableEq, Repr

/-- the spelling of a continuation line -/
def contLine (c : Nat × Str) : Str := List.replicate c.1 ' ' ++ c.2

/-- the lines of an entry -/
def Entry.lines (e : Entry) : List Str :=
  (List.replicate e.indent ' ' ++ e.key ++ ':' :: e.raw) :: e.conts.map contLine

/-- the documented values of an entry -/
def Entry.values (e : Entry) : List Str := strip e.raw :: e.conts.map (fun c => strip c.2)

/-- a well-formed entry: at most three blanks, a non-empty keyword over `[A-Za-z0-9_-]`, no line feed inside the lines,
    every additional line indented by four blanks or more and not blank (a blank line ends the meta data).
    (Before the repair of F-C16-3 a keyword at the margin that opens with `---` had to be excluded: that line was taken
    for the YAML end deliminator.) -/
def Entry.ok (e : Entry) : Bool :=
  decide (e.indent ≤ 3) && !e.key.isEmpty && e.key.all Meta.isKeyChar && !e.raw.contains '\n' &&
  e.conts.all (fun c => decide (4 ≤ c.1) && !c.2.contains '\n' && !isBlank c.2)

/-- `d[key] = d.get(key, []) + vals` on the list of items -/
def insertValues (key : Str) (vals : List Str) : Meta.Dict → Meta.Dict
  | [] => [(key, vals)]
  | (k, vs) :: r => if k = key then (k, vs ++ vals) :: r else (k, vs) :: insertValues key vals r

/-- the documented `md.Meta` of a header -/
def specDict (es : List Entry) : Meta.Dict :=
  es.foldl (fun d e => insertValues (lower e.key) e.values d) []

/-- the lines of a header: the optional opening deliminator, the entries -/
def headerLines (open_ : Option Str) (es : List Entry) : List Str :=
  open_.toList ++ es.flatMap Entry.lines

end MdVerif.MetaSpec
