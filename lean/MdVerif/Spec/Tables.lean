/-
Vocabulary of the C16 statements (tables): plain text, cells with escaped pipes, tick runs, dash runs.
-/
import MdVerif.Py.Basic

namespace MdVerif.Tables
open MdVerif MdVerif.Py

/-- a character that is neither a pipe, nor a backtick, nor a backslash -/
def plainChar (c : Char) : Bool := c != '|' && c != '`' && c != '\\'

/-- text without pipes, backticks and backslashes -/
def Plain (s : Str) : Prop := s.all plainChar = true

instance (s : Str) : Decidable (Plain s) := by unfold Plain; infer_instance

/-- text made of plain characters, escaped pipes `\|` and escaped backslashes `\\` (every backslash starts one of
    these two escapes, every pipe is escaped) -/
inductive EscCell : Str → Prop where
  | nil : EscCell []
  | plain (c : Char) (s : Str) : plainChar c = true → EscCell s → EscCell (c :: s)
  | esc (s : Str) : EscCell s → EscCell ('\\' :: '|' :: s)
  | bs (s : Str) : EscCell s → EscCell ('\\' :: '\\' :: s)

/-- decision procedure for `EscCell` -/
def escCellB : Str → Bool
  | [] => true
  | c :: s =>
    if c = '\\' then
      match s with
      | d :: r => (d = '|' || d = '\\') && escCellB r
      | [] => false
    else plainChar c && escCellB s

/-- text without backticks and backslashes (pipes allowed): the inside of a code span -/
def CodeBody (s : Str) : Prop := s.all (fun c => c != '`' && c != '\\') = true

instance (s : Str) : Decidable (CodeBody s) := by unfold CodeBody; infer_instance

/-- a run of `n` backticks -/
def ticks (n : Nat) : Str := List.replicate n '`'

/-- `k` escaped backslashes `\\` -/
def escBackslashes (k : Nat) : Str := List.replicate (2 * k) '\\'

/-- a run of `n` dashes -/
def dashes (n : Nat) : Str := List.replicate n '-'

/-- a run of `n` spaces -/
def spaces (n : Nat) : Str := List.replicate n ' '

/-- `'|'.join(cells)` -/
def joinPipe (cs : List Str) : Str := join ['|'] cs

end MdVerif.Tables
