/-
Vocabulary of the C01 theorems of `Props/C01i.lean`: the sub-grammars of `Doc` that extend `LinkDoc`
(`Spec/DocFlat2.lean`) by inline IMAGES in one-line paragraphs (`ImgDoc`), by inline LINKS in ATX / Setext headings
(`LinkHDoc`), both together, with images in headings as well (`LinkImgDoc`), and finally links and images in the
same line (`MixedDoc`), also in paragraphs of several lines with hard breaks (`MixedBrDoc`).

Common domain restrictions (as in `Spec/DocFlat2.lean`): no `<` inside code; destinations without `_` and `&`
(`simpleDest`); up to `MixedDoc` a paragraph or heading with links or images is ONE line.  In `ImgDoc`, `LinkHDoc`
and `LinkImgDoc` a line has links or images, not both; `MixedDoc` lifts that (the link pattern runs before the image
pattern: the stash is not in document order then).
-/
import MdVerif.Spec.DocFlat2

namespace MdVerif.DocSpec
open MdVerif MdVerif.Py

/-! ### inline images -/

/-- an item of `isMixItem` (words, a backslash escape, a code span without `<`, `em` / `strong` around words), or an
    inline image whose destination is simple (its alt text is plain words by well-formedness) -/
def isImgItem : Inline → Bool
  | .image _ d _ => simpleDest d
  | x => isMixItem x

/-- inline content made of words, escapes, code spans, emphasised words and images, in any order -/
def imgRun (c : List Inline) : Bool := c.all isImgItem && noBsBeforeCode c

/-- as `isLinkBlock`, and a paragraph may instead be a line of `imgRun` -/
def isImgBlock : Block → Bool
  | .para c => brRun c || linkRun c || imgRun c
  | b => isDeep2Block b

/-- a document of rules, code blocks, headings with two levels of emphasis, and paragraphs that are of `BrDoc`, or one
    line with inline links (`linkRun`), or one line with inline images (`imgRun`); contains `LinkDoc` -/
def ImgDoc (d : Doc) : Bool := d.all isImgBlock

/-! ### links in headings -/

/-- the content of a heading with links: as `linkRun`; a heading is never a reference definition, so a link that
    starts it may have brackets in its text -/
def linkRunH (c : List Inline) : Bool := c.all isLinkItem && noBsBeforeCode c

/-- as `isLinkBlock`, and an ATX or Setext heading may be a line of `linkRunH` -/
def isLinkHBlock : Block → Bool
  | .para c => brRun c || linkRun c
  | .atx _ c => deep2Run c || linkRunH c
  | .setext _ c => deep2Run c || linkRunH c
  | b => isDeep2Block b

/-- contains `LinkDoc` -/
def LinkHDoc (d : Doc) : Bool := d.all isLinkHBlock

/-! ### everything together -/

/-- paragraphs of `BrDoc`, or one line with links, or one line with images; headings of `Deep2Doc`, or with links, or
    with images -/
def isLinkImgBlock : Block → Bool
  | .para c => brRun c || linkRun c || imgRun c
  | .atx _ c => deep2Run c || linkRunH c || imgRun c
  | .setext _ c => deep2Run c || linkRunH c || imgRun c
  | b => isDeep2Block b

/-- contains `ImgDoc` and `LinkHDoc` -/
def LinkImgDoc (d : Doc) : Bool := d.all isLinkImgBlock

/-! ### links and images in the same line -/

/-- an item of `isMixItem`, an inline link as in `isLinkItem`, or an inline image as in `isImgItem` -/
def isLinkImgItem : Inline → Bool
  | .link c d _ => c.all isMixItem && noBsBeforeCode c && simpleDest d
  | .image _ d _ => simpleDest d
  | x => isMixItem x

/-- one line of words, escapes, code spans, emphasised words, inline links and inline images, in any order; a link that
    starts the paragraph has no bracket in its printed text (`firstLinkOK`) -/
def mixedRun (c : List Inline) : Bool := c.all isLinkImgItem && noBsBeforeCode c && firstLinkOK c

/-- the same in a heading (no `firstLinkOK`: a heading is never a reference definition) -/
def mixedRunH (c : List Inline) : Bool := c.all isLinkImgItem && noBsBeforeCode c

/-- paragraphs of `BrDoc` or one line of `mixedRun`; headings of `Deep2Doc` or one line of `mixedRunH` -/
def isMixedBlock : Block → Bool
  | .para c => brRun c || mixedRun c
  | .atx _ c => deep2Run c || mixedRunH c
  | .setext _ c => deep2Run c || mixedRunH c
  | b => isDeep2Block b

/-- contains `LinkImgDoc`: links and images may stand in the same paragraph or heading -/
def MixedDoc (d : Doc) : Bool := d.all isMixedBlock

/-! ### … and hard breaks in the same paragraph -/

/-- a hard break, or an item of `isLinkImgItem` -/
def isLinkImgBrItem : Inline → Bool
  | .br => true
  | x => isLinkImgItem x

/-- a link that starts a LINE of the paragraph — the first one, or the line after a hard break — has no bracket in its
    printed text: `[a]: b](u)` at the start of any line of a paragraph is a reference definition -/
def lineLinksOKAux : Bool → List Inline → Bool
  | _, [] => true
  | atStart, x :: r =>
    (match x with
     | .link c _ _ => !atStart || c.all noBracketItem
     | _ => true) && lineLinksOKAux (isBr x) r

def lineLinksOK (c : List Inline) : Bool := lineLinksOKAux true c

/-- several lines of words, escapes, code spans, emphasised words, inline links and inline images, in any order, with
    hard breaks between the lines -/
def mixedBrRun (c : List Inline) : Bool := c.all isLinkImgBrItem && noBsBeforeCode c && lineLinksOK c

/-- as `isMixedBlock`, and a paragraph may be of `mixedBrRun` -/
def isMixedBrBlock : Block → Bool
  | .para c => brRun c || mixedRun c || mixedBrRun c
  | .atx _ c => deep2Run c || mixedRunH c
  | .setext _ c => deep2Run c || mixedRunH c
  | b => isDeep2Block b

/-- contains `MixedDoc`: a paragraph with links and images may have several lines -/
def MixedBrDoc (d : Doc) : Bool := d.all isMixedBrBlock

end MdVerif.DocSpec
