/-
Specification-level notions for C16 (attribute lists): the documented items of an attribute list, how they are
written, the pair each one stands for, and which names / values can be written in which form.
-/
import MdVerif.Model.Ext.AttrList

namespace MdVerif.AttrList.Spec
open MdVerif.AttrList

/-- how the value of a `key=value` item is written -/
inductive Quote
  | bare          -- `key=value`
  | dq            -- `key="value"`
  | sq            -- `key='value'`
  deriving DecidableEq, Repr

/-- the items of the documented syntax: `#id`, `.class`, a single word (`checked`), `key=value` -/
inductive AttrItem
  | id (x : Str)
  | cls (c : Str)
  | flag (w : Str)
  | kv (k v : Str) (q : Quote)
  deriving DecidableEq, Repr

def printItem : AttrItem → Str
  | .id x => '#' :: x
  | .cls c => '.' :: c
  | .flag w => w
  | .kv k v .bare => k ++ '=' :: v
  | .kv k v .dq => k ++ '=' :: '"' :: v ++ ['"']
  | .kv k v .sq => k ++ '=' :: '\'' :: v ++ ['\'']

/-- the items separated by single blanks -/
def printAttrs : List AttrItem → Str
  | [] => []
  | [a] => printItem a
  | a :: b :: r => printItem a ++ ' ' :: printAttrs (b :: r)

/-- the `(key, value)` pair `get_attrs` is to return for an item (`'.'` marks a class, `'id'` the id) -/
def toPair : AttrItem → Str × Str
  | .id x => (['i', 'd'], x)
  | .cls c => (['.'], c)
  | .flag w => (w, w)
  | .kv k v _ => (k, v)

/-- made of characters other than blank, `=`, `}` -/
def IsWord (s : Str) : Prop := ∀ c ∈ s, wordChar c = true

instance (s : Str) : Decidable (IsWord s) := by unfold IsWord; infer_instance

/-- which items can be written: names and bare values are non-empty words; a bare value does not start with a
    quote; a quoted value holds neither its quote nor a line feed (it may hold blanks, `=`, `}` and be empty);
    a single word does not start with `.` or `#` (it would be a class / an id) -/
def ItemOk : AttrItem → Prop
  | .id x => IsWord x
  | .cls c => IsWord c
  | .flag w => w ≠ [] ∧ IsWord w ∧ w.head? ≠ some '.' ∧ w.head? ≠ some '#'
  | .kv k v .bare => k ≠ [] ∧ IsWord k ∧ v ≠ [] ∧ IsWord v ∧ v.head? ≠ some '"' ∧ v.head? ≠ some '\''
  | .kv k v .dq => k ≠ [] ∧ IsWord k ∧ '"' ∉ v ∧ '\n' ∉ v
  | .kv k v .sq => k ≠ [] ∧ IsWord k ∧ '\'' ∉ v ∧ '\n' ∉ v

instance : DecidablePred ItemOk := fun i => by
  cases i with
  | id x => unfold ItemOk; infer_instance
  | cls c => unfold ItemOk; infer_instance
  | flag w => unfold ItemOk; infer_instance
  | kv k v q => cases q <;> (unfold ItemOk; infer_instance)

/-- what may stand between the braces so that `BASE_RE` captures it whole: not empty, on one line, not starting
    with a blank, `}` or (it would be taken for the optional colon of `{:`) `:` -/
def BodyOk (b : Str) : Prop :=
  b ≠ [] ∧ b.head? ≠ some ' ' ∧ b.head? ≠ some '}' ∧ b.head? ≠ some '\n' ∧ b.head? ≠ some ':' ∧ '\n' ∉ b

instance (b : Str) : Decidable (BodyOk b) := by unfold BodyOk; infer_instance

/-- what `BASE_RE` can capture at all: not empty, on one line, not starting with a blank or `}` -/
def GroupOk (g : Str) : Prop :=
  g ≠ [] ∧ g.head? ≠ some ' ' ∧ g.head? ≠ some '}' ∧ g.head? ≠ some '\n' ∧ '\n' ∉ g

/-- the end of the text or its final line feed -/
def AtEnd (tl : Str) : Prop := tl = [] ∨ tl = ['\n']

instance (tl : Str) : Decidable (AtEnd tl) := by unfold AtEnd; infer_instance

/-- `{` + optional `:` + blanks — what `BASE_RE` allows before the captured group -/
def opening (colon : Bool) (n : Nat) : Str := '{' :: ((if colon then [':'] else []) ++ List.replicate n ' ')

/-- the value last given to the attribute `name` by the pairs (`k=v`, `#x`, a single word), `'.'` pairs apart -/
def lastSet (name : Str) : List (Str × Str) → Option Str
  | [] => none
  | p :: ps =>
    match lastSet name ps with
    | some v => some v
    | none => if p.1 ≠ ['.'] ∧ sanitizeName p.1 = name then some p.2 else none

/-- the value of the last pair whose key is `key` -/
def lastValue (key : Str) : List (Str × Str) → Option Str
  | [] => none
  | p :: ps =>
    match lastValue key ps with
    | some v => some v
    | none => if p.1 = key then some p.2 else none

/-- the values of the `'.'` pairs, in order -/
def dots (pairs : List (Str × Str)) : List Str := (pairs.filter (fun p => p.1 = ['.'])).map (·.2)

/-- a non-empty existing class, as a list of 0 or 1 strings -/
def existingClass (a : Attrs) : List Str :=
  match getA a classKey with
  | some (c :: cs) => [c :: cs]
  | _ => []

end MdVerif.AttrList.Spec
