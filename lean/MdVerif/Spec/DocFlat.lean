/-
Vocabulary of the C01 theorems of `Props/C01.lean`: the sub-grammars of `Doc` for which the conversion is proved
(`FlatDoc`: top-level rules, paragraphs, ATX and Setext headings whose content is words and backslash escapes), and
the characters such content stands for (`plainOf`).
-/
import MdVerif.Spec.Doc

namespace MdVerif.DocSpec
open MdVerif MdVerif.Py

/-- words or a backslash escape -/
def isTextEsc : Inline → Bool
  | .text _ => true
  | .esc _ => true
  | _ => false

/-- inline content made of words and backslash escapes only -/
def plainRun (c : List Inline) : Bool := c.all isTextEsc

/-- the characters such content stands for: the words, and the escaped characters themselves -/
def plainOf : List Inline → Str
  | [] => []
  | .text w :: r => w ++ plainOf r
  | .esc c :: r => c :: plainOf r
  | _ :: r => plainOf r

/-- a rule, or a paragraph / ATX heading / Setext heading whose content is words and escapes -/
def isFlatBlock : Block → Bool
  | .rule => true
  | .para c => plainRun c
  | .atx _ c => plainRun c
  | .setext _ c => plainRun c
  | _ => false

/-- a document made of such blocks (all at top level) -/
def FlatDoc (d : Doc) : Bool := d.all isFlatBlock

end MdVerif.DocSpec
