/-
Specification side of C06 (block-parser half): the *letters* of a source text and of an element tree.

* `LetterClass isLetter`: the only thing assumed of the predicate "is a letter of running text" is that a letter is
  none of the characters the block parser reads or writes as markup: white space (`str.isspace`), a decimal digit
  (`\d`, the marker of an ordered list) and `# = - _ * + . > &`.  Every alphabet of every script satisfies it;
  `stdLetter` is the largest such class.
* `letters s`: the letters of a string, in order.
* `docLetters n`: the letters of a tree in document order: the text of the node, then every child followed by its tail.
  The text of a `code` element is already HTML-escaped (`util.code_escape`, stored as an `AtomicString`): there an entity
  reference `&…;` is markup (`escLetters`); the reader sees `>` for `&gt;`.
* `queueLetters blocks`: the letters of the blocks still to be parsed.

The second half of the file are the (decidable) invariants under which one turn of the parser loop conserves letters
*in order*: `treeOk` on the tree built so far, `plain` on the pending blocks, `listInv` relating the parser state to the
parent and the pending blocks.  They hold at the start (`inv_start` in `Lemmas/BlockConserve.lean`) and are maintained.
-/
import MdVerif.Model.Block

namespace MdVerif.Letters
open Py MdVerif.Block

/-! ### letters -/

/-- the markup characters of the block parser that are not white space or digits -/
def markupChars : List Char := ['#', '=', '-', '_', '*', '+', '.', '>', '&']

/-- "is a letter of running text": any predicate that is false on the block parser's markup characters -/
structure LetterClass (isLetter : Char → Bool) : Prop where
  not_space : ∀ c, isLetter c = true → isSpace c = false
  not_decimal : ∀ c, isLetter c = true → isDecimal c = false
  not_markup : ∀ c, isLetter c = true → c ∉ markupChars

/-- the largest letter class: everything that is not markup to the block parser -/
def stdLetter (c : Char) : Bool := !isSpace c && !isDecimal c && !markupChars.contains c

/-- the letters of a string, in order -/
def letters (isLetter : Char → Bool) (s : Str) : Str := s.filter isLetter

/-- letters of an HTML-escaped string: the characters of an entity reference, from `&` to the next `;`, are markup.
    The flag says that the scan is inside a reference. -/
def escLetters (isLetter : Char → Bool) : Bool → Str → Str
  | _, [] => []
  | true, c :: r => if c = ';' then escLetters isLetter false r else escLetters isLetter true r
  | false, c :: r =>
    if c = '&' then escLetters isLetter true r
    else if isLetter c then c :: escLetters isLetter false r
    else escLetters isLetter false r

/-- the scan of `escLetters` ends outside a reference -/
def escClosed : Bool → Str → Bool
  | b, [] => !b
  | true, c :: r => if c = ';' then escClosed false r else escClosed true r
  | false, c :: r => if c = '&' then escClosed true r else escClosed false r

def optLetters (isLetter : Char → Bool) (t : Option Str) : Str := letters isLetter (t.getD [])

/-- letters of the `text` of an element with this tag -/
def textLetters (isLetter : Char → Bool) (tag : Tag) (text : Option Str) : Str :=
  if tag = .name "code".toList then escLetters isLetter false (text.getD []) else optLetters isLetter text

mutual
/-- letters of a tree in document order (the tail of the root is not part of the tree) -/
def docLetters (isLetter : Char → Bool) : Node → Str
  | ⟨tag, _, text, _, children, _, _⟩ => textLetters isLetter tag text ++ kidsLetters isLetter children
/-- letters of a list of siblings: each one followed by its tail -/
def kidsLetters (isLetter : Char → Bool) : List Node → Str
  | [] => []
  | c :: r => docLetters isLetter c ++ optLetters isLetter c.tail ++ kidsLetters isLetter r
end

/-- letters of the pending blocks, in order -/
def queueLetters (isLetter : Char → Bool) : List Str → Str
  | [] => []
  | b :: r => letters isLetter b ++ queueLetters isLetter r

/-! ### the domain -/

/-- no link / reference syntax, no entity reference, no raw HTML: none of `[`, `&`, `<` -/
def plainChar (c : Char) : Bool := c != '[' && c != '&' && c != '<'
def plain (s : Str) : Bool := s.all plainChar

/-! ### invariants of the parser loop -/

/-- elements whose tail `ParagraphProcessor` may write (in a tight list item): not one the other processors re-enter -/
def tailSafe (c : Node) : Bool := !(isListTag c || isItemTag c || c.isTag "blockquote" || c.isTag "pre")

/-- a `pre` whose first child is a `code` (what `CodeBlockProcessor` appends to): the `code` has a text, closed
    w.r.t. entity references, and nothing follows that text inside the `pre` -/
def preOk (isLetter : Char → Bool) (c : Node) : Bool :=
  !c.isTag "pre" ||
  match c.children with
  | code :: rest =>
    !code.isTag "code" ||
      (code.text.isSome && escClosed false (code.text.getD []) && (kidsLetters isLetter code.children).isEmpty &&
        !Node.truthy code.tail && rest.isEmpty)
  | [] => true

/-- a `code` element (escaped text) occurs only as a child of a `pre` -/
def kidsGood (c : Node) : Bool := c.isTag "pre" || c.children.all (fun k => !k.isTag "code")

/-- what is required of one element below the root -/
def localOk (isLetter : Char → Bool) (c : Node) : Bool :=
  (tailSafe c || (optLetters isLetter c.tail).isEmpty) && preOk isLetter c && kidsGood c

mutual
def nodeOk (isLetter : Char → Bool) : Node → Bool
  | ⟨tag, attrs, text, ta, children, tail, tla⟩ =>
    localOk isLetter ⟨tag, attrs, text, ta, children, tail, tla⟩ && kidsOk isLetter children
def kidsOk (isLetter : Char → Bool) : List Node → Bool
  | [] => true
  | c :: r => nodeOk isLetter c && kidsOk isLetter r
end

/-- every element strictly below `parent` is `localOk`, and `parent` is `kidsGood` -/
def treeOk (isLetter : Char → Bool) (parent : Node) : Bool := kidsOk isLetter parent.children && kidsGood parent

/-- the last child of `parent`, if any, is `tailSafe` -/
def lastSafe (parent : Node) : Bool :=
  match parent.last? with
  | some c => tailSafe c
  | none => true

/-- in state `list` (a tight list item is being parsed) the parent is the `li`, at most one block is pending, and it
    is either indented (→ `ListIndentProcessor`) or the last child of the `li` is `tailSafe` -/
def listInv (tab : Nat) (state : List BState) (parent : Node) (blocks : List Str) : Bool :=
  !isstate state .list ||
    (isItemTag parent &&
      match blocks with
      | [] => true
      | [b] => startsWith b (spaces tab) || lastSafe parent
      | _ => false)

/-- the invariant of `parseBlocks` -/
def inv (isLetter : Char → Bool) (tab : Nat) (state : List BState) (parent : Node) (blocks : List Str) : Bool :=
  treeOk isLetter parent && blocks.all plain && listInv tab state parent blocks

/-! ### the conservation statements -/

/-- A call of the parser loop that turned `parent` into `parent'` while consuming `blocks` **conserves letters**: the
    letters of `blocks` were added, in order, at the end of the document order of `parent`, nothing else changed in it;
    the tree is still `treeOk`, and the root kept its tag and tail. -/
def CallConserves (isLetter : Char → Bool) (parent : Node) (blocks : List Str) (parent' : Node) : Prop :=
  docLetters isLetter parent' = docLetters isLetter parent ++ queueLetters isLetter blocks ∧
    treeOk isLetter parent' = true ∧ parent'.tag = parent.tag ∧ parent'.tail = parent.tail

/-- `pb` (the recursive call `parser.parseBlocks` handed to the processors) conserves letters whenever it returns,
    from every state satisfying `inv` -/
def ConservesPB (isLetter : Char → Bool) (tab : Nat) (pb : PB) : Prop :=
  ∀ state refs parent blocks parent' refs', inv isLetter tab state parent blocks = true →
    pb state refs parent blocks = some (parent', refs') → CallConserves isLetter parent blocks parent'

/-- One turn of the loop took the block `b` off the queue `b :: rest` and left `parent'` and the queue `blocks'`:
    tree and queue together have the same letters in the same order, and `inv` holds again. -/
def TurnConserves (isLetter : Char → Bool) (tab : Nat) (state : List BState) (parent : Node) (b : Str)
    (rest : List Str) (parent' : Node) (blocks' : List Str) : Prop :=
  docLetters isLetter parent' ++ queueLetters isLetter blocks' =
      docLetters isLetter parent ++ letters isLetter b ++ queueLetters isLetter rest ∧
    inv isLetter tab state parent' blocks' = true ∧ parent'.tag = parent.tag ∧ parent'.tail = parent.tail

end MdVerif.Letters
