/-
A strict reader of serialised (X)HTML, the specification side of C14 / C05.

* `lenient` reads a *source* string the way a tolerant HTML reader would: a well-formed entity reference is one
  token (the basic ones denote their character), every other character — including a bare `&`, `<`, `>` — is itself.
* `strict` reads an *output* string and fails on anything that could be mistaken for markup: `<`, `>`, (`"` inside an
  attribute value) and any `&` that does not start an entity reference.
* `readForest` is a strict recursive-descent reader of the element syntax the serializer writes: every element closed and
  properly nested, every attribute value double-quoted (or, in html, a bare boolean attribute), no attribute name twice in
  a tag, text read by `strict`.

"Entity reference" is read as the code reads it (`RE_AMP`): the name may start with a digit.
-/
import MdVerif.Model.Serializer

namespace MdVerif.Ser
open Py

inductive Tok
  | ch (c : Char)
  | ent (body : Str)          -- entity reference `&body;`
  deriving DecidableEq, Repr

/-- which characters are escaped in this position -/
structure Mode where
  quot : Bool := false      -- attribute value: `"` is escaped
  nl : Bool := false        -- `_escape_attrib`: line feed written as `&#10;`
  deriving DecidableEq, Repr

def cdata : Mode := {}
def attr : Mode := { quot := true }
def attrNl : Mode := { quot := true, nl := true }

def tokOf (m : Mode) (body : Str) : Tok :=
  if body = "amp".toList then .ch '&' else if body = "lt".toList then .ch '<'
  else if body = "gt".toList then .ch '>'
  else if m.quot && body = "quot".toList then .ch '"'
  else if m.nl && body = "#10".toList then .ch '\n'
  else .ent body

/-- tolerant reader; the counter = characters of the current entity still to skip -/
def lenient (m : Mode) : Nat → Str → List Tok
  | _, [] => []
  | k + 1, _ :: r => lenient m k r
  | 0, c :: r =>
    if c = '&' then
      match entLen r with
      | some n => tokOf m (r.take (n - 1)) :: lenient m n r
      | none => .ch '&' :: lenient m 0 r
    else .ch c :: lenient m 0 r

/-- strict reader -/
def strict (m : Mode) : Nat → Str → Option (List Tok)
  | _, [] => some []
  | k + 1, _ :: r => strict m k r
  | 0, c :: r =>
    if c = '&' then
      match entLen r with
      | some n => (strict m n r).map (tokOf m (r.take (n - 1)) :: ·)
      | none => none
    else if c = '<' || c = '>' then none
    else if m.quot && c = '"' then none
    else (strict m 0 r).map (.ch c :: ·)

/-! ### trees -/

inductive RNode
  | elem (tag : Str) (attrs : List (Str × List Tok)) (kids : List RNode)
  | text (toks : List Tok)
  | comment (s : Str)
  | pi (s : Str)
  | raw (s : Str)             -- verbatim text of script / style
  deriving Repr

def isNameChar (c : Char) : Bool := isAsciiAlnum c || c = '-' || c = '_' || c = ':' || c = '.'
def isName (s : Str) : Bool := !s.isEmpty && s.all isNameChar

/-- split at the first occurrence of `pat`: (before, after) -/
def splitAt? (pat s : Str) : Option (Str × Str) :=
  match find pat s with
  | some i => some (s.take i, s.drop (i + pat.length))
  | none => none

/-- attributes up to and including the end of the start tag; `Bool` = written as ` />` -/
def readAttrs (fmt : Fmt) : Nat → Str → Option (List (Str × List Tok) × Bool × Str)
  | 0, _ => none
  | fuel + 1, s =>
    match s with
    | '>' :: r => some ([], false, r)
    | ' ' :: '/' :: '>' :: r => if fmt = .xhtml then some ([], true, r) else none
    | ' ' :: r =>
      let k := r.takeWhile isNameChar
      let r1 := r.dropWhile isNameChar
      if k.isEmpty then none else
      match r1 with
      | '=' :: '"' :: r2 =>
        match splitAt? ['"'] r2 with
        | none => none
        | some (v, r3) =>
          match strict attr 0 v, readAttrs fmt fuel r3 with
          | some toks, some (as, sc, rest) =>
            if as.any (fun kv => kv.1 = k) then none else some ((k, toks) :: as, sc, rest)   -- no duplicate names
          | _, _ => none
      | _ =>
        if fmt = .html then
          match readAttrs fmt fuel r1 with
          | some (as, sc, rest) =>
            if as.any (fun kv => kv.1 = k) then none else some ((k, k.map Tok.ch) :: as, sc, rest)
          | none => none
        else none
    | _ => none

/-- expect `</tag>` -/
def readClose (tag s : Str) : Option Str :=
  if startsWith s ("</".toList ++ tag ++ ['>']) then some (s.drop (tag.length + 3)) else none

mutual
/-- items up to the next `</` (or the end of input); returns the unread rest -/
def readContent (fmt : Fmt) : Nat → Str → Option (List RNode × Str)
  | 0, _ => none
  | fuel + 1, s =>
    match s with
    | [] => some ([], [])
    | '<' :: '/' :: _ => some ([], s)
    | '<' :: '!' :: '-' :: '-' :: r =>
      match splitAt? "-->".toList r with
      | none => none
      | some (c, r1) => (readContent fmt fuel r1).map (fun (ns, rest) => (.comment c :: ns, rest))
    | '<' :: '?' :: r =>
      match splitAt? "?>".toList r with
      | none => none
      | some (c, r1) => (readContent fmt fuel r1).map (fun (ns, rest) => (.pi c :: ns, rest))
    | '<' :: r =>
      match readElem fmt fuel r with
      | none => none
      | some (n, r1) => (readContent fmt fuel r1).map (fun (ns, rest) => (n :: ns, rest))
    | c :: r =>
      let t := (c :: r).takeWhile (· ≠ '<')
      let r1 := (c :: r).dropWhile (· ≠ '<')
      match strict cdata 0 t with
      | none => none
      | some toks => (readContent fmt fuel r1).map (fun (ns, rest) => (.text toks :: ns, rest))
/-- an element, the input positioned just after its `<` -/
def readElem (fmt : Fmt) : Nat → Str → Option (RNode × Str)
  | 0, _ => none
  | fuel + 1, r =>
    let t := r.takeWhile isNameChar
    let r0 := r.dropWhile isNameChar
    if t.isEmpty then none else
    match readAttrs fmt (r0.length + 1) r0 with
    | none => none
    | some (as, selfClosed, r1) =>
      if selfClosed then (if isEmptyTag t then some (.elem t as [], r1) else none)
      else if isEmptyTag t then (if fmt = .html then some (.elem t as [], r1) else none)
      else if isRawTextTag t then
        let body := r1.takeWhile (· ≠ '<')
        let r2 := r1.dropWhile (· ≠ '<')
        (readClose t r2).map (fun rest => (.elem t as (if body.isEmpty then [] else [.raw body]), rest))
      else
        match readContent fmt fuel r1 with
        | none => none
        | some (kids, r2) => (readClose t r2).map (fun rest => (.elem t as kids, rest))
end

/-- read a whole fragment; every character must be consumed -/
def readForest (fmt : Fmt) (s : Str) : Option (List RNode) :=
  match readContent fmt (s.length + 1) s with
  | some (ns, []) => some ns
  | _ => none

/-! ### what the reader must return for a tree: `canon` -/

/-- merge adjacent text items and drop empty ones -/
def mergeTexts : List RNode → List RNode
  | [] => []
  | .text a :: r =>
    match mergeTexts r with
    | .text b :: r' => .text (a ++ b) :: r'
    | r' => if a.isEmpty then r' else .text a :: r'
  | n :: r => n :: mergeTexts r

def textItem (t : Option Str) : List RNode :=
  if Node.truthy t then [.text (lenient cdata 0 (t.getD []))] else []

mutual
/-- the items a node contributes to its parent's content (before merging of adjacent texts) -/
def canonItems : Node → List RNode
  | ⟨tag, attrs, text, _, children, tail, _⟩ =>
    (match tag with
     | .comment => [.comment (escCdata (text.getD []))]
     | .pi => [.pi (escCdata (text.getD []))]
     | .none => textItem text ++ canonList children
     | .qname _ => []
     | .name t =>
       let as := (sortAttrs attrs).map (fun kv => (kv.1, lenient attr 0 kv.2))
       if isEmptyTag t then [.elem t as []]
       else if isRawTextTag t then [.elem t as (if Node.truthy text then [.raw (text.getD [])] else [])]
       else [.elem t as (mergeTexts (textItem text ++ canonList children))])
    ++ textItem tail
def canonList : List Node → List RNode
  | [] => []
  | n :: r => canonItems n ++ canonList r
end

def canon (n : Node) : List RNode := mergeTexts (canonItems n)

/-! ### well-formed trees: the domain of the round-trip theorem -/

def keysNodup : List (Str × Str) → Bool
  | [] => true
  | kv :: r => !(r.any (fun x => x.1 = kv.1)) && keysNodup r

mutual
def WFTree : Node → Bool
  | ⟨tag, attrs, text, _, children, _, _⟩ =>
    (match tag with
     | .comment => children.isEmpty
     | .pi => children.isEmpty
     | .none => true
     | .qname _ => false
     | .name t =>
       isName t && attrs.all (fun kv => isName kv.1) && keysNodup attrs &&
       (if isEmptyTag t then !Node.truthy text && children.isEmpty        -- void elements are empty (else F-C14-1)
        else if isRawTextTag t then children.isEmpty && !(text.getD []).contains '<'
        else true))
    && WFList children
def WFList : List Node → Bool
  | [] => true
  | n :: r => WFTree n && WFList r
end

end MdVerif.Ser
