/-
The element vocabulary of Markdown as ONE per-node predicate (specification side of C05, inline stage and after).

* `vocabTags` / `attrNames` / `voidTags`: the element names, attribute names and void elements of the property text.
* `nodeOk ts tag attrs text children`: the node is an ordinary element (never a comment, a processing instruction, a
  `None`-tag or a `QName`) whose name is in the list `ts`, whose attribute names are allowed and pairwise distinct,
  and — when it is `hr`, `br` or `img` — carries no text and no children.
* `GoodT ts n`: `nodeOk ts` holds at every node of the tree `n`;  `GoodListT ts ns`: for every tree of the forest
  `ns`;  `Good` / `GoodList`: for `ts = vocabTags` (name in the vocabulary).
* `DocOk root`: what the pipeline hands to the serializer: the wrapper `div` (stripped from the output afterwards),
  without attributes, around a `GoodList` content.  `div` occurs only there.
* `inlineTags`: the elements the inline stage creates.
* `RGood` / `RGoodList`: the vocabulary condition on the items the strict reader `Ser.readForest` returns.
* `inner fmt root`: the serialisation of the content of the wrapper `div`.
* `entRef e`: `e` is one entity reference (shape of the raw-HTML stash entries for `<`-free text).

`Good n` is the conjunction of `Vocab.vocabNode n` and `Vocab.voidOk n` of `MdVerif/Spec/Vocab.lean` (the block-stage
formulation); `Lemmas/InlineVocab.lean` proves the equivalence (`good_iff_vocab`).
-/
import MdVerif.Spec.Reader

namespace MdVerif.Vocab2
open Py

def vocabTags : List String :=
  ["p", "h1", "h2", "h3", "h4", "h5", "h6", "ul", "ol", "li", "blockquote", "pre", "code", "hr", "br",
   "em", "strong", "a", "img"]

def attrNames : List String := ["href", "title", "src", "alt"]

def voidTags : List String := ["hr", "br", "img"]

/-- the elements the inline stage creates -/
def inlineTags : List String := ["code", "em", "strong", "a", "img", "br"]

def hasTag (ts : List String) (t : Str) : Bool := ts.any (fun e => e.toList = t)
def isVocabTag (t : Str) : Bool := hasTag vocabTags t
def isInlineTag (t : Str) : Bool := hasTag inlineTags t
def attrOk (k : Str) : Bool := attrNames.any (fun e => e.toList = k)
def isVoidTag (t : Str) : Bool := voidTags.any (fun e => e.toList = t)

/-- attribute names allowed and pairwise distinct (`attrib` is a `dict` in the code) -/
def attrsOk (attrs : List (Str × Str)) : Bool := attrs.all (fun kv => attrOk kv.1) && Ser.keysNodup attrs

/-- the per-node condition, for the tag list `ts` -/
def nodeOk (ts : List String) (tag : Tag) (attrs : List (Str × Str)) (text : Option Str) (children : List Node) :
    Bool :=
  match tag with
  | .name t => hasTag ts t && attrsOk attrs && (!isVoidTag t || (!Node.truthy text && children.isEmpty))
  | _ => false

mutual
def GoodT (ts : List String) : Node → Bool
  | ⟨tag, attrs, text, _, children, _, _⟩ => nodeOk ts tag attrs text children && GoodListT ts children
def GoodListT (ts : List String) : List Node → Bool
  | [] => true
  | n :: r => GoodT ts n && GoodListT ts r
end

/-- every node is a well-formed element of Markdown's vocabulary -/
abbrev Good (n : Node) : Bool := GoodT vocabTags n
abbrev GoodList (ns : List Node) : Bool := GoodListT vocabTags ns

/-- the tree handed to the serializer: the wrapper `div` around vocabulary content -/
def DocOk (root : Node) : Bool :=
  root.tag == .name "div".toList && root.attrs.isEmpty && GoodList root.children

/-! ### the same vocabulary on what the strict reader returns -/

mutual
/-- an item read back by `Ser.readForest`: text, or an element of the vocabulary with allowed attribute names whose
    content is again such items; a void element has no content; never a comment, a PI or raw text -/
def RGood : Ser.RNode → Bool
  | .elem t as kids =>
    isVocabTag t && as.all (fun kv => attrOk kv.1) && (!isVoidTag t || kids.isEmpty) && RGoodList kids
  | .text _ => true
  | _ => false
def RGoodList : List Ser.RNode → Bool
  | [] => true
  | n :: r => RGood n && RGoodList r
end

/-- the content of the wrapper `div` as the serializer writes it: what remains after `Markdown.convert` has cut
    `<div>` … `</div>` off (before the surrounding white space is stripped) -/
def inner (fmt : Ser.Fmt) (root : Node) : Str :=
  (if Node.truthy root.text then Ser.escCdata (root.text.getD []) else []) ++ Ser.serializeList fmt root.children

/-- a single entity reference `&…;` as the serializer's `RE_AMP` accepts it (`Ser.entLen` consumes the whole body) -/
def entRef (e : Str) : Bool :=
  match e with
  | '&' :: b => Ser.entLen b == some b.length
  | _ => false

end MdVerif.Vocab2
