/-
Vocabulary of the C10 statements ("the converter's internal placeholders never reach the output").

* `NoCtl s`: neither STX nor ETX in `s`; `Node.Forall P t`: `P` holds at every element of the tree `t`.
* the *tokens* the converter splices into strings: inline placeholders `STX klzzwxh:NNNN ETX` (`Inline.placeholder`)
  and escape tokens `STX <decimal code> ETX`; `WF esc k s`: `s` is a concatenation of ordinary characters, inline
  placeholders with an id `< k`, and (when `esc`) escape tokens with an acceptable code.  `WF esc 0 s` therefore says
  "no inline placeholder at all", `WF false 0 s` is `NoCtl s`.
* the invariants of the inline engine: `StOK` (the stash), `SNode` (an element in the stash), `TNode` (an element of
  the tree between two runs of `handleInline`), `FNode` (an element of the tree handed to the tree processors).
* occurrences of tokens, for the post-conditions of the restore steps: `hasEscSeq`, `hasAmpSub`, `hasLiveHtmlPh`.
* the source domains of the end-to-end statements: `C10DomainE`, `C10DomainPlain`.

Nothing here is used by the executable model of the code.
-/
import MdVerif.Model.Pipeline

namespace MdVerif.NoCtl
open Py Inline

/-- `util.STX` (the same character as `Normalize.STX`, `TreeProc.STX`, `Post.STX`) -/
abbrev STX : Char := Inline.STX
/-- `util.ETX` -/
abbrev ETX : Char := Inline.ETX

/-- neither STX nor ETX occurs -/
def NoCtl (s : Str) : Prop := STX ∉ s ∧ ETX ∉ s

instance (s : Str) : Decidable (NoCtl s) := by unfold NoCtl; infer_instance

/-- `NoCtl` of an optional string (`None` holds nothing) -/
def NoCtlO (t : Option Str) : Prop := NoCtl (t.getD [])

/-! ### trees -/

mutual
/-- `P` holds at every element of the tree -/
def _root_.MdVerif.Node.Forall (P : Node → Prop) : Node → Prop
  | ⟨tag, attrs, text, ta, children, tail, tla⟩ =>
    P ⟨tag, attrs, text, ta, children, tail, tla⟩ ∧ Node.ForallL P children
def _root_.MdVerif.Node.ForallL (P : Node → Prop) : List Node → Prop
  | [] => True
  | c :: r => Node.Forall P c ∧ Node.ForallL P r
end

def tagNoCtl : Tag → Prop
  | .name s => NoCtl s
  | .qname s => NoCtl s
  | _ => True

def attrsNoCtl (attrs : List (Str × Str)) : Prop := ∀ kv ∈ attrs, NoCtl kv.1 ∧ NoCtl kv.2

/-- tag, attribute names and values, text and tail of this element are free of STX and ETX -/
def NodeNoCtl (n : Node) : Prop := tagNoCtl n.tag ∧ attrsNoCtl n.attrs ∧ NoCtlO n.text ∧ NoCtlO n.tail

/-- no STX and no ETX anywhere in the tree -/
def TreeNoCtl (t : Node) : Prop := t.Forall NodeNoCtl

/-- the element is a `code` element -/
def isCode (n : Node) : Bool := n.tag == .name "code".toList

/-! ### tokens -/

/-- characters that occur strictly inside a token (between its STX and its ETX) -/
def inner (c : Char) : Bool := isAsciiDigit c || ['k', 'l', 'z', 'w', 'x', 'h', ':'].contains c

/-- codes of escape tokens whose restoration yields an ordinary character: `chr(v)` exists and is neither STX nor
    ETX (the codes the converter writes are `ord(c)` for `c` in `ESCAPED_CHARS`, and 92) -/
def okCode (v : Nat) : Prop := v < 0x110000 ∧ v ≠ 2 ∧ v ≠ 3

instance (v : Nat) : Decidable (okCode v) := by unfold okCode; infer_instance

/-- the escape token `STX <code> ETX` that `EscapeInlineProcessor` and `BacktickInlineProcessor` write -/
def escToken (v : Nat) : Str := STX :: natToDec v ++ [ETX]

/-- `s` is made of ordinary characters, inline placeholders with id `< k` and, when `esc`, escape tokens -/
inductive WF (esc : Bool) (k : Nat) : Str → Prop
  | nil : WF esc k []
  | plain (c : Char) (s : Str) : c ≠ STX → c ≠ ETX → WF esc k s → WF esc k (c :: s)
  | ph (i : Nat) (s : Str) : i < k → WF esc k s → WF esc k (Inline.placeholder i ++ s)
  | tok (v : Nat) (s : Str) : esc = true → okCode v → WF esc k s → WF esc k (escToken v ++ s)

def WFO (esc : Bool) (k : Nat) (t : Option Str) : Prop := WF esc k (t.getD [])

/-! ### the character domain of the proved inline subset

Mode `esc = true`: backslash escapes allowed, no backtick.  Mode `esc = false`: backticks allowed, no backslash and no
`>` (so that `code_escape` is the identity).  In both: no `<`, `&`, `[`, `]`. -/

def domChar (esc : Bool) (c : Char) : Bool :=
  c != '<' && c != '&' && c != '[' && c != ']' && (if esc then c != '`' else c != '\\' && c != '>')

/-- every character is in the domain (STX, ETX and the characters of tokens are) -/
def DomS (esc : Bool) (s : Str) : Prop := ∀ c ∈ s, domChar esc c = true

instance (esc : Bool) (s : Str) : Decidable (DomS esc s) := by unfold DomS; infer_instance

def DomO (esc : Bool) (t : Option Str) : Prop := DomS esc (t.getD [])

/-! ### invariants of the inline engine -/

/-- a string slot (text or tail) of an element while the stash has `k` entries: ordinary characters of the domain,
    placeholders of entries `< k`, escape tokens (`ids_bounded`) -/
def StrW (esc : Bool) (k : Nat) (t : Option Str) : Prop := WFO esc k t ∧ DomO esc t

/-- an element made by a pattern (held in the stash, or below such an element): every placeholder in its text and
    tail refers to one of the first `k` stash entries.  A `code` element only exists in the mode without escape
    tokens. -/
def SNode (esc : Bool) (k : Nat) (n : Node) : Prop :=
  tagNoCtl n.tag ∧ attrsNoCtl n.attrs ∧ StrW esc k n.text ∧ StrW esc k n.tail ∧ (isCode n = true → esc = false)

/-- an element strictly below a stashed element: its text is not atomic (so `InlineProcessor.run` will visit it) -/
def DNode (esc : Bool) (k : Nat) (n : Node) : Prop := SNode esc k n ∧ n.textAtomic = false

/-- stash entry `i` mentions only entries before `i`; stashed strings mention none -/
def ItemOK (esc : Bool) (i : Nat) : Inline.StashItem → Prop
  | .str s => WF esc 0 s ∧ DomS esc s
  | .node n => SNode esc i n ∧ ∀ c ∈ n.children, c.Forall (DNode esc i)

/-- `ids_bounded` for the stash -/
def StOK (esc : Bool) (stash : List Inline.StashItem) : Prop :=
  ∀ i it, stash[i]? = some it → ItemOK esc i it

/-- an element of the tree during `InlineProcessor.run`, while the stash has `k` entries.  The atomic text of a `code`
    element (block parser: `code_escape` output) is free of STX/ETX and arbitrary otherwise; it is never visited.
    In the mode with escape tokens every `code` element is of that kind.  An atomic text holds no placeholder. -/
def WNode (esc : Bool) (k : Nat) (n : Node) : Prop :=
  tagNoCtl n.tag ∧ attrsNoCtl n.attrs ∧ StrW esc k n.tail ∧
  (if isCode n = true ∧ n.textAtomic = true then NoCtlO n.text else StrW esc k n.text) ∧
  (isCode n = true → esc = true → n.textAtomic = true) ∧
  (n.textAtomic = true → WFO esc 0 n.text)

/-- text and tail hold no inline placeholder -/
def Clean (esc : Bool) (n : Node) : Prop := WFO esc 0 n.text ∧ WFO esc 0 n.tail

/-- an element of the tree before and after `InlineProcessor.run`: no inline placeholder -/
def TNode (esc : Bool) (n : Node) : Prop := WNode esc 0 n

/-- an element of the tree handed to `UnescapeTreeprocessor`: escape tokens only, none in `code` text -/
def FNode (n : Node) : Prop :=
  tagNoCtl n.tag ∧ attrsNoCtl n.attrs ∧ WFO true 0 n.tail ∧ WFO true 0 n.text ∧ (isCode n = true → NoCtlO n.text)

/-! ### contracts of the pattern matchers and of `handleInline` -/

/-- the characters that may be escaped: none of them occurs inside a token -/
def EscOK (l : List Char) : Prop := ∀ c ∈ l, c ≠ STX ∧ c ≠ ETX ∧ inner c = false

/-- what is left of the data around a match can be spliced with a placeholder -/
def Splice (esc : Bool) (k : Nat) (data : Str) (start : Nat) (stop : Int) : Prop :=
  WF esc k (data.take start) ∧ WF esc k (pyDrop data stop)

/-- an element as a pattern returns it: its children and what is below them are plain elements with non-atomic
    texts -/
def RawNode (esc : Bool) (k : Nat) (n : Node) : Prop := SNode esc k n ∧ ∀ c ∈ n.children, c.Forall (DNode esc k)

/-- the contract of one match: `C10_*_stash_ok` -/
def FoundOK (esc : Bool) (k : Nat) (data : Str) (f : Found) : Prop :=
  match f.node with
  | .none => True
  | .str s => Splice esc k data f.start f.stop ∧ WF esc 0 s ∧ DomS esc s
  | .el n => Splice esc k data f.start f.stop ∧ RawNode esc k n

/-- the contract of `handleInline` on a whole text: the result is well formed with respect to the new stash
    (`ids_bounded`), the stash only grows, the HTML stash is not touched -/
def HISpec (esc : Bool) (cfg : Cfg) : Prop :=
  ∀ (data : Str) (st : St) (d : Str) (st' : St), WF esc st.stash.length data → DomS esc data → StOK esc st.stash →
    handleInlineTop cfg data st = some (d, st') →
    WF esc st'.stash.length d ∧ DomS esc d ∧ StOK esc st'.stash ∧ st.stash.length ≤ st'.stash.length ∧
      st'.html = st.html

/-! ### occurrences of tokens (post-conditions of the restore steps) -/

/-- at the start of `s`: STX, one or more `\d`, ETX — what `UnescapeTreeprocessor.RE` matches -/
def escSeqAt : Str → Bool
  | c :: r => c = STX && (let d := spanLen isDecimal r; d > 0 && r[d]? == some ETX)
  | [] => false

/-- `UnescapeTreeprocessor.RE.search(s)` succeeds -/
def hasEscSeq : Str → Bool
  | [] => false
  | c :: r => escSeqAt (c :: r) || hasEscSeq r

/-- the character written for the code `v` cannot take part in a new `STX \d+ ETX` sequence -/
def codeCharOk (v : Nat) : Bool :=
  let ch := Char.ofNat v
  !isDecimal ch && ch != STX && ch != ETX

/-- every sequence that `UnescapeTreeprocessor.RE.sub` replaces in `s` has a code with `codeCharOk`
    (same scan as `TreeProc.unescapeText`) -/
def codesOk : Nat → Str → Bool
  | _, [] => true
  | k + 1, _ :: s => codesOk k s
  | 0, c :: s =>
    if c = STX then
      let d := spanLen isDecimal s
      if d > 0 && s[d]? == some ETX then codeCharOk (decToNat (s.take d)) && codesOk (d + 1) s
      else codesOk 0 s
    else codesOk 0 s

/-- hypothesis of `C10_unescape_post`, per element -/
def CodesOkNode (n : Node) : Prop :=
  (isCode n = false → codesOk 0 (n.text.getD []) = true) ∧ codesOk 0 (n.tail.getD []) = true ∧
  ∀ kv ∈ n.attrs, codesOk 0 kv.2 = true

/-- conclusion of `C10_unescape_post`, per element: no `STX \d+ ETX` in the text (unless the element is `code`), the
    tail and the attribute values; attribute names are not looked at -/
def UnescPostNode (n : Node) : Prop :=
  (isCode n = false → hasEscSeq (n.text.getD []) = false) ∧ hasEscSeq (n.tail.getD []) = false ∧
  ∀ kv ∈ n.attrs, hasEscSeq kv.2 = false

/-- `util.AMP_SUBSTITUTE` occurs in `s` -/
def hasAmpSub (s : Str) : Bool := contains s Post.ampSubstitute

/-- at the start of `s`: a raw-HTML placeholder whose number is a key of the stash -/
def liveHtmlPhAt (stash : List Str) (s : Str) : Bool :=
  match Post.htmlPhAt s with
  | some (digits, _) => (Post.stashLookup stash digits).isSome
  | none => false

/-- some raw-HTML placeholder of the stash occurs in `s` -/
def hasLiveHtmlPh (stash : List Str) : Str → Bool
  | [] => false
  | c :: r => liveHtmlPhAt stash (c :: r) || hasLiveHtmlPh stash r

/-- shape of the entries that `HtmlInlineProcessor` stores for the entity pattern: `&…;` without STX -/
def entityLike (e : Str) : Bool := e.head? == some '&' && e.getLast? == some ';' && !e.contains STX

/-! ### source domains of the end-to-end statements -/

/-- the inline subset that cannot leak: no `<`, `&`, `[`, `]` (no link, reference, image, autolink, inline HTML,
    entity pattern can fire), and either no backtick, or no backslash and no `>`.  (With backslash *and* backtick the
    converter leaks: see `C10_second_pass_code_leak`.) -/
def C10DomainE (s : Str) : Prop := DomS true s ∨ DomS false s

instance (s : Str) : Decidable (C10DomainE s) := by unfold C10DomainE; infer_instance

/-- no inline markup character at all -/
def C10DomainPlain (s : Str) : Prop :=
  ∀ c ∈ s, c ≠ '<' ∧ c ≠ '&' ∧ c ≠ '[' ∧ c ≠ ']' ∧ c ≠ '`' ∧ c ≠ '\\' ∧ c ≠ '*' ∧ c ≠ '_'

instance (s : Str) : Decidable (C10DomainPlain s) := by unfold C10DomainPlain; infer_instance

end MdVerif.NoCtl
