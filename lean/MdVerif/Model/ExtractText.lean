/-
Text-level model of `HtmlBlockPreprocessor.run` (C04): the tokenizer model (`Model/HtmlTok.lean`) composed with the
event-level model of the extractor callbacks (`Model/ExtractEv.lean`).

`extractText src` is the extractor state after `parser.feed(src); parser.close()` (`cleandoc`, the HTML stash, …),
`none` outside `HtmlTok.TokDomain`.  `outLines` / `outStash`: what the preprocessor returns
(`''.join(parser.cleandoc).split('\n')`) and what it leaves in `md.htmlStash.rawHtmlBlocks`.
-/
import MdVerif.Model.HtmlTok

namespace MdVerif.HtmlTok
open Py Extract

/-- the extractor after `feed(src); close()` -/
def extractText (src : Str) : Option ExSt := (events src).map runEvents

/-- `''.join(parser.cleandoc)` -/
def cleanOf (src : Str) : Option Str := (extractText src).map cleanText

/-- `HtmlBlockPreprocessor.run(src.split('\n'))`: the lines handed on and the stash -/
def preprocess (src : Str) : Option (List Str × List Str) :=
  (extractText src).map (fun st => (splitC '\n' (cleanText st), st.stash))

end MdVerif.HtmlTok
