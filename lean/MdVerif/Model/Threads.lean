/-
Small-step model of thread-confined `Markdown` instances sharing module-level state (C12).

What is modelled.  Every thread owns a private store `σ` (its `Markdown` instance, its documents, its locals) and
is a deterministic state machine `prog : σ → Action`.  The only state that threads have in common is `Shared`:

* `ro`   — cells that are read-only after import (module constants, class attributes, compiled regexes, the
           entity tables, `sys.modules` entries of modules that are already imported);
* `memo` — write-once memo cells: `markdown.util.get_installed_extensions` (an `lru_cache`) and `sys.modules`
           entries created by a first import.  A memo cell `k` is only ever written with the value `f k` of one
           fixed pure function `f` (what the cached function computes).

One `prog` serves all threads: threads that run different code differ in their initial store (the store carries
the code that is still to run, as in `Reg` below), so nothing is lost.

`Action.getMemo k` is the atomic "read the memo, or compute `f k` and store it".  The two-step version found in the
code (`readMemo`, then `writeMemo` when the read returned `none`) is `Action2` / `twoStep` below; `Props/C12.lean`
proves that it refines the atomic one for everything a thread can observe.

`UAction` / `USys` is the *racy* variant in which a shared cell may be overwritten with an arbitrary value.  It is
only there for the negative example in `Props/C12.lean`.

What is not modelled: the CPython runtime (the GIL, atomicity of the individual byte-code operations, the
import lock).  That the real code writes no shared state other than these memo cells is checked by the census in
the Python harness, not here.
-/
namespace MdVerif.Threads

/-- the state common to all threads -/
structure Shared (K V : Type) where
  /-- read-only cells -/
  ro : K → V
  /-- write-once memo cells (`none` = not computed yet) -/
  memo : K → Option V

/-- one step of a thread program over the private store `σ` -/
inductive Action (K V Out σ : Type) where
  /-- read the read-only cell `k` -/
  | readRo (k : K) (cont : V → σ)
  /-- atomic read-or-compute of the memo cell `k` -/
  | getMemo (k : K) (cont : V → σ)
  /-- emit an output (the result of a conversion) -/
  | emit (o : Out) (next : σ)
  /-- a step that touches nothing but the private store -/
  | tau (next : σ)
  /-- the program has finished -/
  | done

/-- a thread: its private store and the outputs it has emitted so far (oldest first) -/
structure Thread (σ Out : Type) where
  st : σ
  trace : List Out
deriving DecidableEq, Repr

/-- a system: `N` threads and the shared state -/
structure Sys (K V σ Out : Type) where
  threads : List (Thread σ Out)
  shared : Shared K V

/-- `m[k := v]` -/
def setCell {K V : Type} [DecidableEq K] (m : K → V) (k : K) (v : V) : K → V :=
  fun k' => if k' = k then v else m k'

section Atomic
variable {K V Out σ : Type} [DecidableEq K]
variable (prog : σ → Action K V Out σ) (f : K → V)

/-- one step of one thread against the shared state -/
def stepThread (t : Thread σ Out) (sh : Shared K V) : Thread σ Out × Shared K V :=
  match prog t.st with
  | .readRo k c => ({ t with st := c (sh.ro k) }, sh)
  | .getMemo k c =>
    match sh.memo k with
    | some v => ({ t with st := c v }, sh)
    | none => ({ t with st := c (f k) }, { sh with memo := setCell sh.memo k (some (f k)) })
  | .emit o n => (⟨n, t.trace ++ [o]⟩, sh)
  | .tau n => ({ t with st := n }, sh)
  | .done => (t, sh)

/-- thread `i` takes one step (nothing happens when there is no thread `i`, or when it has finished) -/
def stepSys (i : Nat) (sys : Sys K V σ Out) : Sys K V σ Out :=
  match sys.threads[i]? with
  | none => sys
  | some t => ⟨sys.threads.set i (stepThread prog f t sys.shared).1, (stepThread prog f t sys.shared).2⟩

/-- execute a schedule (a list of thread indices), left to right -/
def run : List Nat → Sys K V σ Out → Sys K V σ Out
  | [], sys => sys
  | i :: s, sys => run s (stepSys prog f i sys)

/-- the outputs emitted so far by thread `i` -/
def trace (sys : Sys K V σ Out) (i : Nat) : List Out :=
  match sys.threads[i]? with
  | some t => t.trace
  | none => []

/-- has the thread finished? -/
def isDone (t : Thread σ Out) : Bool :=
  match prog t.st with
  | .done => true
  | _ => false

/-- every thread has finished -/
def allDone (sys : Sys K V σ Out) : Bool := sys.threads.all (isDone prog)

/-- the memo cells hold nothing but `none` or `some (f k)` -/
def MemoValid (sh : Shared K V) : Prop := ∀ k v, sh.memo k = some v → v = f k

/-! ### a thread on its own: the step function that does not look at the memo at all -/

/-- one step of a thread that is given `ro` and computes `f k` itself at every `getMemo k` -/
def localStep (ro : K → V) (t : Thread σ Out) : Thread σ Out :=
  match prog t.st with
  | .readRo k c => { t with st := c (ro k) }
  | .getMemo k c => { t with st := c (f k) }
  | .emit o n => ⟨n, t.trace ++ [o]⟩
  | .tau n => { t with st := n }
  | .done => t

/-- `n` such steps -/
def localRun (ro : K → V) : Nat → Thread σ Out → Thread σ Out
  | 0, t => t
  | n + 1, t => localRun ro n (localStep prog f ro t)

/-- the sequential schedule with the step counts of `s`: all steps of thread 0, then all of thread 1, … -/
def sequentialOf (s : List Nat) : Nat → List Nat
  | 0 => []
  | n + 1 => sequentialOf s n ++ List.replicate (s.count n) n

end Atomic

/-! ### the two-step memo protocol: read, then write when the read returned `none` -/

/-- one step of a thread program in which reading and filling a memo cell are separate steps -/
inductive Action2 (K V Out σ : Type) where
  | readRo (k : K) (cont : V → σ)
  /-- look at the memo cell -/
  | readMemo (k : K) (cont : Option V → σ)
  /-- store `f k` into the memo cell `k` (memo cells are never written with anything else) -/
  | writeMemo (k : K) (next : σ)
  | emit (o : Out) (next : σ)
  | tau (next : σ)
  | done

section TwoStep
variable {K V Out σ : Type} [DecidableEq K]

/-- the store of the two-step program: either the store of the atomic program, or "I have computed `f k` myself
    and am about to store it into the cell `k`, and will then go on as `s`" -/
inductive St2 (K σ : Type) where
  | at (s : σ)
  | pending (k : K) (s : σ)

/-- the two-step implementation of an atomic program: `getMemo k` becomes `readMemo k`; on `some v` go on with `v`,
    on `none` compute `f k`, go on to store it (`pending`), then continue with `f k` -/
def twoStep (prog : σ → Action K V Out σ) (f : K → V) : St2 K σ → Action2 K V Out (St2 K σ)
  | .at s =>
    match prog s with
    | .readRo k c => .readRo k (fun v => .at (c v))
    | .getMemo k c => .readMemo k (fun
        | some v => .at (c v)
        | none => .pending k (c (f k)))
    | .emit o n => .emit o (.at n)
    | .tau n => .tau (.at n)
    | .done => .done
  | .pending k s => .writeMemo k (.at s)

variable (prog2 : σ → Action2 K V Out σ) (f : K → V)

def stepThread2 (t : Thread σ Out) (sh : Shared K V) : Thread σ Out × Shared K V :=
  match prog2 t.st with
  | .readRo k c => ({ t with st := c (sh.ro k) }, sh)
  | .readMemo k c => ({ t with st := c (sh.memo k) }, sh)
  | .writeMemo k n => ({ t with st := n }, { sh with memo := setCell sh.memo k (some (f k)) })
  | .emit o n => (⟨n, t.trace ++ [o]⟩, sh)
  | .tau n => ({ t with st := n }, sh)
  | .done => (t, sh)

def stepSys2 (i : Nat) (sys : Sys K V σ Out) : Sys K V σ Out :=
  match sys.threads[i]? with
  | none => sys
  | some t => ⟨sys.threads.set i (stepThread2 prog2 f t sys.shared).1, (stepThread2 prog2 f t sys.shared).2⟩

def run2 : List Nat → Sys K V σ Out → Sys K V σ Out
  | [], sys => sys
  | i :: s, sys => run2 s (stepSys2 prog2 f i sys)

def isDone2 (t : Thread σ Out) : Bool :=
  match prog2 t.st with
  | .done => true
  | _ => false

/-- forget the pending write -/
def St2.abs : St2 K σ → σ
  | .at s => s
  | .pending _ s => s

/-- the thread of the atomic program that a thread of the two-step program stands for -/
def absThread (t : Thread (St2 K σ) Out) : Thread σ Out := ⟨t.st.abs, t.trace⟩

/-- the two-step system that starts where the atomic system starts -/
def embed (sys : Sys K V σ Out) : Sys K V (St2 K σ) Out :=
  ⟨sys.threads.map (fun t => ⟨.at t.st, t.trace⟩), sys.shared⟩

end TwoStep

/-! ### the racy variant: a shared cell that anybody may overwrite with anything -/

inductive UAction (K V Out σ : Type) where
  | read (k : K) (cont : V → σ)
  | write (k : K) (v : V) (next : σ)
  | emit (o : Out) (next : σ)
  | tau (next : σ)
  | done

structure USys (K V σ Out : Type) where
  threads : List (Thread σ Out)
  cells : K → V

section Racy
variable {K V Out σ : Type} [DecidableEq K]
variable (prog : σ → UAction K V Out σ)

def ustepThread (t : Thread σ Out) (cells : K → V) : Thread σ Out × (K → V) :=
  match prog t.st with
  | .read k c => ({ t with st := c (cells k) }, cells)
  | .write k v n => ({ t with st := n }, setCell cells k v)
  | .emit o n => (⟨n, t.trace ++ [o]⟩, cells)
  | .tau n => ({ t with st := n }, cells)
  | .done => (t, cells)

def ustepSys (i : Nat) (sys : USys K V σ Out) : USys K V σ Out :=
  match sys.threads[i]? with
  | none => sys
  | some t => ⟨sys.threads.set i (ustepThread prog t sys.cells).1, (ustepThread prog t sys.cells).2⟩

def urun : List Nat → USys K V σ Out → USys K V σ Out
  | [], sys => sys
  | i :: s, sys => urun s (ustepSys prog i sys)

end Racy

/-! ### a concrete instantiation: register programs (used by the driver op `thr.run` and by the examples) -/

namespace Reg

/-- `G k`: getMemo `k` into the accumulator; `R k`: read the read-only cell `k` into the accumulator;
    `E`: emit the accumulator; `A n`: add `n` to the accumulator -/
inductive Instr where
  | G (k : Nat)
  | R (k : Nat)
  | E
  | A (n : Int)
deriving DecidableEq, Repr

/-- the private store: the instructions still to execute and the accumulator -/
abbrev St := List Instr × Int

def prog : St → Action Nat Int Int St
  | ([], _) => .done
  | (.G k :: r, _) => .getMemo k (fun v => (r, v))
  | (.R k :: r, _) => .readRo k (fun v => (r, v))
  | (.E :: r, a) => .emit a (r, a)
  | (.A n :: r, a) => .tau (r, a + n)

/-- the initial system: thread `i` runs `progs[i]` with accumulator 0 -/
def init (progs : List (List Instr)) (ro : Nat → Int) (memo : Nat → Option Int) : Sys Nat Int St Int :=
  ⟨progs.map (fun p => ⟨(p, 0), []⟩), ⟨ro, memo⟩⟩

/-- look up in a table, `d` beyond its end -/
def table (l : List Int) (d : Nat → Int) (k : Nat) : Int :=
  match l[k]? with
  | some v => v
  | none => d k

/-- the traces of all threads -/
def traces {K V σ : Type} (sys : Sys K V σ Int) : List (List Int) := sys.threads.map (·.trace)

end Reg

end MdVerif.Threads
