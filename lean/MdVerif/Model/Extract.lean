/-
Model of what `HtmlBlockPreprocessor` (`HTMLExtractor` on top of `html.parser.HTMLParser`,
`convert_charrefs=False`) does to a text WITHOUT `<`: nothing is extracted, but the text is re-assembled from the
`handle_data` / `handle_charref` / `handle_entityref` events, which re-spells character references
(`&#38x` comes back as `&#38;x`).  `feed` runs `goahead(False)`, `close` runs `goahead(True)` on what `feed` left
unread; in the first phase an incomplete `&#…` stops the scan (the two-phase bail rule).

Transliterated from `extract` of the validated mirror `harness/mirror/mirror_amp.py`.
-/
import MdVerif.Py.Basic

namespace MdVerif.Extract
open Py

/-- `s[a:b]` -/
def slice (s : Str) (a b : Nat) : Str := (s.drop a).take (b - a)

/-- is there a character at index `i` and is it outside `[0-9a-fA-F]`? -/
def nonHexAt (s : Str) (i : Nat) : Bool :=
  match s[i]? with
  | some c => !isHexDigit c
  | none => false

/-- `html.parser.charref = &#(?:[0-9]+|[xX][0-9a-fA-F]+)[^0-9a-fA-F]` as `.match` at the start of `s`: `m.end()`.
    Giving a digit back leaves a digit where a non-hex character is required. -/
def charrefAt (s : Str) : Option Nat :=
  match s with
  | a :: h :: r =>
    if a = '&' && h = '#' then
      let q := spanLen isAsciiDigit r
      if q > 0 && nonHexAt r q then some (q + 3)
      else match r with
           | x :: r2 =>
             if x = 'x' || x = 'X' then
               let k := spanLen isHexDigit r2
               if k > 0 && nonHexAt r2 k then some (k + 4) else none
             else none
           | [] => none
    else none
  | _ => none

/-- `htmlparser.entityref = &([a-zA-Z][-.a-zA-Z0-9]*);` (as patched by `markdown.htmlparser`) as `.match` at the
    start of `s` (which starts with `&`): `m.end()` -/
def entityrefAt (s : Str) : Option Nat :=
  match s with
  | _ :: c :: r =>
    if isAsciiAlpha c then
      let q := spanLen (fun d => isAsciiAlnum d || d = '-' || d = '.') r
      if r[q]? == some ';' then some (q + 3) else none
    else none
  | _ => none

/-- leaving the `while` loop of `goahead` at the unread rest `rem` with `out` still to be emitted:
    `if end and i < n: handle_data(rawdata[i:n])` -/
def leave (end_ : Bool) (out rem : Str) : Str × Str :=
  if end_ then (out ++ rem, []) else (out, rem)

/-- `HTMLParser.goahead(end)` on `<`-free `rawdata`: the text emitted to `cleandoc` and the unread rest
    (fuel: one unit per character) -/
def goahead (end_ : Bool) : Nat → Str → Str × Str
  | 0, s => ([], s)
  | _ + 1, [] => ([], [])
  | f + 1, c :: r =>
    if c != '&' then
      let (o, rest) := goahead end_ f r
      (c :: o, rest)
    else
      let s := c :: r
      if startsWith r ['#'] then
        match charrefAt s with
        | some e =>
          -- `handle_charref(name)`; the terminating character is consumed only when it is `;`
          let k := if s[e - 1]? == some ';' then e else e - 1
          let (o, rest) := goahead end_ f (s.drop k)
          ('&' :: '#' :: slice s 2 (e - 1) ++ ';' :: o, rest)
        | none =>
          if s.contains ';' then leave end_ ['&', '#'] (s.drop 2) else leave end_ [] s
      else
        match entityrefAt s with
        | some e =>
          let (o, rest) := goahead end_ f (s.drop e)
          (s.take e ++ o, rest)
        | none =>
          if r.isEmpty then leave end_ [] s
          else
            let (o, rest) := goahead end_ f r
            ('&' :: o, rest)

/-- `''.join(parser.cleandoc)` after `parser.feed(text); parser.close()` for text without `<` -/
def extract (text : Str) : Str :=
  let (o1, rest1) := goahead false (text.length + 1) text
  let (o2, rest2) := goahead true (rest1.length + 1) rest1
  o1 ++ o2 ++ rest2

end MdVerif.Extract
