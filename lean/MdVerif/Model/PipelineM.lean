/-
`Markdown.convert` with the `meta` extension (and any of the eleven extensions of `Model/PipelineX.lean`):
`MetaPreprocessor` (`Model/Ext/Meta.lean`) sits among the preprocessors at priority 27, i.e. after
`normalize_whitespace` 30 and before `fenced_code_block` 25 and `html_block` 20 (generated registry table
`Generated/Tables.lean`: `("meta", "preprocessors", "meta", 27, …)`).

`Markdown.convert` keeps the text as a list of lines between the preprocessors (`self.lines = prep.run(self.lines)`),
the models of the other preprocessors work on the joined text; `'\n'.join` and `.split('\n')` are inverse to each
other, so the meta step on the text is `joinLines ∘ Meta.run ∘ lines` (when `Meta.run` returns no line at all the
joined text is empty, as `'\n'.join([])` is).

`Model/PipelineX.lean` is not touched: `prepareX` and `treeX` are monolithic, so `prepareT` is the body of `prepareX`
after the normalisation, `treeP` the body of `treeX` after the preparation (`prepareX_eq`, `treeX_eq`: by `rfl`),
and `convertM on x cfg src` is `convertX x cfg src` with the meta step in between.  The answer is the outcome together
with `md.Meta` (as the list of its items).

Domain: as `convertX`, except that it is the text AFTER the meta step that must not contain `<` (the raw-HTML
preprocessor only sees that text; meta data such as `Author: <a@b.c>` are inside the domain).  For a blank source
`convert` returns `''` before any preprocessor runs: `md.Meta` keeps the value `reset()` gave it, `{}`.
With `on = false` this is `convertX` (`Lemmas/MetaPipe.lean`, `convertM_off`).
-/
import MdVerif.Model.PipelineX
import MdVerif.Model.Ext.Meta

namespace MdVerif.PipelineM
open Py Pipeline PipelineX

/-- `prepareX` after the normalisation: `fenced_code_block` 25 and `html_block` 20 on the text `t` -/
def prepareT (x : Exts) (_cfg : Cfg) (t : Str) : FootnotesTree.R (Str × List Str) :=
  if x.admonition && admNonAscii t then .ood else
  if x.fencedCode then
    if x.attrList && fencedHasConfig (t.length + 1) t 0 0 then .ood else
    match Fenced.fencedRunA t with
    | .ok t' stash => .ok (Extract.extract t', stash)
    | _ => .oof
  else .ok (Extract.extract t, [])

theorem prepareX_eq (x : Exts) (cfg : Cfg) (src : Str) :
    prepareX x cfg src = prepareT x cfg (Normalize.normalize cfg.tab src) := rfl

/-- `treeX` after the preprocessors: the block parser, the tree processors -/
def treeP (x : Exts) (cfg : Cfg) (prep : FootnotesTree.R (Str × List Str)) : TreeResult :=
  match prep with
  | .oof => .oof
  | .ood => .ood
  | .ok (text, stash) =>
    match BlockExt.parseDocumentXT x.tables x.blockCfg cfg.tab text with
    | none => .oof
    | some (root, log) =>
      let fnStage : FootnotesTree.R (Node × Block.Refs) :=
        if x.footnotes then
          match FootnotesTree.makeDiv (parseChunkX x cfg) fnCount (BlockExt.footnotesOf log) log with
          | .ok (some div, log') => .ok (FootnotesTree.placeDiv root div, log')
          | .ok (none, log') => .ok (root, log')
          | .oof => .oof
          | .ood => .ood
        else .ok (root, log)
      match fnStage with
      | .oof => .oof
      | .ood => .ood
      | .ok (root, log) =>
        let xc : InlineX.XCfg :=
          { cfg := { esc := escX x cfg, refs := (refsX x log).reverse }
            table := InlineX.table x.footnotes x.wikilinks x.nl2br
            fnKeys := (BlockExt.footnotesOf log).map (·.1) }
        match InlineX.runX xc root stash with
        | none => .oof
        | some (t, xs) =>
          match (if x.footnotes then FootnotesTree.duplicates xs.fn t else some t) with
          | none => .err
          | some t =>
            let t := TreeProc.prettify t cfg.blockLevel
            let t := if x.attrList then AttrListTree.run cfg.blockLevel t else t
            let t := if x.abbr then AbbrTree.run (BlockExt.abbrsOf log) t else t
            let tocStage : TocTree.R Node :=
              if x.toc then
                TocTree.run { fmt := cfg.fmt, post := postX x cfg xs.st.html } cfg.blockLevel t
              else .ok t
            match tocStage with
            | .oof => .oof
            | .err => .err
            | .ood => .ood
            | .ok t =>
              match TreeProc.unescapeTree t with
              | none => .err
              | some u => .ok u xs.st.html

theorem treeX_eq (x : Exts) (cfg : Cfg) (src : Str) : treeX x cfg src = treeP x cfg (prepareX x cfg src) := rfl

/-- the `meta` preprocessor (27) on the normalised text: the text handed to the next preprocessor, and `md.Meta` -/
def metaStep (on : Bool) (t : Str) : Str × Meta.Dict :=
  if on then
    let r := Meta.run (lines t)
    (joinLines r.1, r.2)
  else (t, [])

/-- the stages after the meta step, on the text `t` it hands on (`convertX` from there) -/
def convertT (x : Exts) (cfg : Cfg) (t : Str) : Outcome :=
  if t.contains '<' then .ood
  else if x.unsupported then .ood
  else
    match treeP x cfg (prepareT x cfg t) with
    | .oof => .oof
    | .err => .err
    | .ood => .ood
    | .ok u html => finishX x cfg html (Ser.serialize cfg.fmt u)

/-- `Markdown(extensions=[…] + (['meta'] if on else [])).convert(src)` and `md.Meta` afterwards -/
def convertM (on : Bool) (x : Exts) (cfg : Cfg) (src : Str) : Outcome × Meta.Dict :=
  if Normalize.isBlankDoc src then (.ok [], [])
  else
    let r := metaStep on (Normalize.normalize cfg.tab src)
    (convertT x cfg r.1, r.2)

end MdVerif.PipelineM
