/-
The extended block parser of `Model/BlockExt.lean` plus the block processor of the `tables` extension
(`TableProcessor`, registry priority 75: after `code` 80, before `hashheader` 70).

`TableProcessor.test` / `run` are `Tables.tableTest` / `Tables.tableRun` (`Model/Ext/Tables.lean`, default
configuration: `use_align_attribute = False`); `tableNode` builds the element tree `run` builds:

    table > thead > tr > th*      tbody > tr > td*       `style="text-align: …;"` on cells of aligned columns

`tailEmptyT` is `tailEmpty` of `BlockExt.lean` with that processor inserted (the other processors are called as they
are); with `tables = false` it is `tailEmpty` (`Lemmas`: `parseBlocksXT_false`).
-/
import MdVerif.Model.BlockExt
import MdVerif.Model.Ext.Tables

namespace MdVerif.BlockExt
open Py Block

def alignName : Tables.Align → Str
  | .left => "left".toList
  | .right => "right".toList
  | .center => "center".toList

/-- a cell made by `_build_row`: the text, and `c.set('style', f'text-align: {a};')` for an aligned column -/
def cellNode (tag : String) (text : Str) (a : Option Tables.Align) : Node :=
  { Node.el tag with
    text := some text
    attrs := match a with
             | some al => [("style".toList, "text-align: ".toList ++ alignName al ++ [';'])]
             | none => [] }

def zipCells (tag : String) : List Str → List (Option Tables.Align) → List Node
  | t :: ts, a :: as => cellNode tag t a :: zipCells tag ts as
  | _, _ => []

/-- a body row: `_build_row` (every cell has a text) or `_build_empty_row` (bare `td`s) -/
def bodyRow (align : List (Option Tables.Align)) (cells : List (Option Str)) : Node :=
  if cells.all Option.isSome then
    { Node.el "tr" with children := zipCells "td" (cells.map (fun c => c.getD [])) align }
  else { Node.el "tr" with children := cells.map (fun _ => Node.el "td") }

/-- the element `TableProcessor.run` appends to the parent -/
def tableNode (t : Tables.Table) : Node :=
  { Node.el "table" with children := [
      { Node.el "thead" with children := [{ Node.el "tr" with children := zipCells "th" t.head t.align }] },
      { Node.el "tbody" with children := t.body.map (bodyRow t.align) } ] }

/-- `TableProcessor.run` after a successful `test` -/
def tableP (refs : Refs) (parent : Node) (b : Str) (rest : List Str) (bs : Nat × List Str) : Node × Refs × List Str :=
  (parent.append (tableNode (Tables.tableRun bs.1 bs.2 b)), refs, rest)

/-- `tailEmpty` with the table processor (75) between `code` and `hashheader` -/
def tailEmptyT (tables : Bool) (cfg : XCfg) (tab : Nat) (pb : PB) (state : List BState) (refs : Refs) (parent : Node)
    (b : Str) (rest : List Str) : Option (Node × Refs × List Str) :=
  -- empty (100)
  if b.isEmpty || startsWith b ['\n'] then some (emptyP refs parent b rest)
  -- indent (90)
  else if startsWith b (spaces tab) && !isstate state .detabbed &&
      (isItemTag parent || (match parent.last? with | some c => isListTag c | none => false)) then
    indentP tab pb state refs parent b rest
  -- defindent (85)
  else if cfg.defList && indentTestX isListTagD isItemTagD tab state parent b then
    indentPX isListTagD isItemTagD "dd" tab pb state refs parent b rest
  -- code (80)
  else if startsWith b (spaces tab) then some (codeP tab refs parent b rest)
  else
  -- table (75)
  match (if tables then Tables.tableTest b else none) with
  | some bs => some (tableP refs parent b rest bs)
  | none =>
  -- hashheader (70)
  match hashSearch b with
  | some m => hashP tab pb state refs parent b rest m
  | none =>
  -- setextheader (60)
  if setextMatch b then some (setextP refs parent b rest) else
  -- hr (50)
  match hrSearch b with
  | some m => hrP pb state refs parent b rest m
  | none => tailList cfg tab pb state refs parent b rest

def dispatchXT (tables : Bool) (cfg : XCfg) (tab : Nat) (pb : PB) (state : List BState) (refs : Refs) (parent : Node)
    (b : Str) (rest : List Str) : Option (Node × Refs × List Str) :=
  match (if cfg.admonition then admTest tab parent b else none) with
  | some hit => admonitionP tab pb state refs parent b rest hit
  | none => tailEmptyT tables cfg tab pb state refs parent b rest

/-- `BlockParser.parseBlocks` with the extensions of `cfg` and, when `tables`, the table processor -/
def parseBlocksXT (tables : Bool) (cfg : XCfg) (tab : Nat) : Nat → PB
  | _, _, refs, parent, [] => some (parent, refs)
  | 0, _, _, _, _ :: _ => none
  | f + 1, state, refs, parent, b :: rest =>
    match dispatchXT tables cfg tab (parseBlocksXT tables cfg tab f) state refs parent b rest with
    | some (parent, refs, blocks) => parseBlocksXT tables cfg tab f state refs parent blocks
    | none => none

/-- the tree and the log of table writes (`XSt.ofLog`) -/
def parseDocumentXT (tables : Bool) (cfg : XCfg) (tab : Nat) (text : Str) : Option (Node × Refs) :=
  parseChunk (parseBlocksXT tables cfg tab (fuelForX text.length)) [] [] (Node.el "div") text

end MdVerif.BlockExt
