/-
Model of `Markdown.convert` (core.py) for the default configuration (no extensions) on sources WITH raw HTML:
`Pipeline.convert` (`Model/Pipeline.lean`) with the raw-HTML preprocessor modelled at text level
(`HtmlTok.extractText`, `Model/ExtractText.lean`) instead of `Extract.extract` (which covers `<`-free text only).

  source ─ blank? ─ NormalizeWhitespace ─ HtmlBlockPreprocessor (tokenizer + extractor; fills `md.htmlStash`)
         ─ BlockParser.parseDocument ─ InlineProcessor (continues the SAME stash) ─ PrettifyTreeprocessor
         ─ UnescapeTreeprocessor ─ serializer ─ strip `<div>` ─ RawHtmlPostprocessor ─ AndSubstitutePostprocessor
         ─ `.strip()`

Domain: `convertH` answers `ood` when the normalised source is outside `HtmlTok.TokDomain`, and when the text the
preprocessor hands on still contains `<` (inline tags, stray `<`, autolinks: the inline patterns `autolink`,
`automail`, `html` are outside the inline model `Model/Inline.lean`).  So what is covered beyond `Pipeline.convert`
are documents whose `<` all belong to raw HTML blocks that the preprocessor extracts.
`Lemmas/PipelineH.lean`: `convertH = Pipeline.convert` on `<`-free sources.
-/
import MdVerif.Model.Pipeline
import MdVerif.Model.ExtractText

namespace MdVerif.PipelineH
open Pipeline

/-- the text handed to the block parser and the HTML stash filled by the preprocessor -/
def prepareH (cfg : Cfg) (src : Str) : Option (Str × List Str) :=
  (HtmlTok.extractText (Normalize.normalize cfg.tab src)).map (fun st => (Extract.cleanText st, st.stash))

/-- everything after the preprocessors (`Pipeline.tree` + the end of `Pipeline.convert`), on the prepared text and
    the stash the preprocessor left -/
def convertFrom (cfg : Cfg) (text : Str) (stash : List Str) : Outcome :=
  match Block.parseDocument cfg.tab text with
  | none => .oof
  | some (root, refs) =>
    match Inline.run { esc := cfg.esc, refs := refs.reverse } root stash with
    | none => .oof
    | some (t, st) =>
      match TreeProc.unescapeTree (TreeProc.prettify t cfg.blockLevel) with
      | none => .err
      | some u =>
        match Post.finish cfg.blockLevel st.html (Ser.serialize cfg.fmt u) with
        | none => .oof
        | some none => .err
        | some (some out) => .ok out

/-- `Markdown.convert(source)` -/
def convertH (cfg : Cfg) (src : Str) : Outcome :=
  if Normalize.isBlankDoc src then .ok []
  else
    match prepareH cfg src with
    | none => .ood
    | some (text, stash) => if text.contains '<' then .ood else convertFrom cfg text stash

end MdVerif.PipelineH
