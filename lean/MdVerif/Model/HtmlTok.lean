/-
Text-level model of the TOKENIZER under the raw-HTML extractor (C04).

What `HTMLExtractor.feed(src); HTMLExtractor.close()` fires as a list of callback events
(`Extract.Event` of `Model/ExtractEv.lean`), i.e. CPython 3.12 `html.parser.HTMLParser.goahead` (+ `_markupbase`:
`updatepos`, `parse_comment`) with `convert_charrefs = False`, under the monkey patches of `markdown/htmlparser.py`
(`piclose = \?>`, `entityref = &([a-zA-Z][-.a-zA-Z0-9]*);`, `incomplete = entityref`, the backtick-aware
`locatestarttagend_tolerant`) and its overrides (`parse_starttag`, `parse_pi`, `parse_html_declaration`,
`parse_bogus_comment`, `get_starttag_text`, `get_endtag_text`, `line_offset`, `at_line_start`).

Because `parse_pi` / `parse_html_declaration` read `self.intail`, and `handle_starttag` decides about CDATA content
mode through `self.inraw`, the tokenizer runs together with the extractor callbacks (`Extract.step`).

The model is TOTAL and answers `none` ("out of domain") -- never a wrong answer -- at the following points; on
everything else it is the code (regexes as recognisers on their greedy path; where a regex would have to backtrack
the answer is `none`):
  * an incomplete construct in the first phase (a `parse_*` returns -1; a lone `<` as the very last character):
    `feed` stops there and `close` re-scans the unread rest with stale line bookkeeping (F-C04-2);
  * a first phase that stops at `&` (a stray `&#`, or `&` as the last character) with a `<` in the unread rest
    (F-C04-1); a `<`-free unread rest IS modelled (`go2`: its events do not depend on positions);
  * a quoted attribute value without its closing quote right after `=`;
  * marked sections `<![` at a line start (`_markupbase.parse_marked_section`);
  * CDATA content mode: a `<script>` / `<style>` start tag that leaves the extractor in raw mode;
  * U+03A3 in a tag name (final-sigma rule of `str.lower`, outside `Py.lower`).

Line bookkeeping: `lineno` / `offset` are updated by `updatepos` exactly as `_markupbase` does.  `line_offset` reads
the memo table `lineno_start_cache`; while `rawdata` is one unchanged string (the whole first phase -- `feed` is called
once) entry `k` of that table is the index just after the `k`-th newline (`lineStart`), whatever the order of the
look-ups, so the table is modelled by that function.  (In the second phase `rawdata` is replaced by the unread rest
while `lineno`, `offset` and the table are kept: that is why a second phase with `<` is out of domain.)

Transliterated from the validated mirror `harness/mirror/mirror_htmltok.py` (same helper names).
-/
import MdVerif.Model.ExtractEv
import MdVerif.Model.Extract

namespace MdVerif.HtmlTok
open Py Extract

/-! ### characters and small searches -/

/-- tag name character of the patched `locatestarttagend_tolerant`: ``[^`\t\n\r\f />\x00]`` -/
def locNameCh (c : Char) : Bool :=
  !(c = '`' || c = '\t' || c = '\n' || c = '\r' || c = '\x0c' || c = ' ' || c = '/' || c = '>' || c = '\x00')

/-- tag name character of `tagfind_tolerant`: `[^\t\n\r\f />\x00]` -/
def findNameCh (c : Char) : Bool :=
  !(c = '\t' || c = '\n' || c = '\r' || c = '\x0c' || c = ' ' || c = '/' || c = '>' || c = '\x00')

/-- `[^\s/=>]` -/
def attrContCh (c : Char) : Bool := !(isSpace c || c = '/' || c = '=' || c = '>')

/-- `[\s/]` -/
def wsOrSlash (c : Char) : Bool := isSpace c || c = '/'

/-- the look-behind `(?<=['"\s/])` -/
def lookBehindOk (c : Char) : Bool := c = '\'' || c = '"' || c = '/' || isSpace c

/-- `s.find(ch, start)` -/
def findChar (ch : Char) (s : Str) (start : Nat) : Option Nat :=
  let t := s.drop start
  let k := spanLen (· != ch) t
  if k < t.length then some (start + k) else none

/-- `s.find(pat, start)` -/
def findStr (pat : Str) (s : Str) (start : Nat) : Option Nat :=
  (find pat (s.drop start)).map (· + start)

/-- `(?:\s|/(?!>))*` at the start of `s`: length -/
def wsSlashLen : Str → Nat
  | [] => 0
  | c :: r =>
    if isSpace c then wsSlashLen r + 1
    else if c = '/' && r.head? != some '>' then wsSlashLen r + 1
    else 0

/-- `(?:\s*,)*` at the start of `s`: length (fuel: one unit per iteration) -/
def commasLen : Nat → Str → Nat
  | 0, _ => 0
  | f + 1, s =>
    let w := spanLen isSpace s
    if (s.drop w).head? = some ',' then w + 1 + commasLen f (s.drop (w + 1)) else 0

/-- the optional value group `(?:\s*=+\s*(?:'[^']*'|"[^"]*"|(?!['"])BARE*)COMMAS)?` at the start of `s`: its length
    (`0` when there is no `=`), `none` when the greedy path fails (unclosed quote: the regex backtracks).
    `patched` (`locatestarttagend_tolerant`): ``BARE = [^`>\s]``, `COMMAS = (?:\s*,)*`;
    otherwise (`attrfind_tolerant`): `BARE = [^>\s]`, no `COMMAS`. -/
def valueLen (patched : Bool) (s : Str) : Option Nat :=
  let a := spanLen isSpace s
  let b := spanLen (· = '=') (s.drop a)
  if b = 0 then some 0
  else
    let c := spanLen isSpace (s.drop (a + b))
    let p := a + b + c
    let t := s.drop p
    let q : Option Nat :=
      match t with
      | '\'' :: _ => (findChar '\'' t 1).map (· + 1)
      | '"' :: _ => (findChar '"' t 1).map (· + 1)
      | _ =>
        if patched then some (spanLen (fun ch => ch != '`' && ch != '>' && !isSpace ch) t)
        else some (spanLen (fun ch => ch != '>' && !isSpace ch) t)
    match q with
    | none => none
    | some q =>
      let p := p + q
      some (if patched then p + commasLen s.length (s.drop p) else p)

/-- one attribute at the start of `s` (`prev` = the character before it):
    `(?<=['"\s/])FIRST[^\s/=>]*VALUE(?:\s|/(?!>))*`, ``FIRST = [^`\s/>]`` (patched) or `[^\s/>]`:
    its length, `some 0` = no match, `none` = out of domain -/
def attrLen (patched : Bool) (prev : Char) (s : Str) : Option Nat :=
  if !lookBehindOk prev then some 0
  else
    match s with
    | [] => some 0
    | c :: r =>
      if isSpace c || c = '/' || c = '>' || (patched && c = '`') then some 0
      else
        let p := 1 + spanLen attrContCh r
        match valueLen patched (s.drop p) with
        | none => none
        | some v => some (p + v + wsSlashLen (s.drop (p + v)))

/-- the attribute loop of `locatestarttagend_tolerant` (`patched`, `budget = none`) and the
    `while k < endpos: m = attrfind_tolerant.match(rawdata, k) …` loop of `parse_starttag` (`budget = endpos - k`):
    how far it advances.  Fuel: one unit per attribute. -/
def attrsLen (patched : Bool) : Nat → Char → Str → Option Nat → Option Nat
  | 0, _, _, _ => some 0
  | f + 1, prev, s, budget =>
    if budget = some 0 then some 0
    else
      match attrLen patched prev s with
      | none => none
      | some 0 => some 0
      | some a =>
        (attrsLen patched f (s.getD (a - 1) prev) (s.drop a) (budget.map (· - a))).map (a + ·)

/-- `locatestarttagend_tolerant.match(rawdata, i).end() - i` for `s = rawdata[i:]` (which starts with `<` + letter) -/
def locateEnd (s : Str) : Option Nat :=
  let p := 2 + spanLen locNameCh (s.drop 2)
  let p := p + spanLen wsOrSlash (s.drop p)
  match attrsLen true s.length (s.getD (p - 1) ' ') (s.drop p) none with
  | none => none
  | some a => some (p + a + spanLen isSpace (s.drop (p + a)))

/-- `check_for_whole_start_tag`: `some (some endpos)`, `some none` = -1 (incomplete), `none` = out of domain -/
def checkWhole (s : Str) : Option (Option Nat) :=
  match locateEnd s with
  | none => none
  | some j =>
    match s.drop j with
    | [] => some none
    | c :: r =>
      if c = '>' then some (some (j + 1))
      else if c = '/' then (if r.head? = some '>' then some (some (j + 2)) else some none)
      else if isAsciiAlpha c || c = '=' then some none
      else some (some j)

/-! ### positions -/

/-- `(lineno, offset)` of `_markupbase.ParserBase` -/
structure Pos where
  lineno : Nat := 1
  offset : Nat := 0
deriving DecidableEq, Repr

/-- `updatepos(i, j)` for `chunk = rawdata[i:j]` -/
def updatePos (p : Pos) (chunk : Str) : Pos :=
  let nl := chunk.count '\n'
  if nl > 0 then { lineno := p.lineno + nl, offset := spanLen (· != '\n') chunk.reverse }
  else { p with offset := p.offset + chunk.length }

/-- index just after the `k`-th newline of `raw` (`k = 0`: 0); beyond the last newline: `len(raw) + 1`.
    This is `lineno_start_cache[k]` as `line_offset` fills it while `rawdata` is `raw`. -/
def lineStart : Str → Nat → Nat
  | _, 0 => 0
  | [], _ + 1 => 1
  | c :: r, k + 1 => (if c = '\n' then lineStart r k else lineStart r (k + 1)) + 1

/-- the property `line_offset` -/
def lineOffset (raw : Str) (p : Pos) : Nat := lineStart raw (p.lineno - 1)

/-- `at_line_start()` -/
def atLineStart (raw : Str) (p : Pos) : Bool :=
  if p.offset = 0 then true
  else if p.offset > 3 then false
  else (strip (slice raw (lineOffset raw p) (lineOffset raw p + p.offset))).isEmpty

/-- `blank_line_re = ^([ ]*\n){2}` as `.match(s)` -/
def blankLine (s : Str) : Bool :=
  let a := spanLen (· = ' ') s
  match s.drop a with
  | '\n' :: t => (t.drop (spanLen (· = ' ') t)).head? = some '\n'
  | _ => false

/-- `blank_line_re.match(self.rawdata[self.line_offset + self.offset + len(text):])` -/
def look (raw : Str) (p : Pos) (text : Str) : Bool :=
  blankLine (raw.drop (lineOffset raw p + p.offset + text.length))

/-! ### the constructs after `<` -/

/-- result of a `parse_*` call on `s = rawdata[i:]` -/
inductive PR
  /-- outside the modelled domain -/
  | ood
  /-- the call returns -1 -/
  | incomplete
  /-- the call returns `i + k` after firing `evs` -/
  | ok (k : Nat) (evs : List Event)
deriving DecidableEq, Repr

def sigma : Char := Char.ofNat 0x3A3

/-- `parse_starttag` (the override in `markdown/htmlparser.py`); `bf text` = the look-ahead after `text` -/
def parseStartTag (s : Str) (als : Bool) (bf : Str → Bool) : PR :=
  match checkWhole s with
  | none => .ood
  | some none => .incomplete
  | some (some endpos) =>
    let text := s.take endpos
    let tn := 1 + spanLen findNameCh (s.drop 2)
    let name := slice s 1 (1 + tn)
    let k0 := 1 + tn + wsSlashLen (s.drop (1 + tn))
    match attrsLen false s.length (s.getD (k0 - 1) ' ') (s.drop k0) (some (endpos - k0)) with
    | none => .ood
    | some adv =>
      let e := strip (slice s (k0 + adv) endpos)
      if e != ['>'] && e != ['/', '>'] then .ok endpos [.data text]
      else if name.contains sigma then .ood
      else
        let tag := lower name
        if e = ['/', '>'] then .ok endpos [.empty text (isBlockLevelTag tag) als (bf text)]
        else .ok endpos [.start tag text als (isBlockLevelTag tag) (tag = ['h', 'r']) (bf text)]

/-- `endtagfind = </\s*([a-zA-Z][-.a-zA-Z0-9:_]*)\s*>` as `.match` at the start of `s` (which starts with `</`):
    group 1 -/
def endTagName (s : Str) : Option Str :=
  let a := 2 + spanLen isSpace (s.drop 2)
  match s.drop a with
  | c :: r =>
    if isAsciiAlpha c then
      let n := spanLen (fun d => isAsciiAlnum d || d = '-' || d = '.' || d = ':' || d = '_') r
      let t := r.drop n
      if (t.drop (spanLen isSpace t)).head? = some '>' then some (c :: r.take n) else none
    else none
  | [] => none

/-- `parse_endtag` (outside CDATA content mode) with `get_endtag_text` -/
def parseEndTag (s : Str) (als : Bool) (bf : Str → Bool) : PR :=
  match findChar '>' s 1 with
  | none => .incomplete
  | some g =>
    let text := s.take (g + 1)
    match endTagName s with
    | some name => .ok (g + 1) [.end_ (lower name) text (bf text)]
    | none =>
      match s.drop 2 with
      | c :: r =>
        if isAsciiAlpha c then
          -- `tagfind_tolerant.match(rawdata, i+2)`
          let name := c :: r.take (spanLen findNameCh r)
          if name.contains sigma then .ood else .ok (g + 1) [.end_ (lower name) text (bf text)]
        else if c = '>' then .ok 3 []                                  -- `</>`
        else .ok (g + 1) [.empty text false als (bf text)]             -- `parse_bogus_comment`
      | [] => .incomplete                                              -- unreachable (`g` exists)

/-- `commentclose = --\s*>` as `.search(s)`: `(m.start(), m.end())` -/
def commentClose : Str → Option (Nat × Nat)
  | [] => none
  | c :: r =>
    let here : Option Nat :=
      if c = '-' then
        match r with
        | '-' :: t => let w := spanLen isSpace t; if (t.drop w).head? = some '>' then some (w + 3) else none
        | _ => none
      else none
    match here with
    | some e => some (0, e)
    | none => (commentClose r).map (fun m => (m.1 + 1, m.2 + 1))

/-- `"<!--"` -/
def cmtOpen : Str := ['<', '!', '-', '-']
/-- `"-->"` -/
def cmtClose : Str := ['-', '-', '>']

/-- `parse_comment` + `handle_comment` -/
def parseComment (s : Str) (als : Bool) (bf : Str → Bool) : PR :=
  match commentClose (s.drop 4) with
  | none => .incomplete
  | some (a, e) =>
    let text := cmtOpen ++ (s.drop 4).take a ++ cmtClose
    .ok (4 + e) [.empty text true als (bf text)]

/-- the override `parse_pi` (+ `handle_pi`) -/
def parsePi (s : Str) (als : Bool) (bf : Str → Bool) (intail : Bool) : PR :=
  if !(als || intail) then .ok 2 [.data ['<', '?']]
  else
    match findStr ['?', '>'] s 2 with
    | none => .incomplete
    | some q =>
      let text := ['<', '?'] ++ slice s 2 q ++ ['?', '>']
      .ok (q + 2) [.empty text true als (bf text)]

/-- `"<!doctype"` -/
def doctypeLit : Str := ['<', '!', 'd', 'o', 'c', 't', 'y', 'p', 'e']

/-- the override `parse_html_declaration` (+ `handle_decl`, `parse_bogus_comment`) for text that does not start with
    `<!--` -/
def parseDecl (s : Str) (als : Bool) (bf : Str → Bool) (intail : Bool) : PR :=
  if !(als || intail) then .ok 2 [.data ['<', '!']]
  else if startsWith s ['<', '!', '['] then .ood
  else if lower (s.take 9) = doctypeLit then
    match findChar '>' s 9 with
    | none => .incomplete
    | some g =>
      let text := ['<', '!'] ++ slice s 2 g ++ ['>']
      .ok (g + 1) [.empty text true als (bf text)]
  else
    match findChar '>' s 2 with
    | none => .incomplete
    | some g =>
      let text := s.take (g + 1)
      .ok (g + 1) [.empty text false als (bf text)]

/-- the dispatch of `goahead` at `s = rawdata[i:]`, `s[0] = '<'` -/
def parseLt (s : Str) (als : Bool) (bf : Str → Bool) (intail : Bool) : PR :=
  match s with
  | _ :: c :: _ =>
    if isAsciiAlpha c then parseStartTag s als bf
    else if c = '/' then parseEndTag s als bf
    else if startsWith s cmtOpen then parseComment s als bf
    else if c = '?' then parsePi s als bf intail
    else if c = '!' then parseDecl s als bf intail
    else .ok 1 [.data ['<']]
  | _ => .incomplete

/-! ### `goahead` -/

/-- `interesting_normal = [&<]` as `.search(s)`: index of the first `<` or `&` of `s`, or `len(s)` -/
def interesting (s : Str) : Nat := spanLen (fun c => c != '<' && c != '&') s

/-- `"script"`, `"style"` -/
def cdataTags : List Str := [['s', 'c', 'r', 'i', 'p', 't'], ['s', 't', 'y', 'l', 'e']]

/-- does a start-tag event leave CDATA content mode on?  (`set_cdata_mode(tag)` before `handle_starttag`, which calls
    `clear_cdata_mode()` only outside raw mode; `inraw` is the flag AFTER the callback) -/
def cdataStuck (evs : List Event) (inraw : Bool) : Bool :=
  match evs with
  | [.start tag _ _ _ _ _] => cdataTags.contains tag && inraw
  | _ => false

/-- result of the first phase: events fired, extractor state, unread rest -/
abbrev R1 := List Event × ExSt × Str

def consEvs (evs : List Event) (r : Option R1) : Option R1 := r.map (fun x => (evs ++ x.1, x.2))

/-- `feed(raw)` = `goahead(0)` from `s = rawdata[i:]` on, at position `pos`, extractor state `ex`
    (fuel: one unit per loop iteration; every iteration consumes at least one character).
    A data run and the construct after it are two iterations here (one in the code). -/
def go1 (raw : Str) : Nat → Str → Pos → ExSt → Option R1
  | 0, _, _, _ => none
  | _ + 1, [], _, ex => some ([], ex, [])
  | f + 1, c :: r, pos, ex =>
    let s := c :: r
    if c != '<' && c != '&' then
      let d := s.take (interesting s)
      consEvs [.data d] (go1 raw f (s.drop (interesting s)) (updatePos pos d) (step ex (.data d)))
    else if c = '<' then
      match parseLt s (atLineStart raw pos) (look raw pos) ex.intail with
      | .ood => none
      | .incomplete => none
      | .ok k evs =>
        let ex' := runFrom ex evs
        if cdataStuck evs ex'.inraw then none
        else consEvs evs (go1 raw f (s.drop k) (updatePos pos (s.take k)) ex')
    else if startsWith r ['#'] then
      match charrefAt s with
      | some e =>
        let k := if s[e - 1]? == some ';' then e else e - 1
        let ev := Event.charref (slice s 2 (e - 1))
        consEvs [ev] (go1 raw f (s.drop k) (updatePos pos (s.take k)) (step ex ev))
      | none =>
        if s.contains ';' then some ([.data ['&', '#']], step ex (.data ['&', '#']), s.drop 2)
        else some ([], ex, s)
    else
      match entityrefAt s with
      | some e =>
        let ev := Event.entityref (slice s 1 (e - 1))
        consEvs [ev] (go1 raw f (s.drop e) (updatePos pos (s.take e)) (step ex ev))
      | none =>
        if r.isEmpty then some ([], ex, s)
        else consEvs [.data ['&']] (go1 raw f r (updatePos pos ['&']) (step ex (.data ['&'])))

/-- `close()` = `goahead(1)` on an unread rest WITHOUT `<`: the events (they depend neither on positions nor on the
    extractor state) -/
def go2 : Nat → Str → List Event
  | 0, _ => []
  | _ + 1, [] => []
  | f + 1, c :: r =>
    let s := c :: r
    if c != '&' then
      let j := spanLen (· != '&') s
      .data (s.take j) :: go2 f (s.drop j)
    else if startsWith r ['#'] then
      match charrefAt s with
      | some e =>
        let k := if s[e - 1]? == some ';' then e else e - 1
        .charref (slice s 2 (e - 1)) :: go2 f (s.drop k)
      | none =>
        -- `handle_data("&#")`, leave the loop, `handle_data(rawdata[i:n])` (non-empty: it holds the `;`)
        if s.contains ';' then [.data ['&', '#'], .data (s.drop 2)]
        else [.data s]
    else
      match entityrefAt s with
      | some e => .entityref (slice s 1 (e - 1)) :: go2 f (s.drop e)
      | none => if r.isEmpty then [.data s] else .data ['&'] :: go2 f r

/-- the whole event list of `feed(src); close()` (the last event is the `close`), or `none` = out of domain -/
def events (src : Str) : Option (List Event) :=
  match go1 src (src.length + 1) src {} init with
  | none => none
  | some (evs, _, rest) =>
    if rest.contains '<' then none
    else some (evs ++ go2 (rest.length + 1) rest ++ [.close []])

/-- the domain of the model -/
def TokDomain (src : Str) : Prop := (events src).isSome

instance (src : Str) : Decidable (TokDomain src) := by unfold TokDomain; infer_instance

end MdVerif.HtmlTok
