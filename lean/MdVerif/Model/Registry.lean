/-
Model of `markdown.util.Registry` (every public method), value-passing.

Python                                   | here
-----------------------------------------+-------------------------------------------
self._data : dict[str, T]                | `data : List (Name × α)` (association list, insertion order)
self._priority : list[_PriorityItem]     | `prio : List PItem`
self._is_sorted                          | `sorted : Bool`
list.sort(key=prio, reverse=True)        | `ssort` (stable: equal priorities keep their relative order)
slice.indices                            | `sliceIdx`

No Mathlib, no well-founded recursion: everything here is kernel-evaluable.
-/
namespace MdVerif.Registry

abbrev Name := String

structure PItem where
  name : Name
  prio : Int
  deriving DecidableEq, Repr

/-- stable insertion into a descending list: after all entries with priority ≥ -/
def ins (e : PItem) : List PItem → List PItem
  | [] => [e]
  | x :: xs => if x.prio ≥ e.prio then x :: ins e xs else e :: x :: xs

/-- `list.sort(key=priority, reverse=True)`: the unique stable descending arrangement -/
def ssort (l : List PItem) : List PItem := l.foldl (fun acc e => ins e acc) []

structure Reg (α : Type) where
  data : List (Name × α) := []
  prio : List PItem := []
  sorted : Bool := false
  deriving Repr

inductive Err | valueError | keyError | indexError
  deriving DecidableEq, Repr

variable {α : Type}

def empty : Reg α := {}

def lookup (n : Name) : List (Name × α) → Option α
  | [] => none
  | (k, v) :: r => if k = n then some v else lookup n r

def eraseKey (n : Name) (d : List (Name × α)) : List (Name × α) := d.filter (fun kv => kv.1 != n)

/-- `_sort` -/
def sortR (r : Reg α) : Reg α :=
  if r.sorted then r else { r with prio := ssort r.prio, sorted := true }

/-- `name in registry` -/
def containsName (r : Reg α) (n : Name) : Bool := r.data.any (fun kv => kv.1 == n)

/-- `item in registry` (non-string item) -/
def containsItem [DecidableEq α] (r : Reg α) (a : α) : Bool := r.data.any (fun kv => kv.2 == a)

/-- `len(registry)`: does not sort -/
def len (r : Reg α) : Nat := r.prio.length

/-- `get_index_for_name`; sorts only when the name is present -/
def indexFor (r : Reg α) (n : Name) : Reg α × Except Err Nat :=
  if containsName r n then
    let r' := sortR r
    (r', .ok (r'.prio.findIdx (fun p => p.name == n)))
  else (r, .error .valueError)

/-- `deregister(name, strict)` -/
def deregister (r : Reg α) (n : Name) (strict : Bool) : Reg α × Except Err Unit :=
  match indexFor r n with
  | (r', .ok i) => ({ r' with prio := r'.prio.eraseIdx i, data := eraseKey n r'.data }, .ok ())
  | (r', .error e) => (r', if strict then .error e else .ok ())

/-- `register(item, name, priority)` -/
def register (r : Reg α) (a : α) (n : Name) (p : Int) : Reg α :=
  let r1 := if containsName r n then (deregister r n true).1 else r
  { data := r1.data ++ [(n, a)], prio := r1.prio ++ [⟨n, p⟩], sorted := false }

/-- `list(registry)`; a missing key would be a `KeyError` -/
def iter (r : Reg α) : Reg α × Except Err (List α) :=
  let r' := sortR r
  (r', match r'.prio.mapM (fun p => lookup p.name r'.data) with
       | some l => .ok l
       | none => .error .keyError)

/-- Python index normalisation for `list[i]` -/
def normIdx (len : Nat) (i : Int) : Option Nat :=
  let j := if i < 0 then i + len else i
  if 0 ≤ j ∧ j < len then some j.toNat else none

/-- `registry[int]` -/
def getIdx (r : Reg α) (i : Int) : Reg α × Except Err α :=
  let r' := sortR r
  (r', match normIdx r'.prio.length i with
       | none => .error .indexError
       | some j =>
         match r'.prio[j]? with
         | none => .error .indexError
         | some p => match lookup p.name r'.data with
                     | some a => .ok a
                     | none => .error .keyError)

/-- `registry[name]` (sorts first, as the code does) -/
def getName (r : Reg α) (n : Name) : Reg α × Except Err α :=
  let r' := sortR r
  (r', match lookup n r'.data with
       | some a => .ok a
       | none => .error .keyError)

/-- `slice(start, stop, step).indices(len)` followed by `range(*…)`: the selected indices, in order.
    `none` = `ValueError` (step 0). -/
def sliceIdx (len : Nat) (start stop step : Option Int) : Option (List Nat) :=
  let st := step.getD 1
  if st = 0 then none else
  let n : Int := len
  let clampLo (lo hi v : Int) : Int := if v < lo then lo else if v > hi then hi else v
  if st > 0 then
    let norm (v : Int) : Int := clampLo 0 n (if v < 0 then v + n else v)
    let a := match start with | some v => norm v | none => 0
    let b := match stop with | some v => norm v | none => n
    let cnt := if a < b then ((b - a + st - 1) / st).toNat else 0
    some ((List.range cnt).map (fun (k : Nat) => (a + (k : Int) * st).toNat))
  else
    let norm (v : Int) : Int := clampLo (-1) (n - 1) (if v < 0 then v + n else v)
    let a := match start with | some v => norm v | none => n - 1
    let b := match stop with | some v => norm v | none => -1
    let cnt := if a > b then ((a - b + (-st) - 1) / (-st)).toNat else 0
    some ((List.range cnt).map (fun (k : Nat) => (a + (k : Int) * st).toNat))

/-- `registry[slice]`: a new registry into which the selected entries are registered in slice order -/
def getSlice (r : Reg α) (start stop step : Option Int) : Reg α × Except Err (Reg α) :=
  let r' := sortR r
  (r', match sliceIdx r'.prio.length start stop step with
       | none => .error .valueError
       | some idxs =>
         let sel := idxs.filterMap (fun i => r'.prio[i]?)
         match sel.mapM (fun p => (lookup p.name r'.data).map (fun a => (a, p))) with
         | none => .error .keyError
         | some items => .ok (items.foldl (fun acc (ap : α × PItem) => register acc ap.1 ap.2.name ap.2.prio) empty))

/-! ### Operation histories -/

inductive Op (α : Type)
  | register (a : α) (n : Name) (p : Int)
  | deregister (n : Name) (strict : Bool)
  | iter | len
  | containsName (n : Name) | containsItem (a : α)
  | getIdx (i : Int) | getName (n : Name)
  | getSlice (start stop step : Option Int)
  | indexFor (n : Name)
  deriving Repr

inductive Obs (α : Type)
  | unit | items (l : List α) | nat (n : Nat) | bool (b : Bool) | item (a : α)
  | sliced (l : List (Name × Int × α))   -- a slice result is observed by iterating it
  | err (e : Err)
  deriving Repr, DecidableEq

/-- full observation of a registry: names, priorities, items in iteration order -/
def dump (r : Reg α) : List (Name × Int × α) :=
  (sortR r).prio.filterMap (fun p => (lookup p.name r.data).map (fun a => (p.name, p.prio, a)))

def step [DecidableEq α] (r : Reg α) : Op α → Reg α × Obs α
  | .register a n p => (register r a n p, .unit)
  | .deregister n s => match deregister r n s with
      | (r', .ok _) => (r', .unit) | (r', .error e) => (r', .err e)
  | .iter => match iter r with
      | (r', .ok l) => (r', .items l) | (r', .error e) => (r', .err e)
  | .len => (r, .nat (len r))
  | .containsName n => (r, .bool (containsName r n))
  | .containsItem a => (r, .bool (containsItem r a))
  | .getIdx i => match getIdx r i with
      | (r', .ok a) => (r', .item a) | (r', .error e) => (r', .err e)
  | .getName n => match getName r n with
      | (r', .ok a) => (r', .item a) | (r', .error e) => (r', .err e)
  | .getSlice a b c => match getSlice r a b c with
      | (r', .ok s) => (r', .sliced (dump s)) | (r', .error e) => (r', .err e)
  | .indexFor n => match indexFor r n with
      | (r', .ok i) => (r', .nat i) | (r', .error e) => (r', .err e)

def run [DecidableEq α] (r : Reg α) : List (Op α) → Reg α × List (Obs α)
  | [] => (r, [])
  | op :: ops =>
    let (r1, o) := step r op
    let (r2, os) := run r1 ops
    (r2, o :: os)

/-! ### Abstract specification: the registration log -/

structure Entry (α : Type) where
  name : Name
  prio : Int
  item : α
  deriving Repr

def Entry.pitem (e : Entry α) : PItem := ⟨e.name, e.prio⟩

/-- the registration log after a history: re-registration moves the entry to the end (it becomes the most
    recently registered), deregistration removes exactly that name, reads change nothing -/
def logStep (l : List (Entry α)) : Op α → List (Entry α)
  | .register a n p => l.filter (fun e => e.name != n) ++ [⟨n, p, a⟩]
  | .deregister n _ => l.filter (fun e => e.name != n)
  | _ => l

def log (ops : List (Op α)) : List (Entry α) := ops.foldl logStep []

/-- stable descending insertion on entries (spec side) -/
def insE (e : Entry α) : List (Entry α) → List (Entry α)
  | [] => [e]
  | x :: xs => if x.prio ≥ e.prio then x :: insE e xs else e :: x :: xs

/-- the specified iteration order: descending priority, ties in registration order -/
def view (l : List (Entry α)) : List (Entry α) := l.foldl (fun acc e => insE e acc) []

end MdVerif.Registry
