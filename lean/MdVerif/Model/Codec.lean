/-
Model of the only place where Python-Markdown touches bytes (C20): `Markdown.convertFile`.

```
text = codecs.getreader(encoding)(input).read()        # strict decoding: UnicodeDecodeError on malformed input
                                                       #   (but see `decodeStream`: a truncated tail is dropped)
text = text.lstrip('﻿')                            # every leading U+FEFF
html = self.convert(text)
output.write(html.encode(encoding, 'xmlcharrefreplace'))
```

The codecs themselves belong to CPython; they are modelled concretely for ASCII, Latin-1 and UTF-8 (bytes are
natural numbers; an encoder only produces numbers below 256, a decoder rejects anything else) and compared with
`str.encode` / `bytes.decode` by `harness/corr/codec.py`.  Lean's `Char` is a Unicode scalar value, so lone
surrogates (which a Python `str` can hold) are outside the domain.

Core Lean only; everything is structurally recursive.
-/
import MdVerif.Py.Basic

namespace MdVerif.Codec
open MdVerif

abbrev Bytes := List Nat

inductive Codec | ascii | latin1 | utf8
  deriving DecidableEq, Repr

/-! ### strict encoding -/

/-- UTF-8 bytes of a code point -/
def utf8Bytes (n : Nat) : Bytes :=
  if n < 0x80 then [n]
  else if n < 0x800 then [0xC0 + n / 64, 0x80 + n % 64]
  else if n < 0x10000 then [0xE0 + n / 4096, 0x80 + n / 64 % 64, 0x80 + n % 64]
  else [0xF0 + n / 262144, 0x80 + n / 4096 % 64, 0x80 + n / 64 % 64, 0x80 + n % 64]

/-- the bytes of one character, `none` when the codec cannot represent it (`UnicodeEncodeError` under `'strict'`) -/
def encodeChar : Codec → Char → Option Bytes
  | .ascii, ch => if ch.toNat < 128 then some [ch.toNat] else none
  | .latin1, ch => if ch.toNat < 256 then some [ch.toNat] else none
  | .utf8, ch => some (utf8Bytes ch.toNat)

/-- `s.encode(codec)` (strict) -/
def encode (c : Codec) : Str → Option Bytes
  | [] => some []
  | ch :: s =>
    match encodeChar c ch, encode c s with
    | some a, some b => some (a ++ b)
    | _, _ => none

/-! ### `xmlcharrefreplace` -/

/-- the replacement text of the `xmlcharrefreplace` error handler: `&#N;`, `N` decimal -/
def charref (ch : Char) : Str := '&' :: '#' :: (Py.natToDec ch.toNat ++ [';'])

/-- one character under `xmlcharrefreplace`: its bytes, or the bytes of its numeric character reference (the
    replacement is encoded with the same codec, strictly) -/
def encodeCharX (c : Codec) (ch : Char) : Option Bytes :=
  match encodeChar c ch with
  | some a => some a
  | none => encode c (charref ch)

/-- `s.encode(codec, 'xmlcharrefreplace')` -/
def encodeX (c : Codec) : Str → Option Bytes
  | [] => some []
  | ch :: s =>
    match encodeCharX c ch, encodeX c s with
    | some a, some b => some (a ++ b)
    | _, _ => none

/-- the text that `encodeX` encodes: unrepresentable characters spelled as numeric character references -/
def xref (c : Codec) (s : Str) : Str :=
  s.flatMap (fun ch => if (encodeChar c ch).isSome then [ch] else charref ch)

/-! ### strict decoding -/

def decodeAscii : Bytes → Option Str
  | [] => some []
  | b :: r => if b < 128 then (decodeAscii r).map (Char.ofNat b :: ·) else none

def decodeLatin1 : Bytes → Option Str
  | [] => some []
  | b :: r => if b < 256 then (decodeLatin1 r).map (Char.ofNat b :: ·) else none

/-- continuation byte `10xxxxxx` -/
def isCont (b : Nat) : Bool := 0x80 ≤ b && b ≤ 0xBF

/-- may `b1` follow the lead byte `b0` of a three-byte sequence? (`E0` needs `A0..BF`: no overlong form; `ED` needs
    `80..9F`: no surrogate) -/
def okSecond3 (b0 b1 : Nat) : Bool := isCont b1 && !(if b1 < 0xA0 then b0 = 0xE0 else b0 = 0xED)

/-- a data end after two bytes of a three-byte sequence, for the stream reader: as `okSecond3`, except that CPython
    (`unicode_decode_utf8`, "Truncated surrogate code in range D800-DFFF") also lets `ED A0..BF` wait for more data -/
def okTail3 (b0 b1 : Nat) : Bool := isCont b1 && !(b1 < 0xA0 && b0 = 0xE0)

/-- may `b1` follow the lead byte `b0` of a four-byte sequence? (`F0` needs `90..BF`, `F4` needs `80..8F`) -/
def okSecond4 (b0 b1 : Nat) : Bool := isCont b1 && !(if b1 < 0x90 then b0 = 0xF0 else b0 = 0xF4)

/-- UTF-8 decoding: shortest form only, no surrogates, nothing above U+10FFFF.

    `final = true`: `bytes.decode('utf-8')` — a truncated sequence at the end is an error.
    `final = false`: what `StreamReader.read()` does (`codecs.utf_8_decode(data, 'strict', False)`): a truncated but so
    far well-formed sequence at the end of the data is left in the reader's buffer, silently. -/
def decodeUtf8 (final : Bool) : Bytes → Option Str
  | [] => some []
  | b0 :: r =>
    if b0 < 0x80 then (decodeUtf8 final r).map (Char.ofNat b0 :: ·)
    else if b0 < 0xC2 then none                       -- a continuation byte, or `C0`/`C1` (overlong), as start byte
    else if b0 < 0xE0 then
      match r with
      | b1 :: r1 =>
        if isCont b1 then (decodeUtf8 final r1).map (Char.ofNat ((b0 - 0xC0) * 64 + (b1 - 0x80)) :: ·) else none
      | [] => if final then none else some []
    else if b0 < 0xF0 then
      match r with
      | b1 :: b2 :: r2 =>
        if okSecond3 b0 b1 && isCont b2 then
          (decodeUtf8 final r2).map (Char.ofNat ((b0 - 0xE0) * 4096 + (b1 - 0x80) * 64 + (b2 - 0x80)) :: ·)
        else none
      | [b1] => if !final && okTail3 b0 b1 then some [] else none
      | [] => if final then none else some []
    else if b0 < 0xF5 then
      match r with
      | b1 :: b2 :: b3 :: r3 =>
        if okSecond4 b0 b1 && isCont b2 && isCont b3 then
          (decodeUtf8 final r3).map
            (Char.ofNat ((b0 - 0xF0) * 262144 + (b1 - 0x80) * 4096 + (b2 - 0x80) * 64 + (b3 - 0x80)) :: ·)
        else none
      | [b1, b2] => if !final && okSecond4 b0 b1 && isCont b2 then some [] else none
      | [b1] => if !final && okSecond4 b0 b1 then some [] else none
      | [] => if final then none else some []
    else none                                         -- `F5..FF` never start a sequence

/-- `bytes.decode(codec)` (strict); `none` = `UnicodeDecodeError` -/
def decode : Codec → Bytes → Option Str
  | .ascii => decodeAscii
  | .latin1 => decodeLatin1
  | .utf8 => decodeUtf8 true

/-- `codecs.getreader(codec)(stream).read()` / `codecs.open(path, 'r', codec).read()`: as `decode`, except that
    the stream reader does not complain about a truncated multi-byte sequence at the very end of the data -/
def decodeStream : Codec → Bytes → Option Str
  | .ascii => decodeAscii
  | .latin1 => decodeLatin1
  | .utf8 => decodeUtf8 false

/-! ### byte-order mark -/

def bom : Char := Char.ofNat 0xFEFF

/-- `text.lstrip('﻿')`: every leading U+FEFF goes, nothing else -/
def stripBom (s : Str) : Str := Py.lstripC bom s

/-! ### `convertFile` -/

/-- `Markdown.convertFile(input, output, encoding)` for a path / stream input: the bytes written, `none` when the input
    is not valid in the encoding (`UnicodeDecodeError`).  (With `input=None` the text comes from `sys.stdin`, decoded by
    the interpreter with the locale's encoding, not with `encoding`: finding F-C20-1, outside this model.) -/
def convertFile (c : Codec) (convert : Str → Str) (input : Bytes) : Option Bytes :=
  match decodeStream c input with
  | none => none
  | some text => encodeX c (convert (stripBom text))

/-! ### reading numeric character references back (specification side: what a consumer of the output does) -/

/-- replace every `&#N;` (decimal) by the character `N`; `skip` = characters of the current reference still to drop -/
def decodeRefsAux : Nat → Str → Str
  | _, [] => []
  | k + 1, _ :: s => decodeRefsAux k s
  | 0, c :: s =>
    if c = '&' then
      match s with
      | '#' :: t =>
        let k := Py.spanLen Py.isAsciiDigit t
        if k > 0 && (t.drop k).head? = some ';' then
          Char.ofNat (Py.decToNat (t.take k)) :: decodeRefsAux (k + 2) s
        else c :: decodeRefsAux 0 s
      | _ => c :: decodeRefsAux 0 s
    else c :: decodeRefsAux 0 s

def decodeRefs (s : Str) : Str := decodeRefsAux 0 s

end MdVerif.Codec
