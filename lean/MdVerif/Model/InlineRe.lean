/-
Recognisers of the core inline patterns (`markdown/inlinepatterns.py`), regex-free.

Each definition is the transliteration of the validated Python mirror (`harness/mirror/mirror_inline.py`,
`mirror_amp.py`) and is compared with the real regular expression / method through a driver op
(`Driver/InlineOps.lean`, `harness/corr/inline.py`).  Everything is structural on the text (a suffix of it) or on a
step list; no fuel is needed in this file.
-/
import MdVerif.Model.Tree

namespace MdVerif.Inline
open Py

def STX : Char := Char.ofNat 2
def ETX : Char := Char.ofNat 3
/-- `util.INLINE_PLACEHOLDER_PREFIX` -/
def phPrefix : Str := STX :: "klzzwxh:".toList
def phPrefixLen : Nat := 9
/-- `util.HTML_PLACEHOLDER` prefix -/
def htmlPrefix : Str := STX :: "wzxhzdk:".toList

/-! ### Python slices -/

/-- `s[a:b]` for `0 ≤ a`, `0 ≤ b` -/
def slice (s : Str) (a b : Nat) : Str := (s.take b).drop a

/-- normalisation of a slice bound -/
def pyIdx (n : Nat) (i : Int) : Nat := if i < 0 then (n + i).toNat else min i.toNat n

/-- `s[a:b]` with Python's treatment of negative bounds -/
def pySlice (s : Str) (a b : Int) : Str := slice s (pyIdx s.length a) (pyIdx s.length b)

/-- `s[i:]` -/
def pyDrop (s : Str) (i : Int) : Str := s.drop (pyIdx s.length i)

/-! ### `BACKTICK_RE = (?:(?<!\\)((?:\\{2})+)(?=`+)|(?<!\\)(`+)(.+?)(?<!`)\2(?!`))` -/

inductive BtKind | bs | code
  deriving DecidableEq, Repr

structure BtMatch where
  kind : BtKind
  start : Nat
  stop : Nat
  /-- group 1 (kind `bs`) or group 3 (kind `code`) -/
  group : Str
  deriving Repr

/-- closing run of exactly `m` backticks: `prev` is the character before `r`, `L` the length of group 3 so far -/
def btClose (m : Nat) (prev : Char) (r : Str) (L : Nat) : Option Nat :=
  if prev != '`' && countPrefix '`' none r == m then some L
  else match r with
    | [] => none
    | c :: r' => btClose m c r' (L + 1)

/-- opening run: try `m = t, t-1, …, 1` backticks (the regex backtracks the greedy `` `+ ``) -/
def btCode (suf : Str) : Nat → Option (Nat × Nat)
  | 0 => none
  | m + 1 =>
    match suf.drop (m + 1) with
    | c :: r =>
      match btClose (m + 1) c r 1 with
      | some L => some (m + 1, L)
      | none => btCode suf m
    | [] => btCode suf m

/-- match attempt at offset `i` (`prev` = character before, `suf` = text from `i`) -/
def btAt (prev : Option Char) (suf : Str) (i : Nat) : Option BtMatch :=
  if prev == some '\\' then none
  else
    let k := countPrefix '\\' none suf
    if k ≥ 2 && k % 2 == 0 && suf[k]? == some '`' then some ⟨.bs, i, i + k, suf.take k⟩
    else
      match suf with
      | '`' :: _ =>
        let t := countPrefix '`' none suf
        match btCode suf t with
        | some (m, L) => some ⟨.code, i, i + m + L + m, (suf.drop m).take L⟩
        | none => none
      | _ => none

def btScan (prev : Option Char) (suf : Str) (i : Nat) : Option BtMatch :=
  match btAt prev suf i with
  | some r => some r
  | none =>
    match suf with
    | [] => none
    | c :: r => btScan (some c) r (i + 1)

/-- `BACKTICK_RE.search(s, start)` -/
def btFind (s : Str) (start : Nat) : Option BtMatch :=
  if start > s.length then none
  else btScan (if start = 0 then none else s[start - 1]?) (s.drop start) start

/-! ### the ten emphasis regular expressions as step lists

All of them are sequences of: a literal run of the delimiter `c`, one-character look-arounds, and a lazy or greedy
group.  `seqGo` is the backtracking matcher (priority order of `re`). -/

inductive Step
  | lit (m : Nat)                      -- `c{m}`
  | notnext                            -- `(?!c)`
  | nbW                                -- `(?<!\w)`
  | nbC                                -- `(?<!c)`
  | naW                                -- `(?!\w)`
  | lazy (mn : Nat) (notc : Bool)      -- `(.+?)` / `(.*?)` / `([^c]+?)`: a captured group
  | greedy (mn : Nat)                  -- `([^c]+)`: a captured group
  deriving Repr

/-- continuation: character before, remaining text, position, groups (reversed) -/
abbrev K := Option Char → Str → Nat → List Str → Option (Nat × List Str)

def lazyLoop (c : Char) (notc : Bool) (k : K) (gs : List Str) :
    Nat → Option Char → Str → Nat → Str → Option (Nat × List Str)
  | need, prev, suf, pos, acc =>
    let ok := fun (ch : Char) => !notc || ch != c
    match need, suf with
    | 0, [] => k prev [] pos (acc.reverse :: gs)
    | 0, ch :: r =>
      match k prev (ch :: r) pos (acc.reverse :: gs) with
      | some x => some x
      | none => if ok ch then lazyLoop c notc k gs 0 (some ch) r (pos + 1) (ch :: acc) else none
    | _ + 1, [] => none
    | n + 1, ch :: r => if ok ch then lazyLoop c notc k gs n (some ch) r (pos + 1) (ch :: acc) else none

def greedyLoop (c : Char) (mn : Nat) (k : K) (gs : List Str) :
    Option Char → Str → Nat → Nat → Str → Option (Nat × List Str)
  | prev, suf, pos, L, acc =>
    let here := fun (_ : Unit) => if L ≥ mn then k prev suf pos (acc.reverse :: gs) else none
    match suf with
    | [] => here ()
    | ch :: r =>
      if ch != c then
        match greedyLoop c mn k gs (some ch) r (pos + 1) (L + 1) (ch :: acc) with
        | some x => some x
        | none => here ()
      else here ()

def isW (o : Option Char) : Bool := match o with | some ch => isWord ch | none => false

def seqGo (c : Char) : List Step → Option Char → Str → Nat → List Str → Option (Nat × List Str)
  | [], _, _, pos, gs => some (pos, gs.reverse)
  | st :: rest, prev, suf, pos, gs =>
    match st with
    | .lit m =>
      if m > 0 && countPrefix c (some m) suf == m then seqGo c rest (some c) (suf.drop m) (pos + m) gs else none
    | .notnext => if suf.head? == some c then none else seqGo c rest prev suf pos gs
    | .nbW => if isW prev then none else seqGo c rest prev suf pos gs
    | .nbC => if prev == some c then none else seqGo c rest prev suf pos gs
    | .naW => if isW suf.head? then none else seqGo c rest prev suf pos gs
    | .lazy mn notc => lazyLoop c notc (seqGo c rest) gs mn prev suf pos []
    | .greedy mn => greedyLoop c mn (seqGo c rest) gs prev suf pos 0 []

/-- `pattern.match(s, i)`: end of the match and groups 2.. (group 1 is the delimiter) -/
def seqMatch (s : Str) (i : Nat) (c : Char) (steps : List Step) : Option (Nat × List Str) :=
  if i > s.length then none
  else seqGo c steps (if i = 0 then none else s[i - 1]?) (s.drop i) i []

inductive Builder | single | double | double2
  deriving DecidableEq, Repr

structure EmItem where
  steps : List Step
  builder : Builder
  tag1 : String
  tag2 : String := ""

/-- `AsteriskProcessor.PATTERNS`: EM_STRONG_RE, STRONG_EM_RE, STRONG_EM3_RE, STRONG_RE, EMPHASIS_RE -/
def starPatterns : List EmItem := [
  ⟨[.lit 3, .lazy 1 false, .lit 1, .lazy 0 false, .lit 2], .double, "strong", "em"⟩,
  ⟨[.lit 3, .lazy 1 false, .lit 2, .lazy 0 false, .lit 1], .double, "em", "strong"⟩,
  ⟨[.lit 2, .notnext, .lazy 1 true, .lit 1, .notnext, .lazy 1 false, .lit 3], .double2, "strong", "em"⟩,
  ⟨[.lit 2, .lazy 1 false, .lit 2], .single, "strong", ""⟩,
  ⟨[.lit 1, .greedy 1, .lit 1], .single, "em", ""⟩]

/-- `UnderscoreProcessor.PATTERNS`: EM_STRONG2_RE, STRONG_EM2_RE, SMART_STRONG_EM_RE, SMART_STRONG_RE,
    SMART_EMPHASIS_RE -/
def underPatterns : List EmItem := [
  ⟨[.lit 3, .lazy 1 false, .lit 1, .lazy 0 false, .lit 2], .double, "strong", "em"⟩,
  ⟨[.lit 3, .lazy 1 false, .lit 2, .lazy 0 false, .lit 1], .double, "em", "strong"⟩,
  ⟨[.nbW, .lit 2, .notnext, .lazy 1 false, .nbW, .lit 1, .notnext, .lazy 1 false, .lit 3, .naW],
    .double2, "strong", "em"⟩,
  ⟨[.nbW, .lit 2, .notnext, .lazy 1 false, .nbC, .lit 2, .naW], .single, "strong", ""⟩,
  ⟨[.nbW, .lit 1, .notnext, .lazy 1 false, .nbC, .lit 1, .naW], .single, "em", ""⟩]

def emPatterns (c : Char) : List EmItem := if c = '*' then starPatterns else underPatterns

/-! ### `NOT_STRONG_RE = ((^|(?<=\s))(\*{1,3}|_{1,3})(?=\s|$))` -/

/-- a run of one to three `c` at the start of `suf` followed by white space or the end.  Shorter runs than the
    maximal one (backtracking of `{1,3}`) are followed by `c`, which is not white space, so only the maximal run can
    succeed. -/
def nsRun (c : Char) (suf : Str) : Option Nat :=
  let k := countPrefix c (some 3) suf
  if k = 0 then none
  else match suf[k]? with
    | none => some k
    | some e => if isSpace e then some k else none

def nsScan (prev : Option Char) (suf : Str) (i : Nat) : Option (Nat × Nat) :=
  match suf with
  | [] => none
  | ch :: r =>
    let ok := match prev with | none => true | some p => isSpace p
    let here :=
      if ok then
        match nsRun '*' suf with
        | some k => some (i, i + k)
        | none => (nsRun '_' suf).map (fun k => (i, i + k))
      else none
    match here with
    | some x => some x
    | none => nsScan (some ch) r (i + 1)

/-- `NOT_STRONG_RE.search(s, start)` → `(start, end)` -/
def nsFind (s : Str) (start : Nat) : Option (Nat × Nat) :=
  if start > s.length then none
  else nsScan (if start = 0 then none else s[start - 1]?) (s.drop start) start

/-! ### `ENTITY_RE = (&(?:\#[0-9]+|\#x[0-9a-fA-F]+|[a-zA-Z0-9]+);)` -/

/-- `n > 0` characters of class `p` then `;` -/
def runSemi (p : Char → Bool) (r : Str) : Option Nat :=
  let n := spanLen p r
  if n > 0 && r[n]? == some ';' then some (n + 1) else none

/-- length of the entity body after `&` (including `;`) -/
def entityBody (r : Str) : Option Nat :=
  match r with
  | '#' :: r1 =>
    match runSemi isAsciiDigit r1 with
    | some n => some (n + 1)
    | none =>
      match r1 with
      | 'x' :: r2 => (runSemi isHexDigit r2).map (· + 2)
      | _ => none
  | _ => runSemi isAsciiAlnum r

def entityScan (suf : Str) (i : Nat) : Option (Nat × Nat) :=
  match suf with
  | [] => none
  | c :: r =>
    if c = '&' then
      match entityBody r with
      | some n => some (i, i + 1 + n)
      | none => entityScan r (i + 1)
    else entityScan r (i + 1)

/-- `ENTITY_RE.search(s, start)` → `(start, end)` -/
def entityFind (s : Str) (start : Nat) : Option (Nat × Nat) :=
  if start > s.length then none else entityScan (s.drop start) start

/-! ### inline placeholders: `INLINE_PLACEHOLDER_RE = \x02klzzwxh:([0-9]+)\x03` -/

/-- after the prefix: the id and the length of `id ETX` -/
def phAt (suf : Str) : Option (Str × Nat) :=
  let d := spanLen isAsciiDigit suf
  if d > 0 && suf[d]? == some ETX then some (suf.take d, d + 1) else none

def findPhScan (suf : Str) (i : Nat) : Option (Str × Nat) :=
  match suf with
  | [] => none
  | c :: r =>
    let here :=
      if c = STX && startsWith (c :: r) phPrefix then
        match phAt ((c :: r).drop phPrefixLen) with
        | some (id, l) => some (id, i + phPrefixLen + l)
        | none => none
      else none
    match here with
    | some x => some x
    | none => findPhScan r (i + 1)

/-- `InlineProcessor.__findPlaceholder(data, index)` -/
def findPh (data : Str) (index : Nat) : Option Str × Nat :=
  match (if index > data.length then none else findPhScan (data.drop index) index) with
  | some (id, e) => (some id, e)
  | none => (none, index + 1)

/-- `INLINE_PLACEHOLDER_RE.sub(get_stash, text)` where `lookup id` is the callback's result (`none` = the callback
    returns `None`, which `re.sub` treats as the empty string); one level, left to right -/
def phSub (lookup : Str → Option Str) : Nat → Str → Str
  | _, [] => []
  | k + 1, _ :: s => phSub lookup k s
  | 0, c :: s =>
    if c = STX && startsWith (c :: s) phPrefix then
      match phAt ((c :: s).drop phPrefixLen) with
      | some (id, l) => (lookup id).getD [] ++ phSub lookup (phPrefixLen + l - 1) s
      | none => c :: phSub lookup 0 s
    else c :: phSub lookup 0 s

/-! ### `LinkInlineProcessor.getText` -/

def getTextLoop : Str → Nat → Nat → Str → Str × Nat × Bool
  | [], _, index, acc => (acc.reverse, index, false)
  | c :: r, bc, index, acc =>
    let bc' : Nat := if c = ']' then bc - 1 else if c = '[' then bc + 1 else bc
    if bc' = 0 then (acc.reverse, index + 1, true) else getTextLoop r bc' (index + 1) (c :: acc)

/-- `getText(data, index)` → `(text, index, handled)` -/
def getText (data : Str) (index : Nat) : Str × Nat × Bool := getTextLoop (data.drop index) 1 index []

/-! ### `LinkInlineProcessor.getLink` (without the final `unescape`s, which need the stash) -/

/-- the optional part of `RE_LINK = \(\s*(?:(<[^<>]*>)\s*(?:('[^']*'|"[^"]*")\s*)?\))?` at position `p`
    (after `\(\s*`): group 1, group 2, end -/
def linkAngle (data : Str) (p : Nat) : Option (Str × Option Str × Nat) :=
  match data.drop p with
  | '<' :: r =>
    let a := spanLen (fun ch => ch != '<' && ch != '>') r
    if r[a]? == some '>' then
      let g1 := '<' :: r.take a ++ ['>']
      let r2 := r.drop (a + 1)
      let w := spanLen isSpace r2
      let q3 := p + 1 + a + 1 + w
      match r2.drop w with
      | qc :: r4 =>
        if qc = '\'' || qc = '"' then
          match find [qc] r4 with
          | some t =>
            let after := r4.drop (t + 1)
            let w2 := spanLen isSpace after
            if (after.drop w2).head? == some ')' then
              some (g1, some (qc :: r4.take t ++ [qc]), q3 + 1 + t + 1 + w2 + 1)
            else none
          | none => none
        else if qc = ')' then some (g1, none, q3 + 1)
        else none
      | [] => none
    else none
  | _ => none

structure LinkSt where
  bc : Nat := 1                       -- bracket_count
  bt : Nat := 1                       -- backtrack_count
  index : Nat
  lastBracket : Option Nat := none    -- `-1` = none
  quote : Option Char := none
  startQ : Option Nat := none
  exitQ : Option Nat := none
  ignore : Bool := false
  altQ : Option Char := none
  startA : Option Nat := none
  exitA : Option Nat := none
  last : Option Char := none          -- `''` = none

def qEq (q last : Option Char) : Bool := q.isSome && q == last

def linkStep (s : LinkSt) (c : Char) : LinkSt :=
  if c = '(' then
    if !s.ignore then { s with bc := s.bc + 1 }
    else if s.bt > 0 then { s with bt := s.bt - 1 }
    else s
  else if c = ')' then
    if (s.exitQ.isSome && qEq s.quote s.last) || (s.exitA.isSome && qEq s.altQ s.last) then { s with bc := 0 }
    else if !s.ignore then { s with bc := s.bc - 1 }
    else if s.bt > 0 then
      let bt := s.bt - 1
      if bt = 0 then { s with bt := bt, lastBracket := some (s.index + 1) } else { s with bt := bt }
    else s
  else if c = '\'' || c = '"' then
    if s.quote.isNone then
      { s with ignore := true, bt := s.bc, bc := 1, startQ := some (s.index + 1), quote := some c }
    else if some c != s.quote && s.altQ.isNone then { s with startA := some (s.index + 1), altQ := some c }
    else if some c == s.quote then { s with exitQ := some (s.index + 1) }
    else if s.altQ.isSome && some c == s.altQ then { s with exitA := some (s.index + 1) }
    else s
  else s

/-- the `for pos in range(index, len(data))` loop; returns the final state and `(href, title)` when the loop was
    left by `break` -/
def linkLoop (data : Str) (startIndex : Nat) : Str → LinkSt → LinkSt × Option (Str × Option Str)
  | [], s => (s, none)
  | c :: r, s =>
    let s1 := linkStep s c
    let s2 := { s1 with index := s1.index + 1 }
    if s2.bc = 0 then
      let res : Str × Option Str :=
        match s2.exitQ, s2.startQ, qEq s2.quote s2.last with
        | some eq, some sq, true => (slice data startIndex (sq - 1), some (slice data sq (eq - 1)))
        | _, _, _ =>
          match s2.exitA, s2.startA, qEq s2.altQ s2.last with
          | some ea, some sa, true => (slice data startIndex (sa - 1), some (slice data sa (ea - 1)))
          | _, _, _ => (slice data startIndex (s2.index - 1), none)
      (s2, some res)
    else linkLoop data startIndex r (if c != ' ' then { s2 with last := some c } else s2)

/-- `getLink(data, index)` before `unescape`: `(href, title, index, handled)`; `index` can be `-1` (the code's
    `last_bracket` when the backtrack counter was run down by `(`) -/
def getLinkRaw (data : Str) (index : Nat) : Str × Option Str × Int × Bool :=
  if data[index]? != some '(' then ([], none, index, false)
  else
    let p := index + 1 + spanLen isSpace (data.drop (index + 1))
    match linkAngle data p with
    | some (g1, g2, e) =>
      (strip ((g1.drop 1).dropLast), g2.map (fun t => (t.drop 1).dropLast), e, true)
    | none =>
      let (s, res) := linkLoop data p (data.drop p) { index := p }
      let (href, title) := res.getD ([], none)
      if s.bc != 0 && s.bt = 0 then
        match s.lastBracket with
        | some lb => (slice data p (lb - 1), title, lb, true)
        | none => (pySlice data p (-2), title, -1, true)
      else (href, title, s.index, s.bc = 0)

/-- `dequote` -/
def dequote (t : Str) : Str :=
  if (t.head? == some '"' && t.getLast? == some '"') || (t.head? == some '\'' && t.getLast? == some '\'') then
    (t.drop 1).dropLast
  else t

/-- `getLink`, given `Pattern.unescape` -/
def getLink (unesc : Str → Str) (data : Str) (index : Nat) : Str × Option Str × Int × Bool :=
  let (href, title, idx, handled) := getLinkRaw data index
  let title' := title.map (fun t => (dequote (unesc (strip t))).map (fun ch => if isSpace ch then ' ' else ch))
  (strip (unesc href), title', idx, handled)

/-! ### `ReferenceInlineProcessor.evalId` (`RE_LINK = \s?\[([^\]]*)\]`) and the id clean-up -/

/-- `(id, end)`; `none` = not handled -/
def evalId (data : Str) (index : Nat) (text : Str) : Option (Str × Nat) :=
  let suf := data.drop index
  let go := fun (r : Str) (p : Nat) =>
    match r with
    | '[' :: r1 =>
      match find [']'] r1 with
      | some q =>
        let id := lower (r1.take q)
        some (if id.isEmpty then lower text else id, p + 1 + q + 1)
      | none => none
    | _ => none
  match suf with
  | c :: r => if isSpace c then go r (index + 1) else go suf index
  | [] => none

/-- `NEWLINE_CLEANUP_RE.sub(' ', id)` (`\s+`) -/
def wsCleanAux : Bool → Str → Str
  | _, [] => []
  | prev, c :: r =>
    if isSpace c then (if prev then wsCleanAux true r else ' ' :: wsCleanAux true r)
    else c :: wsCleanAux false r

def wsClean (s : Str) : Str := wsCleanAux false s

end MdVerif.Inline
