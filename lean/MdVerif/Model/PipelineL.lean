/-
`Markdown(extensions=['legacy_attrs'] if on else []).convert`: the core pipeline (`Model/Pipeline.lean`) with the
`legacyattrs` tree processor (`Model/Ext/LegacyAttrs.lean`) at its registry position — priority 15, between `inline` 20
and `prettify` 10 (generated registry table: `("legacy_attrs", "treeprocessors", "legacyattrs", 15, …)`), so it sees
the tree with the inline placeholders resolved but the escape tokens (`STX n ETX`) still in place.

With `on = false` this is `Pipeline.convert` (`convertL_off`, by `rfl`-level unfolding in `Props/C16Legacy.lean`).
Domain: as `Pipeline.convert` (no `<` in the source).
-/
import MdVerif.Model.Pipeline
import MdVerif.Model.Ext.LegacyAttrs

namespace MdVerif.PipelineL
open Pipeline

/-- the element tree handed to the serializer, with the HTML stash -/
def treeL (on : Bool) (cfg : Cfg) (src : Str) : Option (Option (Node × List Str)) :=
  match Block.parseDocument cfg.tab (prepare cfg src) with
  | none => none
  | some (root, refs) =>
    match Inline.run { esc := cfg.esc, refs := refs.reverse } root with
    | none => none
    | some (t, st) =>
      let t := if on then LegacyAttrs.run t else t
      match TreeProc.unescapeTree (TreeProc.prettify t cfg.blockLevel) with
      | none => some none
      | some u => some (some (u, st.html))

/-- `Markdown.convert(source)` with `legacy_attrs` when `on` -/
def convertL (on : Bool) (cfg : Cfg) (src : Str) : Outcome :=
  if src.contains '<' then .ood
  else if Normalize.isBlankDoc src then .ok []
  else
    match treeL on cfg src with
    | none => .oof
    | some none => .err
    | some (some (u, html)) =>
      match Post.finish cfg.blockLevel html (Ser.serialize cfg.fmt u) with
      | none => .oof
      | some none => .err
      | some (some out) => .ok out

end MdVerif.PipelineL
