/-
Event-level model of the raw-HTML extractor (C04).

Mirrors, callback by callback, `markdown/htmlparser.py` class `HTMLExtractor`
(`handle_starttag`, `handle_endtag`, `handle_data`, `handle_empty_tag` and its callers `handle_startendtag`,
`handle_charref`, `handle_entityref`, `handle_comment`, `handle_decl`, `handle_pi`, `unknown_decl`,
`parse_bogus_comment`; `close`), `util.HtmlStash.store`, `preprocessors.HtmlBlockPreprocessor.run`, and one pass of
`postprocessors.RawHtmlPostprocessor.run` (`restorePass`) with `isblocklevel`.

NOT modelled (trusted): the stdlib tokenizer (`html.parser.HTMLParser.goahead`, `_markupbase`, and the overrides
`parse_starttag`, `parse_pi`, `parse_html_declaration` that only decide WHICH callback fires).  The model works over
the list of callback invocations (`Event`).  An event carries exactly the facts its callback reads from the
tokenizer: the tag name, the source text (`get_starttag_text()`, `get_endtag_text(tag)`), `at_line_start()`,
`md.is_block_level(tag)`, `tag in self.empty_tags`, and the look-ahead
`blank_line_re.match(self.rawdata[self.line_offset + self.offset + len(text):])`.

Representation choices: `stack` holds the TOP FIRST (Python appends/pops at the end of the list);
`cache`, `cleandoc`, `stash` are in Python order.  `stash` is `md.htmlStash.rawHtmlBlocks`; the index handed out by
`store` is `html_counter`, which equals `len(rawHtmlBlocks)` (both only change together in `store`/`reset`).

The model mirrors the code as it is.  In particular `handle_empty_tag` appends to `_cache` while `intail` is set
even though `inraw` is false; that leftover is glued in front of the next raw block or flushed by `close()`.
-/
import MdVerif.Py.Basic
import MdVerif.Generated.Tables

namespace MdVerif.Extract
open Py

/-- one callback invocation of `HTMLExtractor`, with the facts that callback reads -/
inductive Event
  /-- `handle_starttag(tag, attrs)`: `text = get_starttag_text()`, `atLineStart = at_line_start()`,
      `isBlock = md.is_block_level(tag)`, `isEmptyTag = tag in self.empty_tags` (`hr`); `blankFollows` is the
      blank-line look-ahead after `text`, read only on the `isEmptyTag` path (through `handle_empty_tag`) -/
  | start (tag text : Str) (atLineStart isBlock isEmptyTag blankFollows : Bool)
  /-- `handle_endtag(tag)`: `text = get_endtag_text(tag)`, `blankFollows` = the look-ahead after `text` -/
  | end_ (tag text : Str) (blankFollows : Bool)
  /-- `handle_data(text)` (also fired by `parse_pi`, `parse_html_declaration`, `parse_starttag` for junk) -/
  | data (text : Str)
  /-- `handle_empty_tag(text, is_block)` reached from `handle_startendtag` (`is_block = md.is_block_level(tag)`),
      `handle_comment`, `handle_decl`, `handle_pi`, `unknown_decl` (`is_block = True`), `parse_bogus_comment`
      (`is_block = False`); `text` is the string the caller built -/
  | empty (text : Str) (isBlock atLineStart blankFollows : Bool)
  /-- `handle_charref(name)` -/
  | charref (name : Str)
  /-- `handle_entityref(name)` -/
  | entityref (name : Str)
  /-- the part of `close()` after `super().close()`: `rest = self.rawdata` -/
  | close (rest : Str)
deriving DecidableEq, Repr

structure ExSt where
  inraw : Bool := false
  intail : Bool := false
  /-- top first -/
  stack : List Str := []
  cache : List Str := []
  cleandoc : List Str := []
  stash : List Str := []
deriving DecidableEq, Repr

/-- `reset()` on a fresh `Markdown` instance -/
def init : ExSt := {}

/-- `"\x02wzxhzdk:"` -/
def phPrefix : Str := ['\x02', 'w', 'z', 'x', 'h', 'z', 'd', 'k', ':']
/-- `"\x03"` -/
def phSuffix : Str := ['\x03']
/-- `"<p>"` -/
def pOpen : Str := ['<', 'p', '>']
/-- `"</p>"` -/
def pClose : Str := ['<', '/', 'p', '>']

/-- `util.HTML_PLACEHOLDER % i` (`Lemmas/ExtractEv.lean` checks the two halves against the generated constant) -/
def placeholder (i : Nat) : Str := phPrefix ++ natToDec i ++ phSuffix

/-- `self.cleandoc.append(self.md.htmlStash.store(html))` -/
def storeAppend (st : ExSt) (html : Str) : ExSt :=
  { st with cleandoc := st.cleandoc ++ [placeholder st.stash.length], stash := st.stash ++ [html] }

/-- `while self.stack: if self.stack.pop() == tag: break` -/
def popTo (tag : Str) : List Str → List Str
  | [] => []
  | t :: r => if t = tag then r else popTo tag r

def handleData (st : ExSt) (data : Str) : ExSt :=
  let st1 := if st.intail && data.contains '\n' then { st with intail := false } else st
  if st1.inraw then { st1 with cache := st1.cache ++ [data] }
  else { st1 with cleandoc := st1.cleandoc ++ [data] }

/-- `item = self.cleandoc[-1] if self.cleandoc else ''`; `not item.endswith('\n\n') and item.endswith('\n')`:
    "if we only have one newline before block element, add another" -/
def needsNewline (cd : List Str) : Bool :=
  let item := cd.getLast?.getD []
  !(endsWith item ['\n', '\n']) && endsWith item ['\n']

def handleEmpty (st : ExSt) (data : Str) (isBlock atLineStart blankFollows : Bool) : ExSt :=
  if st.inraw || st.intail then
    { st with cache := st.cache ++ [data] }
  else if atLineStart && isBlock then
    let data' := if blankFollows then data ++ ['\n'] else data
    let st1 := if blankFollows then st else { st with intail := true }
    let st2 := if needsNewline st1.cleandoc then { st1 with cleandoc := st1.cleandoc ++ [['\n']] } else st1
    let st3 := storeAppend st2 data'
    { st3 with cleandoc := st3.cleandoc ++ [['\n', '\n']] }
  else
    { st with cleandoc := st.cleandoc ++ [data] }

def handleStart (st : ExSt) (tag text : Str) (atLineStart isBlock isEmptyTag blankFollows : Bool) : ExSt :=
  if isEmptyTag then
    -- `self.handle_startendtag(tag, attrs); return`
    handleEmpty st text isBlock atLineStart blankFollows
  else
    let st1 :=
      if isBlock && (st.intail || (atLineStart && !st.inraw)) then
        { st with inraw := true, cleandoc := st.cleandoc ++ [['\n']] }
      else st
    if st1.inraw then { st1 with stack := tag :: st1.stack, cache := st1.cache ++ [text] }
    else { st1 with cleandoc := st1.cleandoc ++ [text] }

def handleEnd (st : ExSt) (tag text : Str) (blankFollows : Bool) : ExSt :=
  if st.inraw then
    let st1 := { st with cache := st.cache ++ [text] }
    let st2 := if st1.stack.contains tag then { st1 with stack := popTo tag st1.stack } else st1
    if st2.stack.isEmpty then
      let st3 :=
        if blankFollows then { st2 with cache := st2.cache ++ [['\n']] }
        else { st2 with intail := true }
      let st4 := storeAppend { st3 with inraw := false } st3.cache.flatten
      { st4 with cleandoc := st4.cleandoc ++ [['\n', '\n']], cache := [] }
    else st2
  else
    { st with cleandoc := st.cleandoc ++ [text] }

/-- `'&#{};'.format(name)` -/
def charrefText (name : Str) : Str := '&' :: '#' :: name ++ [';']
/-- `'&{};'.format(name)` -/
def entityrefText (name : Str) : Str := '&' :: name ++ [';']

/-- the tail of `close()`: leftover `rawdata` is data; an unclosed `_cache` is stored -/
def handleClose (st : ExSt) (rest : Str) : ExSt :=
  let st1 := if rest.isEmpty then st else handleData st rest
  if st1.cache.isEmpty then st1
  else { storeAppend st1 st1.cache.flatten with cache := [] }

def step (st : ExSt) : Event → ExSt
  | .start tag text als isb ise bf => handleStart st tag text als isb ise bf
  | .end_ tag text bf => handleEnd st tag text bf
  | .data t => handleData st t
  | .empty t isb als bf => handleEmpty st t isb als bf
  | .charref n => handleEmpty st (charrefText n) false false false
  | .entityref n => handleEmpty st (entityrefText n) false false false
  | .close rest => handleClose st rest

def runFrom (st : ExSt) (evs : List Event) : ExSt := evs.foldl step st

/-- `feed(source); close()` as an event list (the last event is the `close`) -/
def runEvents (evs : List Event) : ExSt := runFrom init evs

/-- `''.join(parser.cleandoc)` (`HtmlBlockPreprocessor.run` then splits it on `\n`) -/
def cleanText (st : ExSt) : Str := st.cleandoc.flatten

/-- source text an event stands for -/
def evText : Event → Str
  | .start _ text _ _ _ _ => text
  | .end_ _ text _ => text
  | .data t => t
  | .empty t _ _ _ => t
  | .charref n => charrefText n
  | .entityref n => entityrefText n
  | .close rest => rest

/-- concatenation of the source texts of an event list -/
def evsText (evs : List Event) : Str := (evs.map evText).flatten

/-! ### restoring the stash (`RawHtmlPostprocessor`) -/

def isAsciiDigitC (c : Char) : Bool := '0' ≤ c && c ≤ '9'

/-- `md.is_block_level(tag)` for a string: `tag.lower().rstrip('/') in self.block_level_elements` -/
def isBlockLevelTag (tag : Str) : Bool :=
  (Generated.blockLevelElements.map String.toList).contains (rstripC '/' (lower tag))

def notSpGt (c : Char) : Bool := c != ' ' && c != '>'

/-- group 1 of `BLOCK_LEVEL_REGEX = ^\<\/?([^ >]+)` -/
def blockLevelGroup : Str → Option Str
  | '<' :: r =>
    match r with
    | '/' :: r' =>
      let g := r'.takeWhile notSpGt
      if g.isEmpty then some ['/'] else some g       -- backtracking: `\/?` gives the slash back
    | _ =>
      let g := r.takeWhile notSpGt
      if g.isEmpty then none else some g
  | _ => none

/-- `RawHtmlPostprocessor.isblocklevel` -/
def isBlockLevel (html : Str) : Bool :=
  match blockLevelGroup html with
  | some g =>
    match g with
    | c :: _ => if c = '!' || c = '?' || c = '@' || c = '%' then true else isBlockLevelTag g
    | [] => false
  | none => false

/-- the `replacements` dictionary, as the list of assignments in the order `run` makes them -/
def replacements (stash : List Str) : Nat → List (Str × Str)
  | 0 => []
  | i + 1 =>
    replacements stash i ++
      (match stash[i]? with
       | some html =>
         (if isBlockLevel html then [(pOpen ++ placeholder i ++ pClose, html)] else []) ++
           [(placeholder i, html)]
       | none => [])

/-- dictionary lookup: the last assignment to the key wins -/
def dictGet (d : List (Str × Str)) (key : Str) : Option Str :=
  (d.reverse.find? (fun kv => kv.1 = key)).map (·.2)

/-- `\x02wzxhzdk:([0-9]+)\x03` at the start of `s`: the matched text -/
def matchBare (s : Str) : Option Str :=
  if startsWith s phPrefix then
    let r := s.drop phPrefix.length
    let ds := r.takeWhile isAsciiDigitC
    if !ds.isEmpty && startsWith (r.drop ds.length) phSuffix then some (phPrefix ++ ds ++ phSuffix) else none
  else none

/-- `<p>\x02wzxhzdk:([0-9]+)\x03</p>|\x02wzxhzdk:([0-9]+)\x03` at the start of `s`: the matched text (`m.group(0)`) -/
def matchKey (s : Str) : Option Str :=
  let wrapped :=
    if startsWith s pOpen then
      match matchBare (s.drop 3) with
      | some k => if startsWith (s.drop (3 + k.length)) pClose then some (pOpen ++ k ++ pClose) else none
      | none => none
    else none
  match wrapped with
  | some k => some k
  | none => matchBare s

/-- `substitute_match` -/
def substitute (d : List (Str × Str)) (key : Str) : Str :=
  match dictGet d key with
  | some v => v
  | none =>
    match dictGet d ((key.drop 3).take (key.length - 7)) with      -- `key[3:-4]`
    | some v => pOpen ++ v ++ pClose
    | none => key

/-- `pattern.sub(substitute_match, text)`; the counter is the number of characters of the current match still to skip -/
def subAux (d : List (Str × Str)) : Nat → Str → Str
  | _, [] => []
  | k + 1, _ :: s => subAux d k s
  | 0, c :: s =>
    match matchKey (c :: s) with
    | some key => substitute d key ++ subAux d (key.length - 1) s
    | none => c :: subAux d 0 s

/-- one pass of `RawHtmlPostprocessor.run` (before the `processed_text == text` test) -/
def restorePass (stash : List Str) (text : Str) : Str :=
  let d := replacements stash stash.length
  if d.isEmpty then text else subAux d 0 text

/-- `RawHtmlPostprocessor.run`: passes until nothing changes (`fuel` bounds Python's recursion depth) -/
def restore (stash : List Str) : Nat → Str → Str
  | 0, text => text
  | fuel + 1, text =>
    let t := restorePass stash text
    if t = text then t else restore stash fuel t

end MdVerif.Extract
