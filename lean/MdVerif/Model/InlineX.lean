/-
`treeprocessors.InlineProcessor` over a pattern TABLE (`md.inlinePatterns` in registry order) instead of the sixteen
hard-wired core patterns of `Model/Inline.lean`.

A table entry is a `PatK`: a core pattern (delegating to `Inline.findMatch` with the core index) or one of the
patterns the bundled extensions register:

    footnote  175  `FootnoteInlineProcessor`, `\[\^([^\]]*)\]`           between escape 180 and reference 170
    wikilink   75  `WikiLinksInlineProcessor`, `\[\[([\w0-9_ -]+)\]\]`   between entity 80 and not_strong 70
    nl          5  `SubstituteTagInlineProcessor('\n', 'br')` (nl2br)    after em_strong2 50

The control structure (`__applyPattern`, `__handleInline`, the stack loop of `run`) is that of `Model/Inline.lean`
with the pattern index running over the table and with the state extended by the footnote reference bookkeeping
(`Footnotes.State`: `used_refs`, `found_refs`), which `FootnoteInlineProcessor.handleMatch` updates through
`makeFootnoteRefId(id, found=True)` in processing order.  The placeholder machinery (`ppTop`, `procNode`, …), the
recognisers and the element builders are those of `Model/Inline.lean`, imported.

With the core table (`coreTable`) this is `Inline.run` (checked by correspondence, op `inlinex.core`).
-/
import MdVerif.Model.Inline
import MdVerif.Model.Ext.Footnotes

namespace MdVerif.InlineX
open Py Inline

/-- an entry of `md.inlinePatterns` -/
inductive PatK
  | core (i : Nat)
  | footnote
  | wikilink
  | nl
  deriving DecidableEq, Repr

/-- the sixteen core patterns -/
def coreTable : List PatK := (List.range 16).map PatK.core

/-- `md.inlinePatterns` with the footnotes / wikilinks / nl2br extensions -/
def table (footnotes wikilinks nl2br : Bool) : List PatK :=
  [PatK.core 0, PatK.core 1] ++ (if footnotes then [PatK.footnote] else []) ++
  ((List.range' 2 11).map PatK.core) ++ (if wikilinks then [PatK.wikilink] else []) ++
  [PatK.core 13, PatK.core 14, PatK.core 15] ++ (if nl2br then [PatK.nl] else [])

structure XSt where
  st : Inline.St := {}
  /-- `FootnoteExtension.used_refs`, `found_refs` -/
  fn : Footnotes.State := Footnotes.State.empty

structure XCfg where
  cfg : Inline.Cfg := {}
  table : List PatK := coreTable
  /-- `FootnoteExtension.footnotes.keys()` -/
  fnKeys : List Str := []

/-! ### the extension patterns -/

/-- `\[\^([^\]]*)\]` at the start of `suf`: group 1 and the length of the match -/
def fnRefAt (suf : Str) : Option (Str × Nat) :=
  match suf with
  | '[' :: '^' :: r =>
    let n := spanLen (fun c => c != ']') r
    if r[n]? == some ']' then some (r.take n, n + 3) else none
  | _ => none

/-- `finditer` from `i` on, `handleMatch` rejecting the ids that have no definition (the search goes on after the
    rejected match); `k` = characters of a rejected match still to skip -/
def fnRefScan (keys : List Str) : Nat → Str → Nat → Option (Str × Nat × Nat)
  | _, [], _ => none
  | k + 1, _ :: r, i => fnRefScan keys k r (i + 1)
  | 0, c :: r, i =>
    match fnRefAt (c :: r) with
    | some (id, len) => if keys.contains id then some (id, i, i + len) else fnRefScan keys (len - 1) r (i + 1)
    | none => fnRefScan keys 0 r (i + 1)

/-- `list(keys).index(id)` -/
def indexOf (keys : List Str) (id : Str) : Nat := (keys.takeWhile (· != id)).length

/-- the `sup` element of `FootnoteInlineProcessor.handleMatch` -/
def fnRefNode (keys : List Str) (id refId : Str) : Node :=
  let a : Node := { mkEl "a" with text := some (natToDec (indexOf keys id + 1)) }
  let a := (a.setAttr "href".toList ('#' :: Footnotes.footnoteId id)).setAttr "class".toList "footnote-ref".toList
  { (mkEl "sup").setAttr "id".toList refId with children := [a] }

/-- `[\w0-9_ -]` -/
def isWikiChar (c : Char) : Bool := isWord c || c = ' ' || c = '-'

/-- `\[\[([\w0-9_ -]+)\]\]` at the start of `suf`: group 1 and the length of the match -/
def wikiAt (suf : Str) : Option (Str × Nat) :=
  match suf with
  | '[' :: '[' :: r =>
    let n := spanLen isWikiChar r
    if n > 0 && r[n]? == some ']' && r[n + 1]? == some ']' then some (r.take n, n + 4) else none
  | _ => none

def wikiScan : Str → Nat → Option (Str × Nat × Nat)
  | [], _ => none
  | c :: r, i =>
    match wikiAt (c :: r) with
    | some (g, len) => some (g, i, i + len)
    | none => wikiScan r (i + 1)

/-- `re.sub(r'([ ]+_)|(_[ ]+)|([ ]+)', '_', label)`; `k` = characters of the current match still to skip -/
def cleanLabel : Nat → Str → Str
  | _, [] => []
  | k + 1, _ :: r => cleanLabel k r
  | 0, c :: r =>
    if c = ' ' then
      let sp := countPrefix ' ' none r
      if r[sp]? == some '_' then '_' :: cleanLabel (sp + 1) r else '_' :: cleanLabel sp r
    else if c = '_' then
      let sp := countPrefix ' ' none r
      '_' :: cleanLabel sp r
    else c :: cleanLabel 0 r

/-- `WikiLinksInlineProcessor.handleMatch` (default `base_url`, `end_url`, `html_class`, `build_url`): an `a`
    element, or the string `''` for a blank label -/
def wikiNode (g : Str) : PNode :=
  let label := strip g
  if label.isEmpty then .str []
  else
    let a : Node := { mkEl "a" with text := some label }
    let a := a.setAttr "href".toList ('/' :: cleanLabel 0 label ++ ['/'])
    .el (a.setAttr "class".toList "wikilink".toList)

/-- the match of the table entry `k` in `data` from `startIndex`, with `handleMatch` applied -/
def findX (xc : XCfg) (k : PatK) (data : Str) (startIndex : Nat) (x : XSt) : Option (Option Found × XSt) :=
  match k with
  | .core i =>
    match findMatch xc.cfg i data startIndex x.st with
    | none => none
    | some (f, st) => some (f, { x with st := st })
  | .footnote =>
    if startIndex > data.length then some (none, x)
    else
      match fnRefScan xc.fnKeys 0 (data.drop startIndex) startIndex with
      | some (id, s, e) =>
        let r := Footnotes.footnoteRefId id true x.fn
        some (some ⟨.el (fnRefNode xc.fnKeys id r.1), s, e⟩, { x with fn := r.2 })
      | none => some (none, x)
  | .wikilink =>
    if startIndex > data.length then some (none, x)
    else
      match wikiScan (data.drop startIndex) startIndex with
      | some (g, s, e) => some (some ⟨wikiNode g, s, e⟩, x)
      | none => some (none, x)
  | .nl =>
    if startIndex > data.length then some (none, x)
    else
      match find ['\n'] (data.drop startIndex) with
      | some off => some (some ⟨.el (mkEl "br"), startIndex + off, startIndex + off + 1⟩, x)
      | none => some (none, x)

/-! ### `__applyPattern`, `__handleInline` over the table -/

abbrev HIX := Str → Nat → XSt → Option (Str × XSt)

def hiOptX (hi : HIX) (t : Option Str) (atomic : Bool) (pi : Nat) (x : XSt) : Option (Option Str × XSt) :=
  if Node.truthy t && !atomic then
    match hi (t.getD []) pi x with
    | some (d, x') => some (some d, x')
    | none => none
  else some (t, x)

def hiNodeX (hi : HIX) (pi : Nat) (n : Node) (x : XSt) : Option (Node × XSt) :=
  match hiOptX hi n.text n.textAtomic (pi + 1) x with
  | none => none
  | some (t, x1) =>
    match hiOptX hi n.tail n.tailAtomic pi x1 with
    | none => none
    | some (tl, x2) => some ({ n with text := t, tail := tl }, x2)

def hiNodesX (hi : HIX) (pi : Nat) : List Node → XSt → Option (List Node × XSt)
  | [], x => some ([], x)
  | n :: r, x =>
    match hiNodeX hi pi n x with
    | none => none
    | some (n', x1) =>
      match hiNodesX hi pi r x1 with
      | none => none
      | some (r', x2) => some (n' :: r', x2)

def stashX (x : XSt) (it : StashItem) : Str × XSt :=
  let r := stashNode x.st it
  (r.1, { x with st := r.2 })

/-- `__applyPattern(pattern, data, patternIndex, startIndex)` for the table entry at `pi` -/
def applyPatternX (xc : XCfg) (hi : HIX) (pi : Nat) (data : Str) (startIndex : Nat) (x : XSt) :
    Option (Str × Bool × Nat × XSt) :=
  match xc.table[pi]? with
  | none => some (data, false, 0, x)
  | some k =>
    match findX xc k data startIndex x with
    | none => none
    | some (none, x) => some (data, false, 0, x)
    | some (some f, x) =>
      match f.node with
      | .none => some (data, true, f.stop.toNat, x)
      | .str s =>
        let (ph, x') := stashX x (.str s)
        some (data.take f.start ++ ph ++ pyDrop data f.stop, true, 0, x')
      | .el n =>
        let r : Option (Node × XSt) :=
          if n.text.isSome && n.textAtomic then some (n, x)
          else
            match hiNodeX hi pi { n with children := [] } x with
            | none => none
            | some (n1, x1) =>
              match hiNodesX hi pi n.children x1 with
              | none => none
              | some (kids, x2) => some ({ n1 with children := kids }, x2)
        match r with
        | none => none
        | some (n', x1) =>
          let (ph, x2) := stashX x1 (.node n')
          some (data.take f.start ++ ph ++ pyDrop data f.stop, true, 0, x2)

/-- the `while patternIndex < count` loop -/
def hiLoopX (count : Nat) (ap : Nat → Str → Nat → XSt → Option (Str × Bool × Nat × XSt)) :
    Nat → Str → Nat → Nat → XSt → Option (Str × XSt)
  | 0, _, _, _, _ => none
  | g + 1, data, pi, si, x =>
    if pi < count then
      match ap pi data si x with
      | none => none
      | some (d, m, si', x') => hiLoopX count ap g d (if m then pi else pi + 1) si' x'
    else some (data, x)

/-- as `Inline.loopFuel` (which it is for the sixteen core patterns), for a table of `count` patterns -/
def loopFuelX (count n : Nat) : Nat := count * (n + 2) * (n + 2)

def handleInlineX (xc : XCfg) : Nat → Str → Nat → XSt → Option (Str × XSt)
  | 0, _, _, _ => none
  | f + 1, data, pi, x =>
    hiLoopX xc.table.length (applyPatternX xc (fun d p s => handleInlineX xc f d p s))
      (loopFuelX xc.table.length data.length) data pi 0 x

def handleInlineTopX (xc : XCfg) (data : Str) (x : XSt) : Option (Str × XSt) :=
  -- nesting depth: the pattern index grows for an element text (≤ `count` levels), a tail is a proper part of the
  -- text; `Inline.depthFuel` for the sixteen core patterns
  handleInlineX xc (data.length + xc.table.length + 4) data 0 x

/-! ### `run` -/

structure VisitX where
  done : List Node := []
  posmap : List (Nat × Nat) := []
  pushes : List Path := []
  x : XSt

/-- `Inline.visitChild` over the table -/
def visitChildX (xc : XCfg) (child : Node) (v : VisitX) : Option (Node × List Node × VisitX) :=
  let i := v.done.length
  let r1 : Option (Node × List Node × XSt) :=
    if Node.truthy child.text && !child.textAtomic then
      match handleInlineTopX xc (child.text.getD []) v.x with
      | none => none
      | some (data, x1) =>
        match ppTop x1.st data false { child with text := none, textAtomic := false } true with
        | none => none
        | some (lst, c1) => some (c1, lst, x1)
    else some (child, [], v.x)
  match r1 with
  | none => none
  | some (c1, lst, x1) =>
    let r2 : Option (Node × List Node × XSt) :=
      if Node.truthy c1.tail then
        let tl := c1.tail.getD []
        let h : Option (Str × XSt) := if c1.tailAtomic then some (tl, x1) else handleInlineTopX xc tl x1
        match h with
        | none => none
        | some (data, x2) =>
          match ppTop x2.st data c1.tailAtomic (mkEl "d") false with
          | none => none
          | some (tr, dumby) =>
            let c2 : Node :=
              if Node.truthy dumby.tail then { c1 with tail := dumby.tail, tailAtomic := dumby.tailAtomic }
              else { c1 with tail := none, tailAtomic := false }
            some (c2, tr, x2)
      else some (c1, [], x1)
    match r2 with
    | none => none
    | some (c2, tr, x2) =>
      let pushes := ((List.range lst.length).map (fun k => [i, k])).reverse ++ v.pushes
      let pushes := if child.children.isEmpty then pushes else [i] :: pushes
      let c3 := { c2 with children := lst ++ c2.children }
      some (c3, tr, { v with pushes := pushes, x := x2 })

def visitLoopX (xc : XCfg) : Nat → List (Node × Option Nat) → VisitX → Option VisitX
  | 0, _, _ => none
  | _ + 1, [], v => some v
  | g + 1, (child, orig) :: todo, v =>
    match visitChildX xc child v with
    | none => none
    | some (c, tr, v1) =>
      let v2 := { v1 with
        done := c :: v1.done
        posmap := match orig with | some o => (o, v.done.length) :: v1.posmap | none => v1.posmap }
      visitLoopX xc g (tr.map (fun n => (n, none)) ++ todo) v2

def runLoopX (xc : XCfg) (g2 : Nat) : Nat → Node → List Path → XSt → Option (Node × XSt)
  | 0, _, _, _ => none
  | _ + 1, root, [], x => some (root, x)
  | g + 1, root, p :: stack, x =>
    match getAt root p with
    | none => runLoopX xc g2 g root stack x
    | some cur =>
      match visitLoopX xc g2 (withIdx cur.children 0) { x := x } with
      | none => none
      | some v =>
        let root' := setAt root p { cur with children := v.done.reverse }
        let stack' := v.pushes.map (p ++ ·) ++ stack.map (remap p v.posmap)
        runLoopX xc g2 g root' stack' v.x

/-- `InlineProcessor.run(tree)` with the pattern table of `xc`: the tree, the two stashes and the footnote
    reference bookkeeping; `none` = out of fuel -/
def runX (xc : XCfg) (tree : Node) (html : List Str := []) : Option (Node × XSt) :=
  let f := runFuel tree
  runLoopX xc f f tree [[]] { st := { html := html } }

end MdVerif.InlineX
