/-
Model of the extension naming / configuration machinery (C19).

Mirrors, as they are:
* `markdown.util.parseBoolValue`                                  → `parseBool`
* `markdown.extensions.Extension.setConfig / setConfigs / __init__` → `setConfig`, `setConfigs`, `construct .base`
* `CodeHiliteExtension.__init__` (documented pass-through options)  → `construct .passthrough`
* `ExtraExtension.__init__` (`self.config = kwargs`)                → `construct .holder`
* `Markdown.build_extension` (name resolution) followed by the `isinstance(ext, Extension)` test of
  `Markdown.registerExtensions`                                   → `resolve`, `buildExtension`, `registerOne`

Every table (entry points of `pyproject.toml`, the modules of the `markdown.extensions` package with the class
their `makeExtension` returns and the `Extension` subclasses they define, the configuration defaults of each class,
the spelling lists of `parseBoolValue`, `extra.extensions`) is REGENERATED from the source tree by
`harness/translate.py` (`MdVerif.Generated`); nothing below spells out an extension name.

Core Lean only; every function is total and structurally recursive.
-/
import MdVerif.Py.Basic
import MdVerif.Py.Except
import MdVerif.Generated.Tables

namespace MdVerif.Config
open MdVerif

/-! ### values and errors -/

inductive Err | valueError | keyError
  deriving DecidableEq, Repr

/-- the Python values that reach the configuration code.  `other t r` is any object that is neither a `str`, a
    `bool`, an `int` nor `None` (a dict, a float, a function, …): all the code ever asks of it is its truth value
    `t`; `r` identifies it (the translator uses the source text of the default) -/
inductive PyVal
  | str (s : Str)
  | bool (b : Bool)
  | int (n : Int)
  | none
  | other (truthy : Bool) (repr : Str)
  deriving DecidableEq, Repr

/-- `bool(v)` -/
def PyVal.truthy : PyVal → Bool
  | .str s => !s.isEmpty
  | .bool b => b
  | .int n => n != 0
  | .none => false
  | .other t _ => t

/-- `isinstance(v, str)` -/
def PyVal.isStr : PyVal → Bool
  | .str _ => true
  | _ => false

/-! ### `util.parseBoolValue` -/

def noneSpellings : List Str := Generated.parseBoolNone
def trueSpellings : List Str := Generated.parseBoolTrue
def falseSpellings : List Str := Generated.parseBoolFalse

/-- `parseBoolValue(value, fail_on_errors, preserve_none)`; `.ok none` is the return value `None`
    (also what falls off the end of the `elif` chain when `fail_on_errors` is false) -/
def parseBool (v : PyVal) (failOnErrors preserveNone : Bool) : Except Err (Option Bool) :=
  match v with
  | .str s =>
    let l := Py.lower s
    if preserveNone && noneSpellings.contains l then .ok none
    else if trueSpellings.contains l then .ok (some true)
    else if falseSpellings.contains l then .ok (some false)
    else if failOnErrors then .error .valueError
    else .ok none
  | .none => if preserveNone then .ok none else .ok (some false)
  | v => .ok (some v.truthy)

/-- a `bool | None` result as a value -/
def optToVal : Option Bool → PyVal
  | some b => .bool b
  | none => .none

/-! ### `Extension.config`, `setConfig`, `setConfigs` -/

/-- `Extension.config`: key ↦ `[value, description]`, in insertion order -/
abbrev Config := List (Str × PyVal × Str)
abbrev Kwargs := List (Str × PyVal)

def lookup : Config → Str → Option (PyVal × Str)
  | [], _ => none
  | (k, v, d) :: r, key => if k = key then some (v, d) else lookup r key

/-- `self.config[key][0] = value` for a key that is present -/
def setValue : Config → Str → PyVal → Config
  | [], _, _ => []
  | (k, v, d) :: r, key, val => if k = key then (k, val, d) :: r else (k, v, d) :: setValue r key val

/-- `Extension.getConfig(key, default)` -/
def getConfig (cfg : Config) (key : Str) (default : PyVal) : PyVal :=
  match lookup cfg key with
  | some (v, _) => v
  | none => default

/-- `Extension.getConfigs()` -/
def getConfigs (cfg : Config) : Kwargs := cfg.map (fun e => (e.1, e.2.1))

/-- `Extension.setConfig(key, value)`: the configuration afterwards and the outcome.

    ```
    if isinstance(self.config[key][0], bool): value = parseBoolValue(value)
    if self.config[key][0] is None:           value = parseBoolValue(value, preserve_none=True)
    self.config[key][0] = value
    ```
    (`self.config[key]` raises `KeyError` for an unknown key; the tests look at the *current* value) -/
def setConfig (cfg : Config) (key : Str) (value : PyVal) : Config × Except Err Unit :=
  match lookup cfg key with
  | none => (cfg, .error .keyError)
  | some (cur, _) =>
    let r1 : Except Err PyVal :=
      match cur with
      | .bool _ => (parseBool value true false).map optToVal
      | _ => .ok value
    match r1 with
    | .error e => (cfg, .error e)
    | .ok v1 =>
      let r2 : Except Err PyVal :=
        match cur with
        | .none => (parseBool v1 true true).map optToVal
        | _ => .ok v1
      match r2 with
      | .error e => (cfg, .error e)
      | .ok v2 => (setValue cfg key v2, .ok ())

/-- `Extension.setConfigs(items)`: `setConfig` for each item in order; an exception leaves the earlier ones applied -/
def setConfigs (cfg : Config) : Kwargs → Config × Except Err Unit
  | [] => (cfg, .ok ())
  | (k, v) :: r =>
    match setConfig cfg k v with
    | (c, .ok ()) => setConfigs c r
    | (c, .error e) => (c, .error e)

/-! ### the three `__init__` shapes of the bundled extensions -/

inductive InitKind
  | base          -- `Extension.__init__`: `self.setConfigs(kwargs)`
  | holder        -- `ExtraExtension.__init__`: `self.config = kwargs`
  | passthrough   -- `CodeHiliteExtension.__init__`: unknown keys are stored
  | unknown       -- a shape the translator did not recognise
  deriving DecidableEq, Repr

/-- what the loop of `CodeHiliteExtension.__init__` stores for an unknown key: a string that spells a `bool | None`
    becomes that, anything else is kept -/
def passthroughValue (value : PyVal) : PyVal :=
  if value.isStr then
    match parseBool value true true with
    | .ok r => optToVal r
    | .error _ => value
  else value

/-- one iteration of the loop of `CodeHiliteExtension.__init__`

    ```
    if key in self.config: self.setConfig(key, value)
    else:
        if isinstance(value, str):
            try: value = parseBoolValue(value, preserve_none=True)
            except ValueError: pass
        self.config[key] = [value, '']
    ``` -/
def passthroughStep (cfg : Config) (key : Str) (value : PyVal) : Config × Except Err Unit :=
  if (lookup cfg key).isSome then setConfig cfg key value
  else (cfg ++ [(key, passthroughValue value, [])], .ok ())

def passthroughLoop (cfg : Config) : Kwargs → Config × Except Err Unit
  | [] => (cfg, .ok ())
  | (k, v) :: r =>
    match passthroughStep cfg k v with
    | (c, .ok ()) => passthroughLoop c r
    | (c, .error e) => (c, .error e)

/-- `Class(**kwargs)` for a class with the given defaults: the configuration it ends with, or the exception -/
def construct (kind : InitKind) (defaults : Config) (kwargs : Kwargs) : Except Err Config :=
  match kind with
  | .base => match setConfigs defaults kwargs with
             | (c, .ok ()) => .ok c
             | (_, .error e) => .error e
  | .passthrough => match passthroughLoop defaults kwargs with
                    | (c, .ok ()) => .ok c
                    | (_, .error e) => .error e
  | .holder => .ok (kwargs.map (fun kv => (kv.1, kv.2, [])))
  | .unknown => .error .valueError

/-! ### generated tables -/

/-- `str.split(':', 1)` when `':' in s`, else `(s, '')` -/
def splitColon : Str → Str × Str
  | [] => ([], [])
  | c :: r => if c = ':' then ([], r) else let p := splitColon r; (c :: p.1, p.2)

structure ModuleInfo where
  path : Str               -- dotted module path
  makeExtension : Str      -- class returned by `makeExtension(**kwargs)`; empty when the module has none
  classes : List (Str × Str)   -- module-level names bound to an `Extension` subclass ↦ that class (`module:Class`):
                               -- classes defined in the module and classes it imports from the package
  deriving DecidableEq, Repr

structure ClassInfo where
  name : Str               -- `module:Class`
  kind : InitKind
  defaults : Config
  deriving Repr

structure Tables where
  entryPoints : List (Str × Str)     -- `[project.entry-points.'markdown.extensions']`: short name ↦ `module:Class`
  modules : List ModuleInfo
  classes : List ClassInfo

/-- `int(s)` for the decimal literals of the table -/
def parseInt : Str → Int
  | '-' :: r => - (Py.decToNat r : Int)
  | s => (Py.decToNat s : Int)

/-- the default value written in the source, from its (kind, literal) description
    (kinds: `none | bool | str | int | truthy | falsy`, see `harness/translate.py`; spelled as character lists so
    that the kernel compares them without `String.toList`) -/
def defaultVal (kind lit : Str) : PyVal :=
  if kind = ['n', 'o', 'n', 'e'] then .none
  else if kind = ['b', 'o', 'o', 'l'] then .bool (lit = ['T', 'r', 'u', 'e'])
  else if kind = ['s', 't', 'r'] then .str lit
  else if kind = ['i', 'n', 't'] then .int (parseInt lit)
  else .other (kind = ['t', 'r', 'u', 't', 'h', 'y']) lit

def initKind (k : Str) : InitKind :=
  if k = ['b', 'a', 's', 'e'] then .base
  else if k = ['h', 'o', 'l', 'd', 'e', 'r'] then .holder
  else if k = ['p', 'a', 's', 's', 't', 'h', 'r', 'o', 'u', 'g', 'h'] then .passthrough
  else .unknown

def generatedTables : Tables where
  entryPoints := Generated.entryPointsC
  modules := Generated.extensionModules.map (fun m => ⟨m.1, m.2.1, m.2.2⟩)
  classes := Generated.extensionClasses.map (fun c =>
    ⟨c.1, initKind c.2.1, c.2.2.map (fun e => (e.1, defaultVal e.2.1 e.2.2.1, e.2.2.2.toList))⟩)

def extraExtensions : List Str := Generated.extraExtensionsC

/-! ### `Markdown.build_extension`: which class a name denotes -/

def findModule (t : Tables) (path : Str) : Option ModuleInfo := t.modules.find? (fun m => m.path = path)

/-- `getattr(importlib.import_module(mod), attr)` restricted to `Extension` subclasses: the class (`module:Class`, by
    its defining module), or `none` when the import fails, the attribute is missing or it is not bound to an
    `Extension` subclass -/
def classIn (t : Tables) (mod attr : Str) : Option Str :=
  match findModule t mod with
  | none => none
  | some m => (m.classes.find? (fun a => a.1 = attr)).map (·.2)

/-- the part of `build_extension` after the entry-point lookup -/
def resolveDotted (t : Tables) (name : Str) : Option Str :=
  let p := splitColon name            -- `ext_name.split(':', 1) if ':' in ext_name else (ext_name, '')`
  match findModule t p.1 with
  | none => none                       -- ImportError
  | some m =>
    if !p.2.isEmpty then classIn t p.1 p.2          -- `if class_name: getattr(module, class_name)(**configs)`
    else if m.makeExtension.isEmpty then none       -- AttributeError: no `makeExtension`
    else classIn t p.1 m.makeExtension              -- `module.makeExtension(**configs)`

/-- `build_extension(name, …)`, then `isinstance(ext, Extension)`: the class (`module:Class`) that is instantiated.
    Entry-point names win; `ep.load()` imports the module and fetches the attribute named after the colon. -/
def resolve (t : Tables) (name : Str) : Option Str :=
  match t.entryPoints.find? (fun e => e.1 = name) with
  | some e => let p := splitColon e.2; classIn t p.1 p.2
  | none => resolveDotted t name

def findClass (t : Tables) (cls : Str) : Option ClassInfo := t.classes.find? (fun c => c.name = cls)

/-- an element of the `extensions=[…]` argument: a name, or an instance (its class and the configuration it holds) -/
inductive ExtArg
  | name (s : Str)
  | inst (cls : Str) (cfg : Except Err Config)

/-- `build_extension(name, configs)`: the class and the configuration of the instance (or the exception its
    constructor raised); `none` when the name does not resolve -/
def buildExtension (t : Tables) (name : Str) (configs : Kwargs) : Option (Str × Except Err Config) :=
  match resolve t name with
  | none => none
  | some cls =>
    match findClass t cls with
    | none => none
    | some c => some (cls, construct c.kind c.defaults configs)

/-- `configs.get(ext, {})` of `registerExtensions` -/
def configsGet (extensionConfigs : List (Str × Kwargs)) (name : Str) : Kwargs :=
  match extensionConfigs.find? (fun e => e.1 = name) with
  | some e => e.2
  | none => []

/-- one iteration of `registerExtensions(extensions, configs)`: the extension object that gets `extendMarkdown` -/
def registerOne (t : Tables) (extensionConfigs : List (Str × Kwargs)) : ExtArg → Option (Str × Except Err Config)
  | .name s => buildExtension t s (configsGet extensionConfigs s)
  | .inst cls cfg => some (cls, cfg)

/-- the class an `extensions=[…]` element denotes -/
def resolveArg (t : Tables) : ExtArg → Option Str
  | .name s => resolve t s
  | .inst cls _ => some cls

/-- `ExtraExtension.extendMarkdown`: `md.registerExtensions(extensions, self.config)` — the classes loaded.
    (`self.config` maps component names to their option dictionaries.) -/
def extraLoads (t : Tables) (extraConfig : List (Str × Kwargs)) : List (Option (Str × Except Err Config)) :=
  extraExtensions.map (fun n => registerOne t extraConfig (.name n))

end MdVerif.Config
