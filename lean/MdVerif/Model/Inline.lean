/-
Model of `treeprocessors.InlineProcessor` with the 16 core inline patterns (`inlinepatterns.py`), as a pure function.

Domain: element text without `<` (patterns 8, 9, 11 — autolink, automail, inline html — never match there).

The implementation works in place; the model passes values.  How the order of effects is kept:

* the only global state is the stash (`stashed_nodes`, ids `%04d` of the insertion index) and the HTML stash; both
  are threaded through (`St`).  Ids are handed out by `applyPattern` only, so the order of the `handleInline` calls
  is what has to be reproduced;
* `run` pops elements off a stack.  The stack holds *paths* into the root; the element at the path is rebuilt and
  put back.  The live iteration over the children of the popped element is a worklist: elements produced from a tail
  are prepended to `todo` (so they are visited next, text from pattern 0 again), finished children are accumulated;
  the elements produced from a text are put in front of the child's own children when the child is finished (the
  implementation does it after the loop; nothing in the loop looks at them except `len(child)`, for which the old
  child list is used) and their paths are pushed before the child's path, as in `stack += lst; … stack.append(child)`;
* insertions after a child shift the later siblings; stack entries that point at children of the popped element
  (elements made from the text of that element by its parent's loop) are re-addressed with the position map of the
  worklist loop;
* a stashed element is taken out of the stash at most once and is not read by `unescape` afterwards (true when the
  texts contain no forged placeholder, which `normalize_whitespace` guarantees), so copying instead of sharing is
  not observable.

Fuel: every loop that is not structural takes fuel; `none` = fuel exhausted (driver answer `oof`).
-/
import MdVerif.Model.InlineRe
import MdVerif.Generated.Tables

namespace MdVerif.Inline
open Py

inductive StashItem
  | str (s : Str)
  | node (n : Node)
  deriving Inhabited

structure St where
  /-- `InlineProcessor.stashed_nodes`; the key of entry `i` is `'%04d' % i` -/
  stash : List StashItem := []
  /-- `md.htmlStash.rawHtmlBlocks` -/
  html : List Str := []
  deriving Inhabited

structure Cfg where
  /-- `md.ESCAPED_CHARS` -/
  esc : List Char := Generated.escapedChars
  /-- `md.references`: id ↦ (url, title) -/
  refs : List (Str × Str × Option Str) := []

/-! ### stash -/

/-- `INLINE_PLACEHOLDER % ('%04d' % idx)` -/
def placeholder (idx : Nat) : Str := phPrefix ++ pad4 idx ++ [ETX]

def stashNode (st : St) (it : StashItem) : Str × St :=
  (placeholder st.stash.length, { st with stash := st.stash ++ [it] })

/-- `id in self.stashed_nodes` → the entry -/
def stashGet (stash : List StashItem) (id : Str) : Option StashItem :=
  let n := decToNat id
  if pad4 n = id then stash[n]? else none

mutual
/-- `''.join(elem.itertext())` -/
def itertext : Node → Str
  | ⟨tag, _, text, _, children, _, _⟩ =>
    match tag with
    | .name _ | .none => (if Node.truthy text then text.getD [] else []) ++ itertextList children
    | _ => []
def itertextList : List Node → Str
  | [] => []
  | c :: r => itertext c ++ (if Node.truthy c.tail then c.tail.getD [] else []) ++ itertextList r
end

/-- `Pattern.unescape`: one level; an id that is not in the stash makes the callback return `None`, which
    `re.sub` replaces by the empty string -/
def unescape (stash : List StashItem) (text : Str) : Str :=
  phSub (fun id =>
    match stashGet stash id with
    | some (.str s) => some s
    | some (.node n) => some (itertext n)
    | none => none) 0 text

/-- `UnescapeTreeprocessor.unescape` as used by `HtmlInlineProcessor.backslash_unescape`; `chr` of a number above
    0x10FFFF raises, which is outside the domain (numbers are `ord`s): the text is left as it is there -/
def backslashUnescape : Nat → Str → Str
  | _, [] => []
  | k + 1, _ :: s => backslashUnescape k s
  | 0, c :: s =>
    if c = STX then
      let d := spanLen isDecimal s
      if d > 0 && s[d]? == some ETX && decToNat (s.take d) < 0x110000 then
        Char.ofNat (decToNat (s.take d)) :: backslashUnescape (d + 1) s
      else c :: backslashUnescape 0 s
    else c :: backslashUnescape 0 s

/-- `util.code_escape` -/
def codeEscape (t : Str) : Str :=
  replace (replace (replace t ['&'] "&amp;".toList) ['<'] "&lt;".toList) ['>'] "&gt;".toList

/-! ### emphasis: `AsteriskProcessor.build_*`, `parse_sub_patterns` -/

def mkEl (tag : String) : Node := { tag := .name tag.toList }

/-- `last.tail = text` when there is a last child, else `parent.text = text` -/
def setTextOrTail (parent : Node) (hasLast : Bool) (text : Str) : Node :=
  if text.isEmpty then parent
  else if hasLast then
    match parent.children.getLast? with
    | some l => parent.setLast { l with tail := some text, tailAtomic := false }
    | none => parent
  else { parent with text := some text, textAtomic := false }

structure SubSt where
  pos : Nat
  offset : Nat
  parent : Node
  hasLast : Bool
  matched : Bool

/-- the `for index, item in enumerate(self.PATTERNS)` loop at one position: it does not stop at the first match -/
def subTry (build : List Str → EmItem → Nat → Option Node) (data : Str) (c : Char) (idx : Nat) :
    List EmItem → Nat → SubSt → Option SubSt
  | [], _, s => some s
  | item :: rest, index, s =>
    if index ≤ idx then subTry build data c idx rest (index + 1) s
    else
      match seqMatch data s.pos c item.steps with
      | none => subTry build data c idx rest (index + 1) s
      | some (e, groups) =>
        match build groups item index with
        | none => none
        | some el =>
          let p1 := setTextOrTail s.parent s.hasLast (slice data s.offset s.pos)
          subTry build data c idx rest (index + 1)
            { pos := e, offset := e, parent := p1.append el, hasLast := true, matched := true }

/-- the `while pos < length` loop of `parse_sub_patterns` -/
def subLoop (build : List Str → EmItem → Nat → Option Node) (data : Str) (c : Char) (idx : Nat) :
    Nat → SubSt → Option SubSt
  | 0, _ => none
  | g + 1, s =>
    if s.pos < data.length then
      if data[s.pos]? == some c then
        match subTry build data c idx (emPatterns c) 0 { s with matched := false } with
        | none => none
        | some s' => subLoop build data c idx g (if s'.matched then s' else { s' with pos := s'.pos + 1 })
      else subLoop build data c idx g { s with pos := s.pos + 1 }
    else some s

/-- `parse_sub_patterns(data, parent, last, idx)`; `hasLast` = `last is not None` (then it is the last child) -/
def parseSub (build : List Str → EmItem → Nat → Option Node) (data : Str) (parent : Node) (hasLast : Bool)
    (idx : Nat) (c : Char) : Option Node :=
  match subLoop build data c idx (data.length + 1) ⟨0, 0, parent, hasLast, false⟩ with
  | none => none
  | some s => some (setTextOrTail s.parent s.hasLast (data.drop s.offset))

/-- `build_element`; fuel = nesting depth (every level removes its delimiters from the text) -/
def build (c : Char) : Nat → List Str → EmItem → Nat → Option Node
  | 0, _, _, _ => none
  | f + 1, groups, item, idx =>
    let sub := fun (d : Str) (p : Node) (hl : Bool) => parseSub (fun g i j => build c f g i j) d p hl idx c
    let g0 := groups.headD []
    match item.builder with
    | .single => sub g0 (mkEl item.tag1) false
    | .double =>
      match sub g0 (mkEl item.tag2) false with
      | none => none
      | some el2 =>
        let el1 := (mkEl item.tag1).append el2
        match groups with
        | [_, g1] => sub g1 el1 true
        | _ => some el1
    | .double2 =>
      match sub g0 (mkEl item.tag1) false, sub (groups.getD 1 []) (mkEl item.tag2) false with
      | some el1, some el2 => some (el1.append el2)
      | _, _ => none

/-- `AsteriskProcessor.handleMatch` at position `i`: the first of the five patterns that matches there -/
def emHandle (data : Str) (i : Nat) (c : Char) : List EmItem → Nat → Option (Option (Node × Nat))
  | [], _ => some none
  | item :: rest, idx =>
    match seqMatch data i c item.steps with
    | some (e, groups) =>
      match build c (data.length + 2) groups item idx with
      | some el => some (some (el, e))
      | none => none
    | none => emHandle data i c rest (idx + 1)

/-- `finditer` of the delimiter from `i` on, first accepted match: `(element, start, end)` -/
def emScan (data : Str) (c : Char) : Str → Nat → Option (Option (Node × Nat × Nat))
  | [], _ => some none
  | ch :: r, i =>
    if ch = c then
      match emHandle data i c (emPatterns c) 0 with
      | none => none
      | some (some (el, e)) => some (some (el, i, e))
      | some none => emScan data c r (i + 1)
    else emScan data c r (i + 1)

/-! ### the patterns: first accepted match from `startIndex` -/

inductive PNode
  | none
  | str (s : Str)
  | el (n : Node)

structure Found where
  node : PNode
  start : Nat
  stop : Int

/-- what `handleMatch` of the link/reference/image patterns (indices 2–7) does for the match at `mstart`
    (`mend` = end of `[` / `![`): `none` = rejected (`None, None, None`) -/
def linkHandle (cfg : Cfg) (stash : List StashItem) (pi : Nat) (data : Str) (mstart mend : Nat) : Option Found :=
  let image := pi = 4 || pi = 5 || pi = 7
  let (text, index, handled) := getText data mend
  if !handled then none
  else if pi = 3 || pi = 4 then
    let (href, title, idx, ok) := getLink (unescape stash) data index
    if !ok then none
    else
      let el : Node :=
        if image then
          let e := (mkEl "img").setAttr "src".toList href
          let e := match title with | some t => e.setAttr "title".toList t | none => e
          e.setAttr "alt".toList (unescape stash text)
        else
          let e := { mkEl "a" with text := some text }
          let e := e.setAttr "href".toList href
          match title with | some t => e.setAttr "title".toList t | none => e
      some ⟨.el el, mstart, idx⟩
  else
    let r := if pi = 6 || pi = 7 then some (lower text, index) else evalId data index text
    match r with
    | none => none
    | some (id, e2) =>
      let id := wsClean id
      match cfg.refs.find? (fun x => x.1 = id) with
      | none => some ⟨.none, mstart, e2⟩
      | some (_, href, title) =>
        let el : Node :=
          if image then
            let e := (mkEl "img").setAttr "src".toList href
            let e := if Node.truthy title then e.setAttr "title".toList (title.getD []) else e
            e.setAttr "alt".toList (unescape stash text)
          else
            let e := (mkEl "a").setAttr "href".toList href
            let e := if Node.truthy title then e.setAttr "title".toList (title.getD []) else e
            { e with text := some text }
        some ⟨.el el, mstart, e2⟩

/-- `finditer` of `(?<!\!)\[` / `\!\[` from `i` on -/
def linkScan (cfg : Cfg) (stash : List StashItem) (pi : Nat) (data : Str) : Option Char → Str → Nat → Option Found
  | _, [], _ => none
  | prev, ch :: r, i =>
    let image := pi = 4 || pi = 5 || pi = 7
    let here : Option Found :=
      if image then
        (if ch = '!' && r.head? == some '[' then linkHandle cfg stash pi data i (i + 2) else none)
      else
        (if ch = '[' && prev != some '!' then linkHandle cfg stash pi data i (i + 1) else none)
    match here with
    | some f => some f
    | none => linkScan cfg stash pi data (some ch) r (i + 1)

/-- `ESCAPE_RE = \\(.)` (DOTALL) from `i` on -/
def escScan : Str → Nat → Option (Nat × Char)
  | [], _ => none
  | [_], _ => none
  | c :: d :: r, i => if c = '\\' then some (i, d) else escScan (d :: r) (i + 1)

/-- the match of pattern `pi` in `data` from `startIndex`, with `handleMatch` applied; `none` = fuel;
    `some (none, st)` = no match -/
def findMatch (cfg : Cfg) (pi : Nat) (data : Str) (startIndex : Nat) (st : St) : Option (Option Found × St) :=
  let suf := data.drop startIndex
  let prev := if startIndex = 0 then none else data[startIndex - 1]?
  if startIndex > data.length then some (none, st)
  else match pi with
  | 0 =>
    match btFind data startIndex with
    | some m =>
      match m.kind with
      | .code =>
        some (some ⟨.el { mkEl "code" with text := some (codeEscape (strip m.group)), textAtomic := true },
                    m.start, m.stop⟩, st)
      | .bs => some (some ⟨.str (replace m.group ['\\', '\\'] (STX :: '9' :: '2' :: [ETX])), m.start, m.stop⟩, st)
    | none => some (none, st)
  | 1 =>
    match escScan suf startIndex with
    | some (i, ch) =>
      some (some ⟨if cfg.esc.contains ch then .str (STX :: natToDec ch.toNat ++ [ETX]) else .none, i, i + 2⟩, st)
    | none => some (none, st)
  | 10 =>
    match find [' ', ' ', '\n'] suf with
    | some off => some (some ⟨.el (mkEl "br"), startIndex + off, startIndex + off + 3⟩, st)
    | none => some (none, st)
  | 12 =>
    match entityFind data startIndex with
    | some (s, e) =>
      -- `HtmlInlineProcessor`: the entity text contains no inline placeholder, so its `unescape` is the identity
      let raw := backslashUnescape 0 (slice data s e)
      let ph := htmlPrefix ++ natToDec st.html.length ++ [ETX]
      some (some ⟨.str ph, s, e⟩, { st with html := st.html ++ [raw] })
    | none => some (none, st)
  | 13 =>
    match nsFind data startIndex with
    | some (s, e) => some (some ⟨.str (slice data s e), s, e⟩, st)
    | none => some (none, st)
  | 14 | 15 =>
    match emScan data (if pi = 14 then '*' else '_') suf startIndex with
    | none => none
    | some none => some (none, st)
    | some (some (el, s, e)) => some (some ⟨.el el, s, e⟩, st)
  | 8 | 9 | 11 => some (none, st)        -- need `<`
  | _ =>
    if 2 ≤ pi && pi ≤ 7 then some (linkScan cfg st.stash pi data prev suf startIndex, st) else some (none, st)

/-! ### `__applyPattern`, `__handleInline` -/

abbrev HI := Str → Nat → St → Option (Str × St)

def hiOpt (hi : HI) (t : Option Str) (atomic : Bool) (pi : Nat) (st : St) : Option (Option Str × St) :=
  if Node.truthy t && !atomic then
    match hi (t.getD []) pi st with
    | some (d, st') => some (some d, st')
    | none => none
  else some (t, st)

/-- text with `patternIndex + 1`, tail with `patternIndex` -/
def hiNode (hi : HI) (pi : Nat) (n : Node) (st : St) : Option (Node × St) :=
  match hiOpt hi n.text n.textAtomic (pi + 1) st with
  | none => none
  | some (t, st1) =>
    match hiOpt hi n.tail n.tailAtomic pi st1 with
    | none => none
    | some (tl, st2) => some ({ n with text := t, tail := tl }, st2)

def hiNodes (hi : HI) (pi : Nat) : List Node → St → Option (List Node × St)
  | [], st => some ([], st)
  | n :: r, st =>
    match hiNode hi pi n st with
    | none => none
    | some (n', st1) =>
      match hiNodes hi pi r st1 with
      | none => none
      | some (r', st2) => some (n' :: r', st2)

/-- `__applyPattern(pattern, data, patternIndex, startIndex)` → `(data, matched, startIndex)`; `hi` is the nested
    `__handleInline` -/
def applyPattern (cfg : Cfg) (hi : HI) (pi : Nat) (data : Str) (startIndex : Nat) (st : St) :
    Option (Str × Bool × Nat × St) :=
  match findMatch cfg pi data startIndex st with
  | none => none
  | some (none, st) => some (data, false, 0, st)
  | some (some f, st) =>
    match f.node with
    | .none => some (data, true, f.stop.toNat, st)
    | .str s =>
      let (ph, st') := stashNode st (.str s)
      some (data.take f.start ++ ph ++ pyDrop data f.stop, true, 0, st')
    | .el n =>
      let r : Option (Node × St) :=
        if n.text.isSome && n.textAtomic then some (n, st)
        else
          -- `for child in [node] + list(node)`: the node's own text and tail, then those of its children
          match hiNode hi pi { n with children := [] } st with
          | none => none
          | some (n1, st1) =>
            match hiNodes hi pi n.children st1 with
            | none => none
            | some (kids, st2) => some ({ n1 with children := kids }, st2)
      match r with
      | none => none
      | some (n', st1) =>
        let (ph, st2) := stashNode st1 (.node n')
        some (data.take f.start ++ ph ++ pyDrop data f.stop, true, 0, st2)

def patternCount : Nat := 16

/-- the `while patternIndex < count` loop -/
def hiLoop (ap : Nat → Str → Nat → St → Option (Str × Bool × Nat × St)) :
    Nat → Str → Nat → Nat → St → Option (Str × St)
  | 0, _, _, _, _ => none
  | g + 1, data, pi, si, st =>
    if pi < patternCount then
      match ap pi data si st with
      | none => none
      | some (d, m, si', st') => hiLoop ap g d (if m then pi else pi + 1) si' st'
    else some (data, st)

/-- fuel of the pattern loop on a text of length `n`: 16 index increments; every other iteration either moves
    `startIndex` past a `\` / `[` of the text (a match whose node is `None`) or consumes at least one character of it
    into a stash entry — which resets `startIndex` to 0, so the loop is quadratic in the worst case
    (`"\\a" * k ++ "\\*" * k` costs about k² iterations); the bound is therefore quadratic -/
def loopFuel (n : Nat) : Nat := 16 * (n + 2) * (n + 2)

/-- `__handleInline(data, patternIndex)` for a non-atomic string; fuel = nesting depth of the calls -/
def handleInline (cfg : Cfg) : Nat → Str → Nat → St → Option (Str × St)
  | 0, _, _, _ => none
  | f + 1, data, pi, st =>
    hiLoop (applyPattern cfg (fun d p s => handleInline cfg f d p s)) (loopFuel data.length) data pi 0 st

/-- nesting depth: the pattern index grows for an element text (≤ 16 levels), a tail is a proper part of the text -/
def depthFuel (n : Nat) : Nat := n + 20

def handleInlineTop (cfg : Cfg) (data : Str) (st : St) : Option (Str × St) :=
  handleInline cfg (depthFuel data.length) data 0 st

/-! ### `__processPlaceholders`, `__processElementText` -/

/-- `linkText(text)`; `result` is kept reversed (head = `result[-1]`); a concatenation yields a plain `str`, an
    assignment keeps the `AtomicString` -/
def linkText (text : Str) (atomic : Bool) (isText : Bool) (result : List Node) (parent : Node) : List Node × Node :=
  if text.isEmpty then (result, parent)
  else
    match result with
    | l :: r =>
      if Node.truthy l.tail then ({ l with tail := some (l.tail.getD [] ++ text), tailAtomic := false } :: r, parent)
      else ({ l with tail := some text, tailAtomic := atomic } :: r, parent)
    | [] =>
      if !isText then
        if Node.truthy parent.tail then
          ([], { parent with tail := some (parent.tail.getD [] ++ text), tailAtomic := false })
        else ([], { parent with tail := some text, tailAtomic := atomic })
      else
        if Node.truthy parent.text then
          ([], { parent with text := some (parent.text.getD [] ++ text), textAtomic := false })
        else ([], { parent with text := some text, textAtomic := atomic })

/-- the `while data` loop; `nested` = what is done to an element taken out of the stash -/
def ppLoop (stash : List StashItem) (nested : Node → Option Node) (data : Str) (atomic : Bool) (isText : Bool) :
    Nat → Nat → List Node → Node → Option (List Node × Node)
  | 0, _, _, _ => none
  | g + 1, start, result, parent =>
    match (if start > data.length then none else find phPrefix (data.drop start)) with
    | some off =>
      let index := start + off
      let (id, phEnd) := findPh data index
      match id.bind (stashGet stash) with
      | some item =>
        let (result, parent) :=
          if index > 0 then linkText (slice data start index) false isText result parent else (result, parent)
        match item with
        | .node n =>
          match nested n with
          | none => none
          | some n' => ppLoop stash nested data atomic isText g phEnd (n' :: result) parent
        | .str s =>
          let (result, parent) := linkText s false isText result parent
          ppLoop stash nested data atomic isText g phEnd result parent
      | none =>
        let e := index + phPrefixLen
        let (result, parent) := linkText (slice data start e) false isText result parent
        ppLoop stash nested data atomic isText g e result parent
    | none =>
      let (result, parent) := linkText (data.drop start) atomic isText result parent
      some (result.reverse, parent)

abbrev PP := Str → Bool → Node → Bool → Option (List Node × Node)

def blankOpt (t : Option Str) : Bool := isBlank (t.getD [])

/-- `__processElementText(node, child, False)` for a child of `node`: the child with its new tail and the elements
    to insert after it -/
def petTail (pp : PP) (c : Node) : Option (Node × List Node) :=
  if Node.truthy c.tail && !blankOpt c.tail then
    match pp (c.tail.getD []) c.tailAtomic { c with tail := none, tailAtomic := false } false with
    | some (res, c') => some (c', res)
    | none => none
  else some (c, [])

/-- `__processElementText(child, child)`: the results go in front of the child's children -/
def petText (pp : PP) (c : Node) : Option Node :=
  if Node.truthy c.text && !blankOpt c.text then
    match pp (c.text.getD []) c.textAtomic { c with text := none, textAtomic := false } true with
    | some (res, c') => some { c' with children := res ++ c'.children }
    | none => none
  else some c

def procKids (pp : PP) : List Node → Option (List Node)
  | [] => some []
  | c :: r =>
    match petTail pp c with
    | none => none
    | some (c1, res) =>
      match petText pp c1 with
      | none => none
      | some c2 =>
        match procKids pp r with
        | none => none
        | some r' => some (c2 :: res ++ r')

/-- the `for child in [node] + list(node)` loop of `__processPlaceholders` on an element taken out of the stash.
    The list of children is the one before the loop; what the node's own tail and text produce is inserted in front
    (`node is subnode` ⇒ position 0) and is not visited by the loop. -/
def procNode (pp : PP) (node : Node) : Option Node :=
  let kids0 := node.children
  match petTail pp { node with children := [] } with
  | none => none
  | some (n1, tailRes) =>
    match petText pp n1 with
    | none => none
    | some n2 =>
      -- `n2.children` = results of the text, which were inserted at 0 after those of the tail
      match procKids pp kids0 with
      | none => none
      | some kids => some { n2 with children := n2.children ++ tailRes ++ kids }

/-- `__processPlaceholders(data, parent, isText)`; fuel = nesting depth of stash entries (an element only contains
    placeholders of entries made before it, so the depth is at most the size of the stash) -/
def processPlaceholders (stash : List StashItem) : Nat → Str → Bool → Node → Bool → Option (List Node × Node)
  | 0, _, _, _, _ => none
  | f + 1, data, atomic, parent, isText =>
    if data.isEmpty then some ([], parent)
    else
      ppLoop stash (procNode (fun d a p t => processPlaceholders stash f d a p t)) data atomic isText
        (data.length + 2) 0 [] parent

def ppTop (st : St) (data : Str) (atomic : Bool) (parent : Node) (isText : Bool) : Option (List Node × Node) :=
  processPlaceholders st.stash (st.stash.length + 2) data atomic parent isText

/-! ### `run` -/

abbrev Path := List Nat

def getAt : Node → Path → Option Node
  | n, [] => some n
  | n, i :: p => match n.children[i]? with | some c => getAt c p | none => none

def setAt (n : Node) : Path → Node → Node
  | [], new => new
  | i :: p, new =>
    match n.children[i]? with
    | some c => { n with children := n.children.set i (setAt c p new) }
    | none => n

structure Visit where
  done : List Node := []              -- reversed
  posmap : List (Nat × Nat) := []     -- index before the loop ↦ index after
  pushes : List Path := []            -- relative paths, last pushed first
  st : St

/-- one child of the popped element -/
def visitChild (cfg : Cfg) (child : Node) (v : Visit) : Option (Node × List Node × Visit) :=
  let i := v.done.length
  -- text
  let r1 : Option (Node × List Node × St) :=
    if Node.truthy child.text && !child.textAtomic then
      match handleInlineTop cfg (child.text.getD []) v.st with
      | none => none
      | some (data, st1) =>
        match ppTop st1 data false { child with text := none, textAtomic := false } true with
        | none => none
        | some (lst, c1) => some (c1, lst, st1)
    else some (child, [], v.st)
  match r1 with
  | none => none
  | some (c1, lst, st1) =>
    -- tail
    let r2 : Option (Node × List Node × St) :=
      if Node.truthy c1.tail then
        let tl := c1.tail.getD []
        let h : Option (Str × St) := if c1.tailAtomic then some (tl, st1) else handleInlineTop cfg tl st1
        match h with
        | none => none
        | some (data, st2) =>
          match ppTop st2 data c1.tailAtomic (mkEl "d") false with
          | none => none
          | some (tr, dumby) =>
            let c2 : Node :=
              if Node.truthy dumby.tail then { c1 with tail := dumby.tail, tailAtomic := dumby.tailAtomic }
              else { c1 with tail := none, tailAtomic := false }
            some (c2, tr, st2)
      else some (c1, [], st1)
    match r2 with
    | none => none
    | some (c2, tr, st2) =>
      -- `stack += lst` … `if len(child): stack.append(child)` (the child list is still the old one there)
      let pushes := ((List.range lst.length).map (fun k => [i, k])).reverse ++ v.pushes
      let pushes := if child.children.isEmpty then pushes else [i] :: pushes
      let c3 := { c2 with children := lst ++ c2.children }
      some (c3, tr, { v with pushes := pushes, st := st2 })

/-- the live `for child in currElement` loop as a worklist: elements made from a tail are visited next -/
def visitLoop (cfg : Cfg) : Nat → List (Node × Option Nat) → Visit → Option Visit
  | 0, _, _ => none
  | _ + 1, [], v => some v
  | g + 1, (child, orig) :: todo, v =>
    match visitChild cfg child v with
    | none => none
    | some (c, tr, v1) =>
      let v2 := { v1 with
        done := c :: v1.done
        posmap := match orig with | some o => (o, v.done.length) :: v1.posmap | none => v1.posmap }
      visitLoop cfg g (tr.map (fun n => (n, none)) ++ todo) v2

def withIdx : List Node → Nat → List (Node × Option Nat)
  | [], _ => []
  | n :: r, i => (n, some i) :: withIdx r (i + 1)

/-- re-address a stack entry below the popped element `p` -/
def remap (p : Path) (posmap : List (Nat × Nat)) (q : Path) : Path :=
  if startsWithPath q p then
    match q.drop p.length with
    | j :: rest =>
      match posmap.find? (fun x => x.1 = j) with
      | some (_, j') => p ++ j' :: rest
      | none => q
    | [] => q
  else q
where
  startsWithPath : Path → Path → Bool
    | _, [] => true
    | [], _ :: _ => false
    | a :: q, b :: p => a = b && startsWithPath q p

/-- the `while stack` loop; `g2` = fuel of each child loop -/
def runLoop (cfg : Cfg) (g2 : Nat) : Nat → Node → List Path → St → Option (Node × St)
  | 0, _, _, _ => none
  | _ + 1, root, [], st => some (root, st)
  | g + 1, root, p :: stack, st =>
    match getAt root p with
    | none => runLoop cfg g2 g root stack st
    | some cur =>
      match visitLoop cfg g2 (withIdx cur.children 0) { st := st } with
      | none => none
      | some v =>
        let root' := setAt root p { cur with children := v.done.reverse }
        let stack' := v.pushes.map (p ++ ·) ++ stack.map (remap p v.posmap)
        runLoop cfg g2 g root' stack' v.st

mutual
/-- elements + characters -/
def size : Node → Nat
  | ⟨_, _, text, _, children, tail, _⟩ => 1 + (text.getD []).length + (tail.getD []).length + sizeList children
def sizeList : List Node → Nat
  | [] => 0
  | n :: r => size n + sizeList r
end

/-- fuel of the stack loop and of each child loop.  Every element of the result is made from at least one character
    of the input, an element is pushed at most twice by the loop that visits it as a child, and it is visited as a
    child once per pop of its parent; 16 · size + 64 is generous for that (exhaustion is reported, not hidden). -/
def runFuel (tree : Node) : Nat := 16 * size tree + 64

/-- `InlineProcessor.run(tree)`: the tree and the two stashes; `none` = out of fuel -/
def run (cfg : Cfg) (tree : Node) (html : List Str := []) : Option (Node × St) :=
  let f := runFuel tree
  runLoop cfg f f tree [[]] { html := html }

end MdVerif.Inline
