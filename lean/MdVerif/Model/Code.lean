/-
Model of the escaping applied to code text (C03).

* `codeEscape` mirrors `markdown/util.py: code_escape` — three successive `str.replace` passes, `&` first, every
  ampersand unconditionally (the `if "&" in text` guards of the code only skip a pass that would change nothing);
* `codeEscape1` is the same escaping as one left-to-right pass;
* `fenceEscape` mirrors `FencedBlockPreprocessor._escape` of `markdown/extensions/fenced_code.py` (four passes: the
  three above and `"` → `&quot;`); `fenceEscape1` is its one-pass form.

Core Lean only.
-/
import MdVerif.Py.Basic

namespace MdVerif.Code
open Py

/-- `util.code_escape` -/
def codeEscape (s : Str) : Str :=
  replace (replace (replace s ['&'] "&amp;".toList) ['<'] "&lt;".toList) ['>'] "&gt;".toList

/-- what one character of code becomes -/
def esc1Char (c : Char) : Str :=
  if c = '&' then "&amp;".toList else if c = '<' then "&lt;".toList else if c = '>' then "&gt;".toList else [c]

/-- the same escaping as a single left-to-right pass -/
def codeEscape1 : Str → Str
  | [] => []
  | c :: r => esc1Char c ++ codeEscape1 r

/-- `FencedBlockPreprocessor._escape` -/
def fenceEscape (s : Str) : Str :=
  replace (replace (replace (replace s ['&'] "&amp;".toList) ['<'] "&lt;".toList) ['>'] "&gt;".toList)
    ['"'] "&quot;".toList

/-- what one character of a fenced block becomes -/
def fesc1Char (c : Char) : Str :=
  if c = '&' then "&amp;".toList else if c = '<' then "&lt;".toList else if c = '>' then "&gt;".toList
  else if c = '"' then "&quot;".toList else [c]

/-- `fenceEscape` as a single left-to-right pass -/
def fenceEscape1 : Str → Str
  | [] => []
  | c :: r => fesc1Char c ++ fenceEscape1 r

end MdVerif.Code
