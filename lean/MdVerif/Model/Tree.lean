/-
Element trees (`xml.etree.ElementTree.Element` as the code uses it), immutable.

`text`/`tail` keep the distinction between `None` and `''` because the code branches on truthiness;
`textAtomic`/`tailAtomic` say that the string is a `util.AtomicString`.
-/
import MdVerif.Py.Basic

namespace MdVerif

inductive Tag
  | name (s : Str)          -- ordinary string tag
  | comment                 -- `tag is Comment`
  | pi                      -- `tag is ProcessingInstruction`
  | none                    -- `tag is None`
  | qname (s : Str)         -- `QName` object with this `.text`
  deriving DecidableEq, Repr, Inhabited

structure Node where
  tag : Tag
  attrs : List (Str × Str) := []
  text : Option Str := none
  textAtomic : Bool := false
  children : List Node := []
  tail : Option Str := none
  tailAtomic : Bool := false
  deriving Repr, Inhabited

namespace Node

def el (tag : String) : Node := { tag := .name tag.toList }

/-- Python truthiness of `elem.text` / `elem.tail` -/
def truthy : Option Str → Bool
  | some (_ :: _) => true
  | _ => false

def tagStr (n : Node) : Str := match n.tag with | .name s => s | _ => []

def isTag (n : Node) (t : String) : Bool := n.tag == .name t.toList

def last? (n : Node) : Option Node := n.children.getLast?

/-- replace the last child (no-op when there is none) -/
def setLast (n : Node) (c : Node) : Node := { n with children := n.children.dropLast ++ [c] }

def append (n : Node) (c : Node) : Node := { n with children := n.children ++ [c] }

def setAttr (n : Node) (k v : Str) : Node :=
  if n.attrs.any (fun kv => kv.1 = k) then { n with attrs := n.attrs.map (fun kv => if kv.1 = k then (k, v) else kv) }
  else { n with attrs := n.attrs ++ [(k, v)] }

def getAttr (n : Node) (k : Str) : Option Str := (n.attrs.find? (fun kv => kv.1 = k)).map (·.2)

end Node
end MdVerif
