/-
Model of the `{attrs}` branch of `FencedBlockPreprocessor.run` (`markdown/extensions/fenced_code.py`) for the DEFAULT
configuration: no `codehilite` (so `codehilite_conf` is empty and the plain `<pre><code>` branch is taken) and no
`attr_list` registered (`use_attr_list` is false: key/value pairs of the block are parsed but never written).

`fencedRunA` is `fencedRun` (`Model/Ext/FencedCode.lean`) with that branch filled in, so it never answers `ood`:

    if m.group('attrs'):
        attrs, remainder = get_attrs_and_remainder(m.group('attrs'))      -- `AttrList.getAttrsAndRemainder`
        if remainder:                       # braces do not match: skip the opening fence
            index = m.end('attrs'); continue
        id, classes, config = self.handle_attrs(attrs)                    -- `handleAttrs` (config is unused here)
        if len(classes): lang = classes.pop(0)

`m.end('attrs')` is not a field of `FenceMatch`; it is recomputed as start + fence + blanks + `{` + attrs (in the
`{…}` alternative the blanks after the fence are all taken: the next character must be `{`).
Core Lean only.
-/
import MdVerif.Model.Ext.FencedCode
import MdVerif.Model.Ext.AttrList

namespace MdVerif.Fenced
open Py Code

/-- a line that does not start with three backticks or three tildes -/
def plainLine (l : Str) : Bool := !startsWith l "```".toList && !startsWith l "~~~".toList

/-- no line of the text starts with an opening fence -/
def noFenceLine (text : Str) : Bool := (lines text).all plainLine

/-- `handle_attrs`: (`id`, `classes`); the last `id` wins, classes in order.  The `configs` dict (every other key,
    `hl_lines`, the boolean options) is not used in the default configuration -/
def handleAttrs (attrs : List (Str × Str)) : Str × List Str :=
  attrs.foldl (fun (acc : Str × List Str) kv =>
    if kv.1 = "id".toList then (kv.2, acc.2)
    else if kv.1 = ".".toList then (acc.1, acc.2 ++ [kv.2])
    else acc) ([], [])

/-- the HTML stored for a block: `<pre{id_attr}{class_attr}><code{lang_attr}>{code}</code></pre>` -/
def blockHtmlA (id : Str) (classes : List Str) (lang code : Str) : Str :=
  "<pre".toList ++
  (if id.isEmpty then [] else " id=\"".toList ++ Ser.escAttrHtml id ++ ['"']) ++
  (if classes.isEmpty then [] else " class=\"".toList ++ Ser.escAttrHtml (join [' '] classes) ++ ['"']) ++
  "><code".toList ++
  (if lang.isEmpty then [] else " class=\"language-".toList ++ Ser.escAttrHtml lang ++ ['"']) ++
  ['>'] ++ fenceEscape code ++ "</code></pre>".toList

/-- `m.end('attrs')` for a match of `text` whose `attrs` group is `a` -/
def attrsEnd (text : Str) (m : FenceMatch) (a : Str) : Nat :=
  m.start + m.fence.length + spanLen isSp (text.drop (m.start + m.fence.length)) + 1 + a.length

/-- the `while 1:` loop of `run`, `{attrs}` branch included -/
def fencedLoopA : Nat → Str → Nat → List Str → RunResult
  | 0, _, _, _ => .fuel
  | fuel + 1, text, index, stash =>
    match fenceFindFrom text index with
    | none => .ok text stash
    | some m =>
      let ph := placeholder stash.length
      let a := m.attrs.getD []
      if a.isEmpty then
        fencedLoopA fuel (text.take m.start ++ '\n' :: (ph ++ '\n' :: text.drop m.stop))
          (m.start + 1 + ph.length) (stash ++ [blockHtmlA [] [] (m.lang.getD []) m.code])
      else
        let r := AttrList.getAttrsAndRemainder a
        if !r.2.isEmpty then fencedLoopA fuel text (attrsEnd text m a) stash
        else
          let ic := handleAttrs r.1
          fencedLoopA fuel (text.take m.start ++ '\n' :: (ph ++ '\n' :: text.drop m.stop))
            (m.start + 1 + ph.length)
            (stash ++ [blockHtmlA ic.1 ic.2.tail (ic.2.head?.getD []) m.code])

/-- `FencedBlockPreprocessor.run` on `text = "\n".join(lines)` with an empty stash, default configuration -/
def fencedRunA (text : Str) : RunResult := fencedLoopA (text.length + 1) text 0 []

end MdVerif.Fenced
