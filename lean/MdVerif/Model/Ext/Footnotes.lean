/-
Model of the id bookkeeping of `markdown/extensions/footnotes.py` (C17), default configuration
(`UNIQUE_IDS = False`, `SEPARATOR = ':'`).

* `footnoteId`                       `makeFootnoteId(id)`                      `fn:ID`
* `footnoteRefId`, `uniqueRef`       `makeFootnoteRefId(id, found)` / `unique_ref` with `found_refs`, `used_refs`
* `processRefs`                      the `sup` id and `href` that `FootnoteInlineProcessor.handleMatch` gives to
                                     each reference `[^id]`, in processing order
* `backlinks`                        per footnote (`<li id=…>`) the back-link `href`s: one from `makeFootnotesDiv`
                                     (only when the body produced an element), the others from
                                     `FootnotePostTreeprocessor.add_duplicates`
-/
import MdVerif.Py.Basic

namespace MdVerif.Footnotes
open MdVerif.Py

/-- `found_refs` (a dict, read with `.get(key, 0)`) and `used_refs` (a set; the list is used as a set) -/
structure State where
  usedRefs : List Str
  foundRefs : List (Str × Nat)
deriving DecidableEq, Repr

def State.empty : State := ⟨[], []⟩

/-- `'fn{}{}'.format(sep, id)` -/
def footnoteId (id : Str) : Str := 'f' :: 'n' :: ':' :: id

/-- `s.split(c, 1)` when `c` occurs in `s`: the text before and after the first `c` -/
def splitFirst (c : Char) : Str → Option (Str × Str)
  | [] => none
  | x :: s => if x = c then some ([], s) else (splitFirst c s).map (fun p => (x :: p.1, p.2))

def fnref : Str := ['f', 'n', 'r', 'e', 'f']

/-- `RE_REF_ID.match(ref)` for `(fnref)(\d+)` → `(group(1), group(2))` -/
def refIdMatch (ref : Str) : Option (Str × Str) :=
  if startsWith ref fnref then
    match (ref.drop 5).takeWhile isDecimal with
    | [] => none
    | d :: ds => some (fnref, d :: ds)
  else none

/-- body of the `while reference in self.used_refs` loop.  A reference without `:` would make Python raise
    `ValueError` on the tuple unpacking; every reference is `fnref…:ID`, the case cannot occur
    (`bumpRef_refName`). -/
def bumpRef (reference : Str) : Str :=
  match splitFirst ':' reference with
  | none => reference
  | some (ref, rest) =>
    match refIdMatch ref with
    | some (g1, g2) => g1 ++ natToDec (decToNat g2 + 1) ++ ':' :: rest
    | none => ref ++ natToDec 2 ++ ':' :: rest

/-- the loop, `fuel` turns allowed; on exhaustion the candidate is returned unchecked (never happens:
    `C17_ref_ids_distinct`) -/
def uniqueRefLoop : Nat → Str → List Str → Str
  | 0, r, _ => r
  | fuel + 1, r, used => if r ∈ used then uniqueRefLoop fuel (bumpRef r) used else r

/-- `found_refs[key] += 1` / `= 1` -/
def incr (key : Str) : List (Str × Nat) → List (Str × Nat)
  | [] => [(key, 1)]
  | (k, n) :: l => if k = key then (k, n + 1) :: l else (k, n) :: incr key l

/-- `found_refs.get(key, 0)` -/
def lookup (key : Str) : List (Str × Nat) → Nat
  | [] => 0
  | (k, n) :: l => if k = key then n else lookup key l

/-- `unique_ref(reference, found)` -/
def uniqueRef (reference : Str) (found : Bool) (st : State) : Str × State :=
  if found then
    let r := uniqueRefLoop (st.usedRefs.length + 1) reference st.usedRefs
    (r, { usedRefs := r :: st.usedRefs, foundRefs := incr reference st.foundRefs })
  else (reference, st)

/-- `makeFootnoteRefId(id, found)` -/
def footnoteRefId (id : Str) (found : Bool) (st : State) : Str × State :=
  uniqueRef (fnref ++ ':' :: id) found st

/-- `handleMatch` over the references in processing order; a reference whose id has no definition yields nothing
    (`return None, None, None`).  Result: the final state and, per linked reference, `(sup id, a href)`. -/
def processRefsFrom (defs : List Str) : List Str → State → State × List (Str × Str)
  | [], st => (st, [])
  | u :: us, st =>
    if u ∈ defs then
      let r := footnoteRefId u true st
      let rest := processRefsFrom defs us r.2
      (rest.1, (r.1, '#' :: footnoteId u) :: rest.2)
    else processRefsFrom defs us st

def processRefs (defs uses : List Str) : State × List (Str × Str) := processRefsFrom defs uses State.empty

/-- `get_num_duplicates(li)`: `fn, rest = li.id.split(':', 1)`; `found_refs.get(fn + 'ref' + ':' + rest, 0)` -/
def numDuplicates (liId : Str) (st : State) : Nat :=
  match splitFirst ':' liId with
  | some (fn, rest) => lookup (fn ++ 'r' :: 'e' :: 'f' :: ':' :: rest) st.foundRefs
  | none => 0

/-- `add_duplicates(li, count)`: the first `footnote-backref` link of the `li` is copied for `index = 2 … count`
    with `href = ref + str(index) + ':' + rest` where `ref, rest = href.split(':', 1)` -/
def duplicateLinks (count : Nat) : List Str → List Str
  | [] => []
  | href :: _ =>
    match splitFirst ':' href with
    | some (ref, rest) => (List.range' 2 (count - 1)).map (fun i => ref ++ natToDec i ++ ':' :: rest)
    | none => []

/-- one footnote: its `li` id and the `href`s of its back-links.  `st` is the state after inline processing
    (`found_refs`), `hasBody id` tells whether parsing the footnote text produced at least one element
    (`if len(li):`). -/
def backlinksOf (st : State) (hasBody : Str → Bool) (id : Str) : Str × List Str :=
  let liId := footnoteId id
  -- `makeFootnotesDiv` (runs before the inline phase; `found=False` leaves the state alone)
  let first := if hasBody id then ['#' :: (footnoteRefId id false State.empty).1] else []
  -- `FootnotePostTreeprocessor.handle_duplicates`
  let count := numDuplicates liId st
  let extra := if count > 1 then duplicateLinks count first else []
  (liId, first ++ extra)

/-- per footnote, in the order of the definitions: the `li` id and the `href`s of its back-links -/
def backlinks (defs : List Str) (st : State) (hasBody : Str → Bool) : List (Str × List Str) :=
  defs.map (backlinksOf st hasBody)

end MdVerif.Footnotes
