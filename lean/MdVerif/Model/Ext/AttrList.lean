/-
Model of `markdown/extensions/attr_list.py` (C16, attribute lists).

* `scanner`, `getAttrsAndRemainder`, `getAttrs`   `_scanner = re.Scanner([...])`, `get_attrs_and_remainder`, `get_attrs`.
  `re.Scanner` compiles the lexicon to one alternation `(p1)|(p2)|…` and calls `match` repeatedly: at each position
  the patterns are tried IN ORDER, the first that matches wins; when none matches scanning stops and the rest of the
  string is the remainder.  No lexicon pattern matches the empty string.
* `sanitizeName`                                   `NAME_RE.sub('_', name)` (the code-point ranges of the regex)
* `assignPairs`, `assignAttrs`                     `AttrListTreeprocessor.assign_attrs(elem, attrs_string, strict)`
* `baseAt`, `headerSearch`, `blockSearch`, `inlineMatch`   `BASE_RE`, `HEADER_RE.search`, `BLOCK_RE.search`,
                                                   `INLINE_RE.match` (captured group, text before / after the match)
* `blockApply`, `inlineApply`                      what `run` does to the text / tail and the attributes of one element

Everything is structurally recursive or recursive on explicit fuel.  Core Lean only.
-/
import MdVerif.Py.Basic

namespace MdVerif.AttrList
open MdVerif.Py

/-! ### the scanner -/

/-- `[^ =}]` -/
def wordChar (c : Char) : Bool := c != ' ' && c != '=' && c != '}'

/-- `.*?q` (lazy, `.` does not match a line feed): the text before the first `q` and the text after it -/
def lazyUntil (q : Char) : Str → Option (Str × Str)
  | [] => none
  | c :: s =>
    if c = q then some ([], s)
    else if c = '\n' then none
    else (lazyUntil q s).map (fun p => (c :: p.1, p.2))

/-- `[^ =}]+=q.*?q` → (matched text, rest).  The greedy key is the maximal run of word characters (giving back
    characters never helps: the next character must be `=`, which is not a word character). -/
def patQuoted (q : Char) (s : Str) : Option (Str × Str) :=
  match s.takeWhile wordChar, s.dropWhile wordChar with
  | k :: ks, '=' :: q' :: r =>
    if q' = q then (lazyUntil q r).map (fun p => ((k :: ks) ++ '=' :: q :: p.1 ++ [q], p.2)) else none
  | _, _ => none

/-- `[^ =}]+=[^ =}]+` → (matched text, rest) -/
def patKeyValue (s : Str) : Option (Str × Str) :=
  match s.takeWhile wordChar, s.dropWhile wordChar with
  | k :: ks, '=' :: r =>
    match r.takeWhile wordChar with
    | v :: vs => some ((k :: ks) ++ '=' :: v :: vs, r.dropWhile wordChar)
    | [] => none
  | _, _ => none

/-- `[^ =}]+` → (matched text, rest) -/
def patWord (s : Str) : Option (Str × Str) :=
  match s.takeWhile wordChar with
  | k :: ks => some (k :: ks, s.dropWhile wordChar)
  | [] => none

/-- `t.split('=', 1)` for a text that holds a `=` -/
def splitEq : Str → Str × Str
  | [] => ([], [])
  | c :: s => if c = '=' then ([], s) else ((splitEq s).1.cons c, (splitEq s).2)

/-- `_handle_double_quote` / `_handle_single_quote` -/
def handleQuoted (q : Char) (t : Str) : Str × Str := ((splitEq t).1, stripC q (splitEq t).2)

/-- `_handle_key_value` -/
def handleKeyValue (t : Str) : Str × Str := splitEq t

/-- `_handle_word` -/
def handleWord (t : Str) : Str × Str :=
  match t with
  | '.' :: r => (['.'], r)
  | '#' :: r => (['i', 'd'], r)
  | _ => (t, t)

/-- one `match` of the compiled alternation: the token produced (`none` for the blank) and the rest of the text;
    `none` = no lexicon entry matches here -/
def scanStep (s : Str) : Option (Option (Str × Str) × Str) :=
  match patQuoted '"' s with
  | some (t, r) => some (some (handleQuoted '"' t), r)
  | none =>
  match patQuoted '\'' s with
  | some (t, r) => some (some (handleQuoted '\'' t), r)
  | none =>
  match patKeyValue s with
  | some (t, r) => some (some (handleKeyValue t), r)
  | none =>
  match patWord s with
  | some (t, r) => some (some (handleWord t), r)
  | none =>
  match s with
  | ' ' :: r => some (none, r)
  | _ => none

/-- `Scanner.scan`: `fuel` matches allowed (every match consumes at least one character) -/
def scan : Nat → Str → List (Str × Str) × Str
  | 0, s => ([], s)
  | fuel + 1, s =>
    match scanStep s with
    | none => ([], s)
    | some (tok, r) => (tok.toList ++ (scan fuel r).1, (scan fuel r).2)

/-- `_scanner.scan(s)` → (tokens, remainder) -/
def scanner (s : Str) : List (Str × Str) × Str := scan s.length s

/-- `get_attrs_and_remainder`: "discard all unparsable text prior to `}`" -/
def getAttrsAndRemainder (s : Str) : List (Str × Str) × Str :=
  ((scanner s).1, (scanner s).2.dropWhile (· != '}'))

/-- `get_attrs` -/
def getAttrs (s : Str) : List (Str × Str) := (getAttrsAndRemainder s).1

/-! ### `sanitize_name` -/

/-- the characters `NAME_RE` does *not* replace (code-point intervals of the negated class) -/
def nameRanges : List (Nat × Nat) :=
  [(0x41, 0x5a), (0x5f, 0x5f), (0x61, 0x7a), (0xc0, 0xd6), (0xd8, 0xf6), (0xf8, 0x2ff), (0x370, 0x37d),
   (0x37f, 0x1fff), (0x200c, 0x200d), (0x2070, 0x218f), (0x2c00, 0x2fef), (0x3001, 0xd7ff), (0xf900, 0xfdcf),
   (0xfdf0, 0xfffd), (0x3a, 0x3a), (0x2d, 0x2d), (0x2e, 0x2e), (0x30, 0x39), (0xb7, 0xb7), (0x300, 0x36f),
   (0x203f, 0x2040)]

def nameChar (c : Char) : Bool := inRanges nameRanges c.toNat

/-- `NAME_RE.sub('_', name)`: every maximal run of other characters becomes one `_`; `inRun` = the previous
    character was already replaced -/
def sanitizeAux : Bool → Str → Str
  | _, [] => []
  | inRun, c :: s =>
    if nameChar c then c :: sanitizeAux false s
    else if inRun then sanitizeAux true s
    else '_' :: sanitizeAux true s

def sanitizeName (name : Str) : Str := sanitizeAux false name

/-! ### `assign_attrs` -/

/-- `elem.attrib` : insertion-ordered dict -/
abbrev Attrs := List (Str × Str)

/-- `elem.get(k)` -/
def getA (a : Attrs) (k : Str) : Option Str := (a.find? (fun kv => kv.1 = k)).map (·.2)

/-- `elem.set(k, v)` (an existing key keeps its place) -/
def setA (a : Attrs) (k v : Str) : Attrs :=
  if a.any (fun kv => kv.1 = k) then a.map (fun kv => if kv.1 = k then (k, v) else kv) else a ++ [(k, v)]

def classKey : Str := ['c', 'l', 'a', 's', 's']

/-- body of `for k, v in attrs:` -/
def assignStep (a : Attrs) (kv : Str × Str) : Attrs :=
  if kv.1 = ['.'] then
    match getA a classKey with
    | some (c :: cs) => setA a classKey ((c :: cs) ++ ' ' :: kv.2)
    | _ => setA a classKey kv.2
  else setA a (sanitizeName kv.1) kv.2

def assignPairs (a : Attrs) (pairs : List (Str × Str)) : Attrs := pairs.foldl assignStep a

/-- `assign_attrs(elem, attrs_string, strict=…)` → the new attributes and the returned remainder -/
def assignAttrs (a : Attrs) (attrsString : Str) (strict : Bool) : Attrs × Str :=
  let r := getAttrsAndRemainder attrsString
  if strict && !r.2.isEmpty then (a, r.2) else (assignPairs a r.1, r.2)

/-! ### placement -/

/-- after the first character of the group: `[^\n]*` greedy, then `[ ]*\}` and the continuation `ok`.  Backtracking
    gives characters back one at a time, so the closing brace is the LAST `}` of the line after which `ok` holds.
    Result: the rest of the group and the text after the brace. -/
def lastBrace (ok : Str → Bool) : Str → Option (Str × Str)
  | [] => none
  | c :: s =>
    if c = '\n' then none
    else match lastBrace ok s with
      | some (g, r) => some (c :: g, r)
      | none => if c = '}' && ok s then some ([], s) else none

/-- `[ ]*([^\}\n ][^\n]*)[ ]*\}` + continuation -/
def baseFrom (ok : Str → Bool) (s : Str) : Option (Str × Str) :=
  match s.dropWhile (· = ' ') with
  | [] => none
  | c :: r =>
    if c = '}' || c = '\n' || c = ' ' then none
    else (lastBrace ok r).map (fun p => (c :: p.1, p.2))

/-- `BASE_RE` at the start of `s`, followed by a continuation: `\:?` first tries to take the colon, then not.
    Result: `group(1)` and the text after the closing brace. -/
def baseAt (ok : Str → Bool) : Str → Option (Str × Str)
  | '{' :: ':' :: r =>
    match baseFrom ok r with
    | some p => some p
    | none => baseFrom ok (':' :: r)
  | '{' :: r => baseFrom ok r
  | _ => none

/-- `[ ]*$`: blanks, then the end of the string or its final line feed -/
def endOk (r : Str) : Bool :=
  match r.dropWhile (· = ' ') with
  | [] => true
  | ['\n'] => true
  | _ => false

/-- `HEADER_RE.search(text)` → (`text[:m.start()]`, `m.group(1)`) -/
def headerSearch : Str → Option (Str × Str)
  | [] => none
  | c :: s =>
    match (if c = ' ' then baseAt endOk (s.dropWhile (· = ' ')) else none) with
    | some p => some ([], p.1)
    | none => (headerSearch s).map (fun p => (c :: p.1, p.2))

/-- `BLOCK_RE.search(text)` → (`text[:m.start()]`, `m.group(1)`) -/
def blockSearch : Str → Option (Str × Str)
  | [] => none
  | c :: s =>
    match (if c = '\n' then baseAt endOk (s.dropWhile (· = ' ')) else none) with
    | some p => some ([], p.1)
    | none => (blockSearch s).map (fun p => (c :: p.1, p.2))

/-- `INLINE_RE.match(tail)` → (`m.group(1)`, `tail[m.end():]`) -/
def inlineMatch (s : Str) : Option (Str × Str) := baseAt (fun _ => true) s

/-- the "no children, get from text" branch of `run` for a block-level element (`header` = `isheader(elem)` or
    `dt`/`td`/`th` for the choice of the regex; the `#`-cleanup is for headers only, `hashes` = `isheader(elem)`) -/
def blockApply (header hashes : Bool) (a : Attrs) (text : Str) : Attrs × Str :=
  match (if header then headerSearch text else blockSearch text) with
  | none => (a, text)
  | some (pre, g) =>
    let r := assignAttrs a g true
    if r.2.isEmpty then (r.1, if hashes then rstrip (rstripC '#' pre) else pre) else (a, text)

/-- the inline branch of `run`: `elem.tail = elem.tail[m.end():] + remainder` -/
def inlineApply (a : Attrs) (tail : Str) : Attrs × Str :=
  match inlineMatch tail with
  | none => (a, tail)
  | some (g, rest) =>
    let r := assignAttrs a g false
    (r.1, rest ++ r.2)

end MdVerif.AttrList
