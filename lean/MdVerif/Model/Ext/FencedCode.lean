/-
Model of `markdown/extensions/fenced_code.py` (default configuration: no `codehilite`, no `attr_list`).

`fenceFind` / `fenceFindFrom` are a direct (regex-free) recogniser of

    (?P<fence>^(?:~{3,}|`{3,}))[ ]*
    ((\{(?P<attrs>[^\n]*)\})|
    (\.?(?P<lang>[\w#.+-]*)[ ]*)?
    (hl_lines=(?P<quot>"|')(?P<hl_lines>.*?)(?P=quot)[ ]*)?)
    \n
    (?P<code>.*?)(?<=\n)
    (?P=fence)[ ]*$                       re.MULTILINE | re.DOTALL | re.VERBOSE

with the semantics of `pattern.search(text, index)`: the leftmost start, and at that start the first alternative in
backtracking priority order.

* start: a real line start (`^` does not match at `index` unless it is one);
* fence: the whole run of `~` / `` ` `` (a shorter fence leaves a fence character that nothing after it can match);
* opening line: `openCands` lists every way the part between the fence and the `\n` can be matched, in the order the
  backtracking engine tries them (greedy `[ ]*`, `{…}` before the lang form, `\.?` greedy, lang greedy, optional
  groups taken first, `hl_lines` value lazy and — because of `re.DOTALL` — free to run over line ends);
* closing: the first later line that is `fence` followed by spaces only (`.*?` lazy, `(?<=\n)` = at a line start,
  `[ ]*$` = spaces up to the line end); it depends only on where the opening line ended, so the first candidate
  for which a closing line exists is the match.

`fencedRun` is the `while` loop of `FencedBlockPreprocessor.run` with explicit fuel, the explicit `index` and the
stash.  Blocks with a non-empty `{attrs}` part go through `get_attrs_and_remainder` / `handle_attrs`, which is
outside this model: `fencedRun` answers `ood` for them (`fenceFind` itself recognises them fully).
Core Lean only.
-/
import MdVerif.Model.Code
import MdVerif.Model.Serializer

namespace MdVerif.Fenced
open Py Code

/-- `[n, n-1, …, 0]`: the lengths a greedy repeat tries -/
def descTo : Nat → List Nat
  | 0 => [0]
  | n + 1 => (n + 1) :: descTo n

def isSp (c : Char) : Bool := c = ' '
/-- `[\w#.+-]` -/
def isLangChar (c : Char) : Bool := isWord c || c = '#' || c = '.' || c = '+' || c = '-'

/-- one way of matching the opening line after the fence -/
structure Cand where
  attrs : Option Str        -- group `attrs`
  lang : Option Str         -- group `lang` (`some []` when the optional group took part with an empty name)
  hl : Option Str           -- group `hl_lines`
  p : Nat                   -- characters consumed after the fence; the `\n` must come next
  deriving Repr, DecidableEq

/-- offsets of the occurrences of `q` -/
def occs (q : Char) : Nat → Str → List Nat
  | _, [] => []
  | off, c :: r => if c = q then off :: occs q (off + 1) r else occs q (off + 1) r

/-- `(hl_lines=(?P<quot>"|')(?P<hl_lines>.*?)(?P=quot)[ ]*)?` at `f`: (hl_lines, end offset) -/
def hlCands (f : Str) (base : Nat) : List (Option Str × Nat) :=
  (if startsWith f "hl_lines=".toList then
    match f.drop 9 with
    | q :: g =>
      if q = '"' || q = '\'' then
        (occs q 0 g).flatMap (fun i =>
          (descTo (spanLen isSp (g.drop (i + 1)))).map (fun s3 => (some (g.take i), base + 10 + i + 1 + s3)))
      else []
    | [] => []
  else []) ++ [(none, base)]

/-- `(\.?(?P<lang>[\w#.+-]*)[ ]*)?(hl_lines=…)?` at `b`: (lang, hl_lines, end offset) -/
def langCands (b : Str) (base : Nat) : List (Option Str × Option Str × Nat) :=
  ((if startsWith b ['.'] then [1, 0] else [0]).flatMap (fun d =>
    (descTo (spanLen isLangChar (b.drop d))).flatMap (fun l =>
      (descTo (spanLen isSp (b.drop (d + l)))).flatMap (fun s2 =>
        (hlCands (b.drop (d + l + s2)) (base + d + l + s2)).map (fun hp =>
          (some ((b.drop d).take l), hp.1, hp.2))))))
  ++ (hlCands b base).map (fun hp => (none, hp.1, hp.2))

/-- `\{(?P<attrs>[^\n]*)\}` at `b` -/
def attrCands (b : Str) (base : Nat) : List Cand :=
  match b with
  | '{' :: r =>
    let line := r.takeWhile (· ≠ '\n')
    (descTo line.length).filterMap (fun j =>
      if line[j]? = some '}' then some ⟨some (line.take j), none, none, base + 1 + j + 1⟩ else none)
  | _ => []

/-- every way of matching `[ ]*(\{attrs\}|(lang)?(hl_lines)?)` at `a`, in backtracking order -/
def openCands (a : Str) : List Cand :=
  (descTo (spanLen isSp a)).flatMap (fun k =>
    attrCands (a.drop k) k ++
    (langCands (a.drop k) k).map (fun c => ⟨none, c.1, c.2.1, c.2.2⟩))

/-- is this line `fence[ ]*` ? -/
def isClose (fence l : Str) : Bool := startsWith l fence && (l.drop fence.length).all isSp

/-- first closing line: (offset of the line = length of the code, length of the line) -/
def closeLines (fence : Str) : Nat → List Str → Option (Nat × Nat)
  | _, [] => none
  | off, l :: rest => if isClose fence l then some (off, l.length) else closeLines fence (off + l.length + 1) rest

/-- no line of `body` would close a block opened with `fence` -/
def noCloseLine (fence body : Str) : Bool := (lines body).all (fun l => !isClose fence l)

structure FenceMatch where
  start : Nat
  stop : Nat                -- `m.end()`
  fence : Str
  attrs : Option Str
  lang : Option Str
  hl : Option Str
  code : Str
  deriving Repr, DecidableEq

/-- length of the opening fence at the start of `s` (0 when there is none) -/
def fenceRun (s : Str) : Nat :=
  match s with
  | '~' :: _ => spanLen (· = '~') s
  | '`' :: _ => spanLen (· = '`') s
  | _ => 0

/-- the rest of the pattern after one way of matching the opening line -/
def tryCand (n : Nat) (fence a : Str) (c : Cand) : Option FenceMatch :=
  match a.drop c.p with
  | '\n' :: body =>
    match closeLines fence 0 (lines body) with
    | some (codeLen, closeLen) =>
      some ⟨0, n + c.p + 1 + codeLen + closeLen, fence, c.attrs, c.lang, c.hl, body.take codeLen⟩
    | none => none
  | _ => none

/-- the match attempt at a line start (positions relative to `s`) -/
def fenceAt (s : Str) : Option FenceMatch :=
  let n := fenceRun s
  if n < 3 then none
  else (openCands (s.drop n)).findSome? (tryCand n (s.take n) (s.drop n))

/-- leftmost match in `s`, which sits at offset `off` of the text; `bol` = is `s` at a line start -/
def fenceScan : Bool → Nat → Str → Option FenceMatch
  | _, _, [] => none
  | bol, off, c :: r =>
    match (if bol then fenceAt (c :: r) else none) with
    | some m => some { m with start := off, stop := off + m.stop }
    | none => fenceScan (c = '\n') (off + 1) r

/-- `FENCED_BLOCK_RE.search(text, index)` -/
def fenceFindFrom (text : Str) (index : Nat) : Option FenceMatch :=
  fenceScan (index = 0 || text[index - 1]? = some '\n') index (text.drop index)

/-- `FENCED_BLOCK_RE.search(text)` -/
def fenceFind (text : Str) : Option FenceMatch := fenceFindFrom text 0

/-! ### the preprocessor -/

inductive RunResult
  | ok (text : Str) (stash : List Str)
  | ood                     -- a block with a non-empty `{attrs}` part
  | fuel                    -- out of fuel (never happens with the fuel of `fencedRun`: `C03_fencedRun_progress`)
  deriving Repr, DecidableEq

/-- `HtmlStash.get_placeholder` -/
def placeholder (n : Nat) : Str := Char.ofNat 2 :: ("wzxhzdk:".toList ++ natToDec n ++ [Char.ofNat 3])

/-- the HTML stored for a block (default `lang_prefix`, no id / classes / key-value pairs) -/
def blockHtml (lang code : Str) : Str :=
  "<pre><code".toList ++
  (if lang.isEmpty then [] else " class=\"language-".toList ++ Ser.escAttrHtml lang ++ ['"']) ++
  ['>'] ++ fenceEscape code ++ "</code></pre>".toList

/-- the `while 1:` loop of `run`; the stash counter is the length of the stash -/
def fencedLoop : Nat → Str → Nat → List Str → RunResult
  | 0, _, _, _ => .fuel
  | fuel + 1, text, index, stash =>
    match fenceFindFrom text index with
    | none => .ok text stash
    | some m =>
      if !(m.attrs.getD []).isEmpty then .ood
      else
        let ph := placeholder stash.length
        fencedLoop fuel (text.take m.start ++ '\n' :: (ph ++ '\n' :: text.drop m.stop))
          (m.start + 1 + ph.length) (stash ++ [blockHtml (m.lang.getD []) m.code])

/-- `FencedBlockPreprocessor.run` on `text = "\n".join(lines)` with an empty stash -/
def fencedRun (text : Str) : RunResult := fencedLoop (text.length + 1) text 0 []

end MdVerif.Fenced
