/-
Model of the tree processors and the postprocessor of `markdown/extensions/footnotes.py` (default configuration:
`PLACE_MARKER = '///Footnotes Go Here///'`, `BACKLINK_TEXT = '&#8617;'`, `SUPERSCRIPT_TEXT = '{}'`,
`BACKLINK_TITLE = 'Jump back to footnote %d in the text'`, `SEPARATOR = ':'`, `UNIQUE_IDS = False`).

* `makeDiv`       `FootnoteExtension.makeFootnotesDiv`: `div.footnote > hr, ol > li#fn:ID`; every footnote text is
                  block-parsed (`parser.parseChunk` on a surrogate `div`, the parser is a parameter) and gets its
                  back-link `a.footnote-backref`, inside the last `p` when there is one (after `NBSP_PLACEHOLDER`),
                  otherwise in a new `p`;
* `placeDiv`      `findFootnotesPlaceholder` + the insertion of `FootnoteTreeprocessor.run` (priority 50, before the
                  inline stage): the first element (document order; text before tail before descendants) whose text
                  or tail contains the marker — the element is replaced (text) or followed (tail, which is dropped) by
                  the `div`; without a marker the `div` is appended to the root;
* `duplicates`    `FootnotePostTreeprocessor.run` (priority 15, after the inline stage): in every `div` whose class is
                  exactly `footnote`, for every `li` of the first `ol`: when the footnote was referenced `n > 1` times
                  (`found_refs`), the first `a.footnote-backref` of the `li` is copied for 2 … n (`href` `#fnref2:ID`, …)
                  into the last child of the `li`;
* `postprocess`   `FootnotePostprocessor.run` (priority 25).

Not modelled (`makeDiv` answers `ood`): a footnote text that, parsed as blocks, itself defines a footnote (the
implementation then mutates the table it iterates over: `RuntimeError` unless it is the last footnote).
-/
import MdVerif.Model.Block
import MdVerif.Model.Ext.Footnotes

namespace MdVerif.FootnotesTree
open Py

def STX : Char := Char.ofNat 2
def ETX : Char := Char.ofNat 3
/-- `FN_BACKLINK_TEXT` -/
def fnBacklinkText : Str := STX :: "zz1337820767766393qq".toList ++ [ETX]
/-- `NBSP_PLACEHOLDER` -/
def nbspPlaceholder : Str := STX :: "qq3936677670287331zz".toList ++ [ETX]
def placeMarker : Str := "///Footnotes Go Here///".toList

inductive R (α : Type)
  | ok (a : α)
  | oof
  | ood

def el (tag : String) : Node := { tag := .name tag.toList }

/-- the `backlink` element of `makeFootnotesDiv` for footnote number `index` -/
def backlink (id : Str) (index : Nat) : Node :=
  { el "a" with
    attrs := [("href".toList, '#' :: (Footnotes.footnoteRefId id false Footnotes.State.empty).1),
              ("class".toList, "footnote-backref".toList),
              ("title".toList, "Jump back to footnote ".toList ++ natToDec index ++ " in the text".toList)]
    text := some fnBacklinkText }

/-- the `if len(li):` part: put the back-link into the last `p` or into a new one; `none` = the last `p` has no
    text (`None + str` raises; a `p` made by the block parser always has one) -/
def addBacklink (li : Node) (bl : Node) : Option Node :=
  match li.last? with
  | none => some li
  | some node =>
    if node.isTag "p" then
      match node.text with
      | some t =>
        some (li.setLast { node with text := some (t ++ nbspPlaceholder), textAtomic := false,
                                     children := node.children ++ [bl] })
      | none => none
    else some (li.append { el "p" with children := [bl] })

/-- the loop of `makeFootnotesDiv` over `(id, text)`; `parse log text` = `parser.parseChunk(surrogate, text)` on an
    empty surrogate `div`, `isFn` recognises the footnote writes of the log -/
def makeLis (parse : Block.Refs → Str → Option (Node × Block.Refs)) (fnCount : Block.Refs → Nat) :
    List (Str × Str) → Nat → Block.Refs → R (List Node × Block.Refs)
  | [], _, log => .ok ([], log)
  | (id, text) :: rest, index, log =>
    match parse log text with
    | none => .oof
    | some (sur, log') =>
      if fnCount log' != fnCount log then .ood
      else
        let li : Node := { el "li" with attrs := [("id".toList, Footnotes.footnoteId id)], children := sur.children }
        match addBacklink li (backlink id index) with
        | none => .ood
        | some li' =>
          match makeLis parse fnCount rest (index + 1) log' with
          | .ok (lis, log'') => .ok (li' :: lis, log'')
          | .oof => .oof
          | .ood => .ood

/-- `makeFootnotesDiv`: `none` inside `ok` = there are no footnotes -/
def makeDiv (parse : Block.Refs → Str → Option (Node × Block.Refs)) (fnCount : Block.Refs → Nat)
    (footnotes : List (Str × Str)) (log : Block.Refs) : R (Option Node × Block.Refs) :=
  if footnotes.isEmpty then .ok (none, log)
  else
    match makeLis parse fnCount footnotes 1 log with
    | .ok (lis, log') =>
      .ok (some { el "div" with attrs := [("class".toList, "footnote".toList)],
                                children := [el "hr", { el "ol" with children := lis }] }, log')
    | .oof => .oof
    | .ood => .ood

def hasMarker (t : Option Str) : Bool := Node.truthy t && contains (t.getD []) placeMarker

mutual
/-- insert `div` at the place marker below this element; `none` = no marker -/
def placeNode (div : Node) : Node → Option Node
  | ⟨tag, attrs, text, ta, children, tail, tla⟩ =>
    match placeKids div children with
    | some ks => some ⟨tag, attrs, text, ta, ks, tail, tla⟩
    | none => none
def placeKids (div : Node) : List Node → Option (List Node)
  | [] => none
  | c :: r =>
    if hasMarker c.text then some (div :: r)
    else if hasMarker c.tail then some ({ c with tail := none, tailAtomic := false } :: div :: r)
    else
      match placeNode div c with
      | some c' => some (c' :: r)
      | none =>
        match placeKids div r with
        | some r' => some (c :: r')
        | none => none
end

/-- `FootnoteTreeprocessor.run` given the `div` -/
def placeDiv (root div : Node) : Node :=
  match placeNode div root with
  | some r => r
  | none => root.append div

/-! ### `FootnotePostTreeprocessor` -/

def classIs (n : Node) (c : String) : Bool := (n.getAttr "class".toList).getD [] == c.toList

mutual
/-- the first `a` (document order, the element itself included) whose class is `footnote-backref` -/
def firstBackref : Node → Option Node
  | ⟨tag, attrs, text, ta, children, tail, tla⟩ =>
    if tag == .name "a".toList && ((attrs.find? (fun kv => kv.1 = "class".toList)).map (·.2)).getD [] == "footnote-backref".toList
    then some ⟨tag, attrs, text, ta, children, tail, tla⟩
    else firstBackrefKids children
def firstBackrefKids : List Node → Option Node
  | [] => none
  | c :: r =>
    match firstBackref c with
    | some a => some a
    | none => firstBackrefKids r
end

/-- `handle_duplicates` for one `li`; `none` = the implementation raises (`ValueError` of a `split` without
    separator, never for the elements `makeFootnotesDiv` builds) -/
def dupLi (fn : Footnotes.State) (li : Node) : Option Node :=
  let id := (li.getAttr "id".toList).getD []
  match Footnotes.splitFirst ':' id with
  | none => none
  | some _ =>
    let count := Footnotes.numDuplicates id fn
    if count > 1 then
      match firstBackref li with
      | none => some li
      | some link =>
        let href := (link.getAttr "href".toList).getD []
        match Footnotes.splitFirst ':' href with
        | none => none
        | some _ =>
          let links := (Footnotes.duplicateLinks count [href]).map (fun h => link.setAttr "href".toList h)
          match li.last? with
          | some last => some (li.setLast { last with children := last.children ++ links })
          | none => none
    else some li

def dupLis (fn : Footnotes.State) : List Node → Option (List Node)
  | [] => some []
  | li :: r =>
    match dupLi fn li, dupLis fn r with
    | some li', some r' => some (li' :: r')
    | _, _ => none

mutual
/-- apply `handle_duplicates` to the first `ol` (document order, the element itself included): the new element
    and whether an `ol` was found; outer `none` = raises -/
def dupFirstOl (fn : Footnotes.State) : Node → Option (Node × Bool)
  | ⟨tag, attrs, text, ta, children, tail, tla⟩ =>
    if tag == .name "ol".toList then
      match dupLis fn children with
      | some ks => some (⟨tag, attrs, text, ta, ks, tail, tla⟩, true)
      | none => none
    else
      match dupFirstOlKids fn children with
      | some (ks, found) => some (⟨tag, attrs, text, ta, ks, tail, tla⟩, found)
      | none => none
def dupFirstOlKids (fn : Footnotes.State) : List Node → Option (List Node × Bool)
  | [] => some ([], false)
  | c :: r =>
    match dupFirstOl fn c with
    | none => none
    | some (c', true) => some (c' :: r, true)
    | some (c', false) =>
      match dupFirstOlKids fn r with
      | some (r', found) => some (c' :: r', found)
      | none => none
end

mutual
/-- `FootnotePostTreeprocessor.run`: every `div.footnote` (document order; a `div.footnote` nested in another one
    would be visited after the outer one was amended: the elements `makeFootnotesDiv` builds are not nested) -/
def duplicates (fn : Footnotes.State) : Node → Option Node
  | ⟨tag, attrs, text, ta, children, tail, tla⟩ =>
    match duplicatesKids fn children with
    | none => none
    | some ks =>
      let n : Node := ⟨tag, attrs, text, ta, ks, tail, tla⟩
      if tag == .name "div".toList && ((attrs.find? (fun kv => kv.1 = "class".toList)).map (·.2)).getD [] == "footnote".toList
      then (dupFirstOl fn n).map (·.1)
      else some n
def duplicatesKids (fn : Footnotes.State) : List Node → Option (List Node)
  | [] => some []
  | c :: r =>
    match duplicates fn c, duplicatesKids fn r with
    | some c', some r' => some (c' :: r')
    | _, _ => none
end

/-- `FootnotePostprocessor.run` -/
def postprocess (text : Str) : Str :=
  replace (replace text fnBacklinkText "&#8617;".toList) nbspPlaceholder "&#160;".toList

end MdVerif.FootnotesTree
