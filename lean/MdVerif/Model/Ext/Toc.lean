/-
Model of the id and nesting bookkeeping of `markdown/extensions/toc.py` (C17).

* `idcountSplit`   `IDCOUNT_RE = ^(.*)_([0-9]+)$` (`.` does not match a line feed, `$` also matches before a
                   final line feed, `[0-9]` is ASCII only, the stem is greedy = the *last* `_` is the separator)
* `uniqueStep`, `uniqueLoop`, `unique`   the `while id in ids or not id` loop of `unique(id, ids)`
* `assignIds`, `tocTokens`               the id assignment / `toc_depth` filter of `TocTreeprocessor.run`
* `nestToc`                              `nest_toc_tokens` (value-passing, explicit `levels`/`parents` stacks)
* `tocLinks`                             the `href`s of `build_toc_div`, in the order they are emitted

Everything is structurally recursive or recursive on explicit fuel.  Core Lean only.
-/
import MdVerif.Py.Basic

namespace MdVerif.Toc
open MdVerif.Py

/-! ### `IDCOUNT_RE` -/

/-- on the reversed string: `$` matches at the very end or just before one final `'\n'` -/
def stripFinalNl : Str → Str
  | '\n' :: t => t
  | r => r

/-- the match on the reversed string `r` (final line feed already dropped): the digits are the maximal
    ASCII-digit prefix of `r` (the character after them must be `_`, which is not a digit), they must be non-empty,
    and the stem behind the `_` must be free of line feeds (`.`) -/
def idcountRev (r : Str) : Option (Str × Str) :=
  match r.takeWhile isAsciiDigit, r.dropWhile isAsciiDigit with
  | d :: ds, '_' :: a => if '\n' ∈ a then none else some (a.reverse, (d :: ds).reverse)
  | _, _ => none

/-- `IDCOUNT_RE.match(s)` → `(group(1), group(2))` -/
def idcountSplit (s : Str) : Option (Str × Str) := idcountRev (stripFinalNl s.reverse)

/-! ### `unique` -/

/-- one turn of the loop body: `stem_N` ↦ `stem_(N+1)`, anything else ↦ `id_1` -/
def uniqueStep (id : Str) : Str :=
  match idcountSplit id with
  | some (stem, digits) => stem ++ '_' :: natToDec (decToNat digits + 1)
  | none => id ++ ['_', '1']

/-- `while id in ids or not id: id = step(id)`; `fuel` = number of turns still allowed.  When the fuel is
    exhausted the current candidate is returned *unchecked* (`C17_unique_total`: with the fuel used by `unique`
    this never happens before the loop condition is false). -/
def uniqueLoop : Nat → Str → List Str → Str
  | 0, id, _ => id
  | fuel + 1, id, ids => if id ∈ ids ∨ id = [] then uniqueLoop fuel (uniqueStep id) ids else id

/-- `unique(id, ids)`: the new id and the updated id set (`ids.add(id)`; the list is used as a set) -/
def unique (id : Str) (ids : List Str) : Str × List Str :=
  let r := uniqueLoop (ids.length + 1) id ids
  (r, r :: ids)

/-! ### tokens -/

structure Tok where
  level : Nat
  id : Str
  name : Str
deriving DecidableEq, Repr

/-- a heading as `TocTreeprocessor.run` meets it: level (after `set_level`), the `id` attribute it already
    carries (attr_list, …) if any, and its name (stripped inner html) -/
abbrev Heading := Nat × Option Str × Str

/-- the id assignment of `run`: a pre-existing `id` is kept and **not** re-checked; otherwise
    `unique(slugify(name), used_ids)`, which also records the new id in `used_ids` -/
def assignIds (slug : Str → Str) : List Str → List Heading → List Tok
  | _, [] => []
  | used, (lvl, some i, name) :: hs => ⟨lvl, i, name⟩ :: assignIds slug used hs
  | used, (lvl, none, name) :: hs =>
    let r := unique (slug name) used
    ⟨lvl, r.1, name⟩ :: assignIds slug r.2 hs

/-- `toc_tokens` before nesting: the `toc_depth` window `toc_top ≤ level ≤ toc_bottom` -/
def tocTokens (slug : Str → Str) (used : List Str) (top bottom : Nat) (hs : List Heading) : List Tok :=
  (assignIds slug used hs).filter (fun t => top ≤ t.level && t.level ≤ bottom)

/-! ### `nest_toc_tokens` -/

inductive TokTree where
  | mk (t : Tok) (children : List TokTree)
deriving Repr

/-- an entry of the `parents` stack: the token and the children it has collected so far (in order) -/
structure Frame where
  tok : Tok
  kids : List TokTree

/-- Python appends a new entry to `parents[-1]['children']` (or to `ordered_list`) by reference, at once.  The
    value-passing model keeps the entries of the open chain (`parents`, `last`) apart and hands a subtree to its
    parent when it is finished: `attach c parents top` = `(parents[-1]['children'] if parents else ordered_list).append(c)` -/
def attach (c : TokTree) : List Frame → List TokTree → List Frame × List TokTree
  | [], top => ([], top ++ [c])
  | f :: ps, top => ({ f with kids := f.kids ++ [c] } :: ps, top)

/-- `parents = parents[:-k]`: the `k` innermost parents are finished (stack head = `parents[-1]`) -/
def closeFrames : Nat → List Frame → List TokTree → List Frame × List TokTree
  | 0, ps, top => (ps, top)
  | _ + 1, [], top => ([], top)
  | k + 1, f :: ps, top =>
    let r := attach (.mk f.tok f.kids) ps top
    closeFrames k r.1 r.2

/-- the `for p in reversed(parents): if current_level <= p['level']: to_pop += 1 else: break` loop -/
def countPop (cur : Nat) : List Frame → Nat
  | [] => 0
  | p :: ps => if cur ≤ p.tok.level then countPop cur ps + 1 else 0

/-- loop state: `ordered_list` (without the still open chain), `parents` and `levels` (stack head = `[-1]`), `last` -/
structure NestState where
  top : List TokTree
  parents : List Frame
  levels : List Nat
  last : Tok

def nestInit (t : Tok) : NestState := { top := [], parents := [], levels := [t.level], last := t }

/-- "Reduce depth if current level < last item's level": the number of parents to pop and the new `levels`
    (`levels.pop()`, `levels = levels[:-to_pop]`, `levels.append(current_level)`).  `levels` is never empty
    (`nestStep_levels_ne_nil`); Python would raise `IndexError`. -/
def nestReduce (st : NestState) (cur : Nat) : Nat × List Nat :=
  if cur < st.levels.headD 0 then
    let toPop := countPop cur st.parents
    (toPop, cur :: (st.levels.tail.drop toPop))
  else (0, st.levels)

/-- one turn of `while toc_list:` -/
def nestStep (st : NestState) (t : Tok) : NestState :=
  let r := nestReduce st t.level
  if t.level = r.2.headD 0 then
    -- "Level is the same, so append to the current parent (if available)", after `parents = parents[:-to_pop]`
    let r0 := attach (.mk st.last []) st.parents st.top
    let r1 := closeFrames r.1 r0.1 r0.2
    { top := r1.2, parents := r1.1, levels := r.2, last := t }
  else
    -- "Current level is > last item's level, so make last item a parent and append current as child"
    { top := st.top, parents := ⟨st.last, []⟩ :: st.parents, levels := t.level :: r.2, last := t }

/-- end of the loop: the open chain is handed over to `ordered_list` -/
def nestFinish (st : NestState) : List TokTree :=
  let r0 := attach (.mk st.last []) st.parents st.top
  (closeFrames r0.1.length r0.1 r0.2).2

/-- `nest_toc_tokens(toc_list)` -/
def nestToc : List Tok → List TokTree
  | [] => []
  | t :: ts => nestFinish (ts.foldl nestStep (nestInit t))

/-! ### traversals -/

mutual
/-- preorder listing of one entry and its descendants -/
def TokTree.flatten : TokTree → List Tok
  | .mk t cs => t :: flattenList cs
/-- preorder listing of a nested token list -/
def flattenList : List TokTree → List Tok
  | [] => []
  | c :: cs => c.flatten ++ flattenList cs
end

mutual
/-- `build_etree_ul`: `<li><a href="#id">` then the nested `<ul>` of the children -/
def TokTree.links : TokTree → List Str
  | .mk t cs => ('#' :: t.id) :: tocLinks cs
/-- the `href`s of `build_toc_div(toc_list)` in the order they are emitted -/
def tocLinks : List TokTree → List Str
  | [] => []
  | c :: cs => c.links ++ tocLinks cs
end

mutual
/-- `(entry, parent entry)` for an entry and its descendants, preorder -/
def TokTree.edges (parent : Option Tok) : TokTree → List (Tok × Option Tok)
  | .mk t cs => (t, parent) :: edgesList (some t) cs
/-- `(entry, parent entry)` pairs of a nested token list, preorder; top-level entries have parent `none` -/
def edgesList (parent : Option Tok) : List TokTree → List (Tok × Option Tok)
  | [] => []
  | c :: cs => c.edges parent ++ edgesList parent cs
end

mutual
/-- canonical one-line rendering of levels, e.g. `1(2(3),2)` (driver/tests) -/
def TokTree.render : TokTree → Str
  | .mk t cs => natToDec t.level ++ (match cs with | [] => [] | _ :: _ => '(' :: renderList cs ++ [')'])
def renderList : List TokTree → Str
  | [] => []
  | [c] => c.render
  | c :: d :: cs => c.render ++ ',' :: renderList (d :: cs)
end

end MdVerif.Toc
