/-
Model of the `meta` extension (`markdown/extensions/meta.py`): `MetaPreprocessor.run(lines)`, registered among the
preprocessors at priority 27 (after `normalize_whitespace` 30, before `fenced_code_block` 25 and `html_block` 20).

```
META_RE      = ^[ ]{0,3}(?P<key>[A-Za-z0-9_-]+):\s*(?P<value>.*)
META_MORE_RE = ^[ ]{4,}(?P<value>.*)
BEGIN_RE     = ^-{3}(\s.*)?$
END_RE       = ^(-{3}|\.{3})(\s.*)?$

meta = {}; key = None; began = False
if lines and BEGIN_RE.match(lines[0]): lines.pop(0); began = True
while lines:
    line = lines.pop(0)
    m1 = META_RE.match(line)
    if line.strip() == '' or (END_RE.match(line) and (began or key is not None)): break
    if m1:
        key = m1.group('key').lower().strip(); value = m1.group('value').strip()
        try: meta[key].append(value)
        except KeyError: meta[key] = [value]
    else:
        m2 = META_MORE_RE.match(line)
        if m2 and key: meta[key].append(m2.group('value').strip())
        else: lines.insert(0, line); break
self.md.Meta = meta
return lines
```

All four patterns are used with `.match`.  `BEGIN_RE`: `---`, then either the end of the line or a white-space
character and the rest of the line; `END_RE`: the same after `---` or `...`.  `$` is the end of the string or the
place before a line feed that ends the string, `.` stops at a line feed, `\s` may be a line feed: after the white-space
character the first line feed, if there is one, must be the last character (`dotsDollar`).

History: up to the repair of F-C16-3 ("fix: meta: anchor BEGIN_RE/END_RE") the two patterns had no `$`; the optional
group `(\s.*)?` could then match nothing, so `BEGIN_RE` was "starts with `---`" and `END_RE` "starts with `---` or
`...`" whatever followed: a first line `...and so on` or `----` was popped and dropped, a keyword `---x:` at the margin
ended the header.  The model then had `beginMatch line = startsWith line "---"` and
`endMatch line = startsWith line "---" || startsWith line "..."`.  Moreover `END_RE` was honoured on every line popped,
also when neither an opening deliminator nor a keyword had been seen: a first line `... and so on` (or `...`) was popped
and dropped; the loop of the model then had no `began` argument and tested `isBlank line || endMatch line`.  The repair
changed exactly these two things, and so did the model.
`[ ]{0,3}` followed by a key character that is not a space is deterministic; `\s*(?P<value>.*)` takes the text after
the white space up to the end of the line (`.` stops at `\n`; a line of the pipeline never holds one, the model is
total anyway).  `\s` of `re` is `str.isspace` (`Py.isSpace`).

`run` returns the remaining lines and `md.Meta` as the list of its items (a `dict` keeps the insertion order of its
keys; a repeated key appends to the list it already has).  The same algorithm in Python:
`harness/mirror/mirror_meta.py` (0 differences with the real preprocessor on 385 000 distinct line lists, before and after the repair).
-/
import MdVerif.Py.Basic

namespace MdVerif.Meta
open Py

/-- `md.Meta` as `list(md.Meta.items())` -/
abbrev Dict := List (Str × List Str)

/-- `[A-Za-z0-9_-]` -/
def isKeyChar (c : Char) : Bool := isAsciiAlnum c || c = '_' || c = '-'

/-- what `.*` matches at the start of `s` -/
def toEol (s : Str) : Str := s.takeWhile (· ≠ '\n')

/-- `META_RE.match(line)`: the groups `key` and `value` -/
def metaMatch (line : Str) : Option (Str × Str) :=
  let r := line.drop (countPrefix ' ' (some 3) line)
  let k := spanLen isKeyChar r
  if k = 0 then none
  else match r.drop k with
    | ':' :: v => some (r.take k, toEol (lstrip v))
    | _ => none

/-- `META_MORE_RE.match(line)`: the group `value` -/
def moreMatch (line : Str) : Option Str :=
  let n := spanLen (· = ' ') line
  if n < 4 then none else some (toEol (line.drop n))

/-- does `.*$` match at the start of `s`: the first line feed, if any, is the last character -/
def dotsDollar : Str → Bool
  | [] => true
  | c :: r => if c = '\n' then r.isEmpty else dotsDollar r

/-- `(\s.*)?$` at the start of `rest` -/
def tailOk : Str → Bool
  | [] => true
  | w :: r => isSpace w && dotsDollar r

/-- `BEGIN_RE.match(line)` -/
def beginMatch (line : Str) : Bool := startsWith line ['-', '-', '-'] && tailOk (line.drop 3)

/-- `END_RE.match(line)` -/
def endMatch (line : Str) : Bool :=
  (startsWith line ['-', '-', '-'] || startsWith line ['.', '.', '.']) && tailOk (line.drop 3)

/-- `meta[key].append(v)`, or `meta[key] = [v]` when the key is new -/
def addValue (key v : Str) : Dict → Dict
  | [] => [(key, [v])]
  | (k, vs) :: r => if k = key then (k, vs ++ [v]) :: r else (k, vs) :: addValue key v r

/-- the `while` loop: remaining lines, `began`, current `key`, the dictionary so far -/
def loop : List Str → Bool → Option Str → Dict → List Str × Dict
  | [], _, _, d => ([], d)
  | line :: rest, began, key, d =>
    if isBlank line || (endMatch line && (began || key.isSome)) then (rest, d)
    else match metaMatch line with
      | some (k, v) =>
        let key' := strip (lower k)
        loop rest began (some key') (addValue key' (strip v) d)
      | none =>
        match moreMatch line, key with
        | some v, some k => loop rest began key (addValue k (strip v) d)
        | _, _ => (line :: rest, d)

/-- `MetaPreprocessor.run(lines)`: the lines it returns and `md.Meta` -/
def run : List Str → List Str × Dict
  | [] => ([], [])
  | l :: r => if beginMatch l then loop r true none [] else loop (l :: r) false none []

end MdVerif.Meta
