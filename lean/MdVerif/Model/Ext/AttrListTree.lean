/-
Model of `AttrListTreeprocessor.run` (`markdown/extensions/attr_list.py`, priority 8, after `prettify`): the walk over
`doc.iter()` (document order) with the placement rules, built on the per-element functions of
`Model/Ext/AttrList.lean` (`blockApply`, `inlineApply`).

Block-level element (`md.is_block_level(tag)`): `HEADER_RE` for `h1`–`h6`, `dt`, `td`, `th`, else `BLOCK_RE`; the
string searched is
  * `li` with children: the tail of the last child when no child is a `ul`/`ol`; else the tail of the child before the
    first `ul`/`ol` (when that is not the first child); else — also when that tail is empty — the text of the `li`;
  * any other element with children: the tail of the last child, else (tail empty) the text;
  * without children: the text.
Other (inline) element: `INLINE_RE.match(tail)`.

An element is visited after its parent, so an inline child sees the tail its parent may have shortened.  The walk
is written with the new tail of a child passed down (`tailOv`), which keeps the recursion structural.
A string that was cut is a plain `str` (not an `AtomicString`).
-/
import MdVerif.Model.Ext.AttrList
import MdVerif.Model.TreeProc

namespace MdVerif.AttrListTree
open Py AttrList

def isHeaderTag (tag : Tag) : Bool :=
  tag == .name "h1".toList || tag == .name "h2".toList || tag == .name "h3".toList || tag == .name "h4".toList ||
  tag == .name "h5".toList || tag == .name "h6".toList

def isCellTag (tag : Tag) : Bool :=
  tag == .name "dt".toList || tag == .name "td".toList || tag == .name "th".toList

def isListNode (n : Node) : Bool := n.tag == .name "ul".toList || n.tag == .name "ol".toList

/-- index of the first `ul`/`ol` child -/
def firstListPos : List Node → Nat → Option Nat
  | [], _ => none
  | c :: r, i => if isListNode c then some i else firstListPos r (i + 1)

/-- what the block branch of `run` does to an element: new attributes, new text (`none` = unchanged) and the new
    tail of one child (`none` = no child changes) -/
def blockRule (tag : Tag) (attrs : Attrs) (text : Option Str) (children : List Node) :
    Attrs × Option Str × Option (Nat × Str) :=
  let header := isHeaderTag tag || isCellTag tag
  let hashes := isHeaderTag tag
  let onTail (i : Nat) (tl : Str) : Attrs × Option Str × Option (Nat × Str) :=
    let r := blockApply header hashes attrs tl
    if r.2 = tl then (r.1, none, none) else (r.1, none, some (i, r.2))
  let onText : Attrs × Option Str × Option (Nat × Str) :=
    if Node.truthy text then
      let r := blockApply header hashes attrs (text.getD [])
      if r.2 = text.getD [] then (r.1, none, none) else (r.1, some r.2, none)
    else (attrs, none, none)
  let lastIdx := children.length - 1
  let lastTail := children.getLast?.bind (·.tail)
  if !children.isEmpty && tag == .name "li".toList then
    match firstListPos children 0 with
    | none => if Node.truthy lastTail then onTail lastIdx (lastTail.getD []) else onText
    | some pos =>
      let prevTail := (children[pos - 1]?).bind (·.tail)
      if pos > 0 && Node.truthy prevTail then
        -- `hashes` is false for an `li`
        onTail (pos - 1) (prevTail.getD [])
      else onText
  else if !children.isEmpty && Node.truthy lastTail then onTail lastIdx (lastTail.getD [])
  else onText

mutual
/-- the visit of one element; `tailOv` = the tail its parent gave it -/
def attrNode (bl : List Str) (tailOv : Option Str) : Node → Node
  | ⟨tag, attrs, text, ta, children, tail0, tla0⟩ =>
    let tail := match tailOv with | some t => some t | none => tail0
    let tla := match tailOv with | some _ => false | none => tla0
    if TreeProc.isBlockLevel bl tag then
      let r := blockRule tag attrs text children
      ⟨tag, r.1, (match r.2.1 with | some t => some t | none => text), (match r.2.1 with | some _ => false | none => ta),
       attrKids bl r.2.2 0 children, tail, tla⟩
    else if Node.truthy tail then
      match inlineMatch (tail.getD []) with
      | some _ =>
        let r := inlineApply attrs (tail.getD [])
        ⟨tag, r.1, text, ta, attrKids bl none 0 children, some r.2, false⟩
      | none => ⟨tag, attrs, text, ta, attrKids bl none 0 children, tail, tla⟩
    else ⟨tag, attrs, text, ta, attrKids bl none 0 children, tail, tla⟩
def attrKids (bl : List Str) (ov : Option (Nat × Str)) : Nat → List Node → List Node
  | _, [] => []
  | i, c :: r =>
    attrNode bl (match ov with | some (j, t) => if i = j then some t else none | none => none) c ::
      attrKids bl ov (i + 1) r
end

/-- `AttrListTreeprocessor.run(doc)` -/
def run (bl : List Str) (root : Node) : Node := attrNode bl none root

end MdVerif.AttrListTree
