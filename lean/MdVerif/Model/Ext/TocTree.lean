/-
Model of `TocTreeprocessor.run` (`markdown/extensions/toc.py`, priority 5: after inline, prettify, attr_list, abbr;
before unescape), default configuration: marker `[TOC]`, no title, `toc_class = 'toc'`, no anchor links, no
permalinks, `baselevel = 1`, `slugify = toc.slugify`, `separator = '-'`, `toc_depth = 6`.

What `convert` shows of it: every heading without an `id` gets `unique(slugify(html.unescape(name)), used_ids)`
(`used_ids` = the *unescaped* `id` attributes of the document, as the tokens and the final `unescape` tree processor
show them; before the repair of F-C17-4 the raw attributes were collected, so that `{#a\-b}` did not reserve `a-b`); a
`data-toc-label` attribute is consumed; every element (outside headings, `pre`, `code`) that has no children and whose
text, stripped, is the marker is replaced by the `div.toc` built from the nested tokens (`Toc.nestToc`) and
prettified.  (`md.toc`, `md.toc_tokens` are side outputs and are not part of the model's answer.)

The name of a heading is computed as the code does: `remove_fnrefs`, serialise the element (tail included),
`UnescapeTreeprocessor.unescape` on the string, cut between the first `>` and the last `<`, strip, all
postprocessors (`post`, a parameter), strip, `strip_tags`.

Answers `ood` (not modelled):
  * `html.unescape(name)` for a name that contains an `&` which does not start one of `&amp;` `&lt;` `&gt;` `&quot;`
    (these four are replaced);
  * `slugify` of a non-ASCII string (`unicodedata.normalize('NFKD', …)`).
-/
import MdVerif.Model.Ext.Toc
import MdVerif.Model.TreeProc
import MdVerif.Model.Serializer
import MdVerif.Model.Post

namespace MdVerif.TocTree
open Py

inductive R (α : Type)
  | ok (a : α)
  | oof
  | err
  | ood

def marker : Str := "[TOC]".toList

/-- `header_rgx.match(tag)`, `[Hh][123456]` -/
def isHeaderTag (tag : Tag) : Bool :=
  match tag with
  | .name (h :: d :: _) => (h = 'h' || h = 'H') && '1' ≤ d && d ≤ '6'
  | _ => false

/-! ### `remove_fnrefs` -/

def isFnSup (n : Node) : Bool :=
  n.tag == .name "sup".toList && startsWith ((n.getAttr "id".toList).getD []) "fnref".toList

def orEmpty (t : Option Str) : Str := t.getD []

mutual
/-- for every element: the footnote references among its children are removed, their tails are carried to the
    preceding sibling or to the text of the element -/
def rmFnNode : Node → Node
  | ⟨tag, attrs, text, ta, children, tail, tla⟩ =>
    let p := rmFnKids children
    if p.2.isEmpty then ⟨tag, attrs, text, ta, p.1, tail, tla⟩
    else ⟨tag, attrs, some (orEmpty text ++ p.2), false, p.1, tail, tla⟩
/-- the new children and the text carried out of the list to the left -/
def rmFnKids : List Node → List Node × Str
  | [] => ([], [])
  | c :: r =>
    let p := rmFnKids r
    if isFnSup c then (p.1, orEmpty c.tail ++ p.2)
    else
      let c' := rmFnNode c
      if p.2.isEmpty then (c' :: p.1, [])
      else ({ c' with tail := some (orEmpty c'.tail ++ p.2), tailAtomic := false } :: p.1, [])
end

/-! ### `strip_tags`, `slugify` -/

/-- `while (start := text.find(open)) != -1 and (end := text.find(close, start)) != -1: cut` -/
def cutSpans (open_ close : Str) : Nat → Str → Str
  | 0, t => t
  | f + 1, t =>
    match find open_ t with
    | none => t
    | some s =>
      match find close (t.drop s) with
      | none => t
      | some e => cutSpans open_ close f (t.take s ++ t.drop (s + e + close.length))

/-- `' '.join(text.split())`; `inWord` = a word is being copied, `started` = some word has been emitted -/
def collapseWs : Bool → Bool → Str → Str
  | _, _, [] => []
  | inWord, started, c :: r =>
    if isSpace c then collapseWs false started r
    else if inWord then c :: collapseWs true true r
    else if started then ' ' :: c :: collapseWs true true r
    else c :: collapseWs true true r

/-- `strip_tags(text)` -/
def stripTags (text : Str) : Str :=
  let t := cutSpans "<!--".toList "-->".toList (text.length + 1) text
  let t := cutSpans ['<'] ['>'] (t.length + 1) t
  collapseWs false false t

/-- `html.unescape` on the references `&amp;` `&lt;` `&gt;` `&quot;`; `none` = another `&` -/
def htmlUnescape : Nat → Str → Option Str
  | _, [] => some []
  | k + 1, _ :: r => htmlUnescape k r
  | 0, c :: r =>
    if c = '&' then
      if startsWith r "amp;".toList then (htmlUnescape 4 r).map ('&' :: ·)
      else if startsWith r "lt;".toList then (htmlUnescape 3 r).map ('<' :: ·)
      else if startsWith r "gt;".toList then (htmlUnescape 3 r).map ('>' :: ·)
      else if startsWith r "quot;".toList then (htmlUnescape 5 r).map ('"' :: ·)
      else none
    else (htmlUnescape 0 r).map (c :: ·)

/-- `re.sub(r'[-\s]+', '-', value)` -/
def dashRuns : Bool → Str → Str
  | _, [] => []
  | inRun, c :: r =>
    if c = '-' || isSpace c then (if inRun then dashRuns true r else '-' :: dashRuns true r)
    else c :: dashRuns false r

/-- `slugify(value, '-')` for an ASCII string; `none` = a non-ASCII character -/
def slugify (value : Str) : Option Str :=
  if value.all (fun c => c.toNat < 128) then
    let v := value.filter (fun c => isWord c || isSpace c || c = '-')
    some (dashRuns false (lower (strip v)))
  else none

/-! ### the walk -/

structure Env where
  fmt : Ser.Fmt
  /-- `run_postprocessors(text, md)` without the final strip; `none` = out of fuel -/
  post : Str → Option Str

/-- `render_inner_html(el, md)` for a heading element -/
def renderInner (env : Env) (el : Node) : R Str :=
  match TreeProc.unescapeText 0 (Ser.serialize env.fmt el) with
  | none => .err
  | some text =>
    match find ['>'] text, Post.rfind ['<'] text with
    | some s, some e =>
      match env.post (strip ((text.take e).drop (s + 1))) with
      | some r => .ok (strip r)
      | none => .oof
    | _, _ => .err

structure St where
  used : List Str
  toks : List Toc.Tok

def attrDel (a : List (Str × Str)) (k : Str) : List (Str × Str) := a.filter (fun kv => kv.1 != k)

def labelKey : Str := "data-toc-label".toList
def idKey : Str := "id".toList

/-- the body of the loop of `run` for one heading: the new attributes and the new state -/
def heading (env : Env) (el : Node) (st : St) : R (List (Str × Str) × St) :=
  match renderInner env (rmFnNode el) with
  | .oof => .oof | .err => .err | .ood => .ood
  | .ok inner =>
    let name0 := stripTags inner
    -- `if "id" not in el.attrib`
    let idr : R (List (Str × Str) × List Str) :=
      match el.getAttr idKey with
      | some _ => .ok (el.attrs, st.used)
      | none =>
        match htmlUnescape 0 name0 with
        | none => .ood
        | some u =>
          match slugify u with
          | none => .ood
          | some slug =>
            let r := Toc.unique slug st.used
            .ok (el.attrs ++ [(idKey, r.1)], r.2)
    match idr with
    | .oof => .oof | .err => .err | .ood => .ood
    | .ok (attrs, used) =>
      -- `data-toc-label`
      let nr : R (Str × List (Str × Str)) :=
        match (attrs.find? (fun kv => kv.1 = labelKey)).map (·.2) with
        | none => .ok (name0, attrs)
        | some lbl =>
          match TreeProc.unescapeText 0 lbl with
          | none => .err
          | some u =>
            match env.post u with
            | none => .oof
            | some l => .ok (Ser.escCdata (stripTags (strip l)), attrDel attrs labelKey)
      match nr with
      | .oof => .oof | .err => .err | .ood => .ood
      | .ok (name, attrs) =>
        let level := match el.tag with
          | .name t => (t.getLast?.map (fun c => c.toNat - 48)).getD 0
          | _ => 0
        match TreeProc.unescapeText 0 (((attrs.find? (fun kv => kv.1 = idKey)).map (·.2)).getD []) with
        | none => .err
        | some tid => .ok (attrs, { used := used, toks := st.toks ++ [⟨level, tid, name⟩] })

mutual
/-- `for el in doc.iter(): if header: …` in document order -/
def walkNode (env : Env) : Node → St → R (Node × St)
  | ⟨tag, attrs, text, ta, children, tail, tla⟩, st =>
    let hr : R (List (Str × Str) × St) :=
      if isHeaderTag tag then heading env ⟨tag, attrs, text, ta, children, tail, tla⟩ st else .ok (attrs, st)
    match hr with
    | .oof => .oof | .err => .err | .ood => .ood
    | .ok (attrs', st1) =>
      match walkKids env children st1 with
      | .oof => .oof | .err => .err | .ood => .ood
      | .ok (ks, st2) => .ok (⟨tag, attrs', text, ta, ks, tail, tla⟩, st2)
def walkKids (env : Env) : List Node → St → R (List Node × St)
  | [], st => .ok ([], st)
  | c :: r, st =>
    match walkNode env c st with
    | .oof => .oof | .err => .err | .ood => .ood
    | .ok (c', st1) =>
      match walkKids env r st1 with
      | .oof => .oof | .err => .err | .ood => .ood
      | .ok (r', st2) => .ok (c' :: r', st2)
end

mutual
/-- the `id` attributes of the document -/
def idsOf : Node → List Str
  | ⟨_, attrs, _, _, children, _, _⟩ =>
    (match attrs.find? (fun kv => kv.1 = idKey) with | some kv => [kv.2] | none => []) ++ idsOfKids children
def idsOfKids : List Node → List Str
  | [] => []
  | c :: r => idsOf c ++ idsOfKids r
end

def el (tag : String) : Node := { tag := .name tag.toList }

mutual
/-- one `li` of `build_etree_ul` -/
def buildLi : Toc.TokTree → Node
  | .mk t cs =>
    let a : Node := { el "a" with text := some t.name, attrs := [("href".toList, '#' :: t.id)] }
    { el "li" with children := a :: (match cs with | [] => [] | _ :: _ => [{ el "ul" with children := buildLis cs }]) }
def buildLis : List Toc.TokTree → List Node
  | [] => []
  | c :: r => buildLi c :: buildLis r
end

/-- `build_etree_ul(toc_list, div)` -/
def buildUl (items : List Toc.TokTree) : Node := { el "ul" with children := buildLis items }

/-- `build_toc_div(toc_list)` -/
def buildDiv (bl : List Str) (toks : List Toc.Tok) : Node :=
  TreeProc.prettify { el "div" with attrs := [("class".toList, "toc".toList)],
                                    children := [buildUl (Toc.nestToc toks)] } bl

mutual
/-- `replace_marker(root, div)` below this element -/
def replNode (div : Node) : Node → Node
  | ⟨tag, attrs, text, ta, children, tail, tla⟩ => ⟨tag, attrs, text, ta, replKids div children, tail, tla⟩
def replKids (div : Node) : List Node → List Node
  | [] => []
  | c :: r =>
    if isHeaderTag c.tag || c.tag == .name "pre".toList || c.tag == .name "code".toList then c :: replKids div r
    else if Node.truthy c.text && strip (c.text.getD []) == marker && c.children.isEmpty then div :: replKids div r
    else replNode div c :: replKids div r
end

/-- `used_ids`: `unescape(el.attrib["id"])` for every `id` attribute of the document; `none` = `chr` raises -/
def usedIds : List Str → Option (List Str)
  | [] => some []
  | i :: r =>
    match TreeProc.unescapeText 0 i, usedIds r with
    | some u, some r' => some (u :: r')
    | _, _ => none

/-- `TocTreeprocessor.run(doc)` -/
def run (env : Env) (bl : List Str) (root : Node) : R Node :=
  match usedIds (idsOf root) with
  | none => .err
  | some used =>
    match walkNode env root { used := used, toks := [] } with
    | .oof => .oof | .err => .err | .ood => .ood
    | .ok (root', st) => .ok (replNode (buildDiv bl st.toks) root')

end MdVerif.TocTree
