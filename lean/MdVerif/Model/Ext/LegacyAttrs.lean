/-
Model of the `legacy_attrs` extension (`markdown/extensions/legacy_attrs.py`): the tree processor `LegacyAttrs`
(registered as `legacyattrs`, priority 15: after `inline` 20, before `prettify` 10 and `unescape` 0).

`ATTR_RE = \{@([^\}]*)=([^\}]*)}`: at a position holding `{@`, the first group takes the maximal run `r` of characters
other than `}` and backtracks to the LAST `=` of `r`; the second group is the rest of `r`; the run must be followed by
`}`.  When `r` has no `=` or is ended by the end of the string nothing matches at that position (and no later `{@` inside
`r` can match either, its run being a suffix of `r`).  `ATTR_RE.sub(callback, txt)` removes every match, left to right,
non-overlapping; the callback sets `el[group 1] = group 2` with line feeds replaced by blanks (`dict` semantics:
an existing key keeps its place, a new key goes last: `Node.setAttr`).

`run`: for every element of `doc.iter()` — pre-order, the root included — first the `alt` attribute (if present: the
definitions found in it are set on the element, then `alt` is set to the text without them), then `el.text`, then
`el.tail` (definitions in the TAIL are set on the element the tail belongs to), the last two only when truthy and not
an `AtomicString` (`isString`).  An element's step touches only the element itself, so the traversal is a map.
-/
import MdVerif.Model.Tree

namespace MdVerif.LegacyAttrs
open Py

/-- the maximal run of characters other than `}` at the start, and what follows it -/
def runNotBrace : Str → Str × Str
  | [] => ([], [])
  | c :: r => if c = '}' then ([], c :: r) else let p := runNotBrace r; (c :: p.1, p.2)

/-- split at the LAST `=` (greedy first group): the text before it and the text after it -/
def splitLastEq : Str → Option (Str × Str)
  | [] => none
  | c :: r =>
    match splitLastEq r with
    | some (a, b) => some (c :: a, b)
    | none => if c = '=' then some ([], r) else none

/-- `ATTR_RE.match(s)`: key, value, and the text after the closing brace -/
def matchAt (s : Str) : Option (Str × Str × Str) :=
  match s with
  | '{' :: '@' :: r =>
    let p := runNotBrace r
    match p.2 with
    | '}' :: rest => (splitLastEq p.1).map (fun kv => (kv.1, kv.2, rest))
    | _ => none
  | _ => none

/-- `ATTR_RE.sub`: the text without the matches, and the `(key, value)` pairs in the order the callback sees them;
    the counter = characters of the current match still to skip -/
def scan : Nat → Str → Str × List (Str × Str)
  | _, [] => ([], [])
  | k + 1, _ :: r => scan k r
  | 0, c :: r =>
    match matchAt (c :: r) with
    | some (key, val, _) =>
      let p := scan (key.length + val.length + 3) r
      (p.1, (key, val) :: p.2)
    | none =>
      let p := scan 0 r
      (c :: p.1, p.2)

/-- `.replace('\n', ' ')` -/
def nlToSp (s : Str) : Str := s.map (fun c => if c = '\n' then ' ' else c)

/-- `handleAttributes(el, txt)`: the element with the attributes set, and the text without the definitions -/
def handle (n : Node) (txt : Str) : Node × Str :=
  let p := scan 0 txt
  (p.2.foldl (fun n kv => n.setAttr kv.1 (nlToSp kv.2)) n, p.1)

def altKey : Str := "alt".toList

/-- `alt = el.get('alt')`; `el.set('alt', self.handleAttributes(el, alt))` -/
def stepAlt (n : Node) : Node :=
  match n.getAttr altKey with
  | some alt => (handle n alt).1.setAttr altKey (handle n alt).2
  | none => n

/-- `if el.text and isString(el.text): el.text = self.handleAttributes(el, el.text)` -/
def stepText (n : Node) : Node :=
  if Node.truthy n.text && !n.textAtomic then
    { (handle n (n.text.getD [])).1 with text := some (handle n (n.text.getD [])).2 }
  else n

/-- `if el.tail and isString(el.tail): el.tail = self.handleAttributes(el, el.tail)` -/
def stepTail (n : Node) : Node :=
  if Node.truthy n.tail && !n.tailAtomic then
    { (handle n (n.tail.getD [])).1 with tail := some (handle n (n.tail.getD [])).2 }
  else n

/-- the body of the loop of `run` for one element -/
def step (n : Node) : Node := stepTail (stepText (stepAlt n))

mutual
/-- `LegacyAttrs.run(doc)` -/
def run : Node → Node
  | ⟨tag, attrs, text, ta, children, tail, tla⟩ =>
    let n := step ⟨tag, attrs, text, ta, [], tail, tla⟩
    { n with children := runKids children }
def runKids : List Node → List Node
  | [] => []
  | c :: r => run c :: runKids r
end

end MdVerif.LegacyAttrs
