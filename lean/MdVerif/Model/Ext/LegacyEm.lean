/-
Model of the five regular expressions of the `legacy_em` extension (`markdown/extensions/legacy_em.py`):
`LegacyUnderscoreProcessor.PATTERNS` = EM_STRONG2_RE, STRONG_EM2_RE (shared with the core `UnderscoreProcessor`) and the
extension's own

    STRONG_EM_RE = (_)\1(?!\1)([^_]+?)\1(?!\1)(.+?)\1{3}      __strong_em___
    STRONG_RE    = (_{2})(.+?)\1                              __strong__
    EMPHASIS_RE  = (_)([^_]+)\1                               _emphasis_

as step programs of the emphasis recogniser (`Inline.seqMatch`, `Model/InlineRe.lean`) run with the delimiter `_`.
They have no word-boundary look-arounds: that IS the legacy behaviour (`_connected_words_`).

Only the recognisers are modelled (unit correspondence `re.legacyem` against the compiled patterns of the module); the
extension replaces the `em_strong2` entry of the inline registry, and the inline engine of `Model/Inline.lean` is not
parameterised by the underscore table, so there is no end-to-end model of `legacy_em` (search only).
-/
import MdVerif.Model.InlineRe

namespace MdVerif.LegacyEm
open Inline

/-- `LegacyUnderscoreProcessor.PATTERNS` -/
def legacyUnderPatterns : List EmItem := [
  ⟨[.lit 3, .lazy 1 false, .lit 1, .lazy 0 false, .lit 2], .double, "strong", "em"⟩,
  ⟨[.lit 3, .lazy 1 false, .lit 2, .lazy 0 false, .lit 1], .double, "em", "strong"⟩,
  ⟨[.lit 2, .notnext, .lazy 1 true, .lit 1, .notnext, .lazy 1 false, .lit 3], .double2, "strong", "em"⟩,
  ⟨[.lit 2, .lazy 1 false, .lit 2], .single, "strong", ""⟩,
  ⟨[.lit 1, .greedy 1, .lit 1], .single, "em", ""⟩]

/-- `pattern.match(s, pos)` of the `k`-th legacy pattern: end of the match and groups 2.. -/
def legacyMatch (k : Nat) (s : Str) (pos : Nat) : Option (Option (Nat × List Str)) :=
  (legacyUnderPatterns[k]?).map (fun item => seqMatch s pos '_' item.steps)

end MdVerif.LegacyEm
