/-
Model of `AbbrTreeprocessor` (`markdown/extensions/abbr.py`, priority 7): every occurrence of a defined abbreviation
in a text or tail that is not an `AtomicString` is wrapped in `<abbr title="…">`.

`self.RE = \b(?:k1|k2|…)\b` with the keys `re.escape`d and sorted by length, longest first (the sort is stable: keys
of equal length keep the order of the dict); `finditer` = leftmost, at a position the first alternative after which
the closing `\b` holds, non-overlapping.  `\b` is the Unicode word boundary of `str` patterns (`Py.isWord`).

`iter_element`: children first, then the text (the `abbr` elements go in front of the children), then — except for
the root — the tail (the `abbr` elements go after the element); elements inserted on the way are not visited.
The text of an `abbr` is an `AtomicString`, its tail the plain text up to the next occurrence.
-/
import MdVerif.Model.Tree

namespace MdVerif.AbbrTree
open Py

def isW (o : Option Char) : Bool := match o with | some c => isWord c | none => false

/-- `\b` between `prev` and `next` -/
def boundary (prev next : Option Char) : Bool := isW prev != isW next

/-- the match of `self.RE` at the start of `suf` (`prev` = the character before): the key -/
def abbrAt (keys : List Str) (prev : Option Char) (suf : Str) : Option Str :=
  if boundary prev suf.head? then
    keys.find? (fun k => !k.isEmpty && startsWith suf k && boundary k.getLast? (suf.drop k.length).head?)
  else none

/-- `finditer` over a string: the text before the first occurrence and, per occurrence, the key and the text up to
    the next occurrence; the counter = characters of the current match still to skip -/
def segs (keys : List Str) : Option Char → Nat → Str → Str × List (Str × Str)
  | _, _, [] => ([], [])
  | _, k + 1, c :: r => segs keys (some c) k r
  | prev, 0, c :: r =>
    match abbrAt keys prev (c :: r) with
    | some key =>
      let p := segs keys (some c) (key.length - 1) r
      ([], (key, p.1) :: p.2)
    | none =>
      let p := segs keys (some c) 0 r
      (c :: p.1, p.2)

/-- insertion sort by length, longest first, stable: `abbr_list.sort(key=len, reverse=True)` -/
def insertByLen (k : Str) : List Str → List Str
  | [] => [k]
  | a :: r => if a.length ≥ k.length then a :: insertByLen k r else k :: a :: r

def sortKeys (keys : List Str) : List Str := keys.foldl (fun acc k => insertByLen k acc) []

/-- `create_element(title, text, tail)` -/
def mkAbbr (abbrs : List (Str × Str)) (m : Str × Str) : Node :=
  { tag := .name "abbr".toList
    attrs := [("title".toList, ((abbrs.find? (fun kv => kv.1 = m.1)).map (·.2)).getD [])]
    text := some m.1, textAtomic := true
    tail := some m.2 }

mutual
/-- `iter_element(el, parent)`: the element and the `abbr` elements to insert after it -/
def abbrNode (abbrs : List (Str × Str)) (keys : List Str) (isRoot : Bool) : Node → Node × List Node
  | ⟨tag, attrs, text, ta, children, tail, tla⟩ =>
    let kids := abbrKids abbrs keys children
    let tx : (Option Str × Bool) × List Node :=
      if Node.truthy text && !ta then
        let p := segs keys none 0 (text.getD [])
        if p.2.isEmpty then ((text, ta), []) else ((some p.1, false), p.2.map (mkAbbr abbrs))
      else ((text, ta), [])
    let tl : (Option Str × Bool) × List Node :=
      if !isRoot && Node.truthy tail && !tla then
        let p := segs keys none 0 (tail.getD [])
        if p.2.isEmpty then ((tail, tla), []) else ((some p.1, false), p.2.map (mkAbbr abbrs))
      else ((tail, tla), [])
    (⟨tag, attrs, tx.1.1, tx.1.2, tx.2 ++ kids, tl.1.1, tl.1.2⟩, tl.2)
def abbrKids (abbrs : List (Str × Str)) (keys : List Str) : List Node → List Node
  | [] => []
  | c :: r =>
    let p := abbrNode abbrs keys false c
    p.1 :: p.2 ++ abbrKids abbrs keys r
end

/-- `AbbrTreeprocessor.run(root)` with `self.abbrs = abbrs` -/
def run (abbrs : List (Str × Str)) (root : Node) : Node :=
  if abbrs.isEmpty then root
  else (abbrNode abbrs (sortKeys (abbrs.map (·.1))) true root).1

end MdVerif.AbbrTree
