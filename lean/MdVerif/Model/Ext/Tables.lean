/-
Model of `markdown/extensions/tables.py`, class `TableProcessor` (C16).

Mirrors the code as it is:

* `tokens`       `RE_CODE_PIPES.finditer(row)` with `RE_CODE_PIPES = (?:(\\\\)|(\\`+)|(`+)|(\\\|)|(\|))`
                 (leftmost match, alternatives in order, non-overlapping); only the groups the code looks at
                 (2, 3, 5) produce a token, groups 1 and 4 are consumed silently;
* `tics`/`pipes` the lists `tics`+`tic_points` (one record per tick run) and `pipes` of `_split`;
* `regions`      the `while pos < tic_len` pairing loop (`tic_region`);
* `throwOut`     the inner `for region in tic_region` loop with its two `break`s;
* `cut`          the final slicing loop (`row[pos:pipe]`, `row[pos:]`);
* `split`        `_split`;  `splitRow` `_split_row` (`self.border` is a parameter);
* `endBorderSub` `RE_END_BORDER = (?<!\\)((?:\\\\)*)\|$` (`search` and `sub(r'\1', …)`: the repaired code, commit cfd4612;
                 before the repair the pattern had no group and `sub('', …)` deleted the backslashes too, F-C16-1);
* `alignOf`      the alignment loop of `run`;  `buildRow` the cell texts made by `_build_row`;
* `tableTest`    `test` (answers the border and the separator row it stores on `self`);
* `tableRun`     `run` as a value: alignments, header cells, body rows.

Core Lean only; every function is structurally recursive or recursive on explicit fuel.
-/
import MdVerif.Py.Basic

namespace MdVerif.Tables
open MdVerif MdVerif.Py

/-! ### `RE_CODE_PIPES.finditer` -/

/-- the matches of `RE_CODE_PIPES` the code of `_split` reacts to -/
inductive Tok where
  /-- group 2 `\\`+`: `start` = offset of the backslash, `n` = number of ticks -/
  | escTick (start n : Nat)
  /-- group 3 `` `+ ``: `start` = offset of the first tick, `n` = number of ticks -/
  | tick (start n : Nat)
  /-- group 5 `\|`: offset of the pipe -/
  | pipe (pos : Nat)
  deriving DecidableEq, Repr

def isTick (c : Char) : Bool := c = '`'

/-- `finditer` from offset `pos`; the first argument counts the characters of the current match that are still
    to be consumed -/
def tokAux : Nat → Nat → Str → List Tok
  | _, _, [] => []
  | k + 1, pos, _ :: s => tokAux k (pos + 1) s
  | 0, pos, c :: s =>
    if c = '\\' then
      if s.head? = some '\\' then tokAux 1 (pos + 1) s                      -- group 1  `\\\\`
      else if s.head? = some '`' then                                       -- group 2  `\\`+`
        .escTick pos (spanLen isTick s) :: tokAux (spanLen isTick s) (pos + 1) s
      else if s.head? = some '|' then tokAux 1 (pos + 1) s                  -- group 4  `\\\|`
      else tokAux 0 (pos + 1) s                                             -- no match at a lone backslash
    else if c = '`' then                                                    -- group 3  `` `+ ``
      .tick pos (spanLen isTick s + 1) :: tokAux (spanLen isTick s) (pos + 1) s
    else if c = '|' then .pipe pos :: tokAux 0 (pos + 1) s                  -- group 5  `\|`
    else tokAux 0 (pos + 1) s

def tokens (row : Str) : List Tok := tokAux 0 0 row

/-! ### tick runs, pipes -/

/-- one entry of `tics` (`n`) and `tic_points` (`start`, `stop`, `esc`) -/
structure Tic where
  n : Nat
  start : Nat
  stop : Nat
  esc : Nat
  deriving DecidableEq, Repr

def ticOf : Tok → Option Tic
  | .escTick s n => some ⟨n, s, s + n, 1⟩          -- (m.start(2), m.end(2) - 1, 1), len(group 2) - 1
  | .tick s n => some ⟨n, s, s + n - 1, 0⟩         -- (m.start(3), m.end(3) - 1, 0), len(group 3)
  | .pipe _ => none

def pipeOf : Tok → Option Nat
  | .pipe p => some p
  | _ => none

/-- `tics[pos + 1:].index(tic_size)`: the `stop` of the first later run of that size and the runs after it -/
def findClose (size : Nat) : List Tic → Option (Nat × List Tic)
  | [] => none
  | u :: r => if u.n = size then some (u.stop, r) else findClose size r

/-- the pairing loop; the list is `tics[pos:]`, fuel = number of runs -/
def regionsF : Nat → List Tic → List (Nat × Nat)
  | 0, _ => []
  | _, [] => []
  | f + 1, t :: rest =>
    if t.n - t.esc = 0 then regionsF f rest
    else match findClose (t.n - t.esc) rest with
      | none => regionsF f rest
      | some (stop, after) => (t.start, stop) :: regionsF f after

def regions (tics : List Tic) : List (Nat × Nat) := regionsF tics.length tics

/-- the loop over `tic_region` for one pipe -/
def throwOut : List (Nat × Nat) → Nat → Bool
  | [], _ => false
  | (a, b) :: rs, p =>
    if p < a then false
    else if a ≤ p ∧ p ≤ b then true
    else throwOut rs p

/-- the slicing loop; `row` is `row[pos:]` -/
def cut : Nat → Str → List Nat → List Str
  | _, row, [] => [row]
  | pos, row, p :: ps => row.take (p - pos) :: cut (p + 1) (row.drop (p - pos + 1)) ps

def goodPipes (row : Str) : List Nat :=
  let toks := tokens row
  (toks.filterMap pipeOf).filter (fun p => !throwOut (regions (toks.filterMap ticOf)) p)

/-- `TableProcessor._split` -/
def split (row : Str) : List Str := cut 0 row (goodPipes row)

/-! ### borders -/

/-- `RE_END_BORDER.sub(r'\1', row)` when `RE_END_BORDER.search(row)` matches: the match is the whole run of
    backslashes (of even length, group 1) and the pipe that ends the row (`$`: at the end or before a final
    newline); the substitution keeps group 1, so only the pipe disappears.  (Before the repair of F-C16-1 the
    substitution was `sub('', row)` and the run of backslashes — escaped backslashes that end the last cell — was
    deleted together with the pipe.) -/
def endBorderSub (row : Str) : Option Str :=
  let rev := row.reverse
  let body := if rev.head? = some '\n' then rev.tail else rev
  let nl : Str := if rev.head? = some '\n' then ['\n'] else []
  if body.head? = some '|' then
    let k := spanLen (fun c => c = '\\') body.tail
    if k % 2 = 0 then some (body.tail.reverse ++ nl) else none
  else none

/-- `RE_END_BORDER.search(row) is not None` -/
def isEndBorder (row : Str) : Bool := (endBorderSub row).isSome

/-- `TableProcessor._split_row` with `self.border = border` (`0` none, `1` left, `2` right, `3` both) -/
def splitRow (border : Nat) (row : Str) : List Str :=
  if border = 0 then split row
  else
    let row1 := if startsWith row ['|'] then row.tail else row
    split ((endBorderSub row1).getD row1)

/-! ### alignment, rows -/

inductive Align where
  | left | right | center
  deriving DecidableEq, Repr

/-- the alignment of one cell of the separator row (`run`) -/
def alignOf (c : Str) : Option Align :=
  let c := stripC ' ' c
  if startsWith c [':'] && endsWith c [':'] then some .center
  else if startsWith c [':'] then some .left
  else if endsWith c [':'] then some .right
  else none

/-- `cells[i].strip(' ')`, `""` on `IndexError` -/
def cellAt (cells : List Str) (i : Nat) : Str :=
  match cells[i]? with
  | some c => stripC ' ' c
  | none => []

/-- the texts of the cells `_build_row` creates for `row` when `align` has `ncols` entries -/
def buildRow (ncols : Nat) (row : Str) (border : Nat) : List Str :=
  (List.range ncols).map (cellAt (splitRow border row))

/-! ### `test` -/

def hasBorderPipe (row : Str) : Bool := startsWith row ['|'] || isEndBorder row

/-- `set(''.join(row)) <= set('|:- ')`, per character -/
def sepChar (c : Char) : Bool := c = '|' || c = ':' || c = '-' || c = ' '

def borderOf (header0 : Str) : Nat :=
  (if startsWith header0 ['|'] then 1 else 0) + (if isEndBorder header0 then 2 else 0)

/-- `TableProcessor.test`: `none` = not a table, `some (border, separator)` = a table and the two attributes the
    method leaves on `self` -/
def tableTest (block : Str) : Option (Nat × List Str) :=
  match (splitC '\n' block).map (stripC ' ') with
  | header0 :: row1 :: more =>
    let border := borderOf header0
    let row0Len := (splitRow border header0).length
    let isTable := decide (row0Len > 1) ||
      (row0Len == 1 && border != 0 && (row1 :: more).all hasBorderPipe)
    if isTable then
      let sep := splitRow border row1
      if sep.length == row0Len && sep.all (fun c => c.all sepChar) then some (border, sep) else none
    else none
  | _ => none

/-! ### `run` -/

/-- the table `run` builds: column alignments, header cell texts, body rows (`none` = a cell without text, made by
    `_build_empty_row`) -/
structure Table where
  align : List (Option Align)
  head : List Str
  body : List (List (Option Str))
  deriving DecidableEq, Repr

/-- `TableProcessor.run` on a block accepted by `test` (which left `border` and `sep` on `self`) -/
def tableRun (border : Nat) (sep : List Str) (block : Str) : Table :=
  let ls := splitC '\n' block
  let header := stripC ' ' (ls.headD [])
  let rows := ls.drop 2
  let align := sep.map alignOf
  { align := align
    head := buildRow align.length header border
    body :=
      if rows.isEmpty then [List.replicate align.length none]
      else rows.map (fun r => (buildRow align.length (stripC ' ' r) border).map some) }

/-- `test` then `run`, as the block parser does -/
def table (block : Str) : Option Table :=
  (tableTest block).map (fun bs => tableRun bs.1 bs.2 block)

end MdVerif.Tables
