/-
Entry recognisers of the bundled extensions (C16, non-interference clause).

Every bundled extension hooks into the pipeline through processors whose entry condition is a regular expression
`search`/`match` (or a `test` method built from one).  This file has one *direct* recogniser per entry regex: a Bool
that says whether Python's `re` finds a match (existence only, no groups).  `re` is a backtracking engine without
possessive constructs in these patterns, so "a match exists" is plain regular-language membership and the greedy/lazy
distinction is irrelevant; what matters is the anchors:

* `^` without MULTILINE: only position 0;  `^` with MULTILINE: position 0 and after every `\n` (also at the very end
  of a string that ends with `\n`);
* `$` without MULTILINE: at the end and before a *final* `\n`;  with MULTILINE: at the end and before every `\n`;
* `.` does not match `\n` (no pattern here that is *searched* uses DOTALL in a way that matters);
* `\w` = `Py.isWord`, `\s` = `Py.isSpace`.

Each recogniser is compared with the real compiled pattern object of the extension module by
`harness/corr/triggers.py` (ops `trig.*` of `Driver/TriggerOps.lean`).  Everything is structurally recursive.
-/
import MdVerif.Py.Basic
import MdVerif.Model.Tree
import MdVerif.Model.Ext.Meta

namespace MdVerif.Ext.Trig
open MdVerif.Py

/-! ### combinators: where a pattern may start -/

/-- `pattern.search(s)` for a pattern that has no leading anchor: try every suffix (the empty one included) -/
def anySuffix (f : Str → Bool) : Str → Bool
  | [] => f []
  | c :: r => f (c :: r) || anySuffix f r

/-- try `f` on every suffix that follows a `\n` -/
def afterNl (f : Str → Bool) : Str → Bool
  | [] => false
  | c :: r => (c = '\n' && f r) || afterNl f r

/-- `search` of `^…` under MULTILINE, and of `(?:^|\n)…` without it: position 0 and after every `\n` -/
def anyLineStart (f : Str → Bool) (s : Str) : Bool := f s || afterNl f s

/-- `[ ]{0,n}` followed by `f` -/
def optSpaces (f : Str → Bool) : Nat → Str → Bool
  | 0, t => f t
  | n + 1, t => f t || (match t with | ' ' :: r => optSpaces f n r | _ => false)

/-- the text up to (not including) the first `\n`: what `[^\n]*` / `.*` can span -/
def restOfLine : Str → Str
  | [] => []
  | c :: r => if c = '\n' then [] else c :: restOfLine r

/-- `[^\n]*` followed by the character `ch` (`ch ≠ '\n'`): `ch` occurs before the first `\n` -/
def lineHas (ch : Char) : Str → Bool
  | [] => false
  | c :: r => c = ch || (c != '\n' && lineHas ch r)

/-! ### admonition.py — `AdmonitionProcessor.RE`
`(?:^|\n)!!! ?([\w\-]+(?: +[\w\-]+)*)(?: +"(.*?)")? *(?:\n|$)` (no flags).
`(?:\n|$)` = "next is `\n` or the end" (the before-final-`\n` case of `$` is the `\n` alternative); everything between
`!!!` and it is `\n`-free, so the rest of the line must match `^ ?W+( +W+)*( +".*")? *$` in full. -/

/-- `[\w\-]` -/
def isAdmWord (c : Char) : Bool := isWord c || c = '-'

/-- after the opening `"` of the title: `.*?" *` up to the end of the line; `ok` = the last non-space character seen
    is a `"` -/
def admTitleTail : Bool → Str → Bool
  | ok, [] => ok
  | ok, c :: r => if c = '"' then admTitleTail true r else if c = ' ' then admTitleTail ok r else admTitleTail false r

/-- `(?: +[\w\-]+)*(?: +"(.*?)")? *` up to the end of the line, after at least one word character;
    `inWord` = the previous character was a word character (otherwise: one or more spaces after a word) -/
def admWords : Bool → Str → Bool
  | _, [] => true
  | inWord, c :: r =>
    if isAdmWord c then admWords true r
    else if c = ' ' then admWords false r
    else if c = '"' then !inWord && admTitleTail false r
    else false

/-- `[\w\-]+…` to the end of the line -/
def admFirst : Str → Bool
  | [] => false
  | c :: r => isAdmWord c && admWords true r

/-- ` ?[\w\-]+…` to the end of the line -/
def admAfterBangs (l : Str) : Bool := admFirst l || (match l with | ' ' :: r => admFirst r | _ => false)

/-- the pattern without its `(?:^|\n)` head, at the start of `t` -/
def admonitionAt : Str → Bool
  | '!' :: '!' :: '!' :: r => admAfterBangs (restOfLine r)
  | _ => false

/-- `AdmonitionProcessor.RE.search(block) is not None` -/
def admonitionSearch (s : Str) : Bool := anyLineStart admonitionAt s

/-! `AdmonitionProcessor.test` = `RE.search(block)` **or** the continuation branch `parse_content(parent, block)[0] is
not None`.  The continuation branch answers a non-`None` sibling only when a sibling was left pending by the previous
`test` (`current_sibling`), or the last child of `parent` is a `div` whose `class` contains `admonition` **and** the block
starts with a tab-length of spaces (if it does not, `sibling = None` is forced).  The descent through nested lists can
only replace a non-`None` sibling by `None`, never the converse, so the following is a necessary condition, exact
when the last child of the `div` is not a list. -/

/-- `sibling is not None and sibling.tag == 'div' and sibling.get('class', '').find('admonition') != -1` for the last
    child of `parent` -/
def lastChildIsAdmonitionDiv (parent : Node) : Bool :=
  match parent.last? with
  | some sib => sib.isTag "div" && Py.contains ((sib.getAttr "class".toList).getD []) "admonition".toList
  | none => false

/-- necessary condition of the continuation branch of `test` (`pending` = `self.current_sibling is not None`) -/
def admonitionContinuationPre (tabLength : Nat) (pending : Bool) (parent : Node) (block : Str) : Bool :=
  pending || (lastChildIsAdmonitionDiv parent && startsWith block (List.replicate tabLength ' '))

/-- necessary condition of `AdmonitionProcessor.test(parent, block)` -/
def admonitionTestPre (tabLength : Nat) (pending : Bool) (parent : Node) (block : Str) : Bool :=
  admonitionSearch block || admonitionContinuationPre tabLength pending parent block

/-! ### def_list.py — `DefListProcessor.RE`
`(^|\n)[ ]{0,3}:[ ]{1,3}(.*?)(\n|$)` (no flags); after `: ` the tail `[ ]{0,2}(.*?)(\n|$)` always succeeds. -/

def defListAt (t : Str) : Bool := optSpaces (fun r => startsWith r [':', ' ']) 3 t

/-- `DefListProcessor.RE.search(block) is not None` = `DefListProcessor.test` -/
def defListSearch (s : Str) : Bool := anyLineStart defListAt s

/-! ### footnotes.py
block: `^[ ]{0,3}\[\^([^\]]*)\]:[ ]*(.*)$` (MULTILINE): `[^\]]*\]` ends at the *first* `]` (the label may span lines);
after `]:` the tail `[ ]*(.*)$` always succeeds.  inline: `\[\^([^\]]*)\]`. -/

/-- `[^\]]*\]` followed by `f` -/
def afterFirstRBracket (f : Str → Bool) : Str → Bool
  | [] => false
  | c :: r => if c = ']' then f r else afterFirstRBracket f r

/-- `\[\^([^\]]*)\]` followed by `f` -/
def footnoteLabelAt (f : Str → Bool) : Str → Bool
  | '[' :: '^' :: r => afterFirstRBracket f r
  | _ => false

def footnoteDefAt (t : Str) : Bool := optSpaces (footnoteLabelAt (fun r => startsWith r [':'])) 3 t

/-- `FootnoteBlockProcessor.RE.search(block) is not None` (`run` returns `False` without it) -/
def footnoteDefSearch (s : Str) : Bool := anyLineStart footnoteDefAt s

/-- `re.compile(FOOTNOTE_RE, re.DOTALL | re.UNICODE).search(text) is not None` -/
def footnoteRefSearch (s : Str) : Bool := anySuffix (footnoteLabelAt (fun _ => true)) s

/-! ### abbr.py — `AbbrBlockprocessor.RE`
`^[*]\[(?P<abbr>[^\\]*?)\][ ]?:[ ]*\n?[ ]*(?P<title>.*)$` (MULTILINE): the abbreviation may contain anything but a
backslash (`]` and `\n` included); after `]:` / `] :` the tail always succeeds. -/

/-- `[^\\]*?\][ ]?:` -/
def abbrBody : Str → Bool
  | [] => false
  | c :: r => (c = ']' && (startsWith r [':'] || startsWith r [' ', ':'])) || (c != '\\' && abbrBody r)

def abbrAt : Str → Bool
  | '*' :: '[' :: r => abbrBody r
  | _ => false

/-- `AbbrBlockprocessor.RE.search(block) is not None` (`run` returns `False` without it) -/
def abbrSearch (s : Str) : Bool := anyLineStart abbrAt s

/-! ### wikilinks.py — `WIKILINK_RE = \[\[([\w0-9_ -]+)\]\]` -/

/-- `[\w0-9_ -]` -/
def isWikiChar (c : Char) : Bool := isWord c || isAsciiDigit c || c = '_' || c = ' ' || c = '-'

/-- `[\w0-9_ -]+\]\]`; `seen` = at least one label character consumed (`]` is not a label character, so the label
    is the maximal run) -/
def wikiBody : Bool → Str → Bool
  | _, [] => false
  | seen, c :: r => if isWikiChar c then wikiBody true r else seen && c = ']' && startsWith r [']']

def wikilinkAt : Str → Bool
  | '[' :: '[' :: r => wikiBody false r
  | _ => false

/-- `re.compile(WIKILINK_RE, re.DOTALL | re.UNICODE).search(text) is not None` -/
def wikilinkSearch (s : Str) : Bool := anySuffix wikilinkAt s

/-! ### attr_list.py — `BASE_RE = \{\:?[ ]*([^\}\n ][^\n]*)[ ]*\}`
`HEADER_RE = [ ]+BASE[ ]*$`, `BLOCK_RE = \n[ ]*BASE[ ]*$`, `INLINE_RE = ^BASE` (no flags).
`tail` recognises what follows the first attribute character: `[^\n]*[ ]*\}` plus whatever the variant appends. -/

/-- `[ ]*([^\}\n ]…` then `tail` -/
def attrBody (tail : Str → Bool) (r : Str) : Bool :=
  match lstripC ' ' r with
  | [] => false
  | c :: r' => c != '}' && c != '\n' && c != ' ' && tail r'

/-- `\{\:?` then `attrBody` (the `:` may be skipped by `\:?` or be the first attribute character) -/
def attrBaseAtWith (tail : Str → Bool) : Str → Bool
  | '{' :: r => attrBody tail r || (match r with | ':' :: r' => attrBody tail r' | _ => false)
  | _ => false

/-- `BASE_RE` at the start of `t` = `AttrListTreeprocessor.INLINE_RE.match(t) is not None` -/
def attrBaseAt (t : Str) : Bool := attrBaseAtWith (lineHas '}') t

def attrInlineMatch (t : Str) : Bool := attrBaseAt t

/-- `re.compile(BASE_RE).search(s) is not None` -/
def attrBaseSearch (s : Str) : Bool := anySuffix attrBaseAt s

/-- `[^\n]*[ ]*\}[ ]*$`: no `\n` except a final one, and the last non-space character before it is `}` (`ok`) -/
def attrEndTail : Bool → Str → Bool
  | ok, [] => ok
  | ok, c :: r =>
    if c = '\n' then ok && r.isEmpty
    else if c = '}' then attrEndTail true r
    else if c = ' ' then attrEndTail ok r
    else attrEndTail false r

def attrHeaderAt : Str → Bool
  | ' ' :: r => attrBaseAtWith (attrEndTail false) r
  | _ => false

/-- `AttrListTreeprocessor.HEADER_RE.search(s) is not None` -/
def attrHeaderSearch (s : Str) : Bool := anySuffix attrHeaderAt s

def attrBlockAt : Str → Bool
  | '\n' :: r => attrBaseAtWith (attrEndTail false) (lstripC ' ' r)
  | _ => false

/-- `AttrListTreeprocessor.BLOCK_RE.search(s) is not None` -/
def attrBlockSearch (s : Str) : Bool := anySuffix attrBlockAt s

/-! ### fenced_code.py — opening fence of `FENCED_BLOCK_RE`: `^(?:~{3,}|`{3,})` (MULTILINE) -/

def fenceOpenAt (t : Str) : Bool := startsWith t ['~', '~', '~'] || startsWith t ['`', '`', '`']

/-- `re.compile(r'^(?:~{3,}|`{3,})', re.MULTILINE).search(s) is not None`; necessary for `FENCED_BLOCK_RE.search` -/
def fenceOpenSearch (s : Str) : Bool := anyLineStart fenceOpenAt s

/-! ### meta.py — on single lines (the preprocessor receives `source.split('\n')`)
`META_RE = ^[ ]{0,3}(?P<key>[A-Za-z0-9_-]+):\s*(?P<value>.*)`, `BEGIN_RE = ^-{3}(\s.*)?$`,
`END_RE = ^(-{3}|\.{3})(\s.*)?$`, all used with `match` (anchored at the end of the line since the repair of F-C16-3;
the recognisers are those of `Model/Ext/Meta.lean`). -/

def isMetaKeyChar (c : Char) : Bool := isAsciiAlnum c || c = '_' || c = '-'

/-- `[A-Za-z0-9_-]+:` -/
def metaKey : Bool → Str → Bool
  | _, [] => false
  | seen, c :: r => if isMetaKeyChar c then metaKey true r else seen && c = ':'

/-- `META_RE.match(line) is not None` -/
def metaKeyLine (l : Str) : Bool := optSpaces (metaKey false) 3 l

/-- `BEGIN_RE.match(line) is not None` -/
def metaBeginLine (l : Str) : Bool := Meta.beginMatch l

/-- `END_RE.match(line) is not None` -/
def metaEndLine (l : Str) : Bool := Meta.endMatch l

/-- the entry condition named in the property: the first line is a `key:` line or the `---` opener -/
def metaFirstLine (l : Str) : Bool := metaKeyLine l || metaBeginLine l

/-- `MetaPreprocessor.run(lines) != lines` for `lines = l :: rest`: the first line is consumed when it is the opener,
    blank, or a `key:` line; otherwise it is put back and nothing changes (before the repair of F-C16-3 an end marker
    `---`/`...` was honoured too although nothing had been opened) -/
def metaConsumes (l : Str) : Bool := metaBeginLine l || isBlank l || metaKeyLine l

/-! ### tables.py — `TableProcessor.test`, necessary condition only
`rows = [row.strip(' ') for row in block.split('\n')]`; `len(rows) > 1`; the header row must split into more than one
cell (a pipe) or carry a border (a pipe); the second row must split into as many cells as the header (a pipe), or,
for a bordered one-column table, carry a border itself (a pipe).  The full `test` is modelled with the table model. -/

/-- necessary for `TableProcessor.test(parent, block)`: at least two lines, a `|` in each of the first two -/
def tableTestPre (block : Str) : Bool :=
  match lines block with
  | r0 :: r1 :: _ => r0.contains '|' && r1.contains '|'
  | _ => false

end MdVerif.Ext.Trig
