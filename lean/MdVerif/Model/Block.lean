/-
Model of `markdown/blockparser.py` and of the eleven core processors of `markdown/blockprocessors.py`
(EmptyBlock, ListIndent, Code, HashHeader, SetextHeader, HR, OList, UList, BlockQuote, Reference, Paragraph),
default configuration, for text without `<` and `&` (the HTML-block preprocessor is the identity there).

Transliterated from the validated regex-free mirror `harness/mirror/mirror_block.py`; one Lean function per
Python function.  `tab` is `Markdown.tab_length` (4 by default); the HR, blockquote and reference regexes use a
fixed 3.  The parser state (`BlockParser.state`) is a `List BState` passed *down* only: every `state.set` of the
code is paired with a `state.reset`, so the state a processor returns with is the state it was entered with.
`md.references` is an association list, appended to; later entries win on lookup.

The code mutates the element tree in place; here every function returns the new value of the element it was
given.  The recursion of `parseBlocks` is on an explicit fuel; see `fuelFor` for the bound.
-/
import MdVerif.Model.Tree

namespace MdVerif.Block
open Py

inductive BState | list | looselist | detabbed | blockquote
  deriving DecidableEq, Repr, Inhabited

/-- `md.references`: `(id, (url, title))`, in insertion order; later entries win -/
abbrev Refs := List (Str × (Str × Option Str))

/-- `State.isstate` -/
def isstate (state : List BState) (s : BState) : Bool := state.getLast? == some s

/-! ### small helpers -/

def spaces (n : Nat) : Str := List.replicate n ' '
/-- number of leading spaces -/
def countSp (s : Str) : Nat := countPrefix ' ' none s
/-- number of spaces at index `i` -/
def countSpAt (s : Str) (i : Nat) : Nat := countSp (s.drop i)
/-- `s[a:b]` -/
def slice (s : Str) (a b : Nat) : Str := (s.drop a).take (b - a)
def notNl (c : Char) : Bool := c != '\n'
/-- `'{}'.format(x)` for `x : str | None` -/
def fmtOpt : Option Str → Str
  | none => "None".toList
  | some s => s

/-- `f (lo+c-1)`, …, `f lo`: first success -/
def firstDownFrom (f : Nat → Option α) (lo : Nat) : Nat → Option α
  | 0 => none
  | c + 1 => match f (lo + c) with
             | some r => some r
             | none => firstDownFrom f lo c

/-- `for x in range(hi, lo-1, -1): r = f(x); if r: return r` -/
def firstDown (f : Nat → Option α) (lo hi : Nat) : Option α := firstDownFrom f lo (hi + 1 - lo)

/-- `list(range(hi, lo-1, -1))` -/
def downList (lo hi : Nat) : List Nat := (List.range (hi + 1 - lo)).reverse.map (lo + ·)

/-- `util.code_escape` -/
def codeEscape (t : Str) : Str :=
  replace (replace (replace t ['&'] "&amp;".toList) ['<'] "&lt;".toList) ['>'] "&gt;".toList

/-! ### recognisers -/

/-- `(\d+\.)` at the start of `s`: the marker and what follows.  `\d+` is greedy; giving a digit back leaves a
    digit where `\.` is required. -/
def olMarker (s : Str) : Option (Str × Str) :=
  let d := spanLen isDecimal s
  if d > 0 && s[d]? == some '.' then some (s.take (d + 1), s.drop (d + 1)) else none

/-- `[*+-]` at the start of `s` -/
def ulMarker : Str → Option (Str × Str)
  | c :: r => if c = '*' || c = '+' || c = '-' then some ([c], r) else none
  | [] => none

/-- `OListProcessor.RE` `^[ ]{0,tab-1}\d+\.[ ]+(.*)` (`ol`), `UListProcessor.RE` `^[ ]{0,tab-1}[*+-][ ]+(.*)`
    (`ul`), `CHILD_RE` `^[ ]{0,tab-1}((\d+\.)|[*+-])[ ]+(.*)` (both) as `.match(s)`: the marker and the content
    group.  `[ ]{0,tab-1}` is greedy and giving a space back leaves a space where the marker is required;
    `(.*)` stops at a newline. -/
def listItemMatch (tab : Nat) (ol ul : Bool) (s : Str) : Option (Str × Str) :=
  let s1 := s.drop (countPrefix ' ' (some (tab - 1)) s)
  let mk := match (if ol then olMarker s1 else none) with
            | some m => some m
            | none => if ul then ulMarker s1 else none
  match mk with
  | none => none
  | some (marker, r) =>
    let sp := countSp r
    if sp = 0 then none else some (marker, (r.drop sp).takeWhile notNl)

/-- `OListProcessor.INDENT_RE` `^[ ]{tab,2*tab-1}((\d+\.)|[*+-])[ ]+.*` as `.match(s)` -/
def indentItemMatch (tab : Nat) (s : Str) : Bool :=
  let i := countSp s
  if tab ≤ i && i + 1 ≤ 2 * tab then
    let s1 := s.drop i
    match (match olMarker s1 with | some m => some m | none => ulMarker s1) with
    | some (_, r) => countSp r > 0
    | none => false
  else false

def firstLine (block : Str) : Str := block.takeWhile notNl

/-- `(ch+[ ]{0,2})*` scanned greedily from a `ch`: number of `ch` seen and the unread rest; `sp` is the number of
    spaces taken since the last `ch`.  (The atomic group of `HRProcessor.RE` keeps the first, i.e. this, match.) -/
def hrScan (ch : Char) : Nat → Nat → Str → Nat × Str
  | _, cnt, [] => (cnt, [])
  | sp, cnt, c :: r =>
    if c = ch then hrScan ch 0 (cnt + 1) r
    else if c = ' ' && sp < 2 then hrScan ch (sp + 1) cnt r
    else (cnt, c :: r)

/-- one line against `HRProcessor.RE`
    `^[ ]{0,3}(?=(?P<atomicgroup>(-+[ ]{0,2}){3,}|(_+[ ]{0,2}){3,}|(\*+[ ]{0,2}){3,}))(?P=atomicgroup)[ ]*$` -/
def hrLine (line : Str) : Bool :=
  match line.drop (countPrefix ' ' (some 3) line) with
  | [] => false
  | ch :: r =>
    if ch = '-' || ch = '_' || ch = '*' then
      let (cnt, rest) := hrScan ch 0 0 (ch :: r)
      cnt ≥ 3 && rest.all (· = ' ')
    else false

def hrSearchLines : Nat → List Str → Option (Nat × Nat)
  | _, [] => none
  | pos, line :: r => if hrLine line then some (pos, pos + line.length) else hrSearchLines (pos + line.length + 1) r

/-- `HRProcessor.SEARCH_RE.search(block)` (`re.MULTILINE`): `(m.start(), m.end())` -/
def hrSearch (block : Str) : Option (Nat × Nat) := hrSearchLines 0 (lines block)

/-- `#*(?:\n|$)` at the start of `s`: length consumed.  `#*` is greedy; giving a `#` back leaves a `#` where
    `\n` or the end is required. -/
def hashClose (s : Str) : Option Nat :=
  let k := countPrefix '#' none s
  match s.drop k with
  | [] => some k
  | c :: _ => if c = '\n' then some (k + 1) else none

/-- `(?P<header>(?:\\.|[^\\])*?)#*(?:\n|$)` at the start of `s` (lazy: closes at the first opportunity):
    the header and the length consumed.  `.` does not match a newline, `[^\\]` does. -/
def hashHeader : Nat → Str → Option (Str × Nat)
  | 0, _ => none
  | f + 1, s =>
    match hashClose s with
    | some k => some ([], k)
    | none =>
      match s with
      | [] => none
      | c :: r =>
        if c = '\\' then
          match r with
          | d :: r' =>
            if d = '\n' then none
            else match hashHeader f r' with
                 | some (h, n) => some (c :: d :: h, n + 2)
                 | none => none
          | [] => none
        else match hashHeader f r with
             | some (h, n) => some (c :: h, n + 1)
             | none => none

/-- `(?P<level>#{1,6})(?P<header>…)#*(?:\n|$)` at the start of `s`: level, header, length consumed
    (`#{1,6}` greedy, then fewer) -/
def hashAt (s : Str) : Option (Nat × Str × Nat) :=
  firstDown (fun lv => match hashHeader (s.length + 1) (s.drop lv) with
                       | some (hd, n) => some (lv, hd, lv + n)
                       | none => none) 1 (countPrefix '#' (some 6) s)

def hashSearchNl : Nat → Str → Option (Nat × Nat × Nat × Str)
  | _, [] => none
  | i, c :: r =>
    if c = '\n' then
      match hashAt r with
      | some (lv, hd, n) => some (i, i + 1 + n, lv, hd)
      | none => hashSearchNl (i + 1) r
    else hashSearchNl (i + 1) r

/-- `HashHeaderProcessor.RE.search(s)`, `(?:^|\n)(?P<level>#{1,6})(?P<header>(?:\\.|[^\\])*?)#*(?:\n|$)`
    (no flags: `^` only at 0): `(m.start(), m.end(), len(level), header)` -/
def hashSearch (s : Str) : Option (Nat × Nat × Nat × Str) :=
  match hashAt s with
  | some (lv, hd, n) => some (0, n, lv, hd)
  | none => hashSearchNl 0 s

/-- `SetextHeaderProcessor.RE.match(block)`, `^.*?\n[=-]+[ ]*(\n|$)` (`re.MULTILINE`) -/
def setextMatch (block : Str) : Bool :=
  match find ['\n'] block with
  | none => false
  | some k =>
    let line2 := firstLine (block.drop (k + 1))
    let i := spanLen (fun c => c = '=' || c = '-') line2
    i > 0 && (line2.drop i).all (· = ' ')

/-- `[ ]{0,3}>[ ]?(.*)` at the start of `s`: group 2 -/
def quoteLine (s : Str) : Option Str :=
  match s.drop (countPrefix ' ' (some 3) s) with
  | c :: r =>
    if c = '>' then
      some ((match r with | d :: r' => if d = ' ' then r' else r | [] => r).takeWhile notNl)
    else none
  | [] => none

def quoteSearchNl : Nat → Str → Option Nat
  | _, [] => none
  | i, c :: r => if c = '\n' && (quoteLine r).isSome then some i else quoteSearchNl (i + 1) r

/-- `BlockQuoteProcessor.RE.search(block)`, `(^|\n)[ ]{0,3}>[ ]?(.*)` (no flags): `m.start()` -/
def quoteSearch (block : Str) : Option Nat :=
  if (quoteLine block).isSome then some 0 else quoteSearchNl 0 block

/-- `BlockQuoteProcessor.RE.match(s)`: group 2 -/
def quoteMatch (s : Str) : Option Str :=
  match quoteLine s with
  | some g => some g
  | none => match s with
            | c :: r => if c = '\n' then quoteLine r else none
            | [] => none

/-- `BlockQuoteProcessor.clean` -/
def quoteClean (line : Str) : Str :=
  if strip line = ['>'] then []
  else match quoteMatch line with
       | some g => g
       | none => line

/-- `q == len(s) or s[q] == '\n'`: `$` under `re.MULTILINE` -/
def atEol (s : Str) (q : Nat) : Bool :=
  match s[q]? with
  | none => true
  | some c => c = '\n'

/-- `(.*)<close>[ ]*$` after the opening delimiter at `b2` (`.*` greedy, then shorter; `[ ]*` greedy, then
    shorter): end of the match and the group -/
def refDelimited (s : Str) (b2 : Nat) (close : Char) : Option (Nat × Str) :=
  let e := b2 + 1 + spanLen notNl (s.drop (b2 + 1))
  firstDown (fun c =>
    if s[c]? == some close then
      let d := c + 1 + countSpAt s (c + 1)
      firstDown (fun d2 => if atEol s d2 then some (d2, slice s (b2 + 1) c) else none) (c + 1) d
    else none) (b2 + 1) (e - 1)

/-- `((["\'])(.*)\4[ ]*|\((.*)\)[ ]*)?$` at `b2`: end of the match, group 5, group 6 -/
def refTitleAt (s : Str) (b2 : Nat) : Option (Nat × Option Str × Option Str) :=
  let quoted :=
    match s[b2]? with
    | some q => if q = '"' || q = '\'' then refDelimited s b2 q else none
    | none => none
  match quoted with
  | some (e, t) => some (e, some t, none)
  | none =>
    let paren := if s[b2]? == some '(' then refDelimited s b2 ')' else none
    match paren with
    | some (e, t) => some (e, none, some t)
    | none => if atEol s b2 then some (b2, none, none) else none

/-- `[ ]*(?:\n[ ]*)?(title)?$` at `q` in backtracking order -/
def refTail (s : Str) (q : Nat) : Option (Nat × Option Str × Option Str) :=
  let a := q + countSpAt s q
  firstDown (fun a2 =>
    let opts := (if s[a2]? == some '\n' then downList (a2 + 1) (a2 + 1 + countSpAt s (a2 + 1)) else []) ++ [a2]
    opts.findSome? (refTitleAt s)) q a

/-- one attempt of `ReferenceProcessor.RE` at the line start `p`: `(m.end(), group 1, group 2, group 5, group 6)`.
    The loops enumerate the choices of the backtracking matcher in its order of preference. -/
def refMatchAt (s : Str) (p : Nat) : Option (Nat × Str × Str × Option Str × Option Str) :=
  let i := p + countPrefix ' ' (some 3) (s.drop p)
  if s[i]? != some '[' then none else
  let j := i + 1 + spanLen (fun c => c != '[' && c != ']') (s.drop (i + 1))
  if s[j]? != some ']' then none else
  let ident := slice s (i + 1) j
  if s[j + 1]? != some ':' then none else
  let k0 := j + 2
  let k := k0 + countSpAt s k0
  firstDown (fun k2 =>
    let cands := (if s[k2]? == some '\n' then downList (k2 + 1) (k2 + 1 + countSpAt s (k2 + 1)) else []) ++ [k2]
    cands.findSome? (fun u0 =>
      let u := u0 + spanLen (fun c => !isSpace c) (s.drop u0)
      firstDown (fun u2 =>
        match refTail s u2 with
        | some (e, t5, t6) => some (e, ident, slice s u0 u2, t5, t6)
        | none => none) (u0 + 1) u)) k0 k

/-- line starts after position `i`: `i+1` for every newline at `i` -/
def lineStartsFrom : Nat → Str → List Nat
  | _, [] => []
  | i, c :: r => if c = '\n' then (i + 1) :: lineStartsFrom (i + 1) r else lineStartsFrom (i + 1) r

/-- `ReferenceProcessor.RE.search(s)`,
    `^[ ]{0,3}\[([^\[\]]*)\]:[ ]*\n?[ ]*([^\s]+)[ ]*(?:\n[ ]*)?((["\'])(.*)\4[ ]*|\((.*)\)[ ]*)?$`
    (`re.MULTILINE`): `(m.start(), m.end(), group 1, group 2, group 5, group 6)` -/
def refSearch (s : Str) : Option (Nat × Nat × Str × Str × Option Str × Option Str) :=
  (0 :: lineStartsFrom 0 s).findSome? (fun p =>
    match refMatchAt s p with
    | some (e, ident, url, t5, t6) => some (p, e, ident, url, t5, t6)
    | none => none)

/-! ### `BlockProcessor` helpers -/

def detabLines (length : Nat) : List Str → List Str × List Str
  | [] => ([], [])
  | line :: r =>
    if startsWith line (spaces length) then
      let (a, b) := detabLines length r
      (line.drop length :: a, b)
    else if isBlank line then
      let (a, b) := detabLines length r
      ([] :: a, b)
    else ([], line :: r)

/-- `BlockProcessor.detab(text, length)` -/
def detab (length : Nat) (text : Str) : Str × Str :=
  let (a, b) := detabLines length (lines text)
  (joinLines a, joinLines b)

/-- `BlockProcessor.looseDetab(text, level)` -/
def looseDetab (tab : Nat) (text : Str) (level : Nat) : Str :=
  joinLines ((lines text).map (fun l => if startsWith l (spaces (tab * level)) then l.drop (tab * level) else l))

def modifyLast (f : Str → Str) (items : List Str) : List Str :=
  match items.getLast? with
  | some l => items.dropLast ++ [f l]
  | none => items                          -- `items[-1]` raises; unreachable: the first line matches `CHILD_RE`

def getItemsStep (tab : Nat) (items : List Str) (line : Str) : List Str :=
  match listItemMatch tab true true line with
  | some (_, content) => items ++ [content]
  | none =>
    if indentItemMatch tab line then
      match items.getLast? with
      | some l => if startsWith l (spaces tab) then modifyLast (fun l => l ++ '\n' :: line) items
                  else items ++ [line]
      | none => items ++ [line]            -- `items[-1]` raises; unreachable
    else modifyLast (fun l => l ++ '\n' :: line) items

/-- `OListProcessor.get_items` (`LAZY_OL` is on: `STARTSWITH` is never read) -/
def getItems (tab : Nat) (block : Str) : List Str := (lines block).foldl (getItemsStep tab) []

def isListTag (n : Node) : Bool := n.isTag "ul" || n.isTag "ol"
def isItemTag (n : Node) : Bool := n.isTag "li"

mutual
/-- the `while indent_level > level` loop of `get_level` from `parent` on: final level and the number of
    last-child links followed -/
def getLevelNode (il level : Nat) : Node → Nat × Nat
  | ⟨_, _, _, _, children, _, _⟩ => getLevelKids il level children
def getLevelKids (il level : Nat) : List Node → Nat × Nat
  | [] => (level, 0)
  | c :: r =>
    match r with
    | [] =>
      if il > level && (isListTag c || isItemTag c) then
        let (l, s) := getLevelNode il (if isListTag c then level + 1 else level) c
        (l, s + 1)
      else (level, 0)
    | _ :: _ => getLevelKids il level r
end

/-- `ListIndentProcessor.get_level`: the level and the sibling as a number of last-child steps from `parent`.
    `INDENT_RE = ^(([ ]{tab})+)`: `len(group 1) / tab` is the number of whole tabs of leading spaces. -/
def getLevel (tab : Nat) (state : List BState) (parent : Node) (block : Str) : Nat × Nat :=
  let k := countSp block
  let indentLevel := if k ≥ tab then k / tab else 0
  getLevelNode indentLevel (if isstate state .list then 1 else 0) parent

/-- apply `f` to the node reached by following `steps` last-child links -/
def updPath (f : Node → Node) : Nat → Node → Node
  | 0, p => f p
  | k + 1, p => match p.last? with
                | some c => p.setLast (updPath f k c)
                | none => p

def nodeAt : Nat → Node → Node
  | 0, p => p
  | k + 1, p => match p.last? with
                | some c => nodeAt k c
                | none => p

/-! ### processors

`PB` is the type of `parseBlocks` with the fuel already applied: the processors receive the recursive call as an
argument, which keeps them ordinary (non-recursive) definitions.  `none` = the fuel ran out. -/

abbrev PB := List BState → Refs → Node → List Str → Option (Node × Refs)

/-- `BlockParser.parseChunk` -/
def parseChunk (pb : PB) (state : List BState) (refs : Refs) (parent : Node) (text : Str) : Option (Node × Refs) :=
  pb state refs parent (splitS ['\n', '\n'] text)

def mkText (tag : String) (text : Str) : Node := { Node.el tag with text := some text }

/-- `sibling.tag == "pre" and len(sibling) and sibling[0].tag == "code"`: the `code` child -/
def preCode (sib : Node) : Option Node :=
  if sib.isTag "pre" then
    match sib.children with
    | code :: _ => if code.isTag "code" then some code else none
    | [] => none
  else none

/-- `sibling[0].text = AtomicString(t)` on the last child of `parent` -/
def setCodeText (parent sib code : Node) (t : Str) : Node :=
  parent.setLast { sib with children := { code with text := some t, textAtomic := true } :: sib.children.drop 1 }

/-- `EmptyBlockProcessor.run` -/
def emptyP (refs : Refs) (parent : Node) (b : Str) (rest : List Str) : Node × Refs × List Str :=
  let filler : Str := if b.isEmpty then ['\n', '\n'] else ['\n']
  let theRest := b.drop 1
  let rest := if theRest.isEmpty then rest else theRest :: rest
  match parent.last? with
  | some sib =>
    match preCode sib with
    | some code => (setCodeText parent sib code (fmtOpt code.text ++ filler), refs, rest)
    | none => (parent, refs, rest)
  | none => (parent, refs, rest)

/-- `CodeBlockProcessor.run` -/
def codeP (tab : Nat) (refs : Refs) (parent : Node) (b : Str) (rest : List Str) : Node × Refs × List Str :=
  let (block, theRest) := detab tab b
  let esc := codeEscape (rstrip block)
  let rest := if theRest.isEmpty then rest else theRest :: rest
  let fresh : Node :=
    parent.append { Node.el "pre" with
      children := [{ Node.el "code" with text := some (esc ++ ['\n']), textAtomic := true }] }
  match parent.last? with
  | some sib =>
    match preCode sib with
    | some code => (setCodeText parent sib code (fmtOpt code.text ++ '\n' :: esc ++ ['\n']), refs, rest)
    | none => (fresh, refs, rest)
  | none => (fresh, refs, rest)

def hTag (lv : Nat) : Node := { tag := .name ('h' :: natToDec lv) }

/-- `HashHeaderProcessor.run` -/
def hashP (tab : Nat) (pb : PB) (state : List BState) (refs : Refs) (parent : Node) (b : Str) (rest : List Str)
    (m : Nat × Nat × Nat × Str) : Option (Node × Refs × List Str) :=
  let (st, en, lv, header) := m
  let before := b.take st
  let after := b.drop en
  match (if before.isEmpty then some (parent, refs) else pb state refs parent [before]) with
  | none => none
  | some (parent, refs) =>
    let parent := parent.append { hTag lv with text := some (strip header) }
    let rest :=
      if after.isEmpty then rest
      else (if isstate state .looselist then looseDetab tab after 1 else after) :: rest
    some (parent, refs, rest)

/-- `SetextHeaderProcessor.run` -/
def setextP (refs : Refs) (parent : Node) (b : Str) (rest : List Str) : Node × Refs × List Str :=
  let ls := lines b
  let lv := if startsWith (ls.getD 1 []) ['='] then 1 else 2
  let parent := parent.append { hTag lv with text := some (strip (ls.getD 0 [])) }
  let rest := if ls.length > 2 then joinLines (ls.drop 2) :: rest else rest
  (parent, refs, rest)

/-- `HRProcessor.run` -/
def hrP (pb : PB) (state : List BState) (refs : Refs) (parent : Node) (b : Str) (rest : List Str)
    (m : Nat × Nat) : Option (Node × Refs × List Str) :=
  let (st, en) := m
  let pre := rstripC '\n' (b.take st)
  match (if pre.isEmpty then some (parent, refs) else pb state refs parent [pre]) with
  | none => none
  | some (parent, refs) =>
    let parent := parent.append (Node.el "hr")
    let post := lstripC '\n' (b.drop en)
    some (parent, refs, if post.isEmpty then rest else post :: rest)

/-- `if lst[-1].text: …` of `OListProcessor.run` / `if sibling[-1].text: …` of `ListIndentProcessor.run`:
    move the text of the item into a first child `p` -/
def textToP (li : Node) : Node :=
  if Node.truthy li.text then
    { li with text := some [], textAtomic := false,
              children := { Node.el "p" with text := li.text, textAtomic := li.textAtomic } :: li.children }
  else li

/-- the loop over the items of `OListProcessor.run` -/
def listItems (tab : Nat) (pb : PB) (st2 : List BState) : Refs → Node → List Str → Option (Node × Refs)
  | refs, lst, [] => some (lst, refs)
  | refs, lst, item :: items =>
    if startsWith item (spaces tab) then
      match lst.last? with
      | some l =>
        match pb st2 refs l [item] with
        | some (li, refs) => listItems tab pb st2 refs (lst.setLast li) items
        | none => none
      | none => listItems tab pb st2 refs lst items      -- `lst[-1]` raises; unreachable: the first item is not indented
    else
      match pb st2 refs (Node.el "li") [item] with
      | some (li, refs) => listItems tab pb st2 refs (lst.append li) items
      | none => none

/-- `OListProcessor.run` (`tag = "ol"`) and `UListProcessor.run` (`tag = "ul"`) -/
def listP (tab : Nat) (pb : PB) (state : List BState) (refs : Refs) (parent : Node) (b : Str) (rest : List Str)
    (tag : String) : Option (Node × Refs × List Str) :=
  let items := getItems tab b
  let st2 := state ++ [.list]
  match (match parent.last? with | some sib => if isListTag sib then some sib else none | none => none) with
  | some lst =>
    -- the previous block was a list: make sure its last item is in a `p`
    let lst :=
      match lst.last? with
      | some li =>
        let li := textToP li
        let li :=
          match li.last? with
          | some lch =>
            if Node.truthy lch.tail then
              (li.setLast { lch with tail := some [], tailAtomic := false }).append
                (mkText "p" (lstrip (lch.tail.getD [])))
            else li
          | none => li
        lst.setLast li
      | none => lst                                       -- `lst[-1]` raises; unreachable: a list has an item
    match pb (state ++ [.looselist]) refs (Node.el "li") [items.headD []] with
    | none => none
    | some (newli, refs) =>
      match listItems tab pb st2 refs (lst.append newli) (items.drop 1) with
      | some (lst, refs) => some (parent.setLast lst, refs, rest)
      | none => none
  | none =>
    if isListTag parent then
      match listItems tab pb st2 refs parent items with
      | some (lst, refs) => some (lst, refs, rest)
      | none => none
    else
      match listItems tab pb st2 refs (Node.el tag) items with
      | some (lst, refs) => some (parent.append lst, refs, rest)
      | none => none

/-- `BlockQuoteProcessor.run` -/
def quoteP (pb : PB) (state : List BState) (refs : Refs) (parent : Node) (b : Str) (rest : List Str)
    (q : Nat) : Option (Node × Refs × List Str) :=
  match pb state refs parent [b.take q] with
  | none => none
  | some (parent, refs) =>
    let block := joinLines ((lines (b.drop q)).map quoteClean)
    let st2 := state ++ [.blockquote]
    match (match parent.last? with | some sib => if sib.isTag "blockquote" then some sib else none | none => none) with
    | some sib =>
      match parseChunk pb st2 refs sib block with
      | some (quote, refs) => some (parent.setLast quote, refs, rest)
      | none => none
    | none =>
      match parseChunk pb st2 refs (Node.el "blockquote") block with
      | some (quote, refs) => some (parent.append quote, refs, rest)
      | none => none

/-- `ReferenceProcessor.run` when the pattern matches -/
def referenceP (refs : Refs) (parent : Node) (b : Str) (rest : List Str)
    (m : Nat × Nat × Str × Str × Option Str × Option Str) : Node × Refs × List Str :=
  let (st, en, ident, link, t5, t6) := m
  -- `title = m.group(5) or m.group(6)`
  let title := if Node.truthy t5 then t5 else t6
  let refs := refs ++ [(lower (strip ident), (rstripC '>' (lstripC '<' link), title))]
  let rest := if isBlank (b.drop en) then rest else lstripC '\n' (b.drop en) :: rest
  let rest := if isBlank (b.take st) then rest else rstripC '\n' (b.take st) :: rest
  (parent, refs, rest)

/-- `ParagraphProcessor.run` -/
def paraP (state : List BState) (refs : Refs) (parent : Node) (b : Str) (rest : List Str) : Node × Refs × List Str :=
  if isBlank b then (parent, refs, rest)
  else if isstate state .list then
    match parent.last? with
    | some sib =>
      let t := if Node.truthy sib.tail then fmtOpt sib.tail ++ '\n' :: b else '\n' :: b
      (parent.setLast { sib with tail := some t, tailAtomic := false }, refs, rest)
    | none =>
      let t := if Node.truthy parent.text then fmtOpt parent.text ++ '\n' :: b else lstrip b
      ({ parent with text := some t, textAtomic := false }, refs, rest)
  else (parent.append (mkText "p" (lstrip b)), refs, rest)

/-- `ListIndentProcessor.run` -/
def indentP (tab : Nat) (pb : PB) (state : List BState) (refs : Refs) (parent : Node) (b : Str) (rest : List Str) :
    Option (Node × Refs × List Str) :=
  let (level, steps) := getLevel tab state parent b
  let block := looseDetab tab b level
  let st2 := state ++ [.detabbed]
  let sibling := nodeAt steps parent
  if isItemTag parent then
    match (match parent.last? with | some c => if isListTag c then some c else none | none => none) with
    | some c =>
      match pb st2 refs c [block] with
      | some (sub, refs) => some (parent.setLast sub, refs, rest)
      | none => none
    | none =>
      match pb st2 refs parent [block] with
      | some (parent, refs) => some (parent, refs, rest)
      | none => none
  else if isItemTag sibling then
    match pb st2 refs sibling [block] with
    | some (sub, refs) => some (updPath (fun _ => sub) steps parent, refs, rest)
    | none => none
  else
    match (match sibling.last? with | some c => if isItemTag c then some c else none | none => none) with
    | some li =>
      match parseChunk pb st2 refs (textToP li) block with
      | some (li, refs) => some (updPath (fun s => s.setLast li) steps parent, refs, rest)
      | none => none
    | none =>
      -- `create_item`
      match pb st2 refs (Node.el "li") [block] with
      | some (li, refs) => some (updPath (fun s => s.append li) steps parent, refs, rest)
      | none => none

/-- one turn of the `while blocks:` loop of `BlockParser.parseBlocks`: the first processor (in priority order)
    whose `test` accepts `b` (and whose `run` does not return `False`) runs -/
def dispatch (tab : Nat) (pb : PB) (state : List BState) (refs : Refs) (parent : Node) (b : Str) (rest : List Str) :
    Option (Node × Refs × List Str) :=
  -- empty (100)
  if b.isEmpty || startsWith b ['\n'] then some (emptyP refs parent b rest)
  -- indent (90)
  else if startsWith b (spaces tab) && !isstate state .detabbed &&
      (isItemTag parent || (match parent.last? with | some c => isListTag c | none => false)) then
    indentP tab pb state refs parent b rest
  -- code (80)
  else if startsWith b (spaces tab) then some (codeP tab refs parent b rest)
  else
  -- hashheader (70)
  match hashSearch b with
  | some m => hashP tab pb state refs parent b rest m
  | none =>
  -- setextheader (60)
  if setextMatch b then some (setextP refs parent b rest) else
  -- hr (50)
  match hrSearch b with
  | some m => hrP pb state refs parent b rest m
  | none =>
  -- olist (40), ulist (30)
  if (listItemMatch tab true false b).isSome then listP tab pb state refs parent b rest "ol"
  else if (listItemMatch tab false true b).isSome then listP tab pb state refs parent b rest "ul"
  else
  -- quote (20)
  match quoteSearch b with
  | some q => quoteP pb state refs parent b rest q
  | none =>
  -- reference (15), paragraph (10)
  match refSearch b with
  | some m => some (referenceP refs parent b rest m)
  | none => some (paraP state refs parent b rest)

/-- `BlockParser.parseBlocks`; `none` = out of fuel.  One unit of fuel per turn of the loop; the recursive calls
    made during a turn get what is left after it. -/
def parseBlocks (tab : Nat) : Nat → PB
  | _, _, refs, parent, [] => some (parent, refs)
  | 0, _, _, _, _ :: _ => none
  | f + 1, state, refs, parent, b :: rest =>
    match dispatch tab (parseBlocks tab f) state refs parent b rest with
    | some (parent, refs, blocks) => parseBlocks tab f state refs parent blocks
    | none => none

/-- A fuel that always suffices for `parseDocument` on a text of length `len`.

    Let `μ(blocks) = Σ (len b + 1)` and let `need(blocks, state)` be the least fuel with which
    `parseBlocks` succeeds.  Claim: `need(blocks, state) ≤ 2·μ(blocks) + (1 if the top of state is not detabbed)`.
    * Every turn of the loop replaces the first block by blocks of smaller total measure: the processors
      either drop it or put back proper parts of it (`theRest`, `after`, `postlines`, the text around a
      reference definition — each misses at least the characters of the match or of the first line).  So turn `i`
      (counted from 1) starts with measure `≤ μ - (i - 1)`, and there are at most `μ` turns.
    * A recursive call made during turn `i` runs with fuel `F - i`.  It is on `[before]`, `[prelines]`, `[item]`
      (strictly shorter than the block: the match, resp. the marker or the first line, is missing), on the
      cleaned quote split at blank lines (`μ ≤ len block`, a `>` is missing), or — `ListIndentProcessor` — on the
      loosely detabbed block, whose measure may be *equal* to that of the block (level 0) but which runs in state
      detabbed, where `ListIndentProcessor` does not fire again.  By induction the first kind needs
      `≤ 2(μ - (i-1) - 1) + 1`, the second `≤ 2(μ - (i-1))`; both are `≤ 2μ + 1 - i`, resp. `≤ 2μ - i` when the state
      is detabbed (the second kind does not occur then).
    `parseChunk` of the document starts with `μ ≤ len + 1`, hence `2·len + 3` suffices; `2·len + 10` is used. -/
def fuelFor (len : Nat) : Nat := 2 * len + 10

/-- `parseDocument` with a given fuel (the driver uses it to measure how much is needed) -/
def parseDocumentWith (tab fuel : Nat) (text : Str) : Option (Node × Refs) :=
  parseChunk (parseBlocks tab fuel) [] [] (Node.el "div") text

/-- `BlockParser.parseDocument('\n'.join(lines))` with the references collected; `none` = out of fuel (never,
    see `fuelFor`) -/
def parseDocument (tab : Nat) (text : Str) : Option (Node × Refs) :=
  parseDocumentWith tab (fuelFor text.length) text

/-- `md.references.get(id)`: later definitions win -/
def lookupRef (refs : Refs) (id : Str) : Option (Str × Option Str) :=
  (refs.reverse.find? (fun r => r.1 = id)).map (·.2)

end MdVerif.Block
