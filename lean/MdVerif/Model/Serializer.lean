/-
Model of `markdown/serializers.py`.

`escCdata`, `escAttrHtml`, `escAttrib` are the multi-pass compositions the code performs
(`RE_AMP.sub`, then `str.replace` for `<`, `>`, `"`, `\n`); `serialize` mirrors `_serialize_html`.
`RE_AMP = re.compile(r'&(?!(?:\#[0-9]+|\#x[0-9a-f]+|[0-9a-z]+);)', re.I)`: under `re.I` on `str` patterns
`[a-z]` also matches U+0130, U+0131, U+017F, U+212A and the literal `x` also matches `X`.
-/
import MdVerif.Model.Tree
import MdVerif.Generated.Tables

namespace MdVerif.Ser
open Py

def isDig (c : Char) : Bool := '0' ≤ c && c ≤ '9'
/-- `[0-9a-z]` under `re.IGNORECASE` -/
def isAlnumI (c : Char) : Bool :=
  isDig c || ('a' ≤ c && c ≤ 'z') || ('A' ≤ c && c ≤ 'Z') || c = 'İ' || c = 'ı' || c = 'ſ' || c = 'K'
/-- `[0-9a-f]` under `re.IGNORECASE` -/
def isHexI (c : Char) : Bool := isDig c || ('a' ≤ c && c ≤ 'f') || ('A' ≤ c && c ≤ 'F')

/-- does `r` start with `n > 0` characters of class `p` followed by `;` ?  returns `n + 1` -/
def runSemi (p : Char → Bool) (r : Str) : Option Nat :=
  let n := spanLen p r
  if n > 0 && r[n]? == some ';' then some (n + 1) else none

/-- the look-ahead of `RE_AMP`: length (including the final `;`) of the entity body at the start of `r`
    (the text after `&`), `none` when the `&` is not the start of an entity reference -/
def entLen (r : Str) : Option Nat :=
  match r with
  | '#' :: r1 =>
    match runSemi isDig r1 with
    | some n => some (n + 1)
    | none =>
      match r1 with
      | x :: r2 => if x = 'x' || x = 'X' then (runSemi isHexI r2).map (· + 2) else none
      | [] => none
  | _ => runSemi isAlnumI r

/-- `RE_AMP.sub('&amp;', text)` -/
def ampSub : Str → Str
  | [] => []
  | c :: r =>
    if c = '&' then (if (entLen r).isSome then '&' :: ampSub r else "&amp;".toList ++ ampSub r)
    else c :: ampSub r

/-- `_escape_cdata` -/
def escCdata (s : Str) : Str :=
  replace (replace (ampSub s) ['<'] "&lt;".toList) ['>'] "&gt;".toList

/-- `_escape_attrib_html` -/
def escAttrHtml (s : Str) : Str := replace (escCdata s) ['"'] "&quot;".toList

/-- `_escape_attrib` (used for `xmlns` only) -/
def escAttrib (s : Str) : Str := replace (escAttrHtml s) ['\n'] "&#10;".toList

/-- the same escaping as one left-to-right pass (each `&` judged on the original text) -/
def esc1 (quot nl : Bool) : Str → Str
  | [] => []
  | c :: r =>
    if c = '&' then (if (entLen r).isSome then '&' :: esc1 quot nl r else "&amp;".toList ++ esc1 quot nl r)
    else if c = '<' then "&lt;".toList ++ esc1 quot nl r
    else if c = '>' then "&gt;".toList ++ esc1 quot nl r
    else if quot && c = '"' then "&quot;".toList ++ esc1 quot nl r
    else if nl && c = '\n' then "&#10;".toList ++ esc1 quot nl r
    else c :: esc1 quot nl r

inductive Fmt | html | xhtml
  deriving DecidableEq, Repr

def strLt : Str → Str → Bool
  | [], [] => false
  | [], _ :: _ => true
  | _ :: _, [] => false
  | a :: as, b :: bs => if a.toNat < b.toNat then true else if a.toNat > b.toNat then false else strLt as bs

def insAttr (kv : Str × Str) : List (Str × Str) → List (Str × Str)
  | [] => [kv]
  | x :: xs => if strLt kv.1 x.1 then kv :: x :: xs else x :: insAttr kv xs

/-- `sorted(elem.items())` (keys are unique in a dict, so the order is by key) -/
def sortAttrs (l : List (Str × Str)) : List (Str × Str) := l.foldr insAttr []

def isEmptyTag (tag : Str) : Bool := let t := lower tag; Generated.htmlEmpty.any (fun e => e.toList = t)
def isRawTextTag (tag : Str) : Bool := let t := lower tag; t = "script".toList || t = "style".toList

def writeAttrs (fmt : Fmt) : List (Str × Str) → Str
  | [] => []
  | (k, v) :: r =>
    let v' := escAttrHtml v
    (if k = v' && fmt = .html then ' ' :: v' else ' ' :: k ++ "=\"".toList ++ v' ++ ['"']) ++ writeAttrs fmt r

/-- split a `QName` text `{uri}tag`; `none` = the `ValueError` paths of the code -/
def splitQName (s : Str) : Option (Str × Str) :=
  match s with
  | '{' :: r =>
    match find ['}'] r with
    | some i => some (r.take i, r.drop (i + 1))
    | none => none
  | _ => none

mutual
/-- `_serialize_html` (the `ValueError` of a malformed `QName` is reported by `serializable`) -/
def serialize (fmt : Fmt) : Node → Str
  | ⟨tag, attrs, text, _, children, tail, _⟩ =>
    let txt := text.getD []
    let body : Str :=
      match tag with
      | .comment => "<!--".toList ++ escCdata txt ++ "-->".toList
      | .pi => "<?".toList ++ escCdata txt ++ "?>".toList
      | .none => (if Node.truthy text then escCdata txt else []) ++ serializeList fmt children
      | .name t => element fmt t none attrs text (serializeList fmt children)
      | .qname q =>
        match splitQName q with
        | some (uri, t) => element fmt t (some uri) attrs text (serializeList fmt children)
        | none => []
    body ++ (if Node.truthy tail then escCdata (tail.getD []) else [])
def serializeList (fmt : Fmt) : List Node → Str
  | [] => []
  | n :: r => serialize fmt n ++ serializeList fmt r
def element (fmt : Fmt) (t : Str) (uri : Option Str) (attrs : List (Str × Str)) (text : Option Str) (kids : Str) : Str :=
  let open_ := '<' :: t ++ writeAttrs fmt (sortAttrs attrs) ++
    (match uri with
     | some (u :: us) => " xmlns=\"".toList ++ escAttrib (u :: us) ++ ['"']
     | _ => [])
  if fmt = .xhtml && isEmptyTag t then open_ ++ " />".toList
  else
    open_ ++ ['>'] ++
    (if Node.truthy text then (if isRawTextTag t then text.getD [] else escCdata (text.getD [])) else []) ++
    kids ++
    (if isEmptyTag t then [] else "</".toList ++ t ++ ['>'])
end

mutual
/-- does `_serialize_html` finish without the `ValueError` of a malformed `QName`?  Only the nodes it visits count:
    the children of a Comment / PI and (in xhtml) of a void element are never looked at. -/
def serializable (fmt : Fmt) : Node → Bool
  | ⟨tag, _, _, _, children, _, _⟩ =>
    match tag with
    | .comment => true
    | .pi => true
    | .none => serializableList fmt children
    | .name t => (fmt = .xhtml && isEmptyTag t) || serializableList fmt children
    | .qname q =>
      match splitQName q with
      | some (_, t) => (fmt = .xhtml && isEmptyTag t) || serializableList fmt children
      | none => false
def serializableList (fmt : Fmt) : List Node → Bool
  | [] => true
  | n :: r => serializable fmt n && serializableList fmt r
end

end MdVerif.Ser
