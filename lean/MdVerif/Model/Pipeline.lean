/-
Model of `Markdown.convert` (core.py) for the default configuration (no extensions), composed from the stage models:

  source ─ blank? ─ NormalizeWhitespace ─ HtmlBlockPreprocessor ─ BlockParser.parseDocument ─ InlineProcessor
         ─ PrettifyTreeprocessor ─ UnescapeTreeprocessor ─ serializer ─ strip `<div>` ─ RawHtmlPostprocessor
         ─ AndSubstitutePostprocessor ─ `.strip()`

The order of the stages is the order of the generated registries (`Props/C18.lean`, `C18_core_stage_order`).
Domain: text without `<` (for such text the raw-HTML extractor only re-spells character references:
`Extract.extract`); for other text `convert` answers `ood` (out of the modelled domain) — the extractor's decisions
on text with `<` are modelled separately at event level (`Model/ExtractEv.lean`).
-/
import MdVerif.Model.Normalize
import MdVerif.Model.Extract
import MdVerif.Model.Block
import MdVerif.Model.Inline
import MdVerif.Model.TreeProc
import MdVerif.Model.Post
import MdVerif.Model.Serializer

namespace MdVerif.Pipeline

inductive Outcome
  | ok (html : Str)
  | oof            -- a fuel bound of the model was exhausted (never observed; `C02` theorems bound the fuels)
  | err            -- the implementation raises here (`chr()` out of range in unescape, `ValueError` of the strip)
  | ood            -- outside the modelled domain
  deriving Repr, DecidableEq

structure Cfg where
  tab : Nat := 4
  fmt : Ser.Fmt := .xhtml
  esc : List Char := Generated.escapedChars
  blockLevel : List Str := TreeProc.defaultBlockLevel

/-- the text handed to the block parser -/
def prepare (cfg : Cfg) (src : Str) : Str := Extract.extract (Normalize.normalize cfg.tab src)

/-- the element tree handed to the serializer, with the HTML stash; `none` = out of fuel, `some none` = `err` -/
def tree (cfg : Cfg) (src : Str) : Option (Option (Node × List Str)) :=
  match Block.parseDocument cfg.tab (prepare cfg src) with
  | none => none
  | some (root, refs) =>
    -- `md.references` is a dict: the last definition of a label wins; the inline model looks up with `find?`
    match Inline.run { esc := cfg.esc, refs := refs.reverse } root with
    | none => none
    | some (t, st) =>
      match TreeProc.unescapeTree (TreeProc.prettify t cfg.blockLevel) with
      | none => some none
      | some u => some (some (u, st.html))

/-- `Markdown.convert(source)` -/
def convert (cfg : Cfg) (src : Str) : Outcome :=
  if src.contains '<' then .ood
  else if Normalize.isBlankDoc src then .ok []
  else
    match tree cfg src with
    | none => .oof
    | some none => .err
    | some (some (u, html)) =>
      match Post.finish cfg.blockLevel html (Ser.serialize cfg.fmt u) with
      | none => .oof
      | some none => .err
      | some (some out) => .ok out

end MdVerif.Pipeline
