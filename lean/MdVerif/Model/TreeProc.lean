/-
Model of `treeprocessors.PrettifyTreeprocessor` and `treeprocessors.UnescapeTreeprocessor`, and of
`Markdown.is_block_level`.
-/
import MdVerif.Model.Tree
import MdVerif.Generated.Tables

namespace MdVerif.TreeProc
open Py

def STX : Char := Char.ofNat 2
def ETX : Char := Char.ofNat 3

/-- `md.block_level_elements` as set up by `Markdown.__init__` -/
def defaultBlockLevel : List Str := Generated.blockLevelElements.map String.toList

/-- `md.is_block_level(tag)`: `False` for a tag that is not a string -/
def isBlockLevel (bl : List Str) (tag : Tag) : Bool :=
  match tag with
  | .name t => bl.contains (rstripC '/' (lower t))
  | _ => false

def blankOrNone (t : Option Str) : Bool := !Node.truthy t || isBlank (t.getD [])

def tagIs (n : Node) (t : String) : Bool := n.tag == .name t.toList

mutual
/-- `_prettifyETree(elem)` -/
def prettifyETree (bl : List Str) : Node → Node
  | ⟨tag, attrs, text, ta, children, tail, tla⟩ =>
    let block := isBlockLevel bl tag && !(tag == .name "code".toList) && !(tag == .name "pre".toList)
    let setText := block && blankOrNone text &&
      (match children with | c :: _ => isBlockLevel bl c.tag | [] => false)
    let children' := if block then prettifyKids bl children else children
    let setTail := blankOrNone tail
    ⟨tag, attrs, if setText then some ['\n'] else text, if setText then false else ta, children',
     if setTail then some ['\n'] else tail, if setTail then false else tla⟩
def prettifyKids (bl : List Str) : List Node → List Node
  | [] => []
  | c :: r => (if isBlockLevel bl c.tag then prettifyETree bl c else c) :: prettifyKids bl r
end

mutual
/-- apply `f` to every element (`root.iter()`); `f` does not change the number of children -/
def mapTree (f : Node → Node) : Node → Node
  | ⟨tag, attrs, text, ta, children, tail, tla⟩ => f ⟨tag, attrs, text, ta, mapKids f children, tail, tla⟩
def mapKids (f : Node → Node) : List Node → List Node
  | [] => []
  | c :: r => mapTree f c :: mapKids f r
end

/-- the `for br in root.iter('br')` loop body -/
def brRule (n : Node) : Node :=
  if tagIs n "br" then
    if blankOrNone n.tail then { n with tail := some ['\n'], tailAtomic := false }
    else { n with tail := some ('\n' :: n.tail.getD []), tailAtomic := false }
  else n

/-- the `for pre in root.iter('pre')` loop body -/
def preRule (n : Node) : Node :=
  if tagIs n "pre" then
    match n.children with
    | code :: rest =>
      if tagIs code "code" && code.children.isEmpty then
        match code.text with
        | some t => { n with children := { code with text := some (rstrip t ++ ['\n']), textAtomic := true } :: rest }
        | none => n
      else n
    | [] => n
  else n

/-- `PrettifyTreeprocessor.run(root)` -/
def prettify (root : Node) (bl : List Str := defaultBlockLevel) : Node :=
  mapTree preRule (mapTree brRule (prettifyETree bl root))

/-- `UnescapeTreeprocessor.unescape(text)`: `STX (\d+) ETX` ↦ `chr(int(…))`; `none` = `chr` raises (number above
    0x10FFFF) -/
def unescapeText : Nat → Str → Option Str
  | _, [] => some []
  | k + 1, _ :: s => unescapeText k s
  | 0, c :: s =>
    if c = STX then
      let d := spanLen isDecimal s
      if d > 0 && s[d]? == some ETX then
        let v := decToNat (s.take d)
        if v < 0x110000 then (unescapeText (d + 1) s).map (Char.ofNat v :: ·) else none
      else (unescapeText 0 s).map (c :: ·)
    else (unescapeText 0 s).map (c :: ·)

def unescAttrs : List (Str × Str) → Option (List (Str × Str))
  | [] => some []
  | (k, v) :: r =>
    match unescapeText 0 v, unescAttrs r with
    | some v', some r' => some ((k, v') :: r')
    | _, _ => none

mutual
/-- `UnescapeTreeprocessor.run(root)`; the result of `re.sub` is a plain `str` -/
def unescapeTree : Node → Option Node
  | ⟨tag, attrs, text, ta, children, tail, tla⟩ =>
    let doText := Node.truthy text && !(tag == .name "code".toList)
    let doTail := Node.truthy tail
    let text' : Option (Option Str) := if doText then (unescapeText 0 (text.getD [])).map some else some text
    let tail' : Option (Option Str) := if doTail then (unescapeText 0 (tail.getD [])).map some else some tail
    match text', tail', unescAttrs attrs, unescapeKids children with
    | some t, some tl, some a, some ks =>
      some ⟨tag, a, t, if doText then false else ta, ks, tl, if doTail then false else tla⟩
    | _, _, _, _ => none
def unescapeKids : List Node → Option (List Node)
  | [] => some []
  | c :: r =>
    match unescapeTree c, unescapeKids r with
    | some c', some r' => some (c' :: r')
    | _, _ => none
end

end MdVerif.TreeProc
