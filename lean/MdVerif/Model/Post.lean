/-
Model of `postprocessors.RawHtmlPostprocessor`, `postprocessors.AndSubstitutePostprocessor` and of the top-level
tag stripping in `Markdown.convert`.
-/
import MdVerif.Model.TreeProc

namespace MdVerif.Post
open Py

def STX : Char := Char.ofNat 2
def ETX : Char := Char.ofNat 3
/-- `util.HTML_PLACEHOLDER` up to the number -/
def htmlPrefix : Str := STX :: "wzxhzdk:".toList
def htmlPrefixLen : Nat := 9
/-- `util.AMP_SUBSTITUTE` -/
def ampSubstitute : Str := STX :: 'a' :: 'm' :: 'p' :: [ETX]

/-- `BLOCK_LEVEL_REGEX = ^\<\/?([^ >]+)` at the start of `html`: group 1.  When `</` is followed by a blank or `>`
    the optional `/` is given back and becomes the group. -/
def blockLevelGroup (html : Str) : Option Str :=
  let cls := fun (ch : Char) => ch != ' ' && ch != '>'
  match html with
  | '<' :: '/' :: r =>
    let n := spanLen cls r
    if n > 0 then some (r.take n) else some ['/']
  | '<' :: r =>
    let n := spanLen cls r
    if n > 0 then some (r.take n) else none
  | _ => none

/-- `RawHtmlPostprocessor.isblocklevel(html)` -/
def isBlockLevelHtml (bl : List Str) (html : Str) : Bool :=
  match blockLevelGroup html with
  | some (c :: g) =>
    if c = '!' || c = '?' || c = '@' || c = '%' then true else TreeProc.isBlockLevel bl (.name (c :: g))
  | _ => false

/-- at the start of `suf`: `STX wzxhzdk:([0-9]+) ETX` → digits and total length -/
def htmlPhAt (suf : Str) : Option (Str × Nat) :=
  if startsWith suf htmlPrefix then
    let r := suf.drop htmlPrefixLen
    let d := spanLen isAsciiDigit r
    if d > 0 && r[d]? == some ETX then some (r.take d, htmlPrefixLen + d + 1) else none
  else none

/-- `replacements[get_placeholder(i)]` for the key spelt with these digits (keys are `str(i)`, so no leading zeros) -/
def stashLookup (stash : List Str) (digits : Str) : Option Str :=
  let i := decToNat digits
  if natToDec i = digits then stash[i]? else none

/-- one `pattern.sub(substitute_match, text)` pass; `k` = characters of the current match still to skip -/
def subPass (bl : List Str) (stash : List Str) : Nat → Str → Str
  | _, [] => []
  | k + 1, _ :: s => subPass bl stash k s
  | 0, c :: s =>
    let suf := c :: s
    -- first alternative: `<p>` placeholder `</p>`
    let alt1 : Option (Str × Nat) :=
      if c = '<' && startsWith suf "<p>".toList then
        match htmlPhAt (suf.drop 3) with
        | some (digits, l) =>
          if startsWith (suf.drop (3 + l)) "</p>".toList then
            let len := 3 + l + 4
            match stashLookup stash digits with
            | some html =>
              if isBlockLevelHtml bl html then some (html, len)
              else some ("<p>".toList ++ html ++ "</p>".toList, len)
            | none => some (suf.take len, len)
          else none
        | none => none
      else none
    match alt1 with
    | some (out, len) => out ++ subPass bl stash (len - 1) s
    | none =>
      match (if c = STX then htmlPhAt suf else none) with
      | some (digits, l) =>
        match stashLookup stash digits with
        | some html => html ++ subPass bl stash (l - 1) s
        | none => suf.take l ++ subPass bl stash (l - 1) s
      | none => c :: subPass bl stash 0 s

/-- `RawHtmlPostprocessor.run(text)`: repeated until nothing changes; `none` = out of fuel (the implementation
    would hit the recursion limit) -/
def rawHtml (bl : List Str) (stash : List Str) : Nat → Str → Option Str
  | 0, _ => none
  | f + 1, text =>
    if stash.isEmpty then some text
    else
      let t := subPass bl stash 0 text
      if t = text then some t else rawHtml bl stash f t

/-- every productive pass removes at least one placeholder occurrence of the text or of an entry that was copied
    in; entries can contain placeholders of other entries, so the depth is bounded by the number of entries when
    the reference relation is acyclic -/
def rawHtmlFuel (stash : List Str) : Nat := stash.length + 3

/-- `AndSubstitutePostprocessor.run` -/
def ampSub (text : Str) : Str := replace text ampSubstitute ['&']

/-- `s.rindex(pat)` -/
def rfind (pat s : Str) : Option Nat :=
  (find pat.reverse s.reverse).map (fun i => s.length - i - pat.length)

/-- the stripping of `<div>` … `</div>` in `Markdown.convert`; `none` = the `ValueError` is re-raised -/
def topLevelStrip (output : Str) (docTag : Str := "div".toList) : Option Str :=
  let open_ := '<' :: docTag ++ ['>']
  let close := '<' :: '/' :: docTag ++ ['>']
  match find open_ output, rfind close output with
  | some i, some e => some (strip (sl output (i + docTag.length + 2) e))
  | _, _ => if endsWith (strip output) ('<' :: docTag ++ " />".toList) then some [] else none
where
  sl (s : Str) (a b : Nat) : Str := (s.take b).drop a

/-- both postprocessors in registry order -/
def post (bl : List Str) (stash : List Str) (text : Str) : Option Str :=
  (rawHtml bl stash (rawHtmlFuel stash) text).map ampSub

/-- the end of `convert` after serialisation: strip, postprocessors, `.strip()` -/
def finish (bl : List Str) (stash : List Str) (output : Str) : Option (Option Str) :=
  match topLevelStrip output with
  | none => some none
  | some t => (post bl stash t).map (fun r => some (strip r))

end MdVerif.Post
