/-
Model of `markdown.preprocessors.NormalizeWhitespace.run` and of the blank-document test of
`markdown.core.Markdown.convert`.

```
source = '\n'.join(lines)
source = source.replace(util.STX, "").replace(util.ETX, "")
source = source.replace("\r\n", "\n").replace("\r", "\n") + "\n\n"
source = source.expandtabs(self.md.tab_length)
source = re.sub(r'(?<![^\n]) +\n', '\n', source)
return source.split('\n')
```

`convert` calls it with `source.split("\n")`, and `'\n'.join(source.split('\n')) = source`, so the model works on the
source string.  Every step is a named function; `normalize` is their composition.  `runSteps` interprets a list of
steps (the translator emits the list it finds in the source); `normalize tab = runSteps tab defaultSteps`.

The regular expression `(?<![^\n]) +\n` matches a maximal run of one or more spaces that is *not preceded by a
character other than `\n`* — i.e. preceded by `\n` or at the very start of the text — and followed by `\n` (`re.sub`
scans left to right; the look-behind inspects the original text, so consecutive whitespace-only lines are all
matched).  `wsLines` therefore starts in the state "at a line start" (`some 0`).

History: up to commit a0e7e3c of the repository the pattern was `(?<=\n) +\n`, whose look-behind cannot succeed at
offset 0, so a whitespace-only *first* line was not emptied (finding F-C09-1); the model then started in the state
`none`.  The repair changed exactly that, and so did the model.
-/
import MdVerif.Py.Basic

namespace MdVerif.Normalize
open Py

/-- `util.STX` -/
def STX : Char := Char.ofNat 2
/-- `util.ETX` -/
def ETX : Char := Char.ofNat 3

/-- `source.replace(STX, "")` -/
def stripStx (s : Str) : Str := replace s [STX] []
/-- `source.replace(ETX, "")` -/
def stripEtx (s : Str) : Str := replace s [ETX] []
/-- both placeholder delimiters removed -/
def stripCtl (s : Str) : Str := stripEtx (stripStx s)
/-- `source.replace("\r\n", "\n")` -/
def crlf (s : Str) : Str := replace s ['\r', '\n'] ['\n']
/-- `source.replace("\r", "\n")` -/
def cr (s : Str) : Str := replace s ['\r'] ['\n']
/-- `source + "\n\n"` -/
def append2nl (s : Str) : Str := s ++ ['\n', '\n']

/-- `re.sub(r'(?<![^\n]) +\n', '\n', ·)` as a one-pass scanner.  State `none`: the previous character is not `\n`
    (and there is one).  State `some n`: a `\n` — or the start of the text — followed by `n` spaces has been read; the
    `\n` is already emitted, the spaces are withheld: they are dropped when the next character is `\n`, emitted
    otherwise. -/
def wsLinesAux : Option Nat → Str → Str
  | none, [] => []
  | some n, [] => List.replicate n ' '
  | none, c :: s => if c = '\n' then '\n' :: wsLinesAux (some 0) s else c :: wsLinesAux none s
  | some n, c :: s =>
    if c = ' ' then wsLinesAux (some (n + 1)) s
    else if c = '\n' then '\n' :: wsLinesAux (some 0) s
    else List.replicate n ' ' ++ c :: wsLinesAux none s

/-- `re.sub(r'(?<![^\n]) +\n', '\n', source)`: the scan starts at a line start (before the repair a0e7e3c of
    F-C09-1 the pattern was `(?<=\n) +\n` and the scan started in state `none`) -/
def wsLines (s : Str) : Str := wsLinesAux (some 0) s

/-- the string that `NormalizeWhitespace.run` splits into lines -/
def normalize (tab : Nat) (s : Str) : Str :=
  wsLines (expandtabs tab (append2nl (cr (crlf (stripCtl s)))))

/-- `NormalizeWhitespace(md).run(lines)` with `md.tab_length = tab` -/
def run (tab : Nat) (ls : List Str) : List Str := lines (normalize tab (joinLines ls))

/-! ### the same as an interpreted list of steps -/

/-- the statements of `NormalizeWhitespace.run`, in the vocabulary the translator recognises -/
inductive Step
  | stripStx | stripEtx | crlf | cr | append2nl | expandtabs | wsLineRegex
  deriving DecidableEq, Repr

def runStep (tab : Nat) : Step → Str → Str
  | .stripStx => stripStx
  | .stripEtx => stripEtx
  | .crlf => crlf
  | .cr => cr
  | .append2nl => append2nl
  | .expandtabs => expandtabs tab
  | .wsLineRegex => wsLines

def runSteps (tab : Nat) : List Step → Str → Str
  | [], s => s
  | st :: r, s => runSteps tab r (runStep tab st s)

/-- the steps in the order of the source -/
def defaultSteps : List Step :=
  [.stripStx, .stripEtx, .crlf, .cr, .append2nl, .expandtabs, .wsLineRegex]

theorem normalize_eq_runSteps (tab : Nat) (s : Str) : normalize tab s = runSteps tab defaultSteps s := rfl

/-! ### `Markdown.convert`: the blank-document shortcut -/

/-- `not source.strip()` -/
def isBlankDoc (s : Str) : Bool := (strip s).isEmpty

end MdVerif.Normalize
