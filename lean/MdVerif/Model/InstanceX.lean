/-
Concrete state machine of a `Markdown(extensions=[…])` instance (C11): what `md.convert(src)` does on an instance
that has converted other documents before, WITHOUT an intervening `md.reset()`, and what `md.reset()` does.

`PipelineX.convertX x cfg src` (`Model/PipelineX.lean`) is one conversion on a new / reset instance.  Between
conversions the implementation keeps (experiments: `harness/mirror/mirror_instance.py`; correspondence over random
histories: `harness/corr/instancex.py`):

  md.references                   dict — a reference defined in an earlier document resolves in a later one
  footnotes.footnotes             OrderedDict — the footnotes of earlier documents are rendered again
  abbr.abbrs                      dict — abbreviations of earlier documents are applied
      these three tables are the `log` of `Model/BlockExt.lean` (a log of table writes; `BlockExt.refsOf`,
      `footnotesOf`, `abbrsOf` decode it): the block parser of the next conversion starts from the carried log;
  md.htmlStash                    `rawHtmlBlocks` (`html_counter` is its length): the placeholders of the next
                                  document continue the numbering, `RawHtmlPostprocessor` looks at all blocks;
  footnotes.used_refs/found_refs  `Footnotes.State`: a later first reference to `[^1]` gets `fnref2:1`, and the
                                  duplicate back-links count the references of all documents.

Not carried, because not instance state across conversions: `InlineProcessor.stashed_nodes` (re-initialised by
every `run`), the ids the toc extension has seen (collected per run from the tree), `md.parser.state` (empty after
every conversion that returns; `reset()` clears it since the repair of F-C11-1).  Constant since construction:
`ESCAPED_CHARS`, `block_level_elements`, the registries, the configuration of the extensions.

Side outputs: `md.toc` and `md.toc_tokens` (flat: level, id, name of every heading in the toc depth, before
`nest_toc_tokens`) are written by `TocTreeprocessor.run` in every conversion that reaches it, cleared by `reset()`, and
read by nobody; a blank document returns before any stage runs and leaves them as they were.  They are kept in the
state (`toc`, `tocTokens`) so that "same side outputs" is part of the statements.

`convertS x cfg st src` threads the carried state through the SAME stage functions as `convertX`
(`Block.parseChunk` with the carried log, `Fenced.fencedLoopA` and `InlineX.runLoopX` with the carried stash and
footnote bookkeeping); on `fresh` it is `convertX` (`Props/C11X.lean`, `C11X_fresh_is_convertX`).

`convertSM on …` is the same with the `meta` extension (`on = true`; `Model/PipelineM.lean`): `MetaPreprocessor`
sets `md.Meta` in every conversion that reaches the preprocessors (side output `metaData`), `reset()` empties it.

A conversion whose outcome is not `ok` (the implementation raises part way through, or the document is outside
the modelled domain) leaves the instance in a state that is not modelled: `valid := false`, and every further
conversion answers `ood` until `reset()` — never a wrong answer.  `resetS` gives `fresh` whatever happened.
-/
import MdVerif.Model.PipelineM

namespace MdVerif.InstanceX
open Py Pipeline PipelineX

/-- the conversion-time state of an instance -/
structure MdSt where
  /-- `md.references`, `FootnoteExtension.footnotes`, `AbbrExtension.abbrs` as the log of their writes -/
  log : Block.Refs := []
  /-- `md.htmlStash.rawHtmlBlocks`; `html_counter` = its length -/
  html : List Str := []
  /-- `FootnoteExtension.used_refs`, `found_refs` -/
  fn : Footnotes.State := Footnotes.State.empty
  /-- `false` after a conversion that did not return normally (or was outside the modelled domain) -/
  valid : Bool := true
  /-- side output `md.toc` (with the `toc` extension; `''` after `reset()`); `none` = the model ran out of fuel in
      the postprocessors of the toc string (never observed; impossible when no stash entry contains STX,
      `C02_rawHtml_total`) — the answer of `convert` does not depend on it -/
  toc : Option Str := some []
  /-- side output `md.toc_tokens`, flat: (level, id, name) in document order -/
  tocTokens : List Toc.Tok := []
  /-- side output `md.Meta` (with the `meta` extension), as `list(md.Meta.items())` -/
  metaData : Meta.Dict := []
  deriving DecidableEq, Repr

/-- `Markdown(extensions=…)`: a new instance (the constructor ends with `self.reset()`) -/
def fresh : MdSt := {}

/-- `md.reset()`: `htmlStash.reset()`, `references.clear()`, `parser.state.clear()`, and the `reset()` of the
    registered extensions (footnotes: new table, `found_refs = {}`, `used_refs = set()`; abbr: `abbrs.clear()`, the
    glossary is empty in the default configuration; toc: the side outputs) -/
def resetS (_ : MdSt) : MdSt := fresh

/-- `md.references` -/
def MdSt.references (st : MdSt) : Block.Refs := BlockExt.refsOf st.log
/-- `FootnoteExtension.footnotes` -/
def MdSt.footnotes (st : MdSt) : List (Str × Str) := BlockExt.footnotesOf st.log
/-- `AbbrExtension.abbrs` -/
def MdSt.abbrs (st : MdSt) : List (Str × Str) := BlockExt.abbrsOf st.log

/-- `PipelineM.prepareT` (the preprocessors after the normalisation, on the text `t`) with the carried stash:
    `FencedBlockPreprocessor` numbers its placeholders from `html_counter` on -/
def prepareST (x : Exts) (_cfg : Cfg) (html : List Str) (t : Str) : FootnotesTree.R (Str × List Str) :=
  if x.admonition && admNonAscii t then .ood else
  if x.fencedCode then
    if x.attrList && fencedHasConfig (t.length + 1) t 0 html.length then .ood else
    match Fenced.fencedLoopA (t.length + 1) t 0 html with
    | .ok t' stash => .ok (Extract.extract t', stash)
    | _ => .oof
  else .ok (Extract.extract t, html)

/-- `PipelineX.prepareX` with the carried stash -/
def prepareS (x : Exts) (cfg : Cfg) (html : List Str) (src : Str) : FootnotesTree.R (Str × List Str) :=
  prepareST x cfg html (Normalize.normalize cfg.tab src)

/-- the side outputs of `TocTreeprocessor.run` on the tree `t` it is given: the tokens (before `nest_toc_tokens`) and
    `md.toc` = the serialised `div.toc` after all postprocessors.  (When `TocTree.run` answers, the first two matches
    take their `some` / `ok` branches: they are the first steps of `TocTree.run`.) -/
def tocSide (x : Exts) (cfg : Cfg) (html : List Str) (t : Node) : List Toc.Tok × Option Str :=
  match TocTree.usedIds (TocTree.idsOf t) with
  | none => ([], none)
  | some used =>
    match TocTree.walkNode { fmt := cfg.fmt, post := postX x cfg html } t { used := used, toks := [] } with
    | .ok (_, ts) => (ts.toks, postX x cfg html (Ser.serialize cfg.fmt (TocTree.buildDiv cfg.blockLevel ts.toks)))
    | _ => ([], none)

/-- result of the stages before the serializer, with the state afterwards -/
inductive TreeResultS
  | ok (tree : Node) (st : MdSt)
  | oof
  | err
  | ood

/-- `PipelineM.treeP` (the block parser and the tree processors, given the result of the preprocessors) from the
    state `st` -/
def treePS (x : Exts) (cfg : Cfg) (st : MdSt) (prep : FootnotesTree.R (Str × List Str)) : TreeResultS :=
  match prep with
  | .oof => .oof
  | .ood => .ood
  | .ok (text, stash) =>
    match Block.parseChunk (BlockExt.parseBlocksXT x.tables x.blockCfg cfg.tab (BlockExt.fuelForX text.length)) []
        st.log (Node.el "div") text with
    | none => .oof
    | some (root, log) =>
      -- footnote (50)
      let fnStage : FootnotesTree.R (Node × Block.Refs) :=
        if x.footnotes then
          match FootnotesTree.makeDiv (parseChunkX x cfg) fnCount (BlockExt.footnotesOf log) log with
          | .ok (some div, log') => .ok (FootnotesTree.placeDiv root div, log')
          | .ok (none, log') => .ok (root, log')
          | .oof => .oof
          | .ood => .ood
        else .ok (root, log)
      match fnStage with
      | .oof => .oof
      | .ood => .ood
      | .ok (root, log) =>
        -- inline (20)
        let xc : InlineX.XCfg :=
          { cfg := { esc := escX x cfg, refs := (refsX x log).reverse }
            table := InlineX.table x.footnotes x.wikilinks x.nl2br
            fnKeys := (BlockExt.footnotesOf log).map (·.1) }
        let f := Inline.runFuel root
        match InlineX.runLoopX xc f f root [[]] { st := { html := stash }, fn := st.fn } with
        | none => .oof
        | some (t, xs) =>
          -- footnote-duplicate (15)
          match (if x.footnotes then FootnotesTree.duplicates xs.fn t else some t) with
          | none => .err
          | some t =>
            let t := TreeProc.prettify t cfg.blockLevel
            let t := if x.attrList then AttrListTree.run cfg.blockLevel t else t
            let t := if x.abbr then AbbrTree.run (BlockExt.abbrsOf log) t else t
            let tocStage : TocTree.R Node :=
              if x.toc then
                TocTree.run { fmt := cfg.fmt, post := postX x cfg xs.st.html } cfg.blockLevel t
              else .ok t
            -- `self.md.toc_tokens = toc_tokens; self.md.toc = toc`
            let side : List Toc.Tok × Option Str :=
              if x.toc then tocSide x cfg xs.st.html t else (st.tocTokens, st.toc)
            match tocStage with
            | .oof => .oof
            | .err => .err
            | .ood => .ood
            | .ok t =>
              match TreeProc.unescapeTree t with
              | none => .err
              | some u =>
                .ok u { log := log, html := xs.st.html, fn := xs.fn, valid := true, toc := side.2, tocTokens := side.1,
                        metaData := st.metaData }

/-- `PipelineX.treeX` from the state `st` -/
def treeS (x : Exts) (cfg : Cfg) (st : MdSt) (src : Str) : TreeResultS :=
  treePS x cfg st (prepareS x cfg st.html src)

/-- the state after a conversion that did not return normally: not modelled until `reset()` -/
def MdSt.invalid (st : MdSt) : MdSt := { st with valid := false }

/-- `md.convert(src)` on an instance in state `st`: the outcome and the state afterwards -/
def convertS (x : Exts) (cfg : Cfg) (st : MdSt) (src : Str) : Outcome × MdSt :=
  if !st.valid then (.ood, st)
  else if src.contains '<' then (.ood, st.invalid)
  else if x.unsupported then (.ood, st.invalid)
  else if Normalize.isBlankDoc src then (.ok [], st)          -- `if not source.strip(): return ''`
  else
    match treeS x cfg st src with
    | .oof => (.oof, st.invalid)
    | .err => (.err, st.invalid)
    | .ood => (.ood, st.invalid)
    | .ok u st' =>
      match finishX x cfg st'.html (Ser.serialize cfg.fmt u) with
      | .ok out => (.ok out, st')
      | o => (o, st.invalid)

/-- `md.convert(src)` with the `meta` extension when `on` (`PipelineM.convertM`) on an instance in state `st`:
    `MetaPreprocessor` (27) runs on the normalised lines, sets `md.Meta`, and hands the remaining lines on -/
def convertSM (on : Bool) (x : Exts) (cfg : Cfg) (st : MdSt) (src : Str) : Outcome × MdSt :=
  if !st.valid then (.ood, st)
  else if Normalize.isBlankDoc src then (.ok [], st)
  else
    let r := PipelineM.metaStep on (Normalize.normalize cfg.tab src)
    let stm : MdSt := if on then { st with metaData := r.2 } else st          -- `self.md.Meta = meta`
    if r.1.contains '<' then (.ood, stm.invalid)
    else if x.unsupported then (.ood, stm.invalid)
    else
      match treePS x cfg stm (prepareST x cfg stm.html r.1) with
      | .oof => (.oof, stm.invalid)
      | .err => (.err, stm.invalid)
      | .ood => (.ood, stm.invalid)
      | .ok u st' =>
        match finishX x cfg st'.html (Ser.serialize cfg.fmt u) with
        | .ok out => (.ok out, st')
        | o => (o, stm.invalid)

/-- what happens to an instance -/
inductive Ev
  | convert (src : Str)
  | reset
  deriving DecidableEq, Repr

def applyEv (x : Exts) (cfg : Cfg) (st : MdSt) : Ev → MdSt
  | .convert s => (convertS x cfg st s).2
  | .reset => resetS st

/-- the state after a history -/
def runS (x : Exts) (cfg : Cfg) (st : MdSt) : List Ev → MdSt
  | [] => st
  | e :: h => runS x cfg (applyEv x cfg st e) h

def applyEvM (on : Bool) (x : Exts) (cfg : Cfg) (st : MdSt) : Ev → MdSt
  | .convert s => (convertSM on x cfg st s).2
  | .reset => resetS st

/-- the state after a history, with the `meta` extension when `on` -/
def runSM (on : Bool) (x : Exts) (cfg : Cfg) (st : MdSt) : List Ev → MdSt
  | [] => st
  | e :: h => runSM on x cfg (applyEvM on x cfg st e) h

def outcomesM (on : Bool) (x : Exts) (cfg : Cfg) (st : MdSt) : List Ev → List Outcome
  | [] => []
  | .convert s :: h => (convertSM on x cfg st s).1 :: outcomesM on x cfg (convertSM on x cfg st s).2 h
  | .reset :: h => outcomesM on x cfg (resetS st) h

/-- the outcomes of the conversions of a history, in order -/
def outcomes (x : Exts) (cfg : Cfg) (st : MdSt) : List Ev → List Outcome
  | [] => []
  | .convert s :: h => (convertS x cfg st s).1 :: outcomes x cfg (convertS x cfg st s).2 h
  | .reset :: h => outcomes x cfg (resetS st) h

end MdVerif.InstanceX
