/-
Extended block parser: the core block parser of `MdVerif/Model/Block.lean` plus the block processors that the
bundled extensions `admonition`, `def_list`, `footnotes`, `abbr` and `sane_lists` register, at their registry
priorities (`Generated/Tables.lean`, `registrations`):

    admonition 105 · empty 100 · indent 90 · defindent 85 · code 80 · hashheader 70 · setextheader 60 · hr 50 ·
    olist 40 · ulist 30 (replaced by the `Sane…` subclasses) · deflist 25 · quote 20 · footnote 17 · abbr 16 ·
    reference 15 · paragraph 10

`XCfg` says which extensions are enabled; all `false` is the core parser (`C16_core_cfg`).  The core processors
are the functions of `Block.lean`, called as they are.  (The `tables` processor is not modelled here; its
cell-splitting model is `Model/Ext/Tables.lean`.)

Domain: as `Block.lean` (no `<`, no `&`), default extension configuration, `tab ≥ 1`.

### the parser state

`FootnoteBlockProcessor` stores footnote bodies in `FootnoteExtension.footnotes` (an `OrderedDict`),
`AbbrBlockprocessor` stores / pops titles in `AbbrExtension.abbrs` (a `dict`), `ReferenceProcessor` stores in
`md.references`.  The core processors of `Block.lean` thread a value of the fixed type `Block.Refs` through all
recursive calls (`PB`); to reuse them unchanged, the three tables travel in that one value as a *log* of writes,
told apart by the key:

    reference  `(id, (url, title))`            id never contains `[` (`[^\[\]]*`, lower-cased, stripped)
    footnote   `('[^' ++ id, (body, none))`
    abbr set   `('*[' ++ abbr, (title, none))`  title ≠ ''
    abbr pop   `('*[' ++ abbr, ('', none))`

`XSt.ofLog` decodes a log into the three tables `{refs, footnotes, abbrs}` (dict semantics: a write to an existing
key keeps its position).  The block processors never read `md.references` or the footnote table; `abbrs.pop(abbr)`
reads the abbreviation table (it raises `KeyError` when the abbreviation is not defined).

### `none`

A result `none` of `parseBlocksX` means that the run does not complete: the fuel ran out (never with `fuelForX`),
or `AbbrBlockprocessor.run` raised `KeyError` (`*[X]: ''` with `X` undefined, see `abbrP`).
-/
import MdVerif.Model.Block

namespace MdVerif.BlockExt
open Py Block

/-- which of the five extensions are enabled -/
structure XCfg where
  admonition : Bool := false
  defList : Bool := false
  footnotes : Bool := false
  abbr : Bool := false
  saneLists : Bool := false
  deriving DecidableEq, Repr, Inhabited

/-- no extension: the core parser -/
def XCfg.core : XCfg := {}

/-! ### the three tables in one log -/

def fnKey (id : Str) : Str := '[' :: '^' :: id
def abKey (abbr : Str) : Str := '*' :: '[' :: abbr

def isFnEntry (e : Str × (Str × Option Str)) : Bool := startsWith e.1 ['[', '^']
def isAbEntry (e : Str × (Str × Option Str)) : Bool := startsWith e.1 ['*', '[']

/-- `d[k] = v` on an insertion-ordered dict -/
def dictSet (d : List (Str × Str)) (k v : Str) : List (Str × Str) :=
  if d.any (fun kv => kv.1 = k) then d.map (fun kv => if kv.1 = k then (k, v) else kv) else d ++ [(k, v)]

/-- `d.pop(k)` (for a key that is present) -/
def dictPop (d : List (Str × Str)) (k : Str) : List (Str × Str) := d.filter (fun kv => kv.1 ≠ k)

/-- `md.references` part of the log (a log itself: later entries win, `Block.lookupRef`) -/
def refsOf (log : Refs) : Refs := log.filter (fun e => !isFnEntry e && !isAbEntry e)

/-- `FootnoteExtension.footnotes` after the writes of the log -/
def footnotesOf (log : Refs) : List (Str × Str) :=
  log.foldl (fun d e => if isFnEntry e then dictSet d (e.1.drop 2) e.2.1 else d) []

/-- `AbbrExtension.abbrs` after the writes of the log -/
def abbrsOf (log : Refs) : List (Str × Str) :=
  log.foldl (fun d e =>
    if isAbEntry e then (if e.2.1.isEmpty then dictPop d (e.1.drop 2) else dictSet d (e.1.drop 2) e.2.1) else d) []

/-- the generalised parser state: `md.references`, the footnote table, the abbreviation table -/
structure XSt where
  refs : Refs
  footnotes : List (Str × Str)
  abbrs : List (Str × Str)
  deriving Repr, DecidableEq

def XSt.ofLog (log : Refs) : XSt := ⟨refsOf log, footnotesOf log, abbrsOf log⟩

/-! ### searching a pattern anchored at a line start (`^` under `re.MULTILINE`) -/

/-- first line start (`atStart` says whether the current position is one) where `f` accepts the rest of the string:
    its position and the value -/
def lineSearchAux (f : Str → Option α) : Bool → Nat → Str → Option (Nat × α)
  | atStart, i, [] => if atStart then (f []).map (fun a => (i, a)) else none
  | atStart, i, c :: r =>
    match (if atStart then f (c :: r) else none) with
    | some a => some (i, a)
    | none => lineSearchAux f (c = '\n') (i + 1) r

def lineSearch (f : Str → Option α) (s : Str) : Option (Nat × α) := lineSearchAux f true 0 s

/-- first position that is `0` or a newline where `f` accepts what follows the (optional) newline: for patterns
    `(?:^|\n)…` without `re.MULTILINE`.  The value comes with the number of characters the alternative took. -/
def nlSearchAux (f : Str → Option α) : Nat → Str → Option (Nat × Nat × α)
  | _, [] => none
  | i, c :: r =>
    if c = '\n' then
      match f r with
      | some a => some (i, 1, a)
      | none => nlSearchAux f (i + 1) r
    else nlSearchAux f (i + 1) r

def nlSearch (f : Str → Option α) (s : Str) : Option (Nat × Nat × α) :=
  match f s with
  | some a => some (0, 0, a)
  | none => nlSearchAux f 0 s

/-- `[ ]*(?:\n|$)` at the start of `s` (no `re.MULTILINE`; `$` before a final newline is the `\n` alternative):
    length consumed -/
def eolAfterSpaces (s : Str) : Option Nat :=
  let sp := countSp s
  match s.drop sp with
  | [] => some sp
  | c :: _ => if c = '\n' then some (sp + 1) else none

/-! ### admonition -/

def isWordDash (c : Char) : Bool := isWord c || c = '-'

/-- end of the last complete word of `[\w\-]+(?: +[\w\-]+)*` (greedy); `pos` = characters read so far -/
def admClassAux : Nat → Nat → Str → Nat
  | good, _, [] => good
  | good, pos, c :: r =>
    if isWordDash c then admClassAux (pos + 1) (pos + 1) r
    else if c = ' ' then admClassAux good (pos + 1) r
    else good

/-- length of the match of `[\w\-]+(?: +[\w\-]+)*` at the start of `s`; 0 = no match.  Giving characters back
    leaves a word character or a space where a space, `"`, newline or the end is required. -/
def admClassLen (s : Str) : Nat :=
  match s with
  | c :: _ => if isWordDash c then admClassAux 0 0 s else 0
  | [] => 0

/-- `(.*?)" *(?:\n|$)` after the opening quote (lazy: the first closing quote after which the line ends):
    length of the group and the length consumed after the closing quote -/
def admTitleClose : Nat → Str → Option (Nat × Nat)
  | _, [] => none
  | i, c :: r =>
    if c = '\n' then none
    else match (if c = '"' then eolAfterSpaces r else none) with
         | some k => some (i, k)
         | none => admTitleClose (i + 1) r

/-- `!!! ?([\w\-]+(?: +[\w\-]+)*)(?: +"(.*?)")? *(?:\n|$)` at the start of `s`: group 1, group 2, length -/
def admAt (s : Str) : Option (Str × Option Str × Nat) :=
  if startsWith s ['!', '!', '!'] then
    let s1 := s.drop 3
    let o := if startsWith s1 [' '] then 1 else 0
    let s2 := s1.drop o
    let w := admClassLen s2
    if w = 0 then none else
    let r := s2.drop w
    let sp := countSp r
    match (if sp ≥ 1 && r[sp]? == some '"' then admTitleClose 0 (r.drop (sp + 1)) else none) with
    | some (i, k) => some (s2.take w, some ((r.drop (sp + 1)).take i), 3 + o + w + sp + 1 + i + 1 + k)
    | none =>
      match eolAfterSpaces r with
      | some k => some (s2.take w, none, 3 + o + w + k)
      | none => none
  else none

/-- `AdmonitionProcessor.RE.search(block)`: `(m.start(), m.end(), group 1, group 2)` -/
def admSearch (block : Str) : Option (Nat × Nat × Str × Option Str) :=
  match nlSearch admAt block with
  | some (st, o, g1, g2, n) => some (st, st + o + n, g1, g2)
  | none => none

/-- `RE_SPACES.sub(' ', s)`: runs of two or more spaces become one space -/
def collapseSp : Str → Str
  | [] => []
  | c :: r =>
    match r with
    | [] => [c]
    | d :: _ => if c = ' ' && d = ' ' then collapseSp r else c :: collapseSp r

/-- `str.capitalize()` for a string whose first character is ASCII (a non-ASCII first character would need the
    title-case table: outside the model's domain, left unchanged) -/
def capitalize : Str → Str
  | [] => []
  | c :: r => (if isAsciiLower c then Char.ofNat (c.toNat - 32) else c) :: lower r

/-- `AdmonitionProcessor.get_class_and_title` -/
def admClassTitle (g1 : Str) (g2 : Option Str) : Str × Option Str :=
  let klass := collapseSp (lower g1)
  match g2 with
  | none => (klass, some (capitalize (klass.takeWhile (· != ' '))))
  | some [] => (klass, none)
  | some t => (klass, some t)

def isAdmList (n : Node) : Bool := n.isTag "ul" || n.isTag "ol" || n.isTag "dl"

/-- `sibling.tag == 'div' and sibling.get('class', '').find('admonition') != -1` -/
def isAdmDiv (n : Node) : Bool :=
  n.isTag "div" && contains ((n.getAttr "class".toList).getD []) "admonition".toList

mutual
/-- the `while last_child is not None` loop of `parse_content` from `sibling` on: the number of last-child links
    followed, the shortened block and the indent; `none` when `sibling` became `None` -/
def admSibNode (tab : Nat) (block : Str) (indent : Nat) : Node → Option (Nat × Str × Nat)
  | ⟨_, _, _, _, children, _, _⟩ => admSibKids tab block indent children
/-- `last_child = self.lastChild(sibling)` -/
def admSibKids (tab : Nat) (block : Str) (indent : Nat) : List Node → Option (Nat × Str × Nat)
  | [] => some (0, block, indent)
  | c :: r =>
    match r with
    | [] =>
      if startsWith block (spaces (tab * 2)) && isAdmList c then
        admLstNode tab (block.drop tab) (indent + tab) c
      else some (0, block, indent)
    | _ :: _ => admSibKids tab block indent r
def admLstNode (tab : Nat) (block : Str) (indent : Nat) : Node → Option (Nat × Str × Nat)
  | ⟨_, _, _, _, children, _, _⟩ => admLstKids tab block indent children
/-- `sibling = self.lastChild(last_child)` -/
def admLstKids (tab : Nat) (block : Str) (indent : Nat) : List Node → Option (Nat × Str × Nat)
  | [] => none
  | c :: r =>
    match r with
    | [] =>
      match admSibNode tab block indent c with
      | some (k, bl, ind) => some (k + 2, bl, ind)
      | none => none
    | _ :: _ => admLstKids tab block indent r
end

/-- `AdmonitionProcessor.parse_content` when `current_sibling` is not set: the sibling as a number of last-child
    steps from `parent` and `content_indent`; `none` = no sibling -/
def admContent (tab : Nat) (parent : Node) (block : Str) : Option (Nat × Nat) :=
  match parent.last? with
  | none => none
  | some sib =>
    if isAdmDiv sib then
      match admSibNode tab block 0 sib with
      | some (k, bl, ind) => if startsWith bl (spaces tab) then some (k + 1, ind + tab) else none
      | none => none
    else none

/-- what `AdmonitionProcessor.test` found -/
inductive AdmHit
  | re (st en : Nat) (g1 : Str) (g2 : Option Str)
  | sib (steps indent : Nat)

/-- `AdmonitionProcessor.test`: `none` = `False`.  (A successful `parse_content` leaves `current_sibling` set;
    `run` follows at once and consumes it.) -/
def admTest (tab : Nat) (parent : Node) (b : Str) : Option AdmHit :=
  match admSearch b with
  | some (st, en, g1, g2) => some (.re st en g1 g2)
  | none =>
    match admContent tab parent b with
    | some (k, ind) => some (.sib k ind)
    | none => none

def strAdmonition : Str := "admonition".toList
def strClass : Str := "class".toList

/-- `AdmonitionProcessor.run` -/
def admonitionP (tab : Nat) (pb : PB) (state : List BState) (refs : Refs) (parent : Node) (b : Str) (rest : List Str) :
    AdmHit → Option (Node × Refs × List Str)
  | .re st en g1 g2 =>
    match (if st > 0 then pb state refs parent [b.take st] else some (parent, refs)) with
    | none => none
    | some (parent, refs) =>
      let (block, theRest) := detab tab (b.drop en)
      let (klass, title) := admClassTitle g1 g2
      let div : Node := { Node.el "div" with attrs := [(strClass, strAdmonition ++ ' ' :: klass)] }
      let div :=
        if Node.truthy title then
          div.append { mkText "p" (title.getD []) with attrs := [(strClass, "admonition-title".toList)] }
        else div
      match parseChunk pb state refs div block with
      | some (div, refs) => some (parent.append div, refs, if theRest.isEmpty then rest else theRest :: rest)
      | none => none
  | .sib steps indent =>
    let sibling := nodeAt steps parent
    let (block, theRest) := detab indent b
    let sibling :=
      if (sibling.isTag "li" || sibling.isTag "dd") && Node.truthy sibling.text then
        { sibling with text := some [], textAtomic := false,
                       children := sibling.children ++
                         [{ Node.el "p" with text := sibling.text, textAtomic := sibling.textAtomic }] }
      else sibling
    match parseChunk pb state refs sibling block with
    | some (div, refs) =>
      some (updPath (fun _ => div) steps parent, refs, if theRest.isEmpty then rest else theRest :: rest)
    | none => none

/-! ### `ListIndentProcessor` with `ITEM_TYPES` / `LIST_TYPES` as parameters -/

def isListTagD (n : Node) : Bool := n.isTag "dl" || n.isTag "ol" || n.isTag "ul"
def isItemTagD (n : Node) : Bool := n.isTag "dd" || n.isTag "li"

mutual
def getLevelNodeX (isL isI : Node → Bool) (il level : Nat) : Node → Nat × Nat
  | ⟨_, _, _, _, children, _, _⟩ => getLevelKidsX isL isI il level children
def getLevelKidsX (isL isI : Node → Bool) (il level : Nat) : List Node → Nat × Nat
  | [] => (level, 0)
  | c :: r =>
    match r with
    | [] =>
      if il > level && (isL c || isI c) then
        let (l, s) := getLevelNodeX isL isI il (if isL c then level + 1 else level) c
        (l, s + 1)
      else (level, 0)
    | _ :: _ => getLevelKidsX isL isI il level r
end

/-- `ListIndentProcessor.get_level` with `LIST_TYPES` = `isL`, `ITEM_TYPES` = `isI` -/
def getLevelX (isL isI : Node → Bool) (tab : Nat) (state : List BState) (parent : Node) (block : Str) : Nat × Nat :=
  let k := countSp block
  let indentLevel := if k ≥ tab then k / tab else 0
  getLevelNodeX isL isI indentLevel (if isstate state .list then 1 else 0) parent

/-- `ListIndentProcessor.test` with the tag lists as parameters -/
def indentTestX (isL isI : Node → Bool) (tab : Nat) (state : List BState) (parent : Node) (b : Str) : Bool :=
  startsWith b (spaces tab) && !isstate state .detabbed &&
    (isI parent || (match parent.last? with | some c => isL c | none => false))

/-- `ListIndentProcessor.run` with the tag lists and the tag of `create_item` as parameters
    (`indentPX isListTag isItemTag "li" = indentP`, `indentPX_core`) -/
def indentPX (isL isI : Node → Bool) (itemTag : String) (tab : Nat) (pb : PB) (state : List BState) (refs : Refs)
    (parent : Node) (b : Str) (rest : List Str) : Option (Node × Refs × List Str) :=
  let (level, steps) := getLevelX isL isI tab state parent b
  let block := looseDetab tab b level
  let st2 := state ++ [.detabbed]
  let sibling := nodeAt steps parent
  if isI parent then
    match (match parent.last? with | some c => if isL c then some c else none | none => none) with
    | some c =>
      match pb st2 refs c [block] with
      | some (sub, refs) => some (parent.setLast sub, refs, rest)
      | none => none
    | none =>
      match pb st2 refs parent [block] with
      | some (parent, refs) => some (parent, refs, rest)
      | none => none
  else if isI sibling then
    match pb st2 refs sibling [block] with
    | some (sub, refs) => some (updPath (fun _ => sub) steps parent, refs, rest)
    | none => none
  else
    match (match sibling.last? with | some c => if isI c then some c else none | none => none) with
    | some li =>
      match parseChunk pb st2 refs (textToP li) block with
      | some (li, refs) => some (updPath (fun s => s.setLast li) steps parent, refs, rest)
      | none => none
    | none =>
      match pb st2 refs (Node.el itemTag) [block] with
      | some (li, refs) => some (updPath (fun s => s.append li) steps parent, refs, rest)
      | none => none

/-! ### `OListProcessor` with `SIBLING_TAGS`, `CHILD_RE`, `LAZY_OL` as parameters -/

/-- the class attributes / compiled patterns in which `SaneOListProcessor`, `SaneUListProcessor` differ from
    `OListProcessor`, `UListProcessor` -/
structure ListParams where
  /-- `sibling.tag in SIBLING_TAGS` -/
  sibOl : Bool
  sibUl : Bool
  /-- the marker alternatives of `CHILD_RE` -/
  childOl : Bool
  childUl : Bool
  /-- `LAZY_OL` -/
  lazy : Bool

/-- `OListProcessor` / `UListProcessor` -/
def ListParams.default : ListParams := ⟨true, true, true, true, true⟩
/-- `SaneOListProcessor` -/
def ListParams.saneOl : ListParams := ⟨true, false, true, false, false⟩
/-- `SaneUListProcessor` (`LAZY_OL` is inherited, `True`) -/
def ListParams.saneUl : ListParams := ⟨false, true, false, true, true⟩

def ListParams.isSib (p : ListParams) (n : Node) : Bool := (p.sibOl && n.isTag "ol") || (p.sibUl && n.isTag "ul")

def getItemsStepX (p : ListParams) (tab : Nat) (items : List Str) (line : Str) : List Str :=
  match listItemMatch tab p.childOl p.childUl line with
  | some (_, content) => items ++ [content]
  | none =>
    if indentItemMatch tab line then
      match items.getLast? with
      | some l => if startsWith l (spaces tab) then modifyLast (fun l => l ++ '\n' :: line) items
                  else items ++ [line]
      | none => items ++ [line]            -- `items[-1]` raises; unreachable
    else modifyLast (fun l => l ++ '\n' :: line) items

/-- `OListProcessor.get_items` with the `CHILD_RE` of `p` -/
def getItemsX (p : ListParams) (tab : Nat) (block : Str) : List Str := (lines block).foldl (getItemsStepX p tab) []

/-- `self.STARTSWITH` after `get_items(block)` for `TAG == 'ol'`: the digits of the marker of the first line
    (which matches `CHILD_RE`, the processor's `test` having accepted the block) -/
def startsWithOf (tab : Nat) (tag : String) (block : Str) : Str :=
  if tag == "ol" then
    match listItemMatch tab true false (firstLine block) with
    | some (marker, _) => marker.takeWhile isDecimal
    | none => ['1']
  else ['1']

/-- `OListProcessor.run` for the processor variant `p` -/
def listPX (p : ListParams) (tab : Nat) (pb : PB) (state : List BState) (refs : Refs) (parent : Node) (b : Str)
    (rest : List Str) (tag : String) : Option (Node × Refs × List Str) :=
  let items := getItemsX p tab b
  let st2 := state ++ [.list]
  match (match parent.last? with | some sib => if p.isSib sib then some sib else none | none => none) with
  | some lst =>
    let lst :=
      match lst.last? with
      | some li =>
        let li := textToP li
        let li :=
          match li.last? with
          | some lch =>
            if Node.truthy lch.tail then
              (li.setLast { lch with tail := some [], tailAtomic := false }).append
                (mkText "p" (lstrip (lch.tail.getD [])))
            else li
          | none => li
        lst.setLast li
      | none => lst
    match pb (state ++ [.looselist]) refs (Node.el "li") [items.headD []] with
    | none => none
    | some (newli, refs) =>
      match listItems tab pb st2 refs (lst.append newli) (items.drop 1) with
      | some (lst, refs) => some (parent.setLast lst, refs, rest)
      | none => none
  | none =>
    if isListTag parent then
      match listItems tab pb st2 refs parent items with
      | some (lst, refs) => some (lst, refs, rest)
      | none => none
    else
      -- `if not self.LAZY_OL and self.STARTSWITH != '1': lst.attrib['start'] = self.STARTSWITH`
      let start := startsWithOf tab tag b
      let fresh : Node :=
        if !p.lazy && start != ['1'] then { Node.el tag with attrs := [("start".toList, start)] }
        else Node.el tag
      match listItems tab pb st2 refs fresh items with
      | some (lst, refs) => some (parent.append lst, refs, rest)
      | none => none

/-! ### definition lists -/

/-- `[ ]{0,3}:[ ]{1,3}(.*?)(\n|$)` at the start of `s`: group 2 and the length consumed -/
def defAt (s : Str) : Option (Str × Nat) :=
  let k := countPrefix ' ' (some 3) s
  match s.drop k with
  | c :: r =>
    if c = ':' then
      let sp := countPrefix ' ' (some 3) r
      if sp = 0 then none else
      let g := (r.drop sp).takeWhile notNl
      let nl := if startsWith ((r.drop sp).drop g.length) ['\n'] then 1 else 0
      some (g, k + 1 + sp + g.length + nl)
    else none
  | [] => none

/-- `DefListProcessor.RE.search(block)`: `(m.start(), m.end(), group 2)` -/
def defSearch (block : Str) : Option (Nat × Nat × Str) :=
  match nlSearch defAt block with
  | some (st, o, g, n) => some (st, st + o + n, g)
  | none => none

/-- `NO_INDENT_RE.match(block)`, `^[ ]{0,3}[^ :]` -/
def defNoIndent (block : Str) : Bool :=
  match block.drop (countPrefix ' ' (some 3) block) with
  | c :: _ => c != ' ' && c != ':'
  | [] => false

/-- drop the last child -/
def dropLastChild (n : Node) : Node := { n with children := n.children.dropLast }

def addTerms (dl : Node) (terms : List Str) : Node :=
  { dl with children := dl.children ++ terms.map (fun t => mkText "dt" t) }

/-- `DefListProcessor.run`; outer `none` = the processor returned `False` (the block goes to the next
    processor), inner `none` = no result from a recursive call -/
def defListP (tab : Nat) (pb : PB) (state : List BState) (refs : Refs) (parent : Node) (b : Str) (rest : List Str)
    (m : Nat × Nat × Str) : Option (Option (Node × Refs × List Str)) :=
  let (st, en, g2) := m
  let terms := ((lines (b.take st)).map strip).filter (fun t => !t.isEmpty)
  let block := b.drop en
  let (d, theRest) := if defNoIndent block then (block, []) else detab tab block
  let d := if d.isEmpty then g2 else g2 ++ '\n' :: d
  match parent.last? with
  | none => if terms.isEmpty then none else
    -- a new list in an empty parent
    some (
      match pb (state ++ [.list]) refs (Node.el "dd") [d] with
      | some (dd, refs) =>
        some (parent.append ((addTerms (Node.el "dl") terms).append dd), refs,
              if theRest.isEmpty then rest else theRest :: rest)
      | none => none)
  | some sibling =>
    -- `if not terms and sibling.tag == 'p'`: the previous paragraph holds the terms
    let fromP := terms.isEmpty && sibling.isTag "p"
    let st1 : BState := if fromP then .looselist else .list
    let terms := if fromP then lines (sibling.text.getD []) else terms
    let parent := if fromP then dropLastChild parent else parent
    some (
      match (match parent.last? with | some s => if s.isTag "dl" then some s else none | none => none) with
      | some dl =>
        let st1 : BState :=
          if terms.isEmpty &&
             (match dl.last? with | some l => l.isTag "dd" && !l.children.isEmpty | none => false) then .looselist
          else st1
        match pb (state ++ [st1]) refs (Node.el "dd") [d] with
        | some (dd, refs) =>
          some (parent.setLast ((addTerms dl terms).append dd), refs, if theRest.isEmpty then rest else theRest :: rest)
        | none => none
      | none =>
        match pb (state ++ [st1]) refs (Node.el "dd") [d] with
        | some (dd, refs) =>
          some (parent.append ((addTerms (Node.el "dl") terms).append dd), refs,
                if theRest.isEmpty then rest else theRest :: rest)
        | none => none)

/-! ### footnote definitions -/

/-- `[ ]{0,3}\[\^([^\]]*)\]:[ ]*(.*)$` at a line start: group 1, group 2, length (`[^\]]*` crosses newlines) -/
def fnAt (s : Str) : Option (Str × Str × Nat) :=
  let k := countPrefix ' ' (some 3) s
  let s1 := s.drop k
  if startsWith s1 ['[', '^'] then
    let s2 := s1.drop 2
    let n := spanLen (fun c => c != ']') s2
    if s2[n]? == some ']' && s2[n + 1]? == some ':' then
      let r := s2.drop (n + 2)
      let sp := countSp r
      let g := (r.drop sp).takeWhile notNl
      some (s2.take n, g, k + 2 + n + 2 + sp + g.length)
    else none
  else none

/-- `FootnoteBlockProcessor.RE.search(s)` (`re.MULTILINE`): `(m.start(), (group 1, group 2, m.end() - m.start()))` -/
def fnSearch (s : Str) : Option (Nat × Str × Str × Nat) := lineSearch fnAt s

/-- `FootnoteBlockProcessor.detab` (the 4 is fixed, not `tab_length`) -/
def fnDetab (block : Str) : Str := looseDetab 4 block 1

/-- `FootnoteBlockProcessor.detectTabbed(blocks)`: the blocks of the footnote and what is left of `blocks` -/
def detectTabbed : List Str → List Str × List Str
  | [] => ([], [])
  | b :: r =>
    if startsWith b (spaces 4) then
      match fnSearch b with
      | some (st, _) => ([fnDetab (rstripC '\n' (b.take st))], b.drop st :: r)
      | none =>
        let (f, rem) := detectTabbed r
        (fnDetab b :: f, rem)
    else ([], b :: r)

/-- `FootnoteBlockProcessor.run`; `none` = returned `False` -/
def footnoteP (refs : Refs) (b : Str) (rest : List Str) : Option (Refs × List Str) :=
  match fnSearch b with
  | none => none
  | some (st, id, g2, n) =>
    let therest := lstripC '\n' (b.drop (st + n))
    let (fnBlocks, rest) :=
      match fnSearch therest with
      | some (st2, _) =>
        ([lstripC '\n' (g2 ++ '\n' :: fnDetab (rstripC '\n' (therest.take st2)))], therest.drop st2 :: rest)
      | none =>
        let (more, rem) := detectTabbed rest
        (stripC '\n' (g2 ++ '\n' :: fnDetab therest) :: more, rem)
    let footnote := rstrip (join ['\n', '\n'] fnBlocks)
    let refs := refs ++ [(fnKey id, (footnote, none))]
    let rest := if isBlank (b.take st) then rest else rstripC '\n' (b.take st) :: rest
    some (refs, rest)

/-! ### abbreviation definitions -/

/-- `[^\\]*?` then `\][ ]?:` (lazy: the first `]` followed by `:` or ` :`): length of the group -/
def abbrClose : Nat → Str → Option Nat
  | _, [] => none
  | i, c :: r =>
    if c = ']' && (startsWith r [':'] || startsWith r [' ', ':']) then some i
    else if c = '\\' then none
    else abbrClose (i + 1) r

/-- `[*]\[(?P<abbr>[^\\]*?)\][ ]?:[ ]*\n?[ ]*(?P<title>.*)$` at a line start: abbr, title, length -/
def abbrAt (s : Str) : Option (Str × Str × Nat) :=
  if startsWith s ['*', '['] then
    let s1 := s.drop 2
    match abbrClose 0 s1 with
    | none => none
    | some n =>
      let r0 := s1.drop (n + 1)
      let o := if startsWith r0 [' '] then 1 else 0
      let r := r0.drop (o + 1)
      let sp1 := countSp r
      let nl := if startsWith (r.drop sp1) ['\n'] then 1 else 0
      let r2 := r.drop (sp1 + nl)
      let sp2 := countSp r2
      let t := (r2.drop sp2).takeWhile notNl
      some (s1.take n, t, 2 + n + 1 + o + 1 + sp1 + nl + sp2 + t.length)
  else none

/-- `AbbrBlockprocessor.RE.search(s)` (`re.MULTILINE`) -/
def abbrSearch (s : Str) : Option (Nat × Str × Str × Nat) := lineSearch abbrAt s

/-- the outcome of a `run` that may return `False` or raise -/
inductive Res (α : Type)
  | declined
  | raised
  | ok (a : α)

/-- `AbbrBlockprocessor.run`.  (Before the repair of F-C02-4 `self.abbrs.pop(abbr)` raised `KeyError` when `abbr` had no
    definition; the `raised` outcome is kept in `Res` but no longer produced.) -/
def abbrP (refs : Refs) (b : Str) (rest : List Str) : Res (Refs × List Str) :=
  match abbrSearch b with
  | none => .declined
  | some (st, abbr0, title0, n) =>
    let abbr := strip abbr0
    let title := strip title0
    if title.isEmpty || abbr.isEmpty then .declined else
    let en := st + n
    let rest := if isBlank (b.drop en) then rest else lstripC '\n' (b.drop en) :: rest
    let rest := if isBlank (b.take st) then rest else rstripC '\n' (b.take st) :: rest
    if title = ['\'', '\''] || title = ['"', '"'] then
      if (abbrsOf refs).any (fun kv => kv.1 = abbr) then .ok (refs ++ [(abKey abbr, ([], none))], rest)
      else .ok (refs, rest)   -- `self.abbrs.pop(abbr, None)`: removing an undefined abbreviation is a no-op (repair of F-C02-4)
    else .ok (refs ++ [(abKey abbr, (title, none))], rest)

/-! ### the dispatcher -/

/-- reference (15), paragraph (10) -/
def tailRef (state : List BState) (refs : Refs) (parent : Node) (b : Str) (rest : List Str) :
    Option (Node × Refs × List Str) :=
  match refSearch b with
  | some m => some (referenceP refs parent b rest m)
  | none => some (paraP state refs parent b rest)

/-- abbr (16) and below -/
def tailAbbr (cfg : XCfg) (state : List BState) (refs : Refs) (parent : Node) (b : Str) (rest : List Str) :
    Option (Node × Refs × List Str) :=
  if cfg.abbr then
    match abbrP refs b rest with
    | .ok (refs, rest) => some (parent, refs, rest)
    | .raised => none
    | .declined => tailRef state refs parent b rest
  else tailRef state refs parent b rest

/-- footnote (17) and below -/
def tailFootnote (cfg : XCfg) (state : List BState) (refs : Refs) (parent : Node) (b : Str) (rest : List Str) :
    Option (Node × Refs × List Str) :=
  if cfg.footnotes then
    match footnoteP refs b rest with
    | some (refs, rest) => some (parent, refs, rest)
    | none => tailAbbr cfg state refs parent b rest
  else tailAbbr cfg state refs parent b rest

/-- quote (20) and below -/
def tailQuote (cfg : XCfg) (pb : PB) (state : List BState) (refs : Refs) (parent : Node) (b : Str)
    (rest : List Str) : Option (Node × Refs × List Str) :=
  match quoteSearch b with
  | some q => quoteP pb state refs parent b rest q
  | none => tailFootnote cfg state refs parent b rest

/-- deflist (25) and below -/
def tailDef (cfg : XCfg) (tab : Nat) (pb : PB) (state : List BState) (refs : Refs) (parent : Node) (b : Str)
    (rest : List Str) : Option (Node × Refs × List Str) :=
  if cfg.defList then
    match defSearch b with
    | some m =>
      match defListP tab pb state refs parent b rest m with
      | some r => r
      | none => tailQuote cfg pb state refs parent b rest
    | none => tailQuote cfg pb state refs parent b rest
  else tailQuote cfg pb state refs parent b rest

/-- olist (40), ulist (30) and below -/
def tailList (cfg : XCfg) (tab : Nat) (pb : PB) (state : List BState) (refs : Refs) (parent : Node) (b : Str)
    (rest : List Str) : Option (Node × Refs × List Str) :=
  if (listItemMatch tab true false b).isSome then
    (if cfg.saneLists then listPX .saneOl tab pb state refs parent b rest "ol"
     else listP tab pb state refs parent b rest "ol")
  else if (listItemMatch tab false true b).isSome then
    (if cfg.saneLists then listPX .saneUl tab pb state refs parent b rest "ul"
     else listP tab pb state refs parent b rest "ul")
  else tailDef cfg tab pb state refs parent b rest

/-- empty (100) and below -/
def tailEmpty (cfg : XCfg) (tab : Nat) (pb : PB) (state : List BState) (refs : Refs) (parent : Node) (b : Str)
    (rest : List Str) : Option (Node × Refs × List Str) :=
  -- empty (100)
  if b.isEmpty || startsWith b ['\n'] then some (emptyP refs parent b rest)
  -- indent (90)
  else if startsWith b (spaces tab) && !isstate state .detabbed &&
      (isItemTag parent || (match parent.last? with | some c => isListTag c | none => false)) then
    indentP tab pb state refs parent b rest
  -- defindent (85)
  else if cfg.defList && indentTestX isListTagD isItemTagD tab state parent b then
    indentPX isListTagD isItemTagD "dd" tab pb state refs parent b rest
  -- code (80)
  else if startsWith b (spaces tab) then some (codeP tab refs parent b rest)
  else
  -- hashheader (70)
  match hashSearch b with
  | some m => hashP tab pb state refs parent b rest m
  | none =>
  -- setextheader (60)
  if setextMatch b then some (setextP refs parent b rest) else
  -- hr (50)
  match hrSearch b with
  | some m => hrP pb state refs parent b rest m
  | none => tailList cfg tab pb state refs parent b rest

/-- one turn of the `while blocks:` loop of `BlockParser.parseBlocks` with the extensions of `cfg` -/
def dispatchX (cfg : XCfg) (tab : Nat) (pb : PB) (state : List BState) (refs : Refs) (parent : Node) (b : Str)
    (rest : List Str) : Option (Node × Refs × List Str) :=
  -- admonition (105)
  match (if cfg.admonition then admTest tab parent b else none) with
  | some hit => admonitionP tab pb state refs parent b rest hit
  | none => tailEmpty cfg tab pb state refs parent b rest

/-- `BlockParser.parseBlocks` with the extensions of `cfg`; `none`: see the header -/
def parseBlocksX (cfg : XCfg) (tab : Nat) : Nat → PB
  | _, _, refs, parent, [] => some (parent, refs)
  | 0, _, _, _, _ :: _ => none
  | f + 1, state, refs, parent, b :: rest =>
    match dispatchX cfg tab (parseBlocksX cfg tab f) state refs parent b rest with
    | some (parent, refs, blocks) => parseBlocksX cfg tab f state refs parent blocks
    | none => none

/-- as `Block.fuelFor`: the extension processors, too, replace a block by blocks of smaller total measure and
    recurse on strictly shorter text (or, `defindent`, in state detabbed) -/
def fuelForX (len : Nat) : Nat := 2 * len + 10

/-- the tree and the log of table writes -/
def parseDocumentLogWith (cfg : XCfg) (tab fuel : Nat) (text : Str) : Option (Node × Refs) :=
  parseChunk (parseBlocksX cfg tab fuel) [] [] (Node.el "div") text

def parseDocumentLog (cfg : XCfg) (tab : Nat) (text : Str) : Option (Node × Refs) :=
  parseDocumentLogWith cfg tab (fuelForX text.length) text

/-- `BlockParser.parseDocument('\n'.join(lines))` with the extensions of `cfg`: the tree, `md.references`, the
    footnote table and the abbreviation table -/
def parseDocumentX (cfg : XCfg) (tab : Nat) (text : Str) : Option (Node × XSt) :=
  (parseDocumentLog cfg tab text).map (fun r => (r.1, XSt.ofLog r.2))

end MdVerif.BlockExt
