/-
Model of the command line of `python -m markdown` (C20): `markdown.__main__.parse_options`, i.e. `optparse` driven by
the option table of the source.

The option table (`-f --file`, `-e --encoding`, `-o --output_format`, `-n --no_lazy_ol`, `-x --extension`,
`-c --extension_configs`, `-q --quiet`, `-v --verbose`, `--noisy`) is REGENERATED from the `parser.add_option(...)`
calls by `harness/translate.py` (`Generated.cliOptions`); `optparse` itself adds `--version` and `-h --help`.
`optparse` (standard library) is modelled as far as `parse_options` uses it:

* `--name value`, `--name=value`, unique prefixes of long names (`--out x`), an exact name wins over a prefix;
* `-f value`, `-fvalue`, clusters `-nq`, `-nfvalue`; a value is taken verbatim even if it starts with `-`;
* `--` ends the options, a lone `-` and anything else is positional, options and positionals may be interspersed;
* unknown / ambiguous option, missing value, value given to a flag: `parser.error` (`SystemExit(2)`) → `Err.usage`;
* `-h`, `--help`, `--version` print and `SystemExit(0)` → `Err.exit0`, at the moment they are met.

The result is the keyword dictionary handed to `markdown.markdownFromFile(**options)` and the logging level.
The YAML/JSON file named by `-c` is read by `parse_options` (I/O, with `options.encoding`); the model keeps its name.

Core Lean only; everything is structurally recursive.
-/
import MdVerif.Py.Basic
import MdVerif.Py.Except
import MdVerif.Generated.Tables

namespace MdVerif.Cli
open MdVerif

inductive Err
  | usage     -- `parser.error(...)`: exit status 2
  | exit0     -- `--help` / `--version`: exit status 0
  deriving DecidableEq, Repr

/-- what `parse_options` returns: the keyword arguments of `markdownFromFile` and the logging level -/
structure Opts where
  input : Option Str          -- `input`:   the first positional argument (None: stdin)
  output : Option Str         -- `output`:  `-f` (None: stdout)
  extensions : List Str       -- `extensions`: every `-x`, in order
  configfile : Option Str     -- `-c`: the file `extension_configs` is loaded from (when non-empty)
  encoding : Option Str       -- `encoding`: `-e`
  outputFormat : Str          -- `output_format`: `-o`
  lazyOl : Bool               -- `lazy_ol`: cleared by `-n`
  verbose : Nat               -- second component: the logging level
  deriving DecidableEq, Repr

/-- the declared defaults (`Generated.cliDefaults`: checked equal in `Props/C20`) -/
def defaults : Opts :=
  { input := none, output := none, extensions := [], configfile := none, encoding := none,
    outputFormat := ['x', 'h', 't', 'm', 'l'], lazyOl := true, verbose := 50 }

/-- the effect of an option -/
inductive Act
  | file | encoding | outputFormat | configfile     -- `store` into that destination
  | extension                                       -- `append`
  | noLazyOl                                        -- `store_false`
  | level (n : Nat)                                 -- `store_const`
  | help | version
  deriving DecidableEq, Repr

def Act.takesValue : Act → Bool
  | .file | .encoding | .outputFormat | .configfile | .extension => true
  | _ => false

/-- the action of a row `(short, long, dest, action, const)` of the generated table -/
def actOf (dest action const : Str) : Option Act :=
  if action = ['s', 't', 'o', 'r', 'e'] then
    if dest = ['f', 'i', 'l', 'e', 'n', 'a', 'm', 'e'] then some .file
    else if dest = ['e', 'n', 'c', 'o', 'd', 'i', 'n', 'g'] then some .encoding
    else if dest = ['o', 'u', 't', 'p', 'u', 't', '_', 'f', 'o', 'r', 'm', 'a', 't'] then some .outputFormat
    else if dest = ['c', 'o', 'n', 'f', 'i', 'g', 'f', 'i', 'l', 'e'] then some .configfile
    else none
  else if action = ['a', 'p', 'p', 'e', 'n', 'd'] ∧ dest = ['e', 'x', 't', 'e', 'n', 's', 'i', 'o', 'n', 's'] then
    some .extension
  else if action = ['s', 't', 'o', 'r', 'e', '_', 'f', 'a', 'l', 's', 'e'] ∧ dest = ['l', 'a', 'z', 'y', '_', 'o', 'l'] then
    some .noLazyOl
  else if action = ['s', 't', 'o', 'r', 'e', '_', 'c', 'o', 'n', 's', 't'] ∧ dest = ['v', 'e', 'r', 'b', 'o', 's', 'e'] then
    some (.level (Py.decToNat const))
  else none

/-- the options of the parser: (short flag, long name, action); `optparse` contributes `--version` and `-h --help` -/
def options : List (Option Char × Str × Act) :=
  [(none, ['v', 'e', 'r', 's', 'i', 'o', 'n'], Act.version), (some 'h', ['h', 'e', 'l', 'p'], Act.help)] ++
  Generated.cliOptions.filterMap (fun r =>
    (actOf r.2.2.1 r.2.2.2.1 r.2.2.2.2).map (fun a => (r.1.head?, r.2.1, a)))

def lookupShort (ch : Char) : Option Act :=
  (options.find? (fun o => o.1 = some ch)).map (·.2.2)

/-- `OptionParser._match_abbrev`: an exact long name, else the only long name it is a prefix of -/
def matchAbbrev (name : Str) : Option Act :=
  match options.find? (fun o => o.2.1 = name) with
  | some o => some o.2.2
  | none =>
    match options.filter (fun o => Py.startsWith o.2.1 name) with
    | [o] => some o.2.2
    | _ => none

/-- store the value of an option that takes one -/
def applyVal (a : Act) (v : Str) (o : Opts) : Opts :=
  match a with
  | .file => { o with output := some v }
  | .encoding => { o with encoding := some v }
  | .outputFormat => { o with outputFormat := v }
  | .configfile => { o with configfile := some v }
  | .extension => { o with extensions := o.extensions ++ [v] }
  | _ => o

/-- perform an option that takes no value -/
def applyFlag (a : Act) (o : Opts) : Except Err Opts :=
  match a with
  | .noLazyOl => .ok { o with lazyOl := false }
  | .level n => .ok { o with verbose := n }
  | .help | .version => .error .exit0
  | _ => .ok o

/-- `_process_short_opts` on the characters after the `-`; `next` is the following argument, if any.
    Answers the new state and whether `next` was consumed. -/
def shortOpts : Str → Option Str → Opts → Except Err (Opts × Bool)
  | [], _, o => .ok (o, false)
  | ch :: rest, next, o =>
    match lookupShort ch with
    | none => .error .usage                                   -- no such option
    | some a =>
      if a.takesValue then
        if !rest.isEmpty then .ok (applyVal a rest o, false)  -- `-fvalue`
        else match next with
             | some v => .ok (applyVal a v o, true)           -- `-f value`
             | none => .error .usage                          -- requires 1 argument
      else
        match applyFlag a o with
        | .error e => .error e
        | .ok o' => shortOpts rest next o'

/-- `name=value` → (`name`, some `value`); no `=` → (`name`, none) -/
def splitEq : Str → Str × Option Str
  | [] => ([], none)
  | c :: r => if c = '=' then ([], some r) else let p := splitEq r; (c :: p.1, p.2)

/-- `_process_long_opt` on the text after the `--` -/
def longOpt (body : Str) (next : Option Str) (o : Opts) : Except Err (Opts × Bool) :=
  let p := splitEq body
  match matchAbbrev p.1 with
  | none => .error .usage                                     -- no such option / ambiguous option
  | some a =>
    if a.takesValue then
      match p.2 with
      | some v => .ok (applyVal a v o, false)
      | none =>
        match next with
        | some v => .ok (applyVal a v o, true)
        | none => .error .usage
    else if p.2.isSome then .error .usage                     -- option does not take a value
    else
      match applyFlag a o with
      | .error e => .error e
      | .ok o' => .ok (o', false)

/-- `_process_args`: `skip` = the current argument was consumed as the value of the previous option.
    Answers the option values and the positional arguments (`largs + rargs`). -/
def go : Bool → List Str → Opts → List Str → Except Err (Opts × List Str)
  | _, [], o, pos => .ok (o, pos)
  | true, _ :: r, o, pos => go false r o pos
  | false, a :: r, o, pos =>
    if a = ['-', '-'] then .ok (o, pos ++ r)
    else
      match a with
      | '-' :: '-' :: body =>
        match longOpt body r.head? o with
        | .error e => .error e
        | .ok (o', used) => go used r o' pos
      | '-' :: c :: cs =>
        match shortOpts (c :: cs) r.head? o with
        | .error e => .error e
        | .ok (o', used) => go used r o' pos
      | _ => go false r o (pos ++ [a])

/-- `parse_options(args)` -/
def parseArgs (args : List Str) : Except Err Opts :=
  match go false args defaults [] with
  | .error e => .error e
  | .ok (o, pos) => .ok { o with input := pos.head? }

/-- `if options.configfile:` — the configuration file that is actually opened -/
def Opts.configLoaded (o : Opts) : Option Str := o.configfile.filter (fun f => !f.isEmpty)

/-! ### printing a command line -/

def levelFlag (n : Nat) : List Str :=
  if n = 60 then [['-', 'q']]
  else if n = 30 then [['-', 'v']]
  else if n = 10 then [['-', '-', 'n', 'o', 'i', 's', 'y']]
  else []

def optArg (flag : Str) : Option Str → List Str
  | some v => [flag, v]
  | none => []

/-- a command line that asks for `o` -/
def render (o : Opts) : List Str :=
  optArg ['-', 'f'] o.output ++
  optArg ['-', 'e'] o.encoding ++
  [['-', 'o'], o.outputFormat] ++
  (if o.lazyOl then [] else [['-', 'n']]) ++
  o.extensions.flatMap (fun e => [['-', 'x'], e]) ++
  optArg ['-', 'c'] o.configfile ++
  levelFlag o.verbose ++
  optArg ['-', '-'] o.input

/-- the logging levels the command line can ask for: the default and the three flags -/
def WF (o : Opts) : Prop := o.verbose = 50 ∨ o.verbose = 60 ∨ o.verbose = 30 ∨ o.verbose = 10

end MdVerif.Cli
