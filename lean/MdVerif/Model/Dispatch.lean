/-
Model of how the five processor registries are *used*.

* `BlockParser.parseBlocks` (blockparser.py): for the first block, the processors are tried in registry iteration
  order; the first one whose `test` answers true **and** whose `run` does not return `False` handles the block.
* preprocessors, tree processors, postprocessors (core.py `convert`): every registered processor is applied, in
  registry iteration order, each to the result of the previous one.
* inline patterns are tried in registry iteration order as well (`InlineProcessor.__handleInline`).

The iteration order itself is the subject of C13 (`Registry.view`); here the registries are built from the
registration table that the translator regenerates from the source (`Generated.registrations`).
-/
import MdVerif.Model.Registry
import MdVerif.Generated.Tables

namespace MdVerif.Dispatch

/-- a block processor as the dispatcher sees it: `run` answers `none` when the Python method returns `False` -/
structure Proc (X R : Type) where
  name : String := ""
  test : X → Bool
  run : X → Option R

variable {X R : Type}

/-- the `for processor in self.blockprocessors: if processor.test(...): if processor.run(...) is not False: break` loop -/
def dispatch : List (Proc X R) → X → Option R
  | [], _ => none
  | p :: ps, x =>
    if p.test x then
      match p.run x with
      | some r => some r
      | none => dispatch ps x
    else dispatch ps x

/-- which processor handled the block -/
def handler : List (Proc X R) → X → Option String
  | [], _ => none
  | p :: ps, x => if p.test x && (p.run x).isSome then some p.name else handler ps x

/-- sequential application in list order (pre-, tree- and postprocessors) -/
def runAll {A : Type} (ps : List (A → A)) (a : A) : A := ps.foldl (fun acc f => f acc) a

/-! ### registries built from the generated registration table -/

/-- the registry obtained by registering, in source order, every constant-priority registration of the given
    origins (`"core"` or a bundled extension's module name) into registry `reg`; items are the names themselves -/
def build (origins : List String) (reg : String) : Registry.Reg String :=
  (Generated.registrations.filter (fun r => origins.contains r.1 && r.2.1 == reg)).foldl
    (fun acc r => Registry.register acc r.2.2.1 r.2.2.1 r.2.2.2.1) Registry.empty

/-- iteration order of that registry (names) -/
def order (origins : List String) (reg : String) : List String :=
  (Registry.dump (build origins reg)).map (·.1)

/-- `a` is iterated strictly before `b` -/
def before (l : List String) (a b : String) : Bool :=
  l.contains a && l.contains b && decide (l.idxOf a < l.idxOf b)

end MdVerif.Dispatch
