/-
Model of `Markdown.convert` with bundled extensions enabled (`markdown.Markdown(extensions=[…])`, every extension
in its default configuration), composed from the stage models in the order of the generated registries:

  preprocessors   normalize_whitespace 30 · fenced_code_block 25 (`Fenced.fencedRunA`) · html_block 20
  block parser    `parseBlocksXT`: the core processors, admonition 105, defindent 85, table 75, (sane) olist/ulist,
                  deflist 25, footnote 17, abbr 16
  treeprocessors  footnote 50 (`FootnotesTree.makeDiv`, `placeDiv`) · inline 20 (`InlineX.runX` over the pattern
                  table: core patterns, footnote 175, wikilink 75, nl 5) · footnote-duplicate 15
                  (`FootnotesTree.duplicates`) · prettify 10 · attr_list 8 (`AttrListTree.run`) · abbr 7
                  (`AbbrTree.run`) · toc 5 (`TocTree.run`) · unescape 0
  serializer, `<div>` strip
  postprocessors  raw_html 30 · footnote 25 (`FootnotesTree.postprocess`) · amp_substitute 20

`Exts` says which of fenced_code, tables, admonition, def_list, abbr, footnotes, sane_lists, nl2br, wikilinks,
attr_list, toc are enabled; with none, `convertX` is `Pipeline.convert` (`Lemmas/PipelineX.lean`, `convertX_core`).

fenced_code: `FencedBlockPreprocessor.run` replaces each fenced block by a placeholder paragraph and stores
`<pre><code>…` in the HTML stash, which then is the initial stash of the inline stage; `RawHtmlPostprocessor`
(`Post.rawHtml`) puts it back and removes the `<p>` around it.  tables appends `|` to `md.ESCAPED_CHARS`.
The footnote, abbreviation and reference tables travel from the block parser to the later stages in the log of
`Model/BlockExt.lean` (footnote texts are block-parsed by the footnote tree processor, which may extend the log).
`md.toc` / `md.toc_tokens` are side outputs of `toc` and not part of the answer.

Domain: source without `<` (as `Pipeline.convert`).  `convertX` answers `ood` (never a wrong answer) for
  * a source that contains `<`;
  * fenced_code together with attr_list when a fenced block carries options (`config` of the preprocessor non-empty:
    a key other than `id` and the classes inside `{…}`, or `hl_lines=` outside the braces) — they would become
    attributes of the `code` element;
  * footnotes when a footnote text, parsed as blocks, itself defines a footnote (the implementation mutates the
    table it iterates over);
  * toc when a heading without `id` has a name with an `&` that does not start `&amp;`/`&lt;`/`&gt;`/`&quot;`
    (`html.unescape`) or, after that, a non-ASCII character (`slugify`: NFKD normalisation);
  * admonition when the text contains `!!!`, an optional blank and then a non-ASCII character (the implied title
    of an admonition whose class starts with a non-ASCII character needs `str.capitalize`'s title-case table,
    `BlockExt.capitalize`).
-/
import MdVerif.Model.Pipeline
import MdVerif.Model.BlockExtT
import MdVerif.Model.Ext.FencedCodeAttrs
import MdVerif.Model.InlineX
import MdVerif.Model.Ext.FootnotesTree
import MdVerif.Model.Ext.AbbrTree
import MdVerif.Model.Ext.AttrListTree
import MdVerif.Model.Ext.TocTree

namespace MdVerif.PipelineX
open Py Pipeline

/-- the enabled extensions -/
structure Exts where
  fencedCode : Bool := false
  tables : Bool := false
  admonition : Bool := false
  defList : Bool := false
  abbr : Bool := false
  footnotes : Bool := false
  saneLists : Bool := false
  nl2br : Bool := false
  wikilinks : Bool := false
  attrList : Bool := false
  toc : Bool := false
  deriving DecidableEq, Repr, Inhabited

/-- the block-parser part of the configuration -/
def Exts.blockCfg (x : Exts) : BlockExt.XCfg :=
  { admonition := x.admonition, defList := x.defList, footnotes := x.footnotes, abbr := x.abbr,
    saneLists := x.saneLists }

/-- flags whose extension is not modelled end to end (none at this stage) -/
def Exts.unsupported (_ : Exts) : Bool := false

/-- `md.ESCAPED_CHARS`: `TableExtension.extendMarkdown` appends `|` -/
def escX (x : Exts) (cfg : Cfg) : List Char :=
  if x.tables && !cfg.esc.contains '|' then cfg.esc ++ ['|'] else cfg.esc

/-- does some fenced block carry options (`config` of `FencedBlockPreprocessor.run` non-empty: a key other than `id`
    and the classes inside `{…}`, or `hl_lines=` outside)?  The walk over the blocks is that of `Fenced.fencedLoopA`.
    With `attr_list` enabled such options become attributes of the `code` element, which is not modelled. -/
def fencedHasConfig : Nat → Str → Nat → Nat → Bool
  | 0, _, _, _ => true
  | fuel + 1, text, index, k =>
    match Fenced.fenceFindFrom text index with
    | none => false
    | some m =>
      let ph := Fenced.placeholder k
      let a := m.attrs.getD []
      let next := fencedHasConfig fuel (text.take m.start ++ '\n' :: (ph ++ '\n' :: text.drop m.stop))
        (m.start + 1 + ph.length) (k + 1)
      if a.isEmpty then (if Node.truthy m.hl then true else next)
      else
        let r := AttrList.getAttrsAndRemainder a
        if !r.2.isEmpty then fencedHasConfig fuel text (Fenced.attrsEnd text m a) k
        else if r.1.any (fun kv => kv.1 != "id".toList && kv.1 != ".".toList) then true
        else next

/-- `!!! ?[^\x00-\x7f]` somewhere in the text -/
def admNonAscii : Str → Bool
  | [] => false
  | c :: r =>
    (c = '!' && (match r with
      | '!' :: '!' :: ' ' :: d :: _ => d.toNat ≥ 128
      | '!' :: '!' :: d :: _ => d.toNat ≥ 128
      | _ => false)) || admNonAscii r

/-- the preprocessors: the text handed to the block parser and the HTML stash -/
def prepareX (x : Exts) (cfg : Cfg) (src : Str) : FootnotesTree.R (Str × List Str) :=
  let t := Normalize.normalize cfg.tab src
  if x.admonition && admNonAscii t then .ood else
  if x.fencedCode then
    if x.attrList && fencedHasConfig (t.length + 1) t 0 0 then .ood else
    match Fenced.fencedRunA t with
    | .ok t' stash => .ok (Extract.extract t', stash)
    | _ => .oof                      -- `.ood` is never answered by `fencedRunA`; `.fuel`: out of fuel
  else .ok (Extract.extract t, [])

/-- the postprocessors raw_html 30, footnote 25, amp_substitute 20; `none` = out of fuel -/
def postX (x : Exts) (cfg : Cfg) (stash : List Str) (text : Str) : Option Str :=
  (Post.rawHtml cfg.blockLevel stash (Post.rawHtmlFuel stash) text).map
    (fun r => Post.ampSub (if x.footnotes then FootnotesTree.postprocess r else r))

/-- `md.references`: the reference entries of the log (without footnotes and abbr the log holds nothing else) -/
def refsX (x : Exts) (log : Block.Refs) : Block.Refs :=
  if x.footnotes || x.abbr then BlockExt.refsOf log else log

/-- result of the stages before the serializer -/
inductive TreeResult
  | ok (tree : Node) (html : List Str)
  | oof
  | err
  | ood

/-- `parser.parseChunk(surrogate_parent, text)` on an empty surrogate `div`, parser state empty -/
def parseChunkX (x : Exts) (cfg : Cfg) (log : Block.Refs) (text : Str) : Option (Node × Block.Refs) :=
  Block.parseChunk (BlockExt.parseBlocksXT x.tables x.blockCfg cfg.tab (BlockExt.fuelForX text.length)) [] log
    (Node.el "div") text

def fnCount (log : Block.Refs) : Nat := (log.filter BlockExt.isFnEntry).length

/-- the element tree handed to the serializer, with the HTML stash -/
def treeX (x : Exts) (cfg : Cfg) (src : Str) : TreeResult :=
  match prepareX x cfg src with
  | .oof => .oof
  | .ood => .ood
  | .ok (text, stash) =>
    match BlockExt.parseDocumentXT x.tables x.blockCfg cfg.tab text with
    | none => .oof
    | some (root, log) =>
      -- footnote (50): `FootnoteTreeprocessor`
      let fnStage : FootnotesTree.R (Node × Block.Refs) :=
        if x.footnotes then
          match FootnotesTree.makeDiv (parseChunkX x cfg) fnCount (BlockExt.footnotesOf log) log with
          | .ok (some div, log') => .ok (FootnotesTree.placeDiv root div, log')
          | .ok (none, log') => .ok (root, log')
          | .oof => .oof
          | .ood => .ood
        else .ok (root, log)
      match fnStage with
      | .oof => .oof
      | .ood => .ood
      | .ok (root, log) =>
        -- inline (20)
        let xc : InlineX.XCfg :=
          { cfg := { esc := escX x cfg, refs := (refsX x log).reverse }
            table := InlineX.table x.footnotes x.wikilinks x.nl2br
            fnKeys := (BlockExt.footnotesOf log).map (·.1) }
        match InlineX.runX xc root stash with
        | none => .oof
        | some (t, xs) =>
          -- footnote-duplicate (15): `FootnotePostTreeprocessor`
          match (if x.footnotes then FootnotesTree.duplicates xs.fn t else some t) with
          | none => .err
          | some t =>
            -- prettify (10)
            let t := TreeProc.prettify t cfg.blockLevel
            -- attr_list (8): `AttrListTreeprocessor`
            let t := if x.attrList then AttrListTree.run cfg.blockLevel t else t
            -- abbr (7): `AbbrTreeprocessor`
            let t := if x.abbr then AbbrTree.run (BlockExt.abbrsOf log) t else t
            -- toc (5): `TocTreeprocessor`
            let tocStage : TocTree.R Node :=
              if x.toc then
                TocTree.run { fmt := cfg.fmt, post := postX x cfg xs.st.html } cfg.blockLevel t
              else .ok t
            match tocStage with
            | .oof => .oof
            | .err => .err
            | .ood => .ood
            | .ok t =>
              -- unescape (0)
              match TreeProc.unescapeTree t with
              | none => .err
              | some u => .ok u xs.st.html

/-- the end of `convert` after serialisation: strip, postprocessors raw_html 30, footnote 25, amp_substitute 20,
    `.strip()` -/
def finishX (x : Exts) (cfg : Cfg) (stash : List Str) (output : Str) : Outcome :=
  match Post.topLevelStrip output with
  | none => .err
  | some t =>
    match postX x cfg stash t with
    | none => .oof
    | some r => .ok (strip r)

/-- `Markdown.convert(source)` with the extensions `x` -/
def convertX (x : Exts) (cfg : Cfg) (src : Str) : Outcome :=
  if src.contains '<' then .ood
  else if x.unsupported then .ood
  else if Normalize.isBlankDoc src then .ok []
  else
    match treeX x cfg src with
    | .oof => .oof
    | .err => .err
    | .ood => .ood
    | .ok u html => finishX x cfg html (Ser.serialize cfg.fmt u)

end MdVerif.PipelineX
