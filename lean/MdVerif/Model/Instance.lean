/-
Abstract state machine of a `Markdown` instance (C11).

An instance has
* `cfg`    — its configuration, constant since construction (extensions, output format, tab length, the registries);
* `fields` — `references`, `htmlStash`, and through the `reset()` of the registered extensions the footnotes,
             abbreviations, toc state, `Meta`, …  After a conversion the side outputs (`md.Meta`, `md.toc`,
             `md.toc_tokens`, …) are read from here;
* `leak`   — `md.parser.state` (`blockparser.State`, a stack of `'list'`/`'looselist'`/`'detabbed'` markers).  Every
             processor that pushes a marker pops it after the nested parse, so a conversion that returns leaves the
             stack as it found it; a conversion that raises in between (e.g. `RecursionError` on deep nesting) does
             not.  It is kept apart from `fields` because of this discipline (`Balanced`), and because of its history:

`Markdown.reset()` re-initialises **both** (`reset` below).  Until commit f86514b ("reset() clears the block parser's
nesting state") it did not touch `leak` — that was the defect F-C11-1; `resetOld` is that former behaviour, kept
only for the record (`Props/C11.lean`, section "history").

`convert` is a *parameter* of the model (`Machine.convert`, any function): the theorem of `Props/C11.lean` is a frame
theorem about `reset`, not about what a conversion computes.

`Toy` is a small concrete machine (reference definitions, look-ups, a raising document that leaves the nesting
counter non-zero) used by the examples, the historical counterexample and the driver op `inst.run`.
-/
namespace MdVerif.Instance

structure Inst (Cfg F L : Type) where
  cfg : Cfg
  fields : F
  leak : L
deriving DecidableEq, Repr

/-- the outcome of `convert`: the HTML (and whatever else is returned), or an exception -/
inductive Result (O : Type) where
  | ok (out : O)
  | raised
deriving DecidableEq, Repr

def Result.isOk {O : Type} : Result O → Bool
  | .ok _ => true
  | .raised => false

/-- what the code is, as far as C11 is concerned -/
structure Machine (Cfg F L Doc O : Type) where
  /-- the cleared fields of an instance with configuration `c` -/
  initF : Cfg → F
  /-- the un-reset state of a new instance (`parser.state = []`) -/
  leak0 : L
  /-- `Markdown.convert`: any function of the configuration, the current state and the document -/
  convert : Cfg → F × L → Doc → (F × L) × Result O

section
variable {Cfg F L Doc O : Type} (M : Machine Cfg F L Doc O)

/-- `Markdown(**cfg)` -/
def fresh (c : Cfg) : Inst Cfg F L := ⟨c, M.initF c, M.leak0⟩

/-- (H1) `md.reset()`: the fields become those of a new instance, and so does the block parser's nesting state
    (`self.parser.state.clear()`); `cfg` is not touched -/
def reset (x : Inst Cfg F L) : Inst Cfg F L := { x with fields := M.initF x.cfg, leak := M.leak0 }

/-- HISTORY — `md.reset()` before commit f86514b (defect F-C11-1): `leak` was not touched -/
def resetOld (x : Inst Cfg F L) : Inst Cfg F L := { x with fields := M.initF x.cfg }

/-- `md.convert(d)`: the instance afterwards and the result -/
def conv (x : Inst Cfg F L) (d : Doc) : Inst Cfg F L × Result O :=
  (⟨x.cfg, (M.convert x.cfg (x.fields, x.leak) d).1.1, (M.convert x.cfg (x.fields, x.leak) d).1.2⟩,
   (M.convert x.cfg (x.fields, x.leak) d).2)

/-- what a caller can see of a conversion: the result, and the fields afterwards (the side outputs) -/
def observe (r : Inst Cfg F L × Result O) : Result O × F := (r.2, r.1.fields)

/-- what happens to an instance -/
inductive Ev (Doc : Type) where
  | convert (d : Doc)
  | reset
deriving DecidableEq, Repr

def applyEv (x : Inst Cfg F L) : Ev Doc → Inst Cfg F L
  | .convert d => (conv M x d).1
  | .reset => reset M x

/-- the instance after a history of conversions and resets -/
def runHistory (x : Inst Cfg F L) : List (Ev Doc) → Inst Cfg F L
  | [] => x
  | e :: h => runHistory (applyEv M x e) h

/-- the results of the conversions of a history -/
def results (x : Inst Cfg F L) : List (Ev Doc) → List (Result O × F)
  | [] => []
  | .convert d :: h => observe (conv M x d) :: results (conv M x d).1 h
  | .reset :: h => results (reset M x) h

/-- the usual usage: every document is preceded by `reset()` -/
def resetEach (docs : List Doc) : List (Ev Doc) := docs.flatMap (fun d => [.reset, .convert d])

/-- *balanced*: a conversion that returns leaves `leak` as it found it.  (No longer a hypothesis of C11 — `reset`
    clears the leak whatever happened — but still what makes consecutive conversions *without* `reset()` start
    from an empty nesting state, and what the pre-repair theorem needed.) -/
def Balanced : Prop :=
  ∀ c fl d fl' o, M.convert c fl d = (fl', Result.ok o) → fl'.2 = fl.2

/-- no conversion of the history raised -/
def NoRaise (x : Inst Cfg F L) : List (Ev Doc) → Prop
  | [] => True
  | .convert d :: h => (conv M x d).2.isOk = true ∧ NoRaise (conv M x d).1 h
  | .reset :: h => NoRaise (reset M x) h

/-! ### several instances -/

/-- the store of a program that holds several instances; an instance is known by its index -/
abbrev Store (Cfg F L : Type) := List (Inst Cfg F L)

/-- what happens in such a program: a new instance is constructed, or something happens to the instance `i` -/
inductive SEv (Cfg Doc : Type) where
  | create (c : Cfg)
  | on (i : Nat) (e : Ev Doc)

def applySEv (st : Store Cfg F L) : SEv Cfg Doc → Store Cfg F L
  | .create c => st ++ [fresh M c]
  | .on i e =>
    match st[i]? with
    | some x => st.set i (applyEv M x e)
    | none => st

def runStore (st : Store Cfg F L) : List (SEv Cfg Doc) → Store Cfg F L
  | [] => st
  | e :: h => runStore (applySEv M st e) h

/-- the events that happen to the instance `j` -/
def eventsOf (j : Nat) : List (SEv Cfg Doc) → List (Ev Doc)
  | [] => []
  | .create _ :: h => eventsOf j h
  | .on i e :: h => if i = j then e :: eventsOf j h else eventsOf j h

end

/-! ### a toy machine -/

namespace Toy

/-- a document is a list of -/
inductive Op where
  /-- a reference definition `[k]: v` -/
  | define (k v : Nat)
  /-- a reference use `[..][k]`: emits the look-up -/
  | use (k : Nat)
  /-- a construct on which the conversion raises, inside one level of nesting -/
  | raise
deriving DecidableEq, Repr

abbrev Doc := List Op
/-- `references` -/
abbrev Refs := List (Nat × Nat)
/-- an output item: the nesting depth at which the look-up happened, and its result -/
abbrev Item := Nat × Option Nat

def lookup (r : Refs) (k : Nat) : Option Nat :=
  match r with
  | [] => none
  | (k', v) :: r => if k' = k then some v else lookup r k

/-- process a document: `refs` are the fields, `depth` is the leak (`len(parser.state)`).  What a look-up emits
    depends on the depth, as the behaviour of the block processors depends on `parser.state`. -/
def go (refs : Refs) (depth : Nat) (out : List Item) : Doc → (Refs × Nat) × Result (List Item)
  | [] => ((refs, depth), .ok out)
  | .define k v :: d => go ((k, v) :: refs) depth out d
  | .use k :: d => go refs depth (out ++ [(depth, lookup refs k)]) d
  | .raise :: _ => ((refs, depth + 1), .raised)

/-- the toy machine; the configuration is a list of predefined references -/
def machine : Machine Refs Refs Nat Doc (List Item) where
  initF := fun c => c
  leak0 := 0
  convert := fun _ fl d => go fl.1 fl.2 [] d

end Toy

end MdVerif.Instance
