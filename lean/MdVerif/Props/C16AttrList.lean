/-
C16 (attribute lists) — the documented attribute-list syntax renders to the documented attributes wherever it is
validly placed.

Only property statements live here.  Model: `MdVerif/Model/Ext/AttrList.lean`; specification notions (`AttrItem`,
`printAttrs`, `ItemOk`, `BodyOk`, `lastSet`, …): `MdVerif/Spec/AttrList.lean`; helper lemmas:
`MdVerif/Lemmas/AttrList.lean`.  Core Lean only.

* the list: `C16_attrs_roundtrip` (+ `_plain`) — every well-formed list of items `#id .class word k=v k="v" k='v'`,
  written with single blanks, is read back by `get_attrs` as exactly those items, nothing left over;
* the assignment: `C16_assign_key_value`, `C16_assign_id_last`, `C16_assign_class`, `C16_assign_class_override`,
  `C16_sanitize_valid`, `C16_sanitize_run`, `C16_sanitize_no_alias`;
* the placement — what a match looks like: `C16_inline_at_start`, `C16_block_at_end`, `C16_header_at_end`;
  the documented forms are matched: `C16_inline_recognised`, `C16_block_recognised`, `C16_header_recognised`;
* end to end on one element: `C16_attr_list_block`, `C16_attr_list_header`, `C16_attr_list_inline`;
* defects found (kernel-checked on the model, confirmed on the implementation): F-C16-AL-1 … F-C16-AL-3 below.
-/
import MdVerif.Lemmas.AttrList

namespace MdVerif.C16
open MdVerif.Py MdVerif.AttrList MdVerif.AttrList.Spec

/-! ## the list -/

/-- **Round trip.**  Any list of well-formed items (`ItemOk`), written with single blanks between them and any
    number of blanks after them (the blanks before `}` belong to what `BASE_RE` captures), is read by
    `get_attrs_and_remainder` as exactly the pairs of these items, in order, with an empty remainder. -/
theorem C16_attrs_roundtrip (items : List AttrItem) (hok : ∀ it ∈ items, ItemOk it) (n : Nat) :
    getAttrsAndRemainder (printAttrs items ++ List.replicate n ' ') = (items.map toPair, []) :=
  getAttrs_printAttrs items hok n

/-- `get_attrs (printAttrs items) = items.map toPair` -/
theorem C16_attrs_roundtrip_plain (items : List AttrItem) (hok : ∀ it ∈ items, ItemOk it) :
    getAttrs (printAttrs items) = items.map toPair := by
  have := getAttrs_printAttrs items hok 0
  simp only [List.replicate_zero, List.append_nil] at this
  unfold getAttrs; rw [this]

/-- the hypothesis on a concrete list: the example of the documentation, `#someid .someclass somekey='some value'`,
    and one item of every form -/
example : (∀ it ∈ [AttrItem.id "someid".toList, .cls "someclass".toList, .kv "somekey".toList "some value".toList .sq],
      ItemOk it) ∧
    printAttrs [.id "someid".toList, .cls "someclass".toList, .kv "somekey".toList "some value".toList .sq]
      = "#someid .someclass somekey='some value'".toList ∧
    (∀ it ∈ [AttrItem.flag "checked".toList, .kv "k".toList "v".toList .bare, .kv "t".toList "a } = b".toList .dq,
      .kv "e".toList [] .dq, .id [], .cls "a.b".toList], ItemOk it) := by decide

/-- why `ItemOk` asks what it asks — each excluded form is read differently by the real scanner: a bare value
    starting with a quote swallows what follows; a bare value cannot hold `}`; a single word starting with `.` is a
    class; a quoted value cannot hold its own quote -/
example :
    getAttrs "k=\"a .b\"".toList = [("k".toList, "a .b".toList)] ∧
    getAttrsAndRemainder "k=a}b".toList = ([("k".toList, "a".toList)], "}b".toList) ∧
    getAttrs ".x".toList = [(".".toList, "x".toList)] ∧
    getAttrs "k=\"a\"b\"".toList = [("k".toList, "a".toList), ("b\"".toList, "b\"".toList)] := by decide

/-! ## the assignment -/

/-- **Every key/value is set, the last one wins.**  For every attribute name other than `class`: after
    `assign_attrs` its value is the value of the last pair (`k=v`, `#x` as `id`, a single word `w` as `w=w`) whose
    sanitised key is that name; if there is none the attribute is as before. -/
theorem C16_assign_key_value (a : Attrs) (pairs : List (Str × Str)) (name : Str) (hn : name ≠ classKey) :
    getA (assignPairs a pairs) name = match lastSet name pairs with | some v => some v | none => getA a name :=
  getA_assignPairs_other a pairs name hn

/-- a name that is not `class` (hypothesis of `C16_assign_key_value`) -/
example : "id".toList ≠ classKey ∧ "title".toList ≠ classKey := by decide

/-- **The id is the last `#x` (or `id=x`) given**; nothing else can set it: `sanitize_name` maps no other key
    onto `id`. -/
theorem C16_assign_id_last (a : Attrs) (pairs : List (Str × Str)) :
    getA (assignPairs a pairs) ['i', 'd'] =
      match lastValue ['i', 'd'] pairs with
      | some v => some v
      | none => getA a ['i', 'd'] := by
  rw [getA_assignPairs_other a pairs _ (by decide), lastSet_id]
  cases lastValue ['i', 'd'] pairs <;> rfl

/-- e.g. `#id1 x=1 id=id2 #id3` -/
example : lastValue ['i', 'd'] (getAttrs "#id1 x=1 id=id2 #id3".toList) = some "id3".toList := by decide

/-- **The class is the existing class plus every `.c`, in order, joined by single blanks** — as long as no
    `class=…` pair intervenes (`hno`) and no `.c` has an empty name (`hne`; a lone `.` would add an empty class and
    with it a doubled or trailing blank).  An absent or empty existing class contributes nothing. -/
theorem C16_assign_class (a : Attrs) (pairs : List (Str × Str))
    (hno : ∀ p ∈ pairs, p.1 ≠ ['.'] → sanitizeName p.1 ≠ classKey)
    (hne : ∀ p ∈ pairs, p.1 = ['.'] → p.2 ≠ []) :
    getA (assignPairs a pairs) classKey =
      match existingClass a ++ dots pairs with
      | [] => getA a classKey
      | l => some (join [' '] l) :=
  getA_assignPairs_class a pairs hno hne

/-- **`class=…` overrides**: after a `class=v` pair, the class is `v` plus the later `.c` (documentation:
    "using key/value pairs will always override the previously defined attribute"). -/
theorem C16_assign_class_override (a : Attrs) (pre post : List (Str × Str)) (k v : Str)
    (hk : k ≠ ['.']) (hs : sanitizeName k = classKey)
    (hno : ∀ p ∈ post, p.1 ≠ ['.'] → sanitizeName p.1 ≠ classKey)
    (hne : ∀ p ∈ post, p.1 = ['.'] → p.2 ≠ []) :
    getA (assignPairs a (pre ++ (k, v) :: post)) classKey =
      match (match v with | [] => [] | _ :: _ => [v]) ++ dots post with
      | [] => some v
      | l => some (join [' '] l) := by
  have e : pre ++ (k, v) :: post = (pre ++ [(k, v)]) ++ post := by simp
  rw [e, assignPairs_append, getA_assignPairs_class _ post hno hne]
  have hv : getA (assignPairs a (pre ++ [(k, v)])) classKey = some v := by
    rw [assignPairs_append]
    show getA (assignStep _ (k, v)) classKey = some v
    unfold assignStep
    simp only [hk, if_false, getA_setA, hs, if_true]
  unfold existingClass
  rw [hv]
  cases v <;> rfl

/-- the hypotheses of `C16_assign_class` / `_override` on the example of the documentation
    `{: #id1 .class1 id=id2 class="class2 class3" .class4 }` → `id="id2" class="class2 class3 class4"` -/
example :
    (∀ p ∈ getAttrs "#id1 .class1 .c2".toList, p.1 ≠ ['.'] → sanitizeName p.1 ≠ classKey) ∧
    (∀ p ∈ getAttrs "#id1 .class1 .c2".toList, p.1 = ['.'] → p.2 ≠ []) ∧
    "class".toList ≠ ['.'] ∧ sanitizeName "class".toList = classKey ∧
    assignAttrs [] "#id1 .class1 id=id2 class=\"class2 class3\" .class4 ".toList true
      = ([("id".toList, "id2".toList), ("class".toList, "class2 class3 class4".toList)], []) := by decide

/-- a name made of valid name characters is kept -/
theorem C16_sanitize_valid (k : Str) (h : ∀ c ∈ k, nameChar c = true) : sanitizeName k = k :=
  sanitizeAux_valid false k h

/-- "Multiple consecutive invalid characters are reduced to a single underscore": a run of invalid characters
    between a valid prefix and a valid next character becomes one `_`. -/
theorem C16_sanitize_run (a bad : Str) (c : Char) (rest : Str) (ha : ∀ x ∈ a, nameChar x = true)
    (hbad : ∀ x ∈ bad, nameChar x = false) (hne : bad ≠ []) (hc : nameChar c = true) :
    sanitizeName (a ++ bad ++ c :: rest) = a ++ '_' :: sanitizeName (c :: rest) := by
  unfold sanitizeName
  rw [List.append_assoc, sanitizeAux_append_valid' false a _ ha]
  have : sanitizeAux (a.isEmpty && false) (bad ++ c :: rest) = '_' :: sanitizeAux false (c :: rest) := by
    simp only [Bool.and_false]
    rw [sanitizeAux_invalid_run bad _ hbad hne, sanitizeAux_true_valid_head c rest hc]
  rw [this]

/-- the hypotheses of `C16_sanitize_valid` / `_run` on concrete names -/
example : (∀ c ∈ "data-x:y.z_1é".toList, nameChar c = true) ∧ (∀ x ∈ "!$ ".toList, nameChar x = false) ∧
    sanitizeName "a!$ b".toList = "a_b".toList := by decide

/-- a sanitised name that holds no `_` is the key itself: no key is silently mapped onto `id`, `class`, `href`, … -/
theorem C16_sanitize_no_alias (k n : Str) (h : sanitizeName k = n) (hu : '_' ∉ n) : k = n :=
  sanitizeName_no_alias k n h hu

example : sanitizeName "class".toList = "class".toList ∧ '_' ∉ "class".toList := by decide

/-! ## the placement: what a match looks like -/

/-- **Inline: only at the START of the tail.**  When `INLINE_RE` matches a tail, the tail *begins* with `{`,
    an optional `:`, blanks, the captured group, `}`; the group is not empty, lies on one line and does not begin
    with a blank or `}`. -/
theorem C16_inline_at_start (tail g rest : Str) (h : inlineMatch tail = some (g, rest)) :
    ∃ colon n, tail = opening colon n ++ g ++ '}' :: rest ∧ GroupOk g := by
  obtain ⟨colon, n, h1, h2, _⟩ := baseAt_sound _ tail g rest h
  exact ⟨colon, n, h1, h2⟩

/-- **Block: only at the END of the text, on a line of its own.**  When `BLOCK_RE` finds a match in a text, the
    text is: what is kept (`pre`), a line feed, blanks, `{`, optional `:`, blanks, the group, `}`, blanks, and then
    the end of the text (or its one final line feed).  The group lies on that last line. -/
theorem C16_block_at_end (text pre g : Str) (h : blockSearch text = some (pre, g)) :
    ∃ k colon n m tl, text = pre ++ '\n' :: List.replicate k ' ' ++ opening colon n ++ g ++ '}' ::
        (List.replicate m ' ' ++ tl) ∧ AtEnd tl ∧ GroupOk g :=
  blockSearch_sound text pre g h

/-- **Header: only at the END of the heading text**, after at least one blank. -/
theorem C16_header_at_end (text pre g : Str) (h : headerSearch text = some (pre, g)) :
    ∃ k colon n m tl, text = pre ++ List.replicate (k + 1) ' ' ++ opening colon n ++ g ++ '}' ::
        (List.replicate m ' ' ++ tl) ∧ AtEnd tl ∧ GroupOk g :=
  headerSearch_sound text pre g h

/-- the hypotheses of the three theorems on concrete texts (and what is captured) -/
example :
    inlineMatch "{: .x } tail".toList = some (".x ".toList, " tail".toList) ∧
    blockSearch "some text\n  {: #i }  \n".toList = some ("some text".toList, "#i ".toList) ∧
    headerSearch "Title ## {#t}".toList = some ("Title ##".toList, "#t".toList) := by decide

/-- not at the end / not at the start: no match -/
example :
    blockSearch "text\n{: #i }\nmore".toList = none ∧ blockSearch "text {: #i }".toList = none ∧
    headerSearch "Title {: #i } more".toList = none ∧ headerSearch "Title{: #i }".toList = none ∧
    inlineMatch " {: .x }".toList = none ∧ inlineMatch "x{: .x }".toList = none := by decide

/-! ## the placement: the documented forms are matched -/

/-- **Inline.**  `{`, optional `:`, blanks, a body, blanks, `}` at the start of a tail is matched, the group is the
    body with the blanks that follow it and the tail continues after the `}` — provided the rest of that line
    holds no further `}` (otherwise the greedy `[^\n]*` runs on to the LAST `}` of the line: F-C16-AL-1). -/
theorem C16_inline_recognised (colon : Bool) (n m : Nat) (body rest : Str) (hb : BodyOk body)
    (hrest : '}' ∉ rest.takeWhile (· != '\n')) :
    inlineMatch (opening colon n ++ body ++ List.replicate m ' ' ++ '}' :: rest)
      = some (body ++ List.replicate m ' ', rest) :=
  baseAt_complete _ colon n m body rest hb rfl (lastBrace_none _ rest hrest)

/-- **Block.**  An attribute list alone on the last line of a block text (blanks around it, at most one final line
    feed) is found, whatever precedes it — provided the preceding text holds no `{`; what is kept is exactly the
    preceding text. -/
theorem C16_block_recognised (text : Str) (k : Nat) (colon : Bool) (n m m2 : Nat) (body tl : Str)
    (ht : '{' ∉ text) (hb : BodyOk body) (htl : AtEnd tl) :
    blockSearch (text ++ '\n' :: (List.replicate k ' ' ++
        (opening colon n ++ body ++ List.replicate m ' ' ++ '}' :: (List.replicate m2 ' ' ++ tl))))
      = some (text, body ++ List.replicate m ' ') :=
  blockSearch_complete text _ _ _ k ht (baseAt_endOk_complete colon n m m2 body tl hb htl)
    (by simp [opening])

/-- **Header.**  An attribute list at the end of a heading text, separated from it by at least one blank, is
    found — provided the heading text holds no `{` and does not itself end with a blank; what is kept is exactly
    the heading text. -/
theorem C16_header_recognised (text : Str) (k : Nat) (colon : Bool) (n m m2 : Nat) (body tl : Str)
    (ht : '{' ∉ text) (hl : text.getLast? ≠ some ' ') (hb : BodyOk body) (htl : AtEnd tl) :
    headerSearch (text ++ List.replicate (k + 1) ' ' ++
        (opening colon n ++ body ++ List.replicate m ' ' ++ '}' :: (List.replicate m2 ' ' ++ tl)))
      = some (text, body ++ List.replicate m ' ') :=
  headerSearch_complete text _ _ _ k ht hl (baseAt_endOk_complete colon n m m2 body tl hb htl)
    (by simp [opening])

/-- the hypotheses on concrete inputs -/
example : BodyOk "#an_id .a_class".toList ∧ '{' ∉ "This is a paragraph.".toList ∧
    "A hash style header ###".toList.getLast? ≠ some ' ' ∧ AtEnd [] ∧ AtEnd ['\n'] ∧
    '}' ∉ (" and more\nnext } line".toList).takeWhile (· != '\n') := by decide

/-- why the hypotheses: a `{` earlier in a heading makes the match start there; a heading text ending in blanks
    loses them -/
example :
    headerSearch "a {b {: #x }".toList = some ("a".toList, "b {: #x ".toList) ∧
    headerSearch "T   {: #x }".toList = some ("T".toList, "#x ".toList) := by decide

/-! ## end to end on one element -/

/-- **A paragraph (any block element whose text holds the list) gets the documented attributes**: with the list
    on its own last line the element's text becomes the text before that line and its attributes are the old ones
    updated, in order, by the items. -/
theorem C16_attr_list_block (a : Attrs) (text : Str) (k : Nat) (colon : Bool) (n m m2 : Nat)
    (items : List AttrItem) (tl : Str)
    (ht : '{' ∉ text) (hok : ∀ it ∈ items, ItemOk it) (hb : BodyOk (printAttrs items)) (htl : AtEnd tl) :
    blockApply false false a (text ++ '\n' :: (List.replicate k ' ' ++
        (opening colon n ++ printAttrs items ++ List.replicate m ' ' ++ '}' :: (List.replicate m2 ' ' ++ tl))))
      = (assignPairs a (items.map toPair), text) := by
  unfold blockApply
  simp only [Bool.false_eq_true, if_false]
  rw [C16_block_recognised text k colon n m m2 _ tl ht hb htl]
  simp only [assignAttrs, getAttrs_printAttrs items hok m]
  rfl

/-- **A heading gets the documented attributes**; its text is the heading text with trailing `#`s and blanks
    removed ("clean up trailing #s"). -/
theorem C16_attr_list_header (a : Attrs) (text : Str) (k : Nat) (colon : Bool) (n m m2 : Nat)
    (items : List AttrItem) (tl : Str)
    (ht : '{' ∉ text) (hl : text.getLast? ≠ some ' ') (hok : ∀ it ∈ items, ItemOk it)
    (hb : BodyOk (printAttrs items)) (htl : AtEnd tl) :
    blockApply true true a (text ++ List.replicate (k + 1) ' ' ++
        (opening colon n ++ printAttrs items ++ List.replicate m ' ' ++ '}' :: (List.replicate m2 ' ' ++ tl)))
      = (assignPairs a (items.map toPair), rstrip (rstripC '#' text)) := by
  unfold blockApply
  simp only [if_true]
  rw [C16_header_recognised text k colon n m m2 _ tl ht hl hb htl]
  simp only [assignAttrs, getAttrs_printAttrs items hok m]
  rfl

/-- **An inline element gets the documented attributes** from a list that starts its tail; the tail continues
    after the `}` — provided no further `}` follows on that line. -/
theorem C16_attr_list_inline (a : Attrs) (colon : Bool) (n m : Nat) (items : List AttrItem) (rest : Str)
    (hok : ∀ it ∈ items, ItemOk it) (hb : BodyOk (printAttrs items))
    (hrest : '}' ∉ rest.takeWhile (· != '\n')) :
    inlineApply a (opening colon n ++ printAttrs items ++ List.replicate m ' ' ++ '}' :: rest)
      = (assignPairs a (items.map toPair), rest) := by
  unfold inlineApply
  rw [C16_inline_recognised colon n m _ rest hb hrest]
  simp only [assignAttrs, getAttrs_printAttrs items hok m]
  simp

/-- the hypotheses on the examples of the documentation, and the results:
    `This is a paragraph.\n{: #an_id .a_class }`, `A hash style header ### {: #hash }`,
    `[link](…){: class="foo bar" title="Some title!" }` -/
example :
    (∀ it ∈ [AttrItem.id "an_id".toList, .cls "a_class".toList], ItemOk it) ∧
    BodyOk (printAttrs [.id "an_id".toList, .cls "a_class".toList]) ∧
    blockApply false false [] "This is a paragraph.\n{: #an_id .a_class }".toList
      = ([("id".toList, "an_id".toList), ("class".toList, "a_class".toList)], "This is a paragraph.".toList) ∧
    blockApply true true [] "A hash style header ### {: #hash }".toList
      = ([("id".toList, "hash".toList)], "A hash style header".toList) ∧
    BodyOk (printAttrs [.kv "class".toList "foo bar".toList .dq, .kv "title".toList "Some title!".toList .dq]) ∧
    inlineApply [("href".toList, "http://example.com".toList)] "{: class=\"foo bar\" title=\"Some title!\" }".toList
      = ([("href".toList, "http://example.com".toList), ("class".toList, "foo bar".toList),
          ("title".toList, "Some title!".toList)], []) := by decide

/-! ## defects found (model = implementation, see the report) -/

/-- **F-C16-AL-1** `*a*{: .x } and {b}` → `<em class="x">a</em>} and {b`: an inline attribute list followed, on the
    same line, by any further `}` is matched up to the LAST `}`; the attributes are set, but the text in between
    is put back with its closing brace moved to the front — the document text is corrupted (` and {b}` becomes
    `} and {b`).  (`hrest` of `C16_inline_recognised` excludes it.) -/
example : inlineApply [] "{: .x } and {b}".toList = ([("class".toList, "x".toList)], "} and {b".toList) ∧
    inlineApply [] "{ .x}{ .y}".toList = ([("class".toList, "x".toList)], "}{ .y".toList) := by decide

/-- **F-C16-AL-2** `*a*{:}` / `*a*{: }` → `<em :=":">a</em>`: "braces which are empty or only contain whitespace
    are ignored" — but with the optional colon the regex backtracks, takes the colon as the content and sets an
    attribute named `:`. -/
example : inlineApply [] "{:}".toList = ([(":".toList, ":".toList)], []) ∧
    inlineApply [] "{: }".toList = ([(":".toList, ":".toList)], []) ∧
    inlineApply [] "{ }".toList = ([], "{ }".toList) := by decide

/-- **F-C16-AL-3** a key/value pair whose key is `.` is taken for a class: `{: .=x }` adds the class `x`
    (the scanner hands out `('.', 'x')`, which `assign_attrs` cannot tell from `.x`) -/
example : inlineApply [] "{: .=x }".toList = ([("class".toList, "x".toList)], []) := by decide

end MdVerif.C16
