/-
C05 — Text cannot inject markup: the output of HTML-free input is well-formed.

C05: "When the input contains no `<` character, the output is a well-formed XHTML fragment built only from Markdown's
element vocabulary (p, h1-h6, ul, ol, li, blockquote, pre, code, hr, br, em, strong, a, img) with only href, title, src
and alt attributes: every element is closed and properly nested, every attribute value is quoted, every `>` and bare
`&` coming from the text is escaped, and so is every `"` inside an attribute value.  In particular a link destination,
title or image alt text can never end its attribute or start a tag."

How it is proved.  All output is the serialisation of an element tree.  `C14_roundtrip` (`Props/C14.lean`) says that
the strict reader `readForest` (`Spec/Reader.lean`: fails on any `<`, `>`, on `"` inside an attribute value, on any `&`
that does not start an entity reference, on any unclosed or badly nested element, on any unquoted attribute value)
accepts the serialisation of every tree satisfying `WFTree` and reads back exactly that tree.  What is shown here:

1. **invariant** — every tree the pipeline builds consists of vocabulary elements only (`Good`, `DocOk` of
   `Spec/VocabInline.lean`): the block stage (`Props/C05Block.lean`), every element an inline pattern constructs,
   the stash, `Inline.run`, `prettify`, `unescapeTree`;
2. `Good n → WFTree n`;
3. hence the tree handed to the serializer reads back (`C05_tree_reads_back`);
4. glue from the serialisation of the wrapper `div` to the string `Markdown.convert` returns.

Only property statements live here; the predicates are in `MdVerif/Spec/VocabInline.lean`, the proofs in
`MdVerif/Lemmas/InlineVocab.lean`.
-/
import MdVerif.Lemmas.InlineVocab

namespace MdVerif.C05
open Py Vocab2 Ser

/-! ### 1. the inline stage stays inside the vocabulary -/

/-- **every element an inline pattern constructs** (`handleMatch` of the 16 core patterns, emphasis nesting
    included) consists of `code`, `em`, `strong`, `a`, `img`, `br` elements only, with attributes among `href`,
    `title`, `src`, `alt` (pairwise distinct); `br` and `img` have neither text nor children; the new element has no
    tail.  For every text, every start index, every set of reference definitions. -/
theorem C05_inline_vocab_found (cfg : Inline.Cfg) (pi : Nat) (data : Str) (startIndex : Nat) (st st' : Inline.St)
    (f : Inline.Found) (n : Node) (h : Inline.findMatch cfg pi data startIndex st = some (some f, st'))
    (hn : f.node = .el n) : GoodT inlineTags n = true ∧ n.tail = none :=
  let r := (findMatch_ok cfg pi data startIndex st st' f h).2 n hn
  ⟨r.good, r.tail⟩

/-- **the stash**: if every stashed element is such an element, so is every stashed element after `handleInline`
    (which runs the nested `handleInline` calls on the texts of the new elements before stashing them). -/
theorem C05_inline_vocab_stash (cfg : Inline.Cfg) (data : Str) (st st' : Inline.St) (d' : Str)
    (h : Inline.handleInlineTop cfg data st = some (d', st'))
    (hs : ∀ n, Inline.StashItem.node n ∈ st.stash → GoodT inlineTags n = true ∧ n.tail = none) :
    ∀ n, Inline.StashItem.node n ∈ st'.stash → GoodT inlineTags n = true ∧ n.tail = none := by
  intro n hn
  have := handleInlineTop_ok cfg data st d' st' h (fun m hm => ⟨(hs m hm).1, (hs m hm).2⟩) n hn
  exact ⟨this.good, this.tail⟩

/-- **`processPlaceholders`**: the elements it takes out of such a stash (with their texts and tails processed
    recursively) are such elements; of the parent it changes only the text or the tail. -/
theorem C05_inline_vocab_placeholders (st : Inline.St) (data : Str) (atomic : Bool) (parent : Node) (isText : Bool)
    (res : List Node) (parent' : Node)
    (hs : ∀ n, Inline.StashItem.node n ∈ st.stash → GoodT inlineTags n = true ∧ n.tail = none)
    (h : Inline.ppTop st data atomic parent isText = some (res, parent')) :
    GoodListT inlineTags res = true ∧ parent'.tag = parent.tag ∧ parent'.attrs = parent.attrs ∧
      parent'.children = parent.children :=
  let r := ppTop_ok st (fun m hm => ⟨(hs m hm).1, (hs m hm).2⟩) data atomic parent isText res parent' h
  ⟨r.1, r.2.tag, r.2.attrs, r.2.children⟩

/-- **`InlineProcessor.run`**: if the tree is the wrapper `div` around vocabulary content (what the block stage
    delivers, `C05_block_vocab`), so is the result: every node an ordinary element of the vocabulary, attributes among
    `href`, `title`, `src`, `alt`, every `hr`/`br`/`img` empty. -/
theorem C05_inline_vocab (cfg : Inline.Cfg) (root : Node) (html : List Str) (t : Node) (st : Inline.St)
    (hd : DocOk root = true) (h : Inline.run cfg root html = some (t, st)) : DocOk t = true :=
  run_ok cfg root html t st h hd

/-- **`PrettifyTreeprocessor` and `UnescapeTreeprocessor`** keep tags, attribute names and the emptiness of void
    elements (prettify only sets tails of `br`, texts of elements that have children, and the text of `pre > code`). -/
theorem C05_treeproc_preserve (t : Node) (bl : List Str) (hd : DocOk t = true) :
    DocOk (TreeProc.prettify t bl) = true ∧
      ∀ u, TreeProc.unescapeTree (TreeProc.prettify t bl) = some u → DocOk u = true :=
  ⟨prettify_doc t bl hd, fun u hu => unescapeTree_doc _ u hu (prettify_doc t bl hd)⟩

/-- the same below the root -/
theorem C05_treeproc_preserve_node (n : Node) (bl : List Str) (h : Good n = true) :
    Good (TreeProc.prettify n bl) = true ∧
      ∀ u, TreeProc.unescapeTree (TreeProc.prettify n bl) = some u → Good u = true :=
  ⟨prettify_good n bl h, fun u hu => unescapeTree_good _ u hu (prettify_good n bl h)⟩

/-! ### 2. vocabulary trees are in the domain of the round trip -/

/-- **vocabulary ⇒ well-formed.**  `WFTree` only looks at names and shapes; attribute *values* and texts are
    arbitrary strings (in particular the placeholder leaks of F-C10, which put STX/ETX into values, do not matter). -/
theorem C05_vocab_WFTree (n : Node) (h : Good n = true) : WFTree n = true := good_WFTree n h

theorem C05_doc_WFTree (root : Node) (h : DocOk root = true) : WFTree root = true := docOk_WFTree root h

/-- `Good` is the conjunction of the two block-stage predicates of `Spec/Vocab.lean` -/
theorem C05_good_iff_vocab (n : Node) : Good n = (Vocab.vocabNode n && Vocab.voidOk n) := good_iff_vocab n

theorem C05_docOk_iff_vocabDoc (root : Node) : DocOk root = Vocab.vocabDoc root := docOk_iff_vocabDoc root

/-! ### 3. the tree handed to the serializer -/

/-- **the document tree is in the vocabulary**, for every source text, every tab length / escape set / block-level
    set (`u` = tree after all tree processors, `html` = the raw-HTML stash). -/
theorem C05_tree_vocab (cfg : Pipeline.Cfg) (src : Str) (u : Node) (html : List Str)
    (h : Pipeline.tree cfg src = some (some (u, html))) :
    u.tag = .name "div".toList ∧ u.attrs = [] ∧ GoodList u.children = true := by
  have := tree_docOk cfg src u html h
  simp only [DocOk, Bool.and_eq_true, beq_iff_eq, List.isEmpty_iff] at this
  exact ⟨this.1.1, this.1.2, this.2⟩

/-- **core statement.**  The serialisation of the document tree is accepted by the strict reader — every element
    closed and properly nested, every attribute value quoted, no raw `<`, `>` in text, no raw `"` in an attribute
    value, every `&` the start of an entity reference — and reads back as the tree itself (`canon`), whose nodes are
    all in the vocabulary.  (`Pipeline.tree` is defined for every `src`; it models the implementation for `src`
    without `<`.) -/
theorem C05_tree_reads_back (cfg : Pipeline.Cfg) (src : Str) (u : Node) (html : List Str)
    (h : Pipeline.tree cfg src = some (some (u, html))) :
    readForest .xhtml (serialize .xhtml u) = some (canon u) ∧
      readForest .html (serialize .html u) = some (canon u) ∧ DocOk u = true := by
  have hd := tree_docOk cfg src u html h
  have hw := docOk_WFTree u hd
  exact ⟨roundtrip' .xhtml u hw, roundtrip' .html u hw, hd⟩

/-! ### 4. glue: from the serialisation of the wrapper to the string `convert` returns -/

/-- **the wrapper is cut off exactly.**  For a document tree, `Markdown.convert`'s search for `<div>` … `</div>`
    (`find` of the first `<div>`, `rindex` of the last `</div>`) returns the serialisation of the content of the
    wrapper (`inner`), stripped of surrounding white space — whatever the content is (the tail of the root, which
    `prettify` sets to a line feed, is escaped text and cannot contain `</div>`). -/
theorem C05_output_is_inner (fmt : Fmt) (u : Node) (hd : DocOk u = true) :
    Post.topLevelStrip (serialize fmt u) = some (strip (inner fmt u)) := topLevelStrip_doc fmt u hd

/-- **the content of the wrapper is a well-formed fragment of the vocabulary**: the strict reader accepts it, and
    everything it reads is text or a vocabulary element with allowed attribute names (`RGoodList`). -/
theorem C05_inner_reads (fmt : Fmt) (u : Node) (hd : DocOk u = true) :
    ∃ forest, readForest fmt (inner fmt u) = some forest ∧ RGoodList forest = true :=
  ⟨innerForest u, inner_reads fmt u hd⟩

/-- **`convert` returns the stripped content of the wrapper** when the raw-HTML stash is empty (no entity reference
    was stashed by the inline stage) and the serialisation does not contain the ampersand substitute
    `STX amp ETX` (then both postprocessors are the identity). -/
theorem C05_convert_plain (cfg : Pipeline.Cfg) (src : Str) (u : Node) (hlt : '<' ∉ src)
    (hnb : Normalize.isBlankDoc src = false) (ht : Pipeline.tree cfg src = some (some (u, [])))
    (hamp : contains (inner cfg.fmt u) Post.ampSubstitute = false) :
    Pipeline.convert cfg src = .ok (strip (inner cfg.fmt u)) :=
  convert_plain cfg src u (by simpa using hlt) hnb ht hamp

/-- **the output string is a well-formed fragment of the vocabulary**: the stripped content of the wrapper — the
    string `convert` hands to the postprocessors — is accepted by the strict reader, and everything read is text or
    a vocabulary element (stripping only shortens the first text and the last tail: `strip_inner`). -/
theorem C05_output_reads (fmt : Fmt) (u : Node) (hd : DocOk u = true) :
    ∃ forest, readForest fmt (strip (inner fmt u)) = some forest ∧ RGoodList forest = true :=
  ⟨_, strip_inner_reads fmt u hd⟩

/-- **what the postprocessors receive is always well-formed** — for every configuration and every source text
    (with or without `&`, whatever the raw-HTML stash holds): the string that `Markdown.convert` cuts out of the
    serialisation and hands to `RawHtmlPostprocessor` is accepted by the strict reader and consists of text and
    vocabulary elements only.  Entity references of the source are still placeholders (plain text) at this point;
    what remains for the full property is that the two postprocessors keep the string readable. -/
theorem C05_before_post (cfg : Pipeline.Cfg) (src : Str) (u : Node) (html : List Str)
    (ht : Pipeline.tree cfg src = some (some (u, html))) :
    ∃ t forest, Post.topLevelStrip (serialize cfg.fmt u) = some t ∧
      readForest cfg.fmt t = some forest ∧ RGoodList forest = true := by
  have hd := tree_docOk cfg src u html ht
  obtain ⟨forest, h1, h2⟩ := C05_output_reads cfg.fmt u hd
  exact ⟨_, forest, C05_output_is_inner cfg.fmt u hd, h1, h2⟩

/-- **C05, partial.**  For every configuration and every source text without `<` whose conversion leaves the
    raw-HTML stash empty and whose serialisation does not contain the ampersand substitute: the output of
    `Markdown.convert` is accepted by the strict reader — every element closed and properly nested, every attribute
    value quoted, no raw `<`/`>` in text, no raw `"` in an attribute value, every `&` the start of an entity
    reference — and consists of text and vocabulary elements with `href`/`title`/`src`/`alt` attributes only.

    Left out (see the report): (i) a non-empty stash (entity references of the source, restored by
    `RawHtmlPostprocessor`); (ii) deriving the two hypotheses from `'&' ∉ src`. -/
theorem C05_partial (cfg : Pipeline.Cfg) (src out : Str) (u : Node) (hlt : '<' ∉ src)
    (ht : Pipeline.tree cfg src = some (some (u, [])))
    (hamp : contains (inner cfg.fmt u) Post.ampSubstitute = false)
    (hc : Pipeline.convert cfg src = .ok out) :
    ∃ forest, readForest cfg.fmt out = some forest ∧ RGoodList forest = true := by
  by_cases hb : Normalize.isBlankDoc src = true
  · have : Pipeline.convert cfg src = .ok [] := by
      unfold Pipeline.convert
      simp [hlt, hb]
    rw [this] at hc
    injection hc with e; subst e
    exact ⟨[], readForest_nil _, rfl⟩
  · have hnb : Normalize.isBlankDoc src = false := by simpa using hb
    have := C05_convert_plain cfg src u hlt hnb ht hamp
    rw [this] at hc
    injection hc with e; subst e
    exact C05_output_reads cfg.fmt u (tree_docOk cfg src u [] ht)

/-! ### non-vacuity -/

/-- link with a hostile destination/title/alt, image, code span, hard break, nested emphasis, a reference, an
    entity, a list, a code block, a rule -/
def sampleSrc : Str :=
  ("***a** b* [t\"x](u\"v 'ti\"tle>') ![al\"t>](s) `c>`  \n[r] &amp; &\n\n* i\n\n---\n\n    x > y\n\n" ++
   "[r]: /u 'q\"'").toList

def sampleTree : Node := (((Pipeline.tree {} sampleSrc).getD none).map (·.1)).getD (Node.el "none")

/-- the hypothesis of the theorems is satisfiable, by a tree that uses the inline vocabulary (the entity `&amp;` of
    the source is in the raw-HTML stash at this point) -/
example : (Pipeline.tree {} sampleSrc).isSome = true ∧ serialize .xhtml sampleTree =
    ("<div>\n<p><em><strong>a</strong> b</em> <a href=\"u&quot;v\" title=\"ti&quot;tle&gt;\">t\"x</a> " ++
     "<img alt=\"al&quot;t&gt;\" src=\"s\" /> <code>c&gt;</code><br />\n" ++
     "<a href=\"/u\" title=\"q&quot;\">r</a> \x02wzxhzdk:0\x03 &amp;</p>\n<ul>\n<li>i</li>\n</ul>\n<hr />\n" ++
     "<pre><code>x &gt; y\n</code></pre>\n</div>\n").toList := by decide +kernel

example : DocOk sampleTree = true ∧ WFTree sampleTree = true := by decide +kernel

/-- the hypothesis of `C05_inline_vocab_found` is satisfiable: the link pattern and the `*` emphasis pattern -/
example : ((Inline.findMatch {} 3 "x [t](u \"v\")".toList 0 {}).map (fun r => r.1.map (fun f =>
      match f.node with | .el n => serialize .xhtml n | _ => []))) =
    some (some "<a href=\"u\" title=\"v\">t</a>".toList) := by decide +kernel

example : ((Inline.findMatch {} 14 "a ***b** c*".toList 0 {}).map (fun r => r.1.map (fun f =>
      match f.node with | .el n => serialize .xhtml n | _ => []))) =
    some (some "<em><strong>b</strong> c</em>".toList) := by decide +kernel

/-- the predicates are not trivially true -/
example : Good { tag := .name "script".toList } = false := by decide
example : Good { tag := .name "div".toList } = false := by decide
example : Good { tag := .comment } = false := by decide
example : Good { tag := .name "a".toList, attrs := [("onclick".toList, "x".toList)] } = false := by decide
example : Good { tag := .name "a".toList, attrs := [("href".toList, "x".toList), ("href".toList, "y".toList)] }
    = false := by decide
example : Good { tag := .name "br".toList, text := some "x".toList } = false := by decide
example : Good { tag := .name "p".toList, children := [{ tag := .name "img".toList, children := [Node.el "em"] }] }
    = false := by decide
example : GoodT inlineTags { tag := .name "p".toList } = false := by decide
example : Good { tag := .name "a".toList, attrs := [("href".toList, "x\"&\x02".toList), ("title".toList, [])],
                 children := [{ tag := .name "img".toList, attrs := [("src".toList, []), ("alt".toList, [])] }] }
    = true := by decide

/-- the hypotheses of `C05_partial` are satisfiable: a text with hostile link parts and no `&` -/
def plainSrc : Str := "# h\n\n***a** b* [t\"x](u\"v 'ti\"tle>') ![al\"t>](s) `c>`  \n> q".toList

def plainTree : Node := (((Pipeline.tree {} plainSrc).getD none).map (·.1)).getD (Node.el "none")

example : '<' ∉ plainSrc := by decide

example : ((Pipeline.tree {} plainSrc).getD none).map (·.2) = some [] ∧
    contains (inner .xhtml plainTree) Post.ampSubstitute = false ∧
    Pipeline.convert {} plainSrc = .ok
      ("<h1>h</h1>\n<p><em><strong>a</strong> b</em> <a href=\"u&quot;v\" title=\"ti&quot;tle&gt;\">t\"x</a> " ++
       "<img alt=\"al&quot;t&gt;\" src=\"s\" /> <code>c&gt;</code>  </p>\n<blockquote>\n<p>q</p>\n</blockquote>").toList := by
  decide +kernel

/-- `RGoodList` is not trivially true -/
example : RGoodList [.elem "script".toList [] []] = false := by decide
example : RGoodList [.elem "a".toList [("onclick".toList, [])] []] = false := by decide
example : RGoodList [.elem "p".toList [] [.comment []]] = false := by decide
example : RGoodList [.elem "br".toList [] [.text [.ch 'x']]] = false := by decide
example : RGoodList [.text [.ch 'x'], .elem "a".toList [("href".toList, [.ch '"'])] [.elem "img".toList [] []]]
    = true := by decide

end MdVerif.C05
