/-
C09 on the extension pipeline, the case `Props/C09X.lean` left open: EXTRA BLANK LINES BEHIND A DOCUMENT THAT ENDS IN A
CODE BLOCK never change the output — for `PipelineX.convertX x cfg` (`Markdown(extensions=[…]).convert`) with ANY
subset `x : Exts` of fenced_code, tables, admonition, def_list, abbr, footnotes, sane_lists, nl2br, wikilinks,
attr_list, toc.

`C09X_doc_trailing_noCode` (`Props/C09X.lean`) has the hypothesis that the parsed tree does not end in a code block:
when it does, the trailing line feeds DO reach the tree — the empty-block processor appends them to the text of the
`code` element — and the statement is that no later stage lets them through to the output.  `C09_doc_trailing`
(`Props/C09Doc.lean`) proves that for the core pipeline; here it is lifted to every flag set:

1. `C09X_top_code_shape` (`Lemmas/C09XCodeTop.lean`): every `pre` child of the root that the EXTENDED block parser
   builds — core processors, admonition, definition lists and their indent processor, sane lists, tables, footnote and
   abbreviation definitions — is exactly `pre[code(atomic text)]`, without text, tail, attributes or further children.
2. `Lemmas/C09XCodeRun.lean`: two roots that differ only in the texts of top-level code blocks are treated alike by
   the tree processors in front of `prettify`: the footnote tree processor (`findFootnotesPlaceholder` does read the
   text of a `code` element — the marker `///Footnotes Go Here///` inside a code block is honoured — but line feeds
   behind a text neither make nor break an occurrence of the marker; otherwise the footnote `div` is appended BEHIND
   the code block, so that the code block is no longer the last child: the lockstep is position-free), the inline
   processor over the extended pattern table (`InlineX.runX`: same stack, same states, same stashes), the footnote
   post-processor; and `prettify`'s `rstrip` maps the two roots to the same tree.  From there on (attr_list, abbr,
   toc, unescape, serializer, postprocessors) the two conversions are the same computation.
3. `Lemmas/C09XCode.lean`: the composition, on top of `prepareX_trailing` / `parseDocumentXT_trailing`.

As in the core theorem the statement carries the hypotheses that neither conversion is `oof` ("out of the model's
fuel": the fuel of the inline stage depends on the size of the tree, which differs; `oof` has never been observed).
Tested before proving: `harness/corr/c09xcode.py` — 6000 pairs `src` / `src + "\n"*m` ending in a code block (4589
outputs end in `</code></pre>`, 156 have the footnote `div` behind the code block, 815 the place marker in the code),
random subsets of the eleven extensions, tab 2/4/8, both output formats: 0 differences on the real implementation,
0 on the model.
Only property statements live here.
-/
import MdVerif.Props.C09X
import MdVerif.Lemmas.C09XCode

namespace MdVerif.PipelineX
open Py Normalize NormDoc Pipeline

/-- **The code blocks the extended block parser builds.**  For every flag set of the block stage (`tables`, and
    `cfg`: admonition, def_list, footnotes, abbr, sane_lists), every tab length and every text: each child of the root
    of the parsed document whose tag is `pre` is `cpre t` = `pre[code(text t, atomic)]` for some `t` — no text, tail,
    attribute or second child on the `pre`; no tail, attribute or child on the `code` — and the root is a `div`. -/
theorem C09X_top_code_shape (tables : Bool) (cfg : BlockExt.XCfg) (tab : Nat) (text : Str) (root : Node)
    (log : Block.Refs) (h : BlockExt.parseDocumentXT tables cfg tab text = some (root, log)) :
    (∀ c ∈ root.children, c.tag = .name "pre".toList → ∃ t, c = cpre t) ∧ root.tag = .name "div".toList :=
  C09XCode.parseDocumentXT_top h

/-- an admonition, a paragraph, an indented code block with blank lines behind it (all block extensions on) -/
example : (BlockExt.parseDocumentXT true C09X_all.blockCfg 4 "!!! note\n    a\n\nx\n\n    b\n\n\n".toList).map
    (fun r => r.1.children.map (fun c => (c.tag, c.children.map (·.text)))) =
    some [(.name "div".toList, [some "Note".toList, some "a".toList]), (.name "p".toList, []),
      (.name "pre".toList, [some "b\n\n".toList])] := by
  decide +kernel

/-- **Blank lines behind any document, every extension.**  `m` more line feeds behind the source: the same
    conversion, for every flag set (with admonition: for a positive tab length — the totality hypothesis of the
    extended block parser), provided neither conversion runs out of the model's fuel.  When the document ends in a code
    block the trailing blank lines reach the tree as line feeds appended to the code text; they are not read by the
    footnote tree processor (beyond the search for its place marker, which line feeds do not affect), by the inline
    processor with the extension patterns, or by the footnote post-processor, and are removed by
    `PrettifyTreeprocessor`'s `rstrip` — also when the footnote `div` has been appended behind the code block. -/
theorem C09X_doc_trailing (x : Exts) (cfg : Cfg) (htab : x.admonition = true → 0 < cfg.tab) (src : Str) (m : Nat)
    (h0 : convertX x cfg src ≠ .oof) (h1 : convertX x cfg (src ++ List.replicate m '\n') ≠ .oof) :
    convertX x cfg (src ++ List.replicate m '\n') = convertX x cfg src :=
  C09XCode.convertX_trailing x cfg htab src m h0 h1

/-- **C09, blank-line padding, every extension.**  Any number of blank lines before and after any document: the same
    conversion (same provisos). -/
theorem C09X_doc_padding (x : Exts) (cfg : Cfg) (htab : x.admonition = true → 0 < cfg.tab) (src : Str) (k m : Nat)
    (h0 : convertX x cfg src ≠ .oof)
    (h1 : convertX x cfg (List.replicate k '\n' ++ src ++ List.replicate m '\n') ≠ .oof) :
    convertX x cfg (List.replicate k '\n' ++ src ++ List.replicate m '\n') = convertX x cfg src := by
  rw [List.append_assoc, C09X_doc_leading x cfg htab] at h1 ⊢
  exact C09X_doc_trailing x cfg htab src m h0 h1

/-! #### the hypotheses are satisfiable; instances evaluated by the kernel on the model (= the real code) -/

example : C09X_all.admonition = true → 0 < ({} : Cfg).tab := fun _ => by decide

/-- all eleven extensions, a footnote, a paragraph, a code block LAST in the source: the footnote `div` comes behind
    the code block in the tree; three more line feeds: the same output -/
example :
    convertX C09X_all {} "x[^1]\n\n[^1]: n\n\npara\n\n    b *c*".toList ≠ .oof ∧
    convertX C09X_all {} ("x[^1]\n\n[^1]: n\n\npara\n\n    b *c*".toList ++ List.replicate 3 '\n') ≠ .oof := by
  decide +kernel

example :
    convertX C09X_all {} ("x[^1]\n\n[^1]: n\n\npara\n\n    b *c*".toList ++ List.replicate 3 '\n') = .ok
      ("<p>x<sup id=\"fnref:1\"><a class=\"footnote-ref\" href=\"#fn:1\">1</a></sup></p>\n<p>para</p>\n" ++
       "<pre><code>b *c*\n</code></pre>\n<div class=\"footnote\">\n<hr />\n<ol>\n<li id=\"fn:1\">\n" ++
       "<p>n&#160;<a class=\"footnote-backref\" href=\"#fnref:1\" title=\"Jump back to footnote 1 in the text\">&#8617;</a></p>\n" ++
       "</li>\n</ol>\n</div>").toList ∧
    convertX C09X_all {} "x[^1]\n\n[^1]: n\n\npara\n\n    b *c*".toList =
      convertX C09X_all {} ("x[^1]\n\n[^1]: n\n\npara\n\n    b *c*".toList ++ List.replicate 3 '\n') := by
  decide +kernel

/-- the footnote place marker inside the trailing code block is honoured (the `code` element is replaced by the
    footnote `div`), with and without blank lines behind it -/
example :
    convertX C09X_all {} "x[^1]\n\n[^1]: n\n\np\n\n    a ///Footnotes Go Here/// b".toList =
      convertX C09X_all {} ("x[^1]\n\n[^1]: n\n\np\n\n    a ///Footnotes Go Here/// b".toList ++ List.replicate 2 '\n') ∧
    convertX C09X_all {} "x[^1]\n\n[^1]: n\n\np\n\n    a ///Footnotes Go Here/// b".toList = .ok
      ("<p>x<sup id=\"fnref:1\"><a class=\"footnote-ref\" href=\"#fn:1\">1</a></sup></p>\n<p>p</p>\n" ++
       "<pre><div class=\"footnote\"><hr /><ol><li id=\"fn:1\"><p>n&#160;<a class=\"footnote-backref\" href=\"#fnref:1\" " ++
       "title=\"Jump back to footnote 1 in the text\">&#8617;</a></p></li></ol></div></pre>").toList := by
  decide +kernel

/-- the fillers are in the tree (the text of the `code` element), not in the output -/
example :
    (BlockExt.parseDocumentXT true C09X_all.blockCfg 4 "    b\n\n\n\n\n".toList).map
      (fun r => r.1.children.map (fun c => c.children.map (·.text))) = some [[some "b\n\n\n\n".toList]] ∧
    (BlockExt.parseDocumentXT true C09X_all.blockCfg 4 "    b\n\n".toList).map
      (fun r => r.1.children.map (fun c => c.children.map (·.text))) = some [[some "b\n\n\n".toList]] := by
  decide +kernel

end MdVerif.PipelineX
