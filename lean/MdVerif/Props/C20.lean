/-
C20 — Converting a file or stream writes exactly what converting the decoded text returns, in the encoding of the
input; a leading byte-order mark is ignored; characters the encoding cannot represent become numeric character
references; command-line options map to the same keyword arguments.

Statements are about the models `MdVerif/Model/Codec.lean` and `MdVerif/Model/Cli.lean` (tied to the code by
`harness/corr/codec.py`: `str.encode`, `bytes.decode`, the stream reader, the real `convertFile` with a stand-in
`convert`, the real `parse_options`).  Helper lemmas: `MdVerif/Lemmas/Codec.lean`, `MdVerif/Lemmas/Cli.lean`.

* composition: `C20_convertFile_eq`, `C20_convertFile_valid`, `C20_convertFile_reads_back`
* `xmlcharrefreplace`: `C20_xmlcharref_total`, `C20_xmlcharref_spelling`, `C20_encodable_unchanged`
* codecs: `C20_roundtrip` (ASCII, Latin-1, UTF-8), `C20_roundtrip_refs`, `C20_stream_agrees`
* byte-order mark: `C20_bom`, `C20_bom_only_leading`
* command line: `C20_cli_roundtrip`, `C20_cli_kwargs`, `C20_cli_table`, `C20_cli_defaults`, `C20_cli_keywords`
* finding witness (kernel-checked): `C20_truncated_tail_dropped`

Partial: `codecs`, files and the standard streams are CPython's (trusted; the three codecs are compared byte for byte by
the harness).  With no input file the text comes from `sys.stdin`, which the interpreter decodes with the locale's
encoding, not with `encoding` (F-C20-1): that path is outside the model.
-/
import MdVerif.Model.Codec
import MdVerif.Model.Cli
import MdVerif.Lemmas.Codec
import MdVerif.Lemmas.Cli

namespace MdVerif.Codec
open MdVerif

/-! ### `convertFile` is decode ∘ strip BOM ∘ convert ∘ encode-with-references -/

/-- **C20 (composition).** The bytes written are the `xmlcharrefreplace` encoding, in the codec of the input, of the
    conversion of the text read from the input with every leading U+FEFF removed; nothing is written when the input
    cannot be read in that codec. -/
theorem C20_convertFile_eq (c : Codec) (convert : Str → Str) (input : Bytes) :
    convertFile c convert input =
      (decodeStream c input).bind (fun text => encodeX c (convert (stripBom text))) := by
  unfold convertFile
  cases decodeStream c input <;> rfl

/-- for an input that is valid in the codec (`bytes.decode` accepts it), with `text` its decoding: the bytes written
    exist (no exception), are bytes, and decode — strictly, in the same codec — to the conversion of the BOM-less
    text with the unrepresentable characters spelled as `&#N;` -/
theorem C20_convertFile_valid (c : Codec) (convert : Str → Str) (input : Bytes) (text : Str)
    (h : decode c input = some text) :
    ∃ out, convertFile c convert input = some out ∧
      encodeX c (convert (stripBom text)) = some out ∧
      (∀ b ∈ out, b < 256) ∧
      decode c out = some (xref c (convert (stripBom text))) := by
  obtain ⟨out, ho⟩ := encodeX_total c (convert (stripBom text))
  refine ⟨out, ?_, ho, ?_, ?_⟩
  · rw [C20_convertFile_eq, decodeStream_of_decode c input text h]; exact ho
  · rw [encodeX_eq] at ho; exact encode_lt c _ out ho
  · rw [encodeX_eq] at ho; exact decode_encode c _ out ho

/-- … and when the converted text has no `&` of its own, reading the numeric references of the written bytes back
    gives exactly the converted text: nothing is lost in any of the three encodings -/
theorem C20_convertFile_reads_back (c : Codec) (convert : Str → Str) (input : Bytes) (text : Str)
    (h : decode c input = some text) (hamp : '&' ∉ convert (stripBom text)) :
    ∃ out, convertFile c convert input = some out ∧
      (decode c out).map decodeRefs = some (convert (stripBom text)) := by
  obtain ⟨out, h1, _, _, h4⟩ := C20_convertFile_valid c convert input text h
  exact ⟨out, h1, by rw [h4, Option.map_some, decodeRefs_xref c _ hamp]⟩

/-- non-vacuity: a UTF-8 input with a BOM, an ASCII output with a reference.
    `EF BB BF 63 61 66 C3 A9` = BOM `café`; converting with the identity to ASCII writes `caf&#233;` -/
example : decode .utf8 [0xEF, 0xBB, 0xBF, 0x63, 0x61, 0x66, 0xC3, 0xA9] = some [bom, 'c', 'a', 'f', 'é'] := by
  decide +kernel
example : convertFile .utf8 id [0xEF, 0xBB, 0xBF, 0x63, 0x61, 0x66, 0xC3, 0xA9] = some [0x63, 0x61, 0x66, 0xC3, 0xA9] := by
  decide +kernel
example : (decode .latin1 [0x63, 0x61, 0x66, 0xE9]).bind (fun t => encodeX .ascii (id (stripBom t)))
    = some [0x63, 0x61, 0x66, 0x26, 0x23, 0x32, 0x33, 0x33, 0x3B] := by decide +kernel
example : '&' ∉ id (stripBom [bom, 'c', 'a', 'f', 'é']) := by decide +kernel

/-- on every input that `bytes.decode` accepts the stream reader used by `convertFile` reads the same text -/
theorem C20_stream_agrees (c : Codec) (input : Bytes) (text : Str) (h : decode c input = some text) :
    decodeStream c input = some text := decodeStream_of_decode c input text h

/-- **Finding witness (kernel-checked; candidate F-C20-2).** The converse fails for UTF-8: an input that ends in the
    middle of a multi-byte sequence is *not* rejected by `convertFile` — `StreamReader.read()` leaves the truncated
    tail in its buffer — while `bytes.decode` raises.  `63 61 66 C3` (`caf` + the first byte of `é`) is converted
    as `caf`. -/
theorem C20_truncated_tail_dropped :
    decode .utf8 [0x63, 0x61, 0x66, 0xC3] = none ∧
    decodeStream .utf8 [0x63, 0x61, 0x66, 0xC3] = some ['c', 'a', 'f'] ∧
    convertFile .utf8 id [0x63, 0x61, 0x66, 0xC3] = some [0x63, 0x61, 0x66] := by decide +kernel

/-! ### `xmlcharrefreplace` never fails -/

/-- **C20 (no exception on output).** Encoding with `xmlcharrefreplace` succeeds for every text (of Unicode scalar
    values) in ASCII, Latin-1 and UTF-8, and produces bytes. -/
theorem C20_xmlcharref_total (c : Codec) (s : Str) :
    ∃ bs, encodeX c s = some bs ∧ ∀ b ∈ bs, b < 256 := by
  obtain ⟨bs, h⟩ := encodeX_total c s
  exact ⟨bs, h, by rw [encodeX_eq] at h; exact encode_lt c _ bs h⟩

/-- what is written for one character: its own bytes when the codec has them, otherwise the ASCII bytes of `&#N;`
    with `N` the decimal code point -/
theorem C20_xmlcharref_spelling (c : Codec) (ch : Char) :
    encodeCharX c ch =
      match encodeChar c ch with
      | some a => some a
      | none => some (('&' :: '#' :: (Py.natToDec ch.toNat ++ [';'])).map Char.toNat) := by
  unfold encodeCharX
  cases h : encodeChar c ch with
  | some a => rfl
  | none => exact encode_ascii c _ (charref_ascii ch)

/-- which characters that is: ASCII has the code points below 128, Latin-1 those below 256, UTF-8 all -/
theorem C20_encodable (c : Codec) (ch : Char) :
    (encodeChar c ch).isSome = (match c with
                                | .ascii => decide (ch.toNat < 128)
                                | .latin1 => decide (ch.toNat < 256)
                                | .utf8 => true) := by
  cases c <;> simp [encodeChar] <;> split <;> simp_all

/-- a text the codec can represent is written without any reference: `xmlcharrefreplace` = strict encoding -/
theorem C20_encodable_unchanged (c : Codec) (s : Str) (bs : Bytes) (h : encode c s = some bs) :
    encodeX c s = some bs ∧ xref c s = s := by
  have hx : xref c s = s := by
    induction s generalizing bs with
    | nil => rfl
    | cons ch s ih =>
      rw [encode_cons] at h
      cases ha : encodeChar c ch with
      | none => simp [ha] at h
      | some a =>
        cases hb : encode c s with
        | none => simp [ha, hb] at h
        | some b =>
          have := ih b hb
          simp only [xref, List.flatMap_cons, ha, Option.isSome_some, if_true] at this ⊢
          rw [this]; rfl
  exact ⟨by rw [encodeX_eq, hx]; exact h, hx⟩

example : encodeX .ascii ['c', 'a', 'f', 'é', ' ', '€'] = some ("caf&#233; &#8364;".toList.map Char.toNat) := by
  simp only [String.reduceToList]; decide +kernel
example : encodeX .latin1 ['c', 'a', 'f', 'é', ' ', '€'] = some ([99, 97, 102, 233, 32] ++ "&#8364;".toList.map Char.toNat) := by
  simp only [String.reduceToList]; decide +kernel
example : encodeX .utf8 ['é', '€', Char.ofNat 0x1F600] = some [0xC3, 0xA9, 0xE2, 0x82, 0xAC, 0xF0, 0x9F, 0x98, 0x80] := by
  decide +kernel

/-! ### the codecs round-trip -/

/-- **C20 (same encoding in and out).** In each of ASCII, Latin-1 and UTF-8, strictly decoding the strict encoding
    of a text gives the text back. -/
theorem C20_roundtrip (c : Codec) (s : Str) (bs : Bytes) (h : encode c s = some bs) : decode c bs = some s :=
  decode_encode c s bs h

theorem C20_roundtrip_utf8 (s : Str) : ∃ bs, encode .utf8 s = some bs ∧ decode .utf8 bs = some s := by
  have : ∃ bs, encode .utf8 s = some bs := by
    induction s with
    | nil => exact ⟨[], rfl⟩
    | cons ch s ih => obtain ⟨b, hb⟩ := ih; exact ⟨utf8Bytes ch.toNat ++ b, by simp [encode, encodeChar, hb]⟩
  obtain ⟨bs, h⟩ := this
  exact ⟨bs, h, C20_roundtrip _ _ _ h⟩

theorem C20_roundtrip_latin1 (s : Str) (hs : ∀ ch ∈ s, ch.toNat < 256) :
    ∃ bs, encode .latin1 s = some bs ∧ decode .latin1 bs = some s := by
  have : ∃ bs, encode .latin1 s = some bs := by
    induction s with
    | nil => exact ⟨[], rfl⟩
    | cons ch s ih =>
      obtain ⟨b, hb⟩ := ih (fun x hx => hs x (by simp [hx]))
      exact ⟨[ch.toNat] ++ b, by simp [encode, encodeChar, hb, hs ch (by simp)]⟩
  obtain ⟨bs, h⟩ := this
  exact ⟨bs, h, C20_roundtrip _ _ _ h⟩

theorem C20_roundtrip_ascii (s : Str) (hs : ∀ ch ∈ s, ch.toNat < 128) :
    encode .ascii s = some (s.map Char.toNat) ∧ decode .ascii (s.map Char.toNat) = some s :=
  ⟨encode_ascii .ascii s hs, C20_roundtrip _ _ _ (encode_ascii .ascii s hs)⟩

example : ∀ ch ∈ ['c', 'a', 'f', 'é'], ch.toNat < 256 := by decide
example : ∀ ch ∈ ['c', 'a', 'f'], ch.toNat < 128 := by decide

/-- with `xmlcharrefreplace`, for a text without `&`: decoding the bytes and reading the numeric references back
    gives the text — in every one of the three codecs, whether or not it can represent the characters -/
theorem C20_roundtrip_refs (c : Codec) (s : Str) (h : '&' ∉ s) :
    ∃ bs, encodeX c s = some bs ∧ (decode c bs).map decodeRefs = some s := by
  obtain ⟨bs, hb⟩ := encodeX_total c s
  refine ⟨bs, hb, ?_⟩
  rw [encodeX_eq] at hb
  rw [decode_encode c _ bs hb, Option.map_some, decodeRefs_xref c s h]

example : '&' ∉ ['c', 'a', 'f', 'é', ' ', '€'] := by decide
example : (decode .ascii ("caf&#233; &#8364;".toList.map Char.toNat)).map decodeRefs = some ['c', 'a', 'f', 'é', ' ', '€'] := by
  simp only [String.reduceToList]; decide +kernel
/-- why the hypothesis: a literal `&#233;` in the text is indistinguishable from a replaced `é` -/
example : (decode .ascii ("&#233;".toList.map Char.toNat)).map decodeRefs = some ['é'] := by
  simp only [String.reduceToList]; decide +kernel

/-! ### byte-order mark -/

/-- **C20 (BOM).** Any number of leading U+FEFF is ignored … -/
theorem C20_bom (k : Nat) (s : Str) : stripBom (List.replicate k bom ++ s) = stripBom s :=
  stripBom_replicate k s

/-- … and nothing else is touched: a text that does not start with U+FEFF is unchanged (in particular a U+FEFF
    further inside stays), and the result never starts with U+FEFF -/
theorem C20_bom_only_leading (s : Str) :
    (s.head? ≠ some bom → stripBom s = s) ∧ (stripBom s).head? ≠ some bom :=
  ⟨stripBom_id s, stripBom_head s⟩

example : ['a', bom, 'b'].head? ≠ some bom := by decide
example : stripBom [bom, bom, 'a', bom, 'b'] = ['a', bom, 'b'] := by decide

end MdVerif.Codec

namespace MdVerif.Cli
open MdVerif

local macro "decide_tbl" : tactic =>
  `(tactic| ((try simp only [String.reduceToList, List.map_cons, List.map_nil]); decide +kernel))

/-! ### command line -/

/-- **C20 (command line, print/parse).** Every option record with one of the four logging levels the flags can ask
    for is obtained by parsing its canonical command line: the option grammar loses nothing. -/
theorem C20_cli_roundtrip (o : Opts) (h : WF o) : parseArgs (render o) = .ok o := parseArgs_render o h

example : WF { input := some "in.md".toList, output := some "out.html".toList, extensions := ["toc".toList, "extra".toList],
               configfile := none, encoding := some "latin-1".toList, outputFormat := "html".toList, lazyOl := false,
               verbose := 30 } := by simp [WF]
example : render { input := some "in.md".toList, output := some "out.html".toList, extensions := ["toc".toList, "extra".toList],
                   configfile := none, encoding := some "latin-1".toList, outputFormat := "html".toList, lazyOl := false,
                   verbose := 30 }
    = ["-f", "out.html", "-e", "latin-1", "-o", "html", "-n", "-x", "toc", "-x", "extra", "-v", "--", "in.md"].map String.toList := by
  decide_tbl

/-- **C20 (options are the keyword arguments).** Each option lands in the keyword the API uses, and only there:
    `-f` is `output`, `-e` is `encoding`, `-o` is `output_format`, `-n` clears `lazy_ol`, every `-x` appends to
    `extensions` in order, `-c` names the configuration file, `-q`/`-v`/`--noisy` set the logging level, the first
    positional argument is `input`. -/
theorem C20_cli_kwargs (v w : Str) :
    parseArgs [] = .ok defaults ∧
    parseArgs [['-', 'f'], v] = .ok { defaults with output := some v } ∧
    parseArgs [['-', 'e'], v] = .ok { defaults with encoding := some v } ∧
    parseArgs [['-', 'o'], v] = .ok { defaults with outputFormat := v } ∧
    parseArgs [['-', 'n']] = .ok { defaults with lazyOl := false } ∧
    parseArgs [['-', 'x'], v, ['-', 'x'], w] = .ok { defaults with extensions := [v, w] } ∧
    parseArgs [['-', 'c'], v] = .ok { defaults with configfile := some v } ∧
    parseArgs [['-', 'q']] = .ok { defaults with verbose := 60 } ∧
    parseArgs [['-', 'v']] = .ok { defaults with verbose := 30 } ∧
    parseArgs [['-', '-', 'n', 'o', 'i', 's', 'y']] = .ok { defaults with verbose := 10 } ∧
    parseArgs [['-', '-'], v] = .ok { defaults with input := some v } := by
  simp [parseArgs, go_f, go_e, go_o, go_n, go_x, go_c, go_q, go_v, go_noisy, go_dashdash, go_nil, defaults]

/-- the other spellings `optparse` accepts mean the same: long names, `--name=value`, unique prefixes, attached
    values, clusters, options after the input file -/
theorem C20_cli_spellings :
    parseArgs (["--output_format", "html"].map String.toList) = parseArgs (["-o", "html"].map String.toList) ∧
    parseArgs (["--output_format=html"].map String.toList) = parseArgs (["-o", "html"].map String.toList) ∧
    parseArgs (["--out=html"].map String.toList) = parseArgs (["-o", "html"].map String.toList) ∧
    parseArgs (["-ohtml"].map String.toList) = parseArgs (["-o", "html"].map String.toList) ∧
    parseArgs (["-nqx", "toc"].map String.toList) = parseArgs (["-n", "-q", "-x", "toc"].map String.toList) ∧
    parseArgs (["in.md", "-n"].map String.toList) = parseArgs (["-n", "--", "in.md"].map String.toList) ∧
    parseArgs (["--no_lazy_ol", "--extension", "toc", "--file=o.html", "--encoding", "utf-8", "--quiet"].map String.toList)
      = parseArgs (["-n", "-x", "toc", "-f", "o.html", "-e", "utf-8", "-q"].map String.toList) := by decide_tbl

/-- what `optparse` refuses (exit status 2) and where it stops (exit status 0) -/
theorem C20_cli_errors :
    parseArgs (["--bogus"].map String.toList) = .error .usage ∧
    parseArgs (["-z"].map String.toList) = .error .usage ∧
    parseArgs (["-f"].map String.toList) = .error .usage ∧
    parseArgs (["--e", "x"].map String.toList) = .error .usage ∧          -- ambiguous: encoding, extension, extension_configs
    parseArgs (["--no_lazy_ol=1"].map String.toList) = .error .usage ∧
    parseArgs (["-h", "--bogus"].map String.toList) = .error .exit0 ∧
    parseArgs (["--version"].map String.toList) = .error .exit0 := by decide_tbl

/-- the option table of the source, as the model reads it: every `parser.add_option` row is understood, and the
    parser's options are these (short flag, long name, effect) -/
theorem C20_cli_table :
    (Generated.cliOptions.all fun r => (actOf r.2.2.1 r.2.2.2.1 r.2.2.2.2).isSome) = true ∧
    options.map (fun o => (o.1, String.ofList o.2.1, o.2.2)) =
      [(none, "version", Act.version), (some 'h', "help", Act.help),
       (some 'f', "file", Act.file), (some 'e', "encoding", Act.encoding), (some 'o', "output_format", Act.outputFormat),
       (some 'n', "no_lazy_ol", Act.noLazyOl), (some 'x', "extension", Act.extension),
       (some 'c', "extension_configs", Act.configfile), (some 'q', "quiet", Act.level 60),
       (some 'v', "verbose", Act.level 30), (none, "noisy", Act.level 10)] := by
  constructor
  · decide +kernel
  · have h : options.map (fun o => (o.1, o.2.1, o.2.2)) =
        [(none, "version".toList, Act.version), (some 'h', "help".toList, Act.help),
         (some 'f', "file".toList, Act.file), (some 'e', "encoding".toList, Act.encoding),
         (some 'o', "output_format".toList, Act.outputFormat),
         (some 'n', "no_lazy_ol".toList, Act.noLazyOl), (some 'x', "extension".toList, Act.extension),
         (some 'c', "extension_configs".toList, Act.configfile), (some 'q', "quiet".toList, Act.level 60),
         (some 'v', "verbose".toList, Act.level 30), (none, "noisy".toList, Act.level 10)] := by decide_tbl
    have := congrArg (List.map (fun o : Option Char × Str × Act => (o.1, String.ofList o.2.1, o.2.2))) h
    simpa [List.map_map, Function.comp_def] using this

/-- the defaults of the source (`default=` of the `add_option` calls; a destination without one is `None`) are the
    defaults of the model -/
theorem C20_cli_defaults :
    Generated.cliDefaults =
      [("filename".toList, "none".toList, []), ("output_format".toList, "str".toList, defaults.outputFormat),
       ("lazy_ol".toList, "bool".toList, (if defaults.lazyOl then "True" else "False").toList),
       ("configfile".toList, "none".toList, []), ("verbose".toList, "int".toList, Py.natToDec defaults.verbose)] ∧
    defaults.output = none ∧ defaults.configfile = none ∧ defaults.encoding = none ∧ defaults.extensions = [] ∧
    defaults.input = none := by
  refine ⟨?_, rfl, rfl, rfl, rfl, rfl⟩
  simp only [defaults, if_true]
  decide_tbl

/-- the keyword dictionary `parse_options` returns, as written in the source: the keywords of `markdownFromFile` /
    `Markdown` with the option destinations they are filled from -/
theorem C20_cli_keywords :
    Generated.cliKwargs =
      [("input", "input_file"), ("output", "options.filename"), ("extensions", "options.extensions"),
       ("extension_configs", "extension_configs"), ("encoding", "options.encoding"),
       ("output_format", "options.output_format"), ("lazy_ol", "options.lazy_ol")].map
        (fun p => (p.1.toList, p.2.toList)) := by
  simp only [List.map_cons, List.map_nil, String.reduceToList]
  decide +kernel

/-- an empty `-c` value opens no file (`if options.configfile:`) -/
theorem C20_cli_configfile (o : Opts) :
    o.configLoaded = match o.configfile with
                     | some [] => none
                     | x => x := by
  unfold Opts.configLoaded
  cases h : o.configfile with
  | none => rfl
  | some f => cases f <;> simp [Option.filter]

end MdVerif.Cli
