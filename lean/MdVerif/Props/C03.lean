/-
C03 — code is literal, through the REAL pipeline model (`Pipeline.convert`): "Text placed in an indented code block,
a fenced code block or a backtick code span appears in the output character for character, changed only by
HTML-escaping of `&`, `<` and `>` and by trimming of trailing whitespace (at both ends of a span, at the end of each
run of lines and of the whole block).  No Markdown, HTML or entity syntax inside code is ever interpreted, whatever
surrounds the code."

Only property statements live here; the vocabulary is in `Spec/CodeLaw.lean`, the helper lemmas in
`Lemmas/CodePipe.lean`.  The escaping itself (`codeEscape` is one pass, is not escaped twice by the serializer, reads
back as the code, is injective) and the fenced-code extension are in `Props/C03Code.lean`, imported here.

Domain.  The pipeline model covers text without `<`.  Code lines may contain everything else except line feed (bodies
are given line by line), CR, tab, STX, ETX (`isCodeChar`; `NormalizeWhitespace` rewrites those before any parser sees
them).  `&` is in scope — with ONE exclusion, hypothesis `refsClosed`: a numeric character reference without its
`;` (`&#38 `), which the raw-HTML preprocessor re-spells as `&#38; ` before the block parser runs, in code as
anywhere else.  That is the known defect F-C03-1; the model's leak is recorded below as kernel-checked counterexamples
(`C03_F1_block_counterexample`, `C03_F1_span_counterexample`).

Part 1 (block stage).  `C03_detab_indent`, `C03_codeP_text`, `C03_codeP_continues`, `C03_emptyP_filler`,
`C03_code_runs`: what `CodeBlockProcessor` / `EmptyBlockProcessor` build from an indented code block of several
runs of lines separated by any number of blank lines.
Part 2 (tree stage).  `C03_inline_skips_atomic`, `C03_inline_run_calm`, `C03_inline_code_block`, `C03_stash_skips_atomic`,
`C03_placeholders_keep_code`, `C03_unescape_skips_code`, `C03_prettify_code`: no later stage touches the text of a
code element.
Part 3 (end to end, blocks).  `C03_block_top`, `C03_block_after_paragraph`.
Part 4 (end to end, spans).  `C03_span_found`, `C03_span_stashed`, `C03_span_top`.
-/
import MdVerif.Props.C03Code
import MdVerif.Lemmas.CodePipe

namespace MdVerif.CodeLaw
open Py Block

/-! ### Part 1: the block stage -/

/-- `BlockProcessor.detab` gives an indented code block back line for line: the indentation of `tab` spaces is
    removed from every non-empty line, empty lines stay, nothing is left over -/
theorem C03_detab_indent (tab : Nat) (ls : List Str) (hne : ls ≠ []) (hnl : ∀ l ∈ ls, '\n' ∉ l) :
    detab tab (joinLines (indentLines tab ls)) = (joinLines ls, []) :=
  detab_indent tab ls hne hnl

-- the hypotheses on a concrete input: three lines, one of them empty, Markdown and an entity inside
example : ["*a*".toList, [], "  &amp; b".toList] ≠ [] ∧ ∀ l ∈ ["*a*".toList, [], "  &amp; b".toList], '\n' ∉ l := by
  decide

/-- **`CodeBlockProcessor` on a first block of indented lines**: a new `<pre><code>` is appended whose text is the
    lines, right-trimmed, escaped by `code_escape`, plus a line feed — an `AtomicString` (`codePre`), so that no
    inline pattern will ever see it -/
theorem C03_codeP_text (tab : Nat) (refs : Refs) (parent : Node) (ls : List Str) (rest : List Str)
    (hne : ls ≠ []) (hnl : ∀ l ∈ ls, '\n' ∉ l) (hlast : ∀ sib, parent.last? = some sib → preCode sib = none) :
    codeP tab refs parent (joinLines (indentLines tab ls)) rest =
      (parent.append (codePre (Code.codeEscape (rstrip (joinLines ls)) ++ ['\n'])), refs, rest) :=
  codeP_fresh tab refs parent ls rest hne hnl hlast

-- the hypothesis on the parent on a concrete input: the document root with a paragraph before the code
example : ∀ sib, ((Node.el "div").append (mkText "p" "x".toList)).last? = some sib → preCode sib = none := by
  intro sib h; simp only [last_append, Option.some.injEq] at h; subst h; rfl

/-- **… on a further block of indented lines** (the previous block was code): `"\n"`, the escaped right-trimmed
    lines and `"\n"` are appended to the text of the same code element, which stays atomic -/
theorem C03_codeP_continues (tab : Nat) (refs : Refs) (parent : Node) (t : Str) (ls : List Str) (rest : List Str)
    (hne : ls ≠ []) (hnl : ∀ l ∈ ls, '\n' ∉ l) :
    codeP tab refs (parent.append (codePre t)) (joinLines (indentLines tab ls)) rest =
      (parent.append (codePre (t ++ '\n' :: (Code.codeEscape (rstrip (joinLines ls)) ++ ['\n']))), refs, rest) :=
  codeP_more tab refs parent t ls rest hne hnl

/-- **`EmptyBlockProcessor` after a code block**: an empty block appends `"\n\n"` to the code text; a block that
    starts with a line feed appends `"\n"` and hands the rest of the block back -/
theorem C03_emptyP_filler (refs : Refs) (parent : Node) (t x : Str) (rest : List Str) (hx : x ≠ []) :
    emptyP refs (parent.append (codePre t)) [] rest = (parent.append (codePre (t ++ ['\n', '\n'])), refs, rest) ∧
    emptyP refs (parent.append (codePre t)) ('\n' :: x) rest =
      (parent.append (codePre (t ++ ['\n'])), refs, x :: rest) :=
  ⟨emptyP_nil refs parent t rest, emptyP_nl refs parent t x rest hx⟩

example : "    b".toList ≠ [] := by decide

/-- **the code text of a block of several runs of lines.**  The document is a first run of code lines and further
    runs, each after `e + 1 ≥ 1` blank lines (`codeSource`).  The block parser builds one `<pre><code>` under the root
    whose atomic text is the escaped code in which the trailing white space of every run has been trimmed and the
    blank lines between the runs are kept (`runsText (rstrip ∘ joinLines)`), then `"\n"`, then the `"\n\n"` of the final
    empty block — whatever the lines contain.  No other element, no reference definition. -/
theorem C03_code_runs (tab : Nat) (first : List Str) (more : List (Nat × List Str))
    (h1 : isCodeRun first = true) (h2 : more.all (fun er => isCodeRun er.2) = true) :
    parseDocument tab (codeSource tab first more ++ ['\n', '\n']) =
      some ((Node.el "div").append
        (codePre (Code.codeEscape (runsText (fun r => rstrip (joinLines r)) first more) ++ ['\n'] ++ ['\n', '\n'])),
        []) := by
  rw [← codeAccum_eq]
  exact parseDocument_code tab first more (isCodeRun_spec h1).1.ok
    (fun er her => (isCodeRun_spec (List.all_eq_true.1 h2 er her)).1.ok)

-- the hypotheses on a concrete input: two lines with trailing spaces, one blank line, a "header", three blank lines,
-- a "link" with a closed character reference and a backslash escape
example : isCodeRun ["a  ".toList, "*b* &amp; `x`  ".toList] = true ∧
    [(0, ["# c".toList]), (2, ["[l](u) &#38; \\*".toList])].all (fun er => isCodeRun er.2) = true := by decide

/-! ### Part 2: the stages after the block parser, element by element -/

/-- **the inline processor skips atomic text.**  `InlineProcessor.run` reads the text of the elements of the tree
    through `visitChild` only (once for every element below the root, wherever it sits: `runLoop` pops a path and
    `visitLoop` calls `visitChild` on each child).  For an element whose text is an `AtomicString` — every `code`
    element the block parser or the backtick pattern builds — the result has the same text, still atomic, the same
    tag, attributes and children: no pattern is run on it, no placeholder is put into it. -/
theorem C03_inline_skips_atomic (cfg : Inline.Cfg) (child : Node) (v : Inline.Visit) (c' : Node) (tr : List Node)
    (v' : Inline.Visit) (h : Inline.visitChild cfg child v = some (c', tr, v')) (ha : child.textAtomic = true) :
    c'.text = child.text ∧ c'.textAtomic = true ∧ c'.tag = child.tag ∧ c'.attrs = child.attrs ∧
      c'.children = child.children :=
  visitChild_atomic cfg child v c' tr v' h ha

-- the hypotheses on a concrete input: the `code` element of a code block
example : ∃ r, Inline.visitChild {} (codeSpan "*x* `y` &amp;".toList) { st := {} } = some r ∧
    (codeSpan "*x* `y` &amp;".toList).textAtomic = true := ⟨_, rfl, rfl⟩

/-- **… wherever it sits: the inline processor on a calm tree.**  A tree is calm below its root when every
    element there has as text nothing, an `AtomicString` (every code element) or plain words (`isQuietCh`: none of
    `` ` `` `\` `[` `&` `*` `_`, line feed, STX), and as tail nothing or plain words (`calmKids`).  On such a tree — of any
    shape and depth: code blocks inside quotes inside lists, code spans between words — `InlineProcessor.run` returns
    the tree itself, every code element at its place with its text and flag, and stashes nothing.  (The stack loop
    terminates within the model's fuel: each pop removes an element from the measure "elements below the stacked
    paths".) -/
theorem C03_inline_run_calm (cfg : Inline.Cfg) (root : Node) (h : calmKids root.children = true) :
    Inline.run cfg root = some (root, {}) :=
  run_calm cfg root h

-- the hypothesis on a concrete input: root > blockquote > (p "some words", pre > code, ul > li "item" > pre > code "…" with tail)
example : calmKids ({ Node.el "div" with children :=
    [{ Node.el "blockquote" with children :=
        [mkText "p" "some words".toList, codePre "*x* `y` &amp;\n".toList,
         { Node.el "ul" with children :=
            [{ mkText "li" "item".toList with children := [{ codePre "[a](b)\n".toList with tail := some "more words".toList }] }] }] }] } : Node).children = true := by
  decide

/-- on the tree of a code block the inline processor changes nothing at all and stashes nothing -/
theorem C03_inline_code_block (cfg : Inline.Cfg) (t : Str) :
    Inline.run cfg ((Node.el "div").append (codePre t)) = some ((Node.el "div").append (codePre t), {}) :=
  run_codeTree cfg t

/-- **the stash keeps atomic elements as they are.**  When a pattern's match yields an element with atomic text
    (the backtick pattern's `<code>`), `__applyPattern` does not run the remaining patterns on it: the element goes
    into the stash unchanged and the match is replaced by its placeholder -/
theorem C03_stash_skips_atomic (cfg : Inline.Cfg) (hi : Inline.HI) (pi : Nat) (data : Str) (si : Nat)
    (st st' : Inline.St) (n : Node) (s : Nat) (e : Int)
    (h : Inline.findMatch cfg pi data si st = some (some ⟨.el n, s, e⟩, st'))
    (h1 : n.text.isSome = true) (h2 : n.textAtomic = true) :
    Inline.applyPattern cfg hi pi data si st =
      some (data.take s ++ Inline.placeholder st'.stash.length ++ Inline.pyDrop data e, true, 0,
        { st' with stash := st'.stash ++ [.node n] }) :=
  applyPattern_atomic cfg hi pi data si st st' n s e h h1 h2

-- the hypotheses on a concrete input: the backtick pattern on "a `*b*` c"
example : Inline.findMatch {} 0 "a `*b*` c".toList 0 {} =
      some (some ⟨.el (codeSpan (Code.codeEscape (strip "*b*".toList))), 2, 7⟩, {}) ∧
    (codeSpan (Code.codeEscape (strip "*b*".toList))).text.isSome = true ∧
    (codeSpan (Code.codeEscape (strip "*b*".toList))).textAtomic = true := by
  refine ⟨?_, rfl, rfl⟩
  have := findMatch_span {} 0 "a ".toList "*b*".toList " c".toList {}
    (show ∀ c ∈ "a ".toList, c ≠ '`' ∧ c ≠ '\\' by decide) (by decide) (by decide)
  simpa [spanData, ticks] using this

/-- **… and gives them back as they are.**  When `__processPlaceholders` takes the `<code>` of a span out of the
    stash, its text (free of STX) is put back unchanged and still atomic, whatever else the stash holds -/
theorem C03_placeholders_keep_code (stash : List Inline.StashItem) (f : Nat) (hf : 0 < f) (t : Str)
    (ht : Inline.STX ∉ t) :
    Inline.procNode (fun d a p i => Inline.processPlaceholders stash f d a p i) (codeSpan t) = some (codeSpan t) :=
  procNode_codeSpan stash f hf t ht

example : 0 < 3 ∧ Inline.STX ∉ "*b* &amp;amp;".toList := by decide

/-- **`UnescapeTreeprocessor` does not touch `code` text** (`if elem.text and not elem.tag == 'code'`): whatever
    the element's text, attributes, children and tail are -/
theorem C03_unescape_skips_code (n n' : Node) (ht : n.tag = .name "code".toList)
    (h : TreeProc.unescapeTree n = some n') : n'.text = n.text ∧ n'.textAtomic = n.textAtomic ∧ n'.tag = n.tag :=
  unescapeTree_code n n' ht h

-- the hypotheses on a concrete input: code text holding a backslash-escape placeholder `STX 42 ETX` stays
example : (codeSpan [Char.ofNat 2, '4', '2', Char.ofNat 3]).tag = .name "code".toList ∧
    TreeProc.unescapeTree (codeSpan [Char.ofNat 2, '4', '2', Char.ofNat 3]) =
      some (codeSpan [Char.ofNat 2, '4', '2', Char.ofNat 3]) := ⟨rfl, rfl⟩

/-- **`PrettifyTreeprocessor` changes `pre/code` text only by `rstrip` + `"\n"`.**  `_prettifyETree` never writes
    the text of a `code` element; the `pre` loop replaces the code text `t` of a `<pre><code>` by
    `t.rstrip() + "\n"`, still atomic; on the tree of a code block the result is the root with `"\n"` as text and
    tails and that `<pre><code>` -/
theorem C03_prettify_code (bl : List Str) (n : Node) (hn : n.tag = .name "code".toList) (t : Str) (tl : Option Str) :
    ((TreeProc.prettifyETree bl n).text = n.text ∧ (TreeProc.prettifyETree bl n).textAtomic = n.textAtomic) ∧
    TreeProc.preRule { codePre t with tail := tl } = { codePre (rstrip t ++ ['\n']) with tail := tl } ∧
    TreeProc.prettify ((Node.el "div").append (codePre t)) = codeTreeP (rstrip t ++ ['\n']) :=
  ⟨⟨(prettifyETree_code bl n hn).1, (prettifyETree_code bl n hn).2.1⟩, preRule_codePre t tl, prettify_codeTree t⟩

example : (codeSpan "x  \n\n".toList).tag = .name "code".toList := rfl

/-! ### Part 3: an indented code block, end to end -/

/-- **C03 for indented code blocks, end to end.**  The document is one indented code block: runs of code lines
    (`isCodeRun`: allowed characters, a character other than a space on every line, closed references) separated by
    any number of blank lines, not all white space.  `Markdown.convert` returns exactly `<pre><code>`, the code
    escaped by `code_escape` with the trailing white space of every run of lines and of the whole block removed
    (`trimSpec`), a line feed, `</code></pre>`.  Everything else in the code — `*`, `_`, `` ` ``, `#`, `>`, `[`, `]`,
    `\`, `&amp;`, `&#38;`, list markers, rules — comes out character for character (`C03_code_reads_back` reads the
    escaped text back as the code).  Any tab length. -/
theorem C03_block_top (tab : Nat) (first : List Str) (more : List (Nat × List Str))
    (h1 : isCodeRun first = true) (h2 : more.all (fun er => isCodeRun er.2) = true)
    (h3 : (allLines first more).any (fun l => !isBlank l) = true) :
    Pipeline.convert { tab := tab } (codeSource tab first more) =
      .ok ("<pre><code>".toList ++ Code.codeEscape (trimSpec first more) ++ "\n</code></pre>".toList) :=
  convert_codeBlock tab first more ⟨h1, fun er her => List.all_eq_true.1 h2 er her, h3⟩

-- the hypotheses on a concrete input
example : isCodeRun ["a  ".toList, "*b* &amp; `x`  ".toList] = true ∧
    [(0, ["# c".toList]), (2, ["[l](u) &#38; \\*".toList])].all (fun er => isCodeRun er.2) = true ∧
    (allLines ["a  ".toList, "*b* &amp; `x`  ".toList] [(0, ["# c".toList]), (2, ["[l](u) &#38; \\*".toList])]).any
      (fun l => !isBlank l) = true := by decide
-- … and what the theorem says there (computed by the kernel on the model, not by the theorem)
example : Pipeline.convert {} (codeSource 4 ["a  ".toList, "*b* &amp; `x`  ".toList]
      [(0, ["# c".toList]), (2, ["[l](u) &#38; \\*".toList])]) =
    .ok "<pre><code>a  \n*b* &amp;amp; `x`\n\n# c\n\n\n\n[l](u) &amp;#38; \\*\n</code></pre>".toList := by
  decide +kernel

/-- **… whatever precedes it: after a paragraph.**  A line of text `p` (letters and spaces, starting with a
    letter), a blank line, then the indented code block: the paragraph comes out as `<p>p</p>` and the code block
    exactly as in `C03_block_top` — the paragraph before it changes nothing in it -/
theorem C03_block_after_paragraph (tab : Nat) (htab : 0 < tab) (p : Str) (first : List Str)
    (more : List (Nat × List Str)) (hp : isSpanContext p = true) (hpne : p ≠ [])
    (h1 : isCodeRun first = true) (h2 : more.all (fun er => isCodeRun er.2) = true) :
    Pipeline.convert { tab := tab } (paraCodeSource tab p first more) =
      .ok ("<p>".toList ++ p ++ "</p>\n<pre><code>".toList ++ Code.codeEscape (trimSpec first more) ++
        "\n</code></pre>".toList) :=
  convert_paraCode tab htab p first more hp hpne h1 (fun er her => List.all_eq_true.1 h2 er her)

-- the hypotheses on a concrete input, and what the theorem says there (computed by the kernel on the model)
example : 0 < 4 ∧ isSpanContext "Some text".toList = true ∧ "Some text".toList ≠ [] ∧
    isCodeRun ["*a*  ".toList, "> b".toList] = true ∧
    [(1, ["- c &amp;".toList])].all (fun er => isCodeRun er.2) = true := by decide
example : Pipeline.convert {} (paraCodeSource 4 "Some text".toList ["*a*  ".toList, "> b".toList]
      [(1, ["- c &amp;".toList])]) =
    .ok "<p>Some text</p>\n<pre><code>*a*  \n&gt; b\n\n\n- c &amp;amp;\n</code></pre>".toList := by decide +kernel

/-- **F-C03-1 (known defect), indented block**: a numeric character reference without `;` in code is re-spelled
    with a `;` — the output is NOT the code typed.  This is the point `refsClosed` excludes. -/
theorem C03_F1_block_counterexample :
    isCodeRun ["&#12 x".toList] = false ∧ refsClosed "&#12 x".toList = false ∧
    Pipeline.convert {} "    &#12 x".toList = .ok "<pre><code>&amp;#12; x\n</code></pre>".toList := by
  decide +kernel

/-! ### Part 4: a code span, end to end -/

/-- **the backtick pattern finds exactly the span.**  Text `a` without backtick and backslash, a fence of `k + 1`
    backticks, a body that is not empty, has no backtick at either end and no run of exactly `k + 1` backticks inside
    (`spanBodyOk`; any body without backticks qualifies), the same fence, text `b` that does not start with a
    backtick: `BACKTICK_RE.search` matches from the opening fence to the closing one, and its group is the body —
    whatever the body contains -/
theorem C03_span_found (k : Nat) (a body b : Str) (ha : ∀ c ∈ a, c ≠ '`' ∧ c ≠ '\\')
    (hb : spanBodyOk (k + 1) body = true) (hbh : b.head? ≠ some '`') :
    Inline.btFind (spanSource (k + 1) a body b) 0 =
      some ⟨.code, a.length, a.length + (k + 1) + body.length + (k + 1), body⟩ := by
  rw [spanSource_eq]
  have := btScan_span k body b hb hbh a ha none 0 (by simp)
  simpa [Inline.btFind, spanData] using this

-- the hypotheses on a concrete input: a double-backtick span whose body holds single and triple backticks, emphasis,
-- a link, an entity and a backslash
example : (∀ c ∈ "see ".toList, c ≠ '`' ∧ c ≠ '\\') ∧
    spanBodyOk 2 "a ` *b* ``` [l](u) &amp; \\".toList = true ∧ " x".toList.head? ≠ some '`' := by decide
-- a body that does hold a closing fence is not accepted
example : spanBodyOk 1 "a ` b".toList = false := by decide

/-- **… and what is stashed is the escaped, stripped body, atomic.**  `__applyPattern` replaces the span by the
    next placeholder and stashes `<code>` with the atomic text `code_escape(body.strip())`; none of the other fifteen
    patterns is tried on it -/
theorem C03_span_stashed (cfg : Inline.Cfg) (hi : Inline.HI) (k : Nat) (a body b : Str) (st : Inline.St)
    (ha : ∀ c ∈ a, c ≠ '`' ∧ c ≠ '\\') (hb : spanBodyOk (k + 1) body = true) (hbh : b.head? ≠ some '`') :
    Inline.applyPattern cfg hi 0 (spanSource (k + 1) a body b) 0 st =
      some (a ++ Inline.placeholder st.stash.length ++ b, true, 0,
        { st with stash := st.stash ++ [.node (codeSpan (Code.codeEscape (strip body)))] }) := by
  rw [spanSource_eq]
  exact applyPattern_span cfg hi k a body b st ha hb hbh

/-- **C03 for code spans, end to end.**  The document is one line: text `a` (ASCII letters and spaces, not
    starting with a space), a fence of `k + 1` backticks, a body (`isCodeChar` characters, closed references,
    `spanBodyOk`), the same fence, text `b` (letters and spaces).  `Markdown.convert` returns exactly
    `<p>a<code>` + `code_escape(body.strip())` + `</code>b</p>`: the body is trimmed at both ends, `&`, `<`, `>` are
    escaped, and nothing else happens to it — `*`, `_`, `[`, `]`, `(`, `)`, `\`, `#`, `!`, `&amp;`, `&#38;`, shorter
    and longer backtick runs inside all come out as typed.  Any tab length > 0, any fence length. -/
theorem C03_span_top (tab : Nat) (htab : 0 < tab) (k : Nat) (a body b : Str)
    (ha : isSpanContext a = true) (hb : b.all isWordSp = true)
    (h1 : body.all isCodeChar = true) (h2 : refsClosed body = true) (h3 : spanBodyOk (k + 1) body = true) :
    Pipeline.convert { tab := tab } (spanSource (k + 1) a body b) =
      .ok ("<p>".toList ++ a ++ "<code>".toList ++ Code.codeEscape (strip body) ++ "</code>".toList ++ b ++
        "</p>".toList) :=
  convert_span tab htab k a body b ⟨ha, hb, h1, h2, h3⟩

-- the hypotheses on concrete inputs
example : 0 < 4 ∧ isSpanContext "see ".toList = true ∧ " here".toList.all isWordSp = true ∧
    " *x* [l](u) &amp; &#38; \\ # _y_ ".toList.all isCodeChar = true ∧
    refsClosed " *x* [l](u) &amp; &#38; \\ # _y_ ".toList = true ∧
    spanBodyOk 1 " *x* [l](u) &amp; &#38; \\ # _y_ ".toList = true := by decide
example : isSpanContext [] = true ∧ ([] : Str).all isWordSp = true ∧ "a ` b ``` c".toList.all isCodeChar = true ∧
    refsClosed "a ` b ``` c".toList = true ∧ spanBodyOk 2 "a ` b ``` c".toList = true := by decide
-- … and what the theorem says there (computed by the kernel on the model, not by the theorem)
example : Pipeline.convert {} (spanSource 1 "see ".toList " *x* [l](u) &amp; &#38; \\ # _y_ ".toList " here".toList) =
    .ok "<p>see <code>*x* [l](u) &amp;amp; &amp;#38; \\ # _y_</code> here</p>".toList := by decide +kernel
example : Pipeline.convert {} (spanSource 2 [] "a ` b ``` c".toList []) =
    .ok "<p><code>a ` b ``` c</code></p>".toList := by decide +kernel

/-- **F-C03-1 (known defect), code span**: the same re-spelling inside a span -/
theorem C03_F1_span_counterexample :
    refsClosed "&#12 x".toList = false ∧
    Pipeline.convert {} (spanSource 1 "a ".toList "&#12 x".toList " b".toList) =
      .ok "<p>a <code>&amp;#12; x</code> b</p>".toList := by
  decide +kernel

end MdVerif.CodeLaw
