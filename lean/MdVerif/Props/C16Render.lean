/-
C16, documented-rendering clause — "each bundled extension renders its documented syntax as documented".  This
file: **pipe tables**, end to end on the extension pipeline model (`Model/PipelineX.lean`, `convertX` with
`tables := true`, every other extension off, both output formats).

`Spec/TableDoc.lean` says how a table is written (`printTable header aligns rows border`: header line, delimiter
line with `:---`/`---:`/`:---:`/`---`, body lines; with or without the outer pipes) and which HTML it stands for
(`specTable`: `<table>⏎<thead>⏎<tr>⏎<th style="text-align: left;">…</th>…</tr>⏎</thead>⏎<tbody>…</tbody>⏎</table>`;
every body row exactly `header.length` cells — short rows padded with empty cells, long rows cut —, the alignment of a
column from its delimiter cell, a table without body rows one row of bare cells).  Helper lemmas:
`Lemmas/TableRender1.lean` (`test`/`run` on the printed table), `TableRender2.lean` (the inline processor returns a
tree of settled elements as it is — any shape and depth, with the fuel of the model), `TableRender4.lean` (prettify
and unescape on clean trees), `TableRender3.lean` (front end, serializer, assembly).  Core Lean only.

Well-formedness (`TableOK`, decidable): as many alignments as header cells; every row has at least one cell; cell
texts are plain (ASCII letters, digits, space, `.`, `,`) without a space at either end (cell texts are stripped; empty
cells are allowed); written without outer pipes a table has at least two columns and the first and last cell of
every line are not empty.  The last two are needed (kernel-checked examples at the end, same on the
implementation): a single column without outer pipes is a Setext heading, and an empty last cell without outer
pipes leaves a pipe at the end of the header line, which switches the border handling — the block is not a table.
-/
import MdVerif.Spec.TableDoc
import MdVerif.Lemmas.TableRender3

namespace MdVerif.TableDoc
open Py Tables

/-! ### examples of the vocabulary -/

example : printTable ["a".toList, "b".toList] [some .left, none] [["1".toList, "2".toList, "3".toList], ["4".toList]] true =
    "| a | b |\n| :--- | --- |\n| 1 | 2 | 3 |\n| 4 |".toList := by decide
example : printTable ["a".toList, [], "c".toList] [some .right, none, some .center] [["1".toList, "2".toList]] false =
    "a |  | c\n---: | --- | :---:\n1 | 2".toList := by decide
example : TableOK ["a".toList, "b".toList] [some .left, none] [["1".toList, "2".toList, "3".toList], ["4".toList]] true = true := by
  decide
example : TableOK ["a".toList, [], "c".toList] [some .right, none, some .center] [["1".toList, "2".toList]] false = true := by
  decide
example : TableOK ["a".toList] [none] [] true = true := by decide
example : fit 2 ["1".toList, "2".toList, "3".toList] = ["1".toList, "2".toList] := by decide
example : fit 2 ["4".toList] = ["4".toList, []] := by decide
example : specTable ["a".toList, "b".toList] [some .left, none] [["1".toList, "2".toList, "3".toList], ["4".toList]] =
    ("<table>\n<thead>\n<tr>\n<th style=\"text-align: left;\">a</th>\n<th>b</th>\n</tr>\n</thead>\n<tbody>\n" ++
     "<tr>\n<td style=\"text-align: left;\">1</td>\n<td>2</td>\n</tr>\n" ++
     "<tr>\n<td style=\"text-align: left;\">4</td>\n<td></td>\n</tr>\n</tbody>\n</table>").toList := by decide +kernel
example : specTable ["a".toList] [some .center] [] =
    "<table>\n<thead>\n<tr>\n<th style=\"text-align: center;\">a</th>\n</tr>\n</thead>\n<tbody>\n<tr>\n<td></td>\n</tr>\n</tbody>\n</table>".toList := by
  decide +kernel

/-! ### what the table processor makes of a printed table -/

/-- **`TableProcessor.test` accepts the printed table**, recognising the outer pipes from the header line -/
theorem C16_table_accepted {header : List Str} {aligns : List Al} {rows : List (List Str)} {border : Bool}
    (h : TableOK header aligns rows border = true) :
    tableTest (printTable header aligns rows border) =
      some (if border then 3 else 0, pieces border (aligns.map sepCell)) :=
  tableTest_print h

/-- **… and `run` builds**: the alignments of the delimiter row, the header cells, and every body row cut or padded
    to the number of columns (one row of bare cells when there is no body row) -/
theorem C16_table_parsed {header : List Str} {aligns : List Al} {rows : List (List Str)} {border : Bool}
    (h : TableOK header aligns rows border = true) :
    Tables.table (printTable header aligns rows border) =
      some { align := aligns, head := header,
             body := if rows.isEmpty then [List.replicate aligns.length none]
                     else rows.map (fun r => (fit aligns.length r).map some) } :=
  table_print h

/-- every row of the result has exactly the header's number of cells -/
theorem C16_fit_width (n : Nat) (r : List Str) : (fit n r).length = n := fit_length n r

/-- short rows are padded with empty cells, long rows are cut -/
theorem C16_fit_cells (n : Nat) (r : List Str) (i : Nat) (hi : i < n) :
    (fit n r)[i]? = some (r.getD i []) := by
  simp [fit, hi]

/-! ### the inline processor on settled trees (used here for the cells; of independent use) -/

/-- **`InlineProcessor.run` is the identity on a tree all of whose elements are settled** (`visitChild` returns the
    element unchanged, no new elements, stash untouched) — trees of any shape and depth; the model's fuel suffices. -/
theorem C16_run_settled (cfg : Inline.Cfg) (tree : Node) (html : List Str)
    (h : Settled.KidsSettled cfg { html := html } tree) :
    Inline.run cfg tree html = some (tree, { html := html }) :=
  Settled.run_settled cfg tree html h

/-! ### end to end -/

/-- **C16, tables render as documented.**  For every well-formed table, written with or without outer pipes,
    `Markdown(extensions=['tables']).convert` returns exactly the documented HTML — in both output formats
    (`cfg.fmt` is arbitrary), for every tab length `> 0`. -/
theorem C16_table_renders (cfg : Pipeline.Cfg) (hbl : cfg.blockLevel = TreeProc.defaultBlockLevel)
    (htab : 0 < cfg.tab) (header : List Str) (aligns : List Al) (rows : List (List Str)) (border : Bool)
    (h : TableOK header aligns rows border = true) :
    PipelineX.convertX { tables := true } cfg (printTable header aligns rows border) =
      .ok (specTable header aligns rows) :=
  convertX_table cfg hbl htab h

/-- a concrete instance, evaluated by the kernel on the model (same on the implementation) -/
example : PipelineX.convertX { tables := true } {} "| a | b |\n| :--- | --- |\n| 1 | 2 | 3 |\n| 4 |".toList =
    .ok ("<table>\n<thead>\n<tr>\n<th style=\"text-align: left;\">a</th>\n<th>b</th>\n</tr>\n</thead>\n<tbody>\n" ++
     "<tr>\n<td style=\"text-align: left;\">1</td>\n<td>2</td>\n</tr>\n" ++
     "<tr>\n<td style=\"text-align: left;\">4</td>\n<td></td>\n</tr>\n</tbody>\n</table>").toList := by decide +kernel

/-! ### boundaries of the statement (behaviour of the code) -/

/-- a single column needs the outer pipes: without them `a⏎---⏎1` is a Setext heading and a paragraph -/
example : PipelineX.convertX { tables := true } {} "a\n---\n1".toList = .ok "<h2>a</h2>\n<p>1</p>".toList := by
  decide +kernel

/-- … with them it is a table (no body row here: one row of bare cells) -/
example : PipelineX.convertX { tables := true } {} "| a |\n| --- |".toList =
    .ok "<table>\n<thead>\n<tr>\n<th>a</th>\n</tr>\n</thead>\n<tbody>\n<tr>\n<td></td>\n</tr>\n</tbody>\n</table>".toList := by
  decide +kernel

/-- an empty last header cell without outer pipes: the line ends with a pipe, `test` takes it for a right border,
    the delimiter row then has one cell too many — not a table -/
example : PipelineX.convertX { tables := true } {} "a | \n--- | ---\n1 | 2".toList =
    .ok "<p>a | \n--- | ---\n1 | 2</p>".toList := by decide +kernel

end MdVerif.TableDoc
