/-
C11 on the CONCRETE instance model (`Model/InstanceX.lean`): `reset()` restores a pristine converter.

`Props/C11.lean` proves the frame theorem on an abstract machine whose `convert` is a parameter, and
`Props/C11Census.lean` decides over the regenerated AST tables that every conversion-time write to instance state is
re-initialised by `reset()`.  Here the machine is concrete: `InstanceX.convertS x cfg st src` is what `md.convert(src)`
does on an instance in state `st` (link references, footnote table, abbreviation table, HTML stash, footnote
reference bookkeeping carried over from earlier documents) — the stage functions of the end-to-end model
`PipelineX.convertX`, started from the carried state.  It agrees with one real `Markdown(extensions=…)` instance on
random histories of `convert` / `reset` (every output and the state afterwards; `harness/corr/instancex.py`).

  * `C11X_reset_fresh`            `reset()` gives the state of a new instance, whatever happened before;
  * `C11X_fresh_is_convertX`      on a new instance `convertS` is the one-shot model `convertX`;
  * `C11X_convert_after_reset`    after any history and a `reset()`, a document is converted exactly as by `convertX`
                                  (`C11X_reset_each`: a history that resets before every document gives the list of
                                  one-shot answers);
  * `C11X_no_reset_leak`          WITHOUT `reset()` the answer is the one-shot answer when nothing is carried, and
                                  the kernel-checked examples show each carried table leaking into the next document:
                                  this persistence is DOCUMENTED behaviour (`Markdown.reset`: "Should be called
                                  manually between calls to `convert`"), not a defect;
  * `C11X_tables_grow`, `C11X_references_persist`   between resets the tables only grow (a log of writes): what an
                                  earlier document defined stays until `reset()`;
  * `C11X_block_parse_exact`, `C11X_tables_exact`, `C11X_references_exact`   exactly what is added: the block parser
                                  started from a carried log `L` returns the tree and `L ++` the writes it makes on a
                                  new instance; without the footnotes extension (whose tree processor parses the
                                  carried footnote texts again) `md.references` after a conversion is `md.references`
                                  before it followed by the definitions of the document;
  * `C11X_block_tree_no_leak`     what the carried tables can NOT change: the element tree that the block parser builds
                                  for the document (headings, lists, quotes, code, tables, …) is the same whatever
                                  references / footnotes / abbreviations the instance carries — the leak enters only
                                  after the block parser (footnote `div`, reference look-up, footnote references,
                                  `abbr` elements, placeholder numbers);
  * `C11X_machine`, `C11X_machine_run`, `C11X_abstract_reset_fresh`, `C11X_instances_disjoint`   the concrete model is an
                                  instance of the abstract machine of `Model/Instance.lean`: the frame theorems of
                                  `Props/C11.lean` (reset, several instances in one store) hold of it;
  * `C11X_convert_after_reset_full`, `C11X_side_outputs_not_read`   the side outputs: after `reset()` a conversion leaves
                                  the same `md.toc` / `md.toc_tokens` (and tables) as on a new instance; they are
                                  written, never read;
  * `C11X_meta_fresh_is_convertM`, `C11X_meta_convert_after_reset`, `C11X_meta_off`   the same with the `meta`
                                  extension (`convertSM`): on a new instance — hence after `reset()` — the answer and
                                  `md.Meta` are those of the one-shot model `PipelineM.convertM`;
  * `C11X_blank_keeps_state`      a blank document is answered before any stage runs and leaves the state;
  * `C11X_untracked_is_ood`, `C11X_tracked_iff_ok`   the model never guesses: after a conversion that did not return
                                  normally (or that is outside the modelled domain) it answers `ood` until `reset()`.
-/
import MdVerif.Lemmas.InstanceXTree
import MdVerif.Lemmas.InstanceXMeta
import MdVerif.Props.C11

namespace MdVerif.InstanceX
open Py Pipeline PipelineX

/-- **`reset()` gives a new instance.**  Whatever state the instance is in — after any documents, after a
    conversion that raised — `md.reset()` leaves exactly the conversion-time state of `Markdown(extensions=…)`:
    no references, no footnotes, no abbreviations, an empty stash, no footnote-reference bookkeeping. -/
theorem C11X_reset_fresh (st : MdSt) : resetS st = fresh := rfl

/-- the same for the state reached by any history from any state -/
theorem C11X_reset_fresh_history (x : Exts) (cfg : Cfg) (st : MdSt) (h : List Ev) :
    runS x cfg st (h ++ [.reset]) = fresh := by
  rw [runS_append]; rfl

/-- **On a new instance `convertS` is `convertX`**: the stateful model extends the one-shot end-to-end model
    (every theorem about `convertX` is a theorem about the first conversion of an instance, and by
    `C11X_convert_after_reset` about every conversion that follows a `reset()`). -/
theorem C11X_fresh_is_convertX (x : Exts) (cfg : Cfg) (s : Str) : (convertS x cfg fresh s).1 = convertX x cfg s :=
  convertS_fresh x cfg s

/-- **C11, concretely.**  For every history `h` of conversions and resets (from any state `st0`, any extension set,
    any configuration) and every source `s`: converting `s` after `h; reset()` gives exactly the pristine answer
    `convertX x cfg s`.  Nothing of the earlier documents — references, footnotes, abbreviations, stashed HTML,
    reference counters, a failed conversion — appears. -/
theorem C11X_convert_after_reset (x : Exts) (cfg : Cfg) (st0 : MdSt) (h : List Ev) (s : Str) :
    (convertS x cfg (resetS (runS x cfg st0 h)) s).1 = convertX x cfg s :=
  convertS_fresh x cfg s

/-- … as the last outcome of the history `h ++ [reset, convert s]` -/
theorem C11X_convert_after_reset_outcomes (x : Exts) (cfg : Cfg) (st0 : MdSt) (h : List Ev) (s : Str) :
    outcomes x cfg st0 (h ++ [.reset, .convert s]) = outcomes x cfg st0 h ++ [convertX x cfg s] := by
  rw [outcomes_append]
  simp only [outcomes, C11X_reset_fresh, convertS_fresh]

/-- the usual usage: `reset()` before every document -/
def resetEach (docs : List Str) : List Ev := docs.flatMap (fun d => [.reset, .convert d])

/-- **The usual usage gives the one-shot answers**: with `reset()` before every document the outcomes of a history
    are those of new instances, document by document — from any starting state. -/
theorem C11X_reset_each (x : Exts) (cfg : Cfg) (st0 : MdSt) (docs : List Str) :
    outcomes x cfg st0 (resetEach docs) = docs.map (convertX x cfg) := by
  induction docs generalizing st0 with
  | nil => rfl
  | cons d docs ih =>
    simp only [resetEach, List.flatMap_cons, List.cons_append, List.nil_append, outcomes, List.map_cons,
      C11X_reset_fresh, convertS_fresh]
    exact congrArg _ (ih _)

example : resetEach ["[a]: /u".toList, "[x][a]".toList] =
    [.reset, .convert "[a]: /u".toList, .reset, .convert "[x][a]".toList] := by decide

/-- **A blank document leaves the state**: `convert` returns `''` before any stage runs (`if not source.strip()`),
    so the references etc. of earlier documents survive it (and so do `md.toc` / `md.toc_tokens`). -/
theorem C11X_blank_keeps_state (x : Exts) (cfg : Cfg) (st : MdSt) (s : Str) (hv : st.valid = true)
    (hlt : s.contains '<' = false) (hb : Normalize.isBlankDoc s = true) : convertS x cfg st s = (.ok [], st) :=
  convertS_blank x cfg st s hv hlt hb

example : (" \n\t".toList).contains '<' = false ∧ Normalize.isBlankDoc " \n\t".toList = true := by decide

/-- **Never a wrong answer after a failure.**  On a state that is not tracked (`valid = false`: a conversion raised
    part way through, or the document was outside the modelled domain) the model answers `ood` and stays there … -/
theorem C11X_untracked_is_ood (x : Exts) (cfg : Cfg) (st : MdSt) (s : Str) (hv : st.valid = false) :
    convertS x cfg st s = (.ood, st) :=
  convertS_invalid x cfg st s hv

/-- … and the state after a conversion is tracked exactly when the conversion answered `ok`. -/
theorem C11X_tracked_iff_ok (x : Exts) (cfg : Cfg) (st : MdSt) (s : Str) :
    (convertS x cfg st s).2.valid = true ↔ ∃ out, (convertS x cfg st s).1 = .ok out :=
  convertS_valid_iff x cfg st s

/-- a document outside the domain, the next document (not answered), `reset()`, the same document (answered) -/
example : outcomes {} {} fresh [.convert "a < b".toList, .convert "c".toList, .reset, .convert "c".toList] =
    [.ood, .ood, .ok "<p>c</p>".toList] := by decide +kernel

/-! ### what a missing `reset()` leaks (documented persistence, not a defect) -/

/-- **Nothing carried, nothing leaked.**  From a tracked state with an empty log of table writes (no references, no
    footnotes, no abbreviations), an empty stash and no footnote-reference bookkeeping, `convert` answers as a new
    instance does, `reset()` or not.  The state has no other component: the carried tables are ALL that a missing
    `reset()` can leak. -/
theorem C11X_no_reset_leak (x : Exts) (cfg : Cfg) (st : MdSt) (s : Str) (hv : st.valid = true) (hl : st.log = [])
    (hh : st.html = []) (hf : st.fn = Footnotes.State.empty) : (convertS x cfg st s).1 = convertX x cfg s := by
  rw [← convertS_fresh x cfg s]
  exact convertS_fst_congr (st' := fresh) hv hl hh hf s

/-- **The side outputs an instance holds never influence a conversion**: `md.toc` / `md.toc_tokens` are written,
    never read. -/
theorem C11X_side_outputs_not_read (x : Exts) (cfg : Cfg) (st : MdSt) (toc : Option Str) (toks : List Toc.Tok)
    (s : Str) : (convertS x cfg { st with toc := toc, tocTokens := toks } s).1 = (convertS x cfg st s).1 :=
  convertS_fst_congr (st := { st with toc := toc, tocTokens := toks }) (st' := st) rfl rfl rfl rfl s

example : fresh.valid = true ∧ fresh.log = [] ∧ fresh.html = [] ∧ fresh.fn = Footnotes.State.empty := by decide

/-- **link references leak**: a reference defined in document 1 resolves in document 2 … -/
example : outcomes {} {} fresh [.convert "[a]: /u".toList, .convert "[x][a]".toList] =
    [.ok [], .ok "<p><a href=\"/u\">x</a></p>".toList] := by decide +kernel
/-- … and does not after `reset()` -/
example : outcomes {} {} fresh [.convert "[a]: /u".toList, .reset, .convert "[x][a]".toList] =
    [.ok [], .ok "<p>[x][a]</p>".toList] := by decide +kernel

/-- **abbreviations leak** … -/
example : outcomes { abbr := true } {} fresh [.convert "*[HTML]: Hyper Text".toList, .convert "HTML".toList] =
    [.ok [], .ok "<p><abbr title=\"Hyper Text\">HTML</abbr></p>".toList] := by decide +kernel
/-- … and do not after `reset()` -/
example : outcomes { abbr := true } {} fresh
    [.convert "*[HTML]: Hyper Text".toList, .reset, .convert "HTML".toList] =
    [.ok [], .ok "<p>HTML</p>".toList] := by decide +kernel

/-- **footnotes leak**: the footnote of document 1 is rendered again under document 2, the reference of document 2
    gets the id `fnref2:1` and the `li` a second back-link (`used_refs`, `found_refs` keep counting) … -/
example : (outcomes { footnotes := true } {} fresh [.convert "x[^1]\n\n[^1]: one".toList, .convert "y[^1]".toList])[1]? =
    some (.ok ("<p>y<sup id=\"fnref2:1\"><a class=\"footnote-ref\" href=\"#fn:1\">1</a></sup></p>\n" ++
      "<div class=\"footnote\">\n<hr />\n<ol>\n<li id=\"fn:1\">\n<p>one&#160;" ++
      "<a class=\"footnote-backref\" href=\"#fnref:1\" title=\"Jump back to footnote 1 in the text\">&#8617;</a>" ++
      "<a class=\"footnote-backref\" href=\"#fnref2:1\" title=\"Jump back to footnote 1 in the text\">&#8617;</a></p>\n" ++
      "</li>\n</ol>\n</div>").toList) := by decide +kernel
/-- … and after `reset()` the label is not even a footnote reference -/
example : (outcomes { footnotes := true } {} fresh
    [.convert "x[^1]\n\n[^1]: one".toList, .reset, .convert "y[^1]".toList])[1]? =
    some (.ok "<p>y[^1]</p>".toList) := by decide +kernel

/-- **the HTML stash keeps counting** (the entity references of both documents are in it; the outputs are those of
    new instances) … -/
example : (runS {} {} fresh [.convert "a &amp; b".toList, .convert "c &lt; d".toList]).html =
    ["&amp;".toList, "&lt;".toList] := by decide +kernel
example : outcomes {} {} fresh [.convert "a &amp; b".toList, .convert "c &lt; d".toList] =
    [convertX {} {} "a &amp; b".toList, convertX {} {} "c &lt; d".toList] := by decide +kernel
/-- … and `reset()` empties it -/
example : (runS {} {} fresh [.convert "a &amp; b".toList, .reset, .convert "c &lt; d".toList]).html =
    ["&lt;".toList] := by decide +kernel

/-! ### what the carried tables change, and what they cannot change -/

/-- **Between resets the tables only grow.**  The log of table writes (references, footnotes, abbreviations) after a
    conversion — whatever its outcome — extends the log before it: without `reset()` nothing an earlier document
    defined is forgotten (an abbreviation is removed by a later `*[X]: ''`, which is a write, too). -/
theorem C11X_tables_grow (x : Exts) (cfg : Cfg) (st : MdSt) (s : Str) : st.log <+: (convertS x cfg st s).2.log :=
  convertS_log_prefix x cfg st s

/-- … over a whole history without `reset()` -/
theorem C11X_tables_grow_history (x : Exts) (cfg : Cfg) (st : MdSt) (docs : List Str) :
    st.log <+: (runS x cfg st (docs.map Ev.convert)).log := by
  induction docs generalizing st with
  | nil => exact List.prefix_refl _
  | cons d docs ih => exact (convertS_log_prefix x cfg st d).trans (ih _)

/-- **A link reference, once defined, stays defined until `reset()`**: every entry of `md.references` before a
    conversion is an entry afterwards (a later definition of the same label is a later entry, and wins). -/
theorem C11X_references_persist (x : Exts) (cfg : Cfg) (st : MdSt) (s : Str) (e : Str × (Str × Option Str))
    (he : e ∈ st.references) : e ∈ (convertS x cfg st s).2.references := by
  obtain ⟨t, ht⟩ := C11X_tables_grow x cfg st s
  simp only [MdSt.references, BlockExt.refsOf] at he ⊢
  rw [← ht, List.filter_append]
  exact List.mem_append_left _ he

example : (("a".toList, ("/u".toList, none)) : Str × (Str × Option Str)) ∈
    (runS {} {} fresh [.convert "[a]: /u".toList]).references := by decide +kernel

/-- the element tree that the block parser builds for `src` on an instance in state `st`, before the footnote
    `div` is added and the inline stage runs: the first stage of `treeS` (`treeS_stages` in
    `Lemmas/InstanceXLog.lean`: `treeS` is `prepareS`, then `docParseS`, then `lateS`) -/
def blockTreeS (x : Exts) (cfg : Cfg) (st : MdSt) (src : Str) : Option Node :=
  match prepareS x cfg st.html src with
  | .ok (text, _) => (docParseS x cfg st.log text).map (·.1)
  | _ => none

/-- **The block structure never leaks.**  Two instances with the same HTML stash build the same element tree in the
    block parser for every document, whatever references, footnotes and abbreviations (and footnote-reference
    counters) either carries: no block processor decides anything from the tables — `ReferenceProcessor`,
    `FootnoteBlockProcessor`, `AbbrBlockprocessor` only write (the latter reads the table, to know whether there is
    something to remove).  All extension flags, all fuels, every document. -/
theorem C11X_block_tree_no_leak (x : Exts) (cfg : Cfg) (st1 st2 : MdSt) (src : Str) (hh : st1.html = st2.html) :
    blockTreeS x cfg st1 src = blockTreeS x cfg st2 src := by
  simp only [blockTreeS, hh]
  split
  · exact docParseS_indep x cfg _ _ _
  · rfl

example : ({ log := [("a".toList, ("/u".toList, none))], fn := ⟨["fnref:1".toList], []⟩ } : MdSt).html = fresh.html :=
  rfl

/-- … and without `fenced_code` (the only preprocessor that numbers placeholders from the stash) the stash does
    not matter either: the block parser builds what it builds on a new instance. -/
theorem C11X_block_tree_fresh (x : Exts) (cfg : Cfg) (st : MdSt) (src : Str) (hf : x.fencedCode = false) :
    blockTreeS x cfg st src = blockTreeS x cfg fresh src := by
  simp only [blockTreeS, prepareS_nofence x cfg _ src hf]
  by_cases hc : (x.admonition && admNonAscii (Normalize.normalize cfg.tab src)) = true
  · simp only [hc, if_true]
  · simp only [hc]
    exact docParseS_indep x cfg _ _ _

example : ({} : Exts).fencedCode = false ∧ ({ footnotes := true, abbr := true, tables := true } : Exts).fencedCode = false := by
  decide

/-- with `fenced_code` the stash shows in the block tree: the placeholder paragraph of the fenced block carries the
    number `html_counter` had (`wzxhzdk:1` instead of `wzxhzdk:0`) — restored to the same `<pre>` at the end -/
example : (blockTreeS { fencedCode := true } {} { html := ["x".toList] } "```\na\n```".toList).map
      (fun n => n.children.map (·.text)) = some [some ([Char.ofNat 2] ++ "wzxhzdk:1".toList ++ [Char.ofNat 3])] ∧
    (blockTreeS { fencedCode := true } {} fresh "```\na\n```".toList).map
      (fun n => n.children.map (·.text)) = some [some ([Char.ofNat 2] ++ "wzxhzdk:0".toList ++ [Char.ofNat 3])] := by
  decide +kernel

/-! ### exactly what a conversion adds to the tables -/

/-- **The block parser on an instance that carries tables** returns the tree it builds on a new instance, and the
    carried log followed by the writes it makes on a new instance — nothing else.  (With `abbr`, for a carried log
    without abbreviation entries: removing an abbreviation, `*[X]: ''`, writes only when `X` is defined.) -/
theorem C11X_block_parse_exact (x : Exts) (cfg : Cfg) (L : Block.Refs)
    (hL : x.abbr = true → ∀ e ∈ L, BlockExt.isAbEntry e = false) (text : Str) :
    docParseS x cfg L text = (docParseS x cfg [] text).map (fun q => (q.1, L ++ q.2)) :=
  docParseS_shift x cfg L hL text

example : ∀ e ∈ ([("a".toList, ("/u".toList, none)), (BlockExt.fnKey "1".toList, ("note".toList, none))] : Block.Refs),
    BlockExt.isAbEntry e = false := by decide

/-- **Exactly what a conversion adds.**  Without the footnotes extension (and without `fenced_code`, whose
    placeholders are numbered from the stash): when `convert(src)` answers for a non-blank `src`, the log of table
    writes afterwards is the log before followed by `docWrites x cfg src`, the writes the block parser makes for `src`
    on a new instance. -/
theorem C11X_tables_exact (x : Exts) (cfg : Cfg) (st : MdSt) (src : Str) (hfn : x.footnotes = false)
    (hfc : x.fencedCode = false) (hL : x.abbr = true → ∀ e ∈ st.log, BlockExt.isAbEntry e = false)
    (hnb : Normalize.isBlankDoc src = false) (hok : (convertS x cfg st src).2.valid = true) :
    (convertS x cfg st src).2.log = st.log ++ docWrites x cfg src :=
  convertS_log_exact x cfg st src hfn hfc hL hnb hok

/-- … for `md.references`: what was there, then the definitions of the document (a later entry wins). -/
theorem C11X_references_exact (x : Exts) (cfg : Cfg) (st : MdSt) (src : Str) (hfn : x.footnotes = false)
    (hfc : x.fencedCode = false) (hL : x.abbr = true → ∀ e ∈ st.log, BlockExt.isAbEntry e = false)
    (hnb : Normalize.isBlankDoc src = false) (hok : (convertS x cfg st src).2.valid = true) :
    (convertS x cfg st src).2.references = st.references ++ BlockExt.refsOf (docWrites x cfg src) := by
  simp only [MdSt.references, C11X_tables_exact x cfg st src hfn hfc hL hnb hok, BlockExt.refsOf, List.filter_append]

example : ({} : Exts).footnotes = false ∧ ({} : Exts).fencedCode = false ∧
    Normalize.isBlankDoc "[a]: /u\n\ntext [a]".toList = false ∧
    (convertS {} {} fresh "[a]: /u\n\ntext [a]".toList).2.valid = true := by decide +kernel
example : docWrites {} {} "[a]: /u\n\ntext [a]".toList = [("a".toList, ("/u".toList, none))] := by decide +kernel

/-- the hypothesis on footnotes is needed: `FootnoteTreeprocessor` parses the carried footnote texts again in every
    conversion, and a reference definition inside a footnote is written again each time -/
example : (runS { footnotes := true } {} fresh [.convert "[^1]: x\n\n    [b]: /u".toList, .convert "plain".toList]).log =
      (runS { footnotes := true } {} fresh [.convert "[^1]: x\n\n    [b]: /u".toList]).log ++
        [("b".toList, ("/u".toList, none))] ∧
    docWrites { footnotes := true } {} "plain".toList = [] := by decide +kernel

/-- the hypothesis on abbreviation entries is needed: `*[X]: ''` writes a removal only when `X` is defined -/
example : (runS { abbr := true } {} fresh [.convert "*[X]: T".toList, .convert "*[X]: ''".toList]).log =
      [(BlockExt.abKey "X".toList, ("T".toList, none)), (BlockExt.abKey "X".toList, ([], none))] ∧
    docWrites { abbr := true } {} "*[X]: ''".toList = [] := by decide +kernel

/-! ### the side outputs `md.toc`, `md.toc_tokens` -/

/-- **Same HTML and same side outputs.**  After any history and `reset()`, `convert(s)` gives the same answer AND
    leaves the same state — `md.toc`, `md.toc_tokens`, references, footnotes, abbreviations, stash — as on a new
    instance. -/
theorem C11X_convert_after_reset_full (x : Exts) (cfg : Cfg) (st0 : MdSt) (h : List Ev) (s : Str) :
    convertS x cfg (resetS (runS x cfg st0 h)) s = convertS x cfg fresh s := rfl

/-- `reset()` clears the side outputs (`TocExtension.reset`: `md.toc = ''`, `md.toc_tokens = []`) -/
theorem C11X_reset_side_outputs (st : MdSt) : (resetS st).toc = some [] ∧ (resetS st).tocTokens = [] := ⟨rfl, rfl⟩

/-- the side outputs of a document with one heading -/
example : (runS { toc := true } {} fresh [.convert "# A".toList]).toc =
      some "<div class=\"toc\">\n<ul>\n<li><a href=\"#a\">A</a></li>\n</ul>\n</div>\n".toList ∧
    (runS { toc := true } {} fresh [.convert "# A".toList]).tocTokens = [⟨1, "a".toList, "A".toList⟩] := by
  decide +kernel
/-- every conversion that reaches the toc stage overwrites them (no accumulation) … -/
example : (runS { toc := true } {} fresh [.convert "# A".toList, .convert "b".toList]).toc =
    some "<div class=\"toc\">\n<ul></ul>\n</div>\n".toList := by decide +kernel
/-- … but a blank document is answered before any stage runs: WITHOUT `reset()` the instance still shows the table
    of contents of the previous document (`C11X_blank_keeps_state`), with `reset()` it is empty -/
example : (runS { toc := true } {} fresh [.convert "# A".toList, .convert " ".toList]).toc =
      some "<div class=\"toc\">\n<ul>\n<li><a href=\"#a\">A</a></li>\n</ul>\n</div>\n".toList ∧
    (runS { toc := true } {} fresh [.convert "# A".toList, .reset, .convert " ".toList]).toc = some [] := by
  decide +kernel

/-! ### with the `meta` extension: `md.Meta` -/

/-- **On a new instance `convertSM` is `convertM`**: the answer and the side output `md.Meta` are those of the
    one-shot model with the `meta` extension (`Model/PipelineM.lean`). -/
theorem C11X_meta_fresh_is_convertM (on : Bool) (x : Exts) (cfg : Cfg) (s : Str) :
    ((convertSM on x cfg fresh s).1, (convertSM on x cfg fresh s).2.metaData) = PipelineM.convertM on x cfg s :=
  convertSM_fresh on x cfg s

/-- **C11 with `Meta`.**  After any history (from any state) and `reset()`, `convert(s)` gives the answer and the
    `md.Meta` of a new instance — and leaves the same state altogether (`rfl`: `resetS` gives `fresh`). -/
theorem C11X_meta_convert_after_reset (on : Bool) (x : Exts) (cfg : Cfg) (st0 : MdSt) (h : List Ev) (s : Str) :
    convertSM on x cfg (resetS (runSM on x cfg st0 h)) s = convertSM on x cfg fresh s ∧
    ((convertSM on x cfg (resetS (runSM on x cfg st0 h)) s).1,
     (convertSM on x cfg (resetS (runSM on x cfg st0 h)) s).2.metaData) = PipelineM.convertM on x cfg s :=
  ⟨rfl, convertSM_fresh on x cfg s⟩

/-- without the `meta` extension `convertSM` is `convertS` -/
theorem C11X_meta_off (x : Exts) (cfg : Cfg) (st : MdSt) (s : Str) : convertSM false x cfg st s = convertS x cfg st s :=
  convertSM_off x cfg st s

/-- `md.Meta` is overwritten by every conversion that reaches the preprocessors (no accumulation) … -/
example : (runSM true {} {} fresh [.convert "Title: A\n\nbody".toList]).metaData = [("title".toList, ["A".toList])] ∧
    (runSM true {} {} fresh [.convert "Title: A\n\nbody".toList, .convert "plain".toList]).metaData = [] := by
  decide +kernel
/-- … but a blank document leaves the `Meta` of the previous document; with `reset()` it is empty -/
example : (runSM true {} {} fresh [.convert "Title: A\n\nbody".toList, .convert " ".toList]).metaData =
      [("title".toList, ["A".toList])] ∧
    (runSM true {} {} fresh [.convert "Title: A\n\nbody".toList, .reset, .convert " ".toList]).metaData = [] := by
  decide +kernel

/-! ### the concrete model as an instance of the abstract machine (`Model/Instance.lean`, `Props/C11.lean`) -/

/-- the abstract machine whose `convert` is `convertS`: the configuration is the extension set with the `Cfg`, the
    fields are `MdSt`, the nesting state of the block parser is not carried by this model (`Unit`; empty after every
    conversion that returns, `valid = false` after one that does not); a raising conversion is `raised` -/
def C11X_machine : Instance.Machine (Exts × Cfg) MdSt Unit Str Outcome where
  initF := fun _ => fresh
  leak0 := ()
  convert := fun c fl d =>
    (((convertS c.1 c.2 fl.1 d).2, ()),
     match (convertS c.1 c.2 fl.1 d).1 with
     | .err => .raised
     | o => .ok o)

/-- an event of the concrete model as an event of the abstract machine -/
def Ev.abs : Ev → Instance.Ev Str
  | .convert s => .convert s
  | .reset => .reset

/-- the abstract machine runs the concrete histories: its fields after a history are `runS` -/
theorem C11X_machine_run (c : Exts × Cfg) (st : MdSt) (h : List Ev) :
    (Instance.runHistory C11X_machine ⟨c, st, ()⟩ (h.map Ev.abs)).fields = runS c.1 c.2 st h ∧
    (Instance.runHistory C11X_machine ⟨c, st, ()⟩ (h.map Ev.abs)).cfg = c := by
  induction h generalizing st with
  | nil => exact ⟨rfl, rfl⟩
  | cons e h ih =>
    cases e with
    | convert s => exact ih _
    | reset => exact ih _

/-- **The abstract C11 theorem, instantiated**: on the machine whose `convert` is the concrete `convertS`, after
    any history and `reset()` a document gives the same result and the same state afterwards as on a new instance. -/
theorem C11X_abstract_reset_fresh (c : Exts × Cfg) (h : List (Instance.Ev Str)) (d : Str) :
    Instance.observe (Instance.conv C11X_machine
        (Instance.reset C11X_machine (Instance.runHistory C11X_machine (Instance.fresh C11X_machine c) h)) d) =
      Instance.observe (Instance.conv C11X_machine (Instance.fresh C11X_machine c) d) :=
  Instance.C11_reset_fresh C11X_machine c h d

/-- **Instances do not affect each other** (two differently configured concrete instances in one store): whatever
    is done with instance 0 — conversions, resets — instance 1 produces for `d` what it would have produced. -/
theorem C11X_instances_disjoint (a b : Instance.Inst (Exts × Cfg) MdSt Unit) (ha : List (Instance.Ev Str)) (d : Str) :
    ((Instance.runStore C11X_machine [a, b] (ha.map (Instance.SEv.on 0 (Cfg := Exts × Cfg))))[1]?).map
        (fun y => Instance.observe (Instance.conv C11X_machine y d)) =
      some (Instance.observe (Instance.conv C11X_machine b d)) :=
  Instance.C11_two_instances C11X_machine a b ha d

end MdVerif.InstanceX
