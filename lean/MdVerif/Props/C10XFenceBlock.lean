/-
C10 ("the converter's internal placeholders never reach the output") with the fenced_code extension: THE BLOCK STAGE
(worker fc2; the composition `C10X_partial_all` is in `Props/C10XAll.lean`, worker fc1).

`FencedBlockPreprocessor` replaces every fenced block by a raw-HTML placeholder `STX wzxhzdk:n ETX` before the block
parser runs, so the block parser sees a text with STX/ETX.  `C10X_block_stage_fenced`: when every placeholder is a BLOCK
of its own (`NoCtlF.OwnBlock`: blank line or text boundary on both sides — what the preprocessor writes) and live
(`n < HtmlBound.h`, the length of the raw-HTML stash), the extended block parser (every combination of admonition,
def_list, footnotes, abbr, sane_lists, tables; `tab_length ≥ 1`) keeps every placeholder whole inside a text or tail of the
tree and lets none of its characters into an attribute, an atomic `code` text, or any string of the log (reference
ids/urls/titles, footnote ids/bodies, abbreviations/titles).  A placeholder block only ever meets `EmptyBlockProcessor`
and `ParagraphProcessor` (`Lemmas/F/PlaceholdersXTBlock4.lean`).

`C10X_block_own_line_not_enough`: "a placeholder on a LINE of its own" would not do: in `[a]:\nPH` the placeholder is the
url of a reference definition and STX/ETX enter `md.references`.

`C10X_fenced_preprocessor`: `FencedBlockPreprocessor.run` on a text without STX/ETX does write every placeholder as a
block of its own, numbers below the length of the stash, keeps the facts of the domain, and stores entries free of
STX/ETX; `C10X_fenced_front` chains the two.

Lemma files: `Lemmas/F/PlaceholdersXTFence.lean` (the preprocessor), `Lemmas/F/PlaceholdersXTBlock.lean`, `…2`, `…3` (the block parser for three string classes: ordinary blocks /
tree strings / block-list elements), `…4` (inert lines), `…5` (the instance, the block list of an `OwnBlock` text).
Core Lean only.
-/
import MdVerif.Lemmas.F.PlaceholdersXTBlock5
import MdVerif.Lemmas.F.PlaceholdersXTFence

namespace MdVerif.NoCtlXF
open Py
open MdVerif.NoCtl (STX ETX NoCtl DomB Adj3)
open MdVerif.NoCtlF (HtmlBound OwnBlock DomA DomAmp)
open MdVerif.NoCtlX (Qw)

/-- **C10, block stage with fenced_code.**  `text`: the text handed to the block parser; every STX/ETX of it belongs to a
    live raw-HTML placeholder that is a block of its own (`OwnBlock HtmlBound.h text`), its characters are in the domain
    (`DomA`: no `<`, and — unless the parameter `HtmlBound.amp` admits ampersands — no `&`), it has none of the three adjacencies (backslash–backtick, `![`, `](`) and, with
    wikilinks, no `[` before a blank.  Then every element of the block tree is an `XT.BlkOut` element — literal tag;
    attribute names and values without STX/ETX; an atomic text only on `code` elements, without STX/ETX; tail and
    non-atomic text `WF false 0` (domain characters and whole live placeholders), `BtSafe`, `Adj3` — and the log satisfies
    b1's invariant for the placeholder-free class `XT.Bw wl`: no STX/ETX in any reference id, url or title, footnote id or
    body, abbreviation or title. -/
theorem C10X_block_stage_fenced [HtmlBound] (wl : Bool) (tables : Bool) (xc : BlockExt.XCfg) {tab : Nat} (htab : 0 < tab)
    {text : Str} (ho : OwnBlock HtmlBound.h text) (hd : DomA text) (ha : Adj3 text) (hq : Qw wl text)
    {root : Node} {log : Block.Refs} (hr : BlockExt.parseDocumentXT tables xc tab text = some (root, log)) :
    root.Forall (XT.BlkOut wl) ∧ NoCtl.BlkX.LogC pDomA (XT.Bw wl) log :=
  XT.block_stage_own wl tables xc htab ho hd ha hq hr

/-- a text with a heading, a list, a footnote reference and definition, an abbreviation and one placeholder block -/
def exOwn : Str :=
  "# h\n\n* a [^1] k\n\n".toList ++ Fenced.placeholder 0 ++ "\n\n[^1]: note\n\n*[k]: title".toList

/-- the hypotheses of `C10X_block_stage_fenced` hold of `exOwn` (stash of length 1) -/
example : OwnBlock 1 exOwn ∧ DomB exOwn ∧ Adj3 exOwn ∧ Qw true exOwn := by
  refine ⟨?_, by decide, by decide, by decide⟩
  letI : HtmlBound := ⟨1, true, false⟩
  exact XT.ownBlock_one (n := 0) (by decide) (by decide) (by decide) (.inr (.inr ⟨"# h\n\n* a [^1] k".toList, rfl⟩))
    (.inr (.inr ⟨"[^1]: note\n\n*[k]: title".toList, rfl⟩))

/-- the block parser on `exOwn` with every block-level extension: the placeholder is the text of a `p` under the root,
    the log holds the footnote and the abbreviation (kernel-checked) -/
example : (BlockExt.parseDocumentXT true ⟨true, true, true, true, true⟩ 4 exOwn).map
    (fun r => (r.1.children.map (fun c => (c.tag, c.text)), r.2.map (fun e => e.1))) =
    some ([(.name "h1".toList, some "h".toList), (.name "ul".toList, none),
           (.name "p".toList, some (Fenced.placeholder 0))],
          ["[^1".toList, "*[k".toList]) := by
  decide +kernel


/-- **C10, the fenced_code preprocessor.**  On a text without STX/ETX (what `NormalizeWhitespace` hands on), made of
    characters of the domain, `FencedBlockPreprocessor.run` returns a text in which every STX/ETX belongs to a
    placeholder `STX wzxhzdk:n ETX` with `n` below the length of the returned stash that is a block of its own
    (`OwnBlock`); the text is still in the domain (`DomA`; without ampersands: neither `<` nor `&` — so the raw-HTML
    preprocessor leaves it alone), keeps `Adj3` and `Qw wl`; and no stash entry holds STX/ETX (the code of a later block cannot contain an
    earlier placeholder: matches are searched behind the last placeholder only). -/
theorem C10X_fenced_preprocessor [HtmlBound] (wl : Bool) {t t' : Str} {stash : List Str}
    (h : Fenced.fencedRunA t = .ok t' stash) (hn : NoCtl t) (hd : DomA t) (ha : Adj3 t) (hq : Qw wl t) :
    (OwnBlock stash.length t' ∧ DomA t' ∧ Adj3 t' ∧ Qw wl t') ∧ ∀ e ∈ stash, NoCtl e :=
  XT.fencedRunA_own wl h hn hd ha hq

/-- **C10, preprocessor and block stage with fenced_code.**  From the normalised source to the block tree: with the
    grammar parameter `HtmlBound.h` = the length of the raw-HTML stash (any `fn`, any `amp`: `DomAmp amp t` = no `<`, and no
    `&` unless `amp`), every element of the tree is an `XT.BlkOut` element, the log is free of STX/ETX
    (`LogC pDomA (XT.Bw wl)`), the stash entries are free of STX/ETX. -/
theorem C10X_fenced_front (wl fn amp : Bool) (tables : Bool) (xc : BlockExt.XCfg) {tab : Nat} (htab : 0 < tab)
    {t t' : Str} {stash : List Str} (h : Fenced.fencedRunA t = .ok t' stash)
    (hn : NoCtl t) (hd : DomAmp amp t) (ha : Adj3 t) (hq : Qw wl t)
    {root : Node} {log : Block.Refs} (hr : BlockExt.parseDocumentXT tables xc tab t' = some (root, log)) :
    (letI : HtmlBound := ⟨stash.length, fn, amp⟩; root.Forall (XT.BlkOut wl) ∧ NoCtl.BlkX.LogC pDomA (XT.Bw wl) log) ∧
      ∀ e ∈ stash, NoCtl e := by
  letI : HtmlBound := ⟨stash.length, fn, amp⟩
  obtain ⟨⟨h1, h2, h3, h4⟩, h5⟩ := XT.fencedRunA_own wl h hn (NoCtlF.domA_of_domAmp hd) ha hq
  obtain ⟨r1, r2⟩ := XT.block_stage_own wl tables xc htab (text := t') h1 h2 h3 h4 hr
  exact ⟨⟨r1, r2⟩, h5⟩

/-- a normalised source with two fenced blocks (one with a language), a list, a footnote and an abbreviation -/
def exSrc : Str :=
  "* a [^1] k\n\n```py\nx = 1\n```\ntext\n~~~\n<b>&\n~~~\n\n[^1]: note\n\n*[k]: title\n\n".toList

/-- the preprocessor on `exSrc`: two placeholders, each a block of its own; two stash entries (kernel-checked) -/
example : Fenced.fencedRunA exSrc = .ok
    ("* a [^1] k\n\n\n".toList ++ Fenced.placeholder 0 ++ "\n\ntext\n\n".toList ++ Fenced.placeholder 1 ++
      "\n\n\n[^1]: note\n\n*[k]: title\n\n".toList)
    ["<pre><code class=\"language-py\">x = 1\n</code></pre>".toList,
     "<pre><code>&lt;b&gt;&amp;\n</code></pre>".toList] := by
  decide +kernel

/-- a placeholder on a LINE of its own, but not a block of its own -/
def exLine : Str := "[a]:\n".toList ++ Fenced.placeholder 0 ++ "\n\n[q][a]".toList

/-- **"alone on its line" is not enough**: `exLine` is made of domain characters and one whole live placeholder on a line of
    its own, yet the block parser stores the placeholder as the url of the reference `a` — STX/ETX in `md.references` -/
theorem C10X_block_own_line_not_enough :
    DomB exLine ∧ Adj3 exLine ∧ (letI : HtmlBound := ⟨1, true, false⟩; NoCtlF.WF false 0 exLine) ∧
      (BlockExt.parseDocumentXT false {} 4 exLine).map (fun r => r.2) =
        some [("a".toList, (Fenced.placeholder 0, none))] := by
  refine ⟨by decide, by decide, ?_, by decide +kernel⟩
  letI : HtmlBound := ⟨1, true, false⟩
  exact (NoCtlF.WF.append (NoCtlF.WF.of_noCtl (by decide)) (XT.wf_placeholder (n := 0) (by decide))).append
    (NoCtlF.WF.of_noCtl (by decide))

end MdVerif.NoCtlXF
