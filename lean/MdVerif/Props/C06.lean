/-
C06 — conservation of the reader's words, on the pipeline model.

"Every letter of running text in the source appears in the rendered text exactly once and in the same order:
conversion only removes markup characters and adds tags, it never drops, repeats or moves the reader's words, whatever
markup surrounds them."

**Statement** (`C06`).  For every configuration `cfg` (tab length, output format, escapable characters, block-level set),
every predicate `L` "is a letter" with `Letter L cfg.esc`, and every source `src` of the domain — no `<` (raw HTML),
`&` (entity references), `[` (links, references), `>`; `STX`/`ETX`, CR, tabs are allowed, `NormalizeWhitespace` deals
with them — : if `Pipeline.convert cfg src = .ok out`, then `out` is accepted by the strict reader of
`Spec/Reader.lean` (every element closed and nested, no stray `<`, `>`, `&`) and the letters of its text content are
exactly the letters of `src`, in order: `visibleLetters L cfg.fmt out = letters L src`.
`C06_with_quotes` is the same for sources *with* `>` (block quotes) as long as no `>` reaches a text of the block tree
(`blockTreeClean`, decidable).

* `visibleLetters L fmt out` — `out` is read by `Ser.readForest fmt`; the text content is the concatenation of the
  text items in document order (tags, attributes contribute nothing; `&amp;` `&lt;` `&gt;` are decoded by the reader,
  `&quot;` is decoded here, any other entity reference contributes nothing); then the letters are filtered.
* `Letter L esc` — the assumptions of the two halves on "is a letter": not white space, not a decimal digit, none of
  `# = - _ * + . > &` (`Letters.LetterClass`, block markup), not `STX`, `ETX`, `` ` ``, `\` (`Flat.LetterClass`), and no
  escapable character is a letter.  `letter_unicode`: all Unicode letters (`\w` other than decimal digits and `_`).

How it is composed (each step a theorem below):
1. `C06_normalize_letters` — `NormalizeWhitespace` keeps the letters (it touches `STX`, `ETX`, CR, LF, tab, space only);
   `C06_prepare_identity` — without `&` the raw-HTML preprocessor is the identity;
2. block half (`Props/C06Block.lean`): `Letters.docLetters root = letters text`; `C06_block_tree_clean` — the block
   tree is a tree of the inline domain (character provenance: the block parser invents no character, and without
   `&`, `<`, `>` `code_escape` is the identity); `C06_letters_bridge` — on such a tree the block half's `docLetters`
   (`code` text read through `escLetters`) and the inline half's `docLetters` (plain text content) agree;
3. inline half (`Props/C06Inline.lean`): `Inline.run`, `prettify`, `unescapeTree` conserve; the raw-HTML stash stays
   empty; the final tree has no attribute, no `&` in a text, and every `STX` left in it (escape tokens inside `code`,
   which `UnescapeTreeprocessor` skips — finding F-C10 family) is followed by a digit;
4. `C06_tree_letters` — hence the tree handed to the serializer has the letters of the source;
5. `C06_serialize_letters` — the serialisation of such a tree does not contain `STX amp ETX` (so both postprocessors
   are the identity, `C05_convert_plain`), the strict reader accepts the stripped content of the wrapper
   (`C05`/`C14` round trip) and what it returns has the letters of the tree.

Helper lemmas: `MdVerif/Lemmas/C06Compose.lean` (+ parts).  The provenance step uses `NoCtl.Blk.CharDom` with its
semantic field `esc` (`code_escape` stays inside the character class), instantiated with the clean characters; in
`Lemmas/BlockVocab.lean` four lemma names that clashed with `Lemmas/BlockFuel.lean` were renamed so that both
libraries can be imported together.
-/
import MdVerif.Lemmas.C06Compose

namespace MdVerif.C06
open Py Flat

/-! ### the hypotheses are satisfiable -/

/-- the Unicode letters, with the default `ESCAPED_CHARS` -/
example : Letter isLetterU ({} : Pipeline.Cfg).esc := letter_unicode

/-- a document with a header, a list, emphasis, code span and block, an escape, a hard break, an escaped backtick inside
    nested emphasis (which leaves an escape token in a `code` element) -/
def demoSrc : Str := "# Tytuł\n\n- a *b `c d`* \\* e\n\n    code x\n\nq __r__  \ns *_`\\``_*".toList

example : C06Domain demoSrc = true := by decide

/-- the same with a block quote: `>` only as quote marker -/
def demoQuote : Str := "> q __r__\n> > s `t`\n\nu".toList

example : C06DomainWide demoQuote = true ∧ blockTreeClean {} demoQuote = true := by decide +kernel

/-! ### 1. the front of the pipeline -/

/-- **`NormalizeWhitespace` keeps the letters** (any tab length, any source) -/
theorem C06_normalize_letters {L : Char → Bool} (hL : Flat.LetterClass L) (tab : Nat) (src : Str) :
    letters L (Normalize.normalize tab src) = letters L src := letters_normalize hL tab src

/-- **the raw-HTML preprocessor is the identity** on a source without `<`, `&`, `[` -/
theorem C06_prepare_identity (cfg : Pipeline.Cfg) {src : Str} (hd : C06DomainWide src = true) :
    Pipeline.prepare cfg src = Normalize.normalize cfg.tab src := prepare_eq cfg hd

/-! ### 2. the block tree -/

/-- **the block tree of a source of the domain is a tree of the inline domain**: no `[`, `&`, `<`, `>`, `STX` in any
    text or tail, no attribute -/
theorem C06_block_tree_clean (cfg : Pipeline.Cfg) {src : Str} (hd : C06Domain src = true) {root : Node}
    {refs : Block.Refs} (hr : Block.parseDocument cfg.tab (Pipeline.prepare cfg src) = some (root, refs)) :
    treeClean root = true := by
  have := blockTreeClean_of_domain cfg hd
  unfold blockTreeClean at this
  rw [hr] at this
  exact this

/-- **the two halves measure the same letters** on such a tree: reading `code` text through `escLetters` (block half)
    or taking the text content as it is (inline half) -/
theorem C06_letters_bridge {L : Char → Bool} {root : Node} (h : treeClean root = true) :
    Letters.docLetters L root = Flat.docLetters L root := docLetters_bridge root h

/-! ### 4. the tree handed to the serializer -/

/-- **the document tree has the letters of the source**: `u` is the tree after `inline`, `prettify`, `unescape`; the
    raw-HTML stash is empty, `u` is the wrapper `div` around vocabulary content (`DocOk`), has no attribute, no `&` in
    a text, and every `STX` in it is followed by a digit (`outTree`) -/
theorem C06_tree_letters {L : Char → Bool} {cfg : Pipeline.Cfg} (hL : Letter L cfg.esc) {src : Str}
    (hd : C06DomainWide src = true) (hq : blockTreeClean cfg src = true) {u : Node} {html : List Str}
    (ht : Pipeline.tree cfg src = some (some (u, html))) :
    Flat.docLetters L u = letters L src ∧ html = [] ∧ outTree u = true ∧ Vocab2.DocOk u = true :=
  tree_letters hL hd hq ht

/-! ### 5. the serializer -/

/-- **serialisation conserves the words**: for a document tree of the vocabulary without attributes whose texts have no
    `&` and no `STX` followed by a non-digit, the string that `convert` cuts out of the serialisation (a) does not
    contain the ampersand substitute, (b) is accepted by the strict reader, (c) shows the letters of the tree -/
theorem C06_serialize_letters {L : Char → Bool} (hL : Flat.LetterClass L) (fmt : Ser.Fmt) {u : Node}
    (hd : Vocab2.DocOk u = true) (ho : outTree u = true) :
    contains (Vocab2.inner fmt u) Post.ampSubstitute = false ∧
      (Ser.readForest fmt (strip (Vocab2.inner fmt u))).isSome = true ∧
      visibleLetters L fmt (strip (Vocab2.inner fmt u)) = Flat.docLetters L u :=
  ⟨inner_no_ampSub fmt hd ho, visibleLetters_inner hL fmt hd (ampFree_of_outTree u ho)⟩

/-! ### the property -/

/-- **C06, with block quotes.**  Source without `<`, `&`, `[`; `>` allowed as long as the block tree has none in its
    texts (`blockTreeClean`, decidable: e.g. `>` only as block-quote marker). -/
theorem C06_with_quotes {L : Char → Bool} {cfg : Pipeline.Cfg} (hL : Letter L cfg.esc) {src out : Str}
    (hd : C06DomainWide src = true) (hq : blockTreeClean cfg src = true)
    (hc : Pipeline.convert cfg src = .ok out) :
    (Ser.readForest cfg.fmt out).isSome = true ∧ visibleLetters L cfg.fmt out = letters L src :=
  convert_letters hL hd hq hc

/-- **C06.**  For every source without `<`, `&`, `[`, `>`: whatever `Markdown.convert` returns is a well-formed
    fragment whose text content has exactly the letters of the source, each once, in the order of the source. -/
theorem C06 {L : Char → Bool} {cfg : Pipeline.Cfg} (hL : Letter L cfg.esc) {src out : Str}
    (hd : C06Domain src = true) (hc : Pipeline.convert cfg src = .ok out) :
    (Ser.readForest cfg.fmt out).isSome = true ∧ visibleLetters L cfg.fmt out = letters L src :=
  convert_letters hL (wide_of_domain hd) (blockTreeClean_of_domain cfg hd) hc

/-! ### the theorem at work, and the edge of the domain (kernel-checked) -/

def show_ (src : String) : Option (String × String) :=
  match Pipeline.convert {} src.toList with
  | .ok o => some (String.ofList o, String.ofList (visibleLetters isLetterU .xhtml o))
  | _ => none

example : show_ (String.ofList demoSrc) = some
    ("<h1>Tytuł</h1>\n<ul>\n<li>\n<p>a <em>b <code>c d</code></em> * e</p>\n<p>code x</p>\n</li>\n</ul>\n" ++
     "<p>q <strong>r</strong><br />\ns <em><em><code>\x0296\x03</code></em></em></p>", "Tytułabcdecodexqrs") ∧
    letters isLetterU demoSrc = "Tytułabcdecodexqrs".toList := by decide +kernel

/-- `[`: a link destination leaves the text content -/
example : show_ "[a](b)" = some ("<p><a href=\"b\">a</a></p>", "a") ∧
    letters isLetterU "[a](b)".toList = "ab".toList := by decide +kernel

/-- `&`: an entity reference is markup to the reader -/
example : show_ "x &amp; y" = some ("<p>x &amp; y</p>", "xy") ∧
    letters isLetterU "x &amp; y".toList = "xampy".toList := by decide +kernel

/-- `>` in running text or in a code span is outside the proved domain (`blockTreeClean` fails); the conclusion holds
    on this instance — what is missing for a proof is that a code span never contains an earlier placeholder -/
example : blockTreeClean {} "a > `b > c`".toList = false ∧
    show_ "a > `b > c`" = some ("<p>a &gt; <code>b &gt; c</code></p>", "abc") := by decide +kernel

end MdVerif.C06
