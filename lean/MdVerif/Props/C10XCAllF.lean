/-
C10 on the extension model with ALL EXTENSIONS AND INLINE LINKS — "The output never contains the STX/ETX control characters
or any of the placeholder tokens the converter uses internally …" for `PipelineX.convertX`
(`Markdown(extensions=[…]).convert`) when fenced_code, footnotes, admonition, def_list, abbr, sane_lists, nl2br, wikilinks,
attr_list and toc are on or off in every combination (TABLES off), on the WIDER source domain of `Props/C10c.lean`
(`C10DomainC`): inline links `[text](url "title")`, inline images `![alt](url "title")`, image references, with simple
destinations, titles and alt texts — anywhere: inside a footnote body, next to a fenced block, in the title of an admonition,
a definition, a heading that carries an attribute list.

It joins the two lines of results that existed side by side:
* `Props/C10XCAll.lean` (`C10X_partial_links_all_but_footnotes_fenced_tables`): the domain with inline links, but without the two
  extensions that write FOREIGN TOKENS into the text (footnotes: `NBSP_PLACEHOLDER`, `FN_BACKLINK_TEXT`; fenced_code:
  raw-HTML placeholders);
* `Props/C10XAll.lean` (`C10X_partial_all`): all eleven extensions through the generalised token grammar of
  `Spec/F/NoCtl.lean`, but on the domain WITHOUT `](` and `![`.

What had to be shown anew (each of the two developments generalises a different part of the invariant `StrB`/`StrT`):
* the inline engine with the region invariant `AdjC true` over the generalised grammar
  (`Lemmas/F/PlaceholdersC{PP,Run,HI,Em,Link,FM}.lean`, `Lemmas/F/PlaceholdersXC{Q,HI,Run,FM}.lean`: declaration-wise merges
  of the two chains).  A foreign token starts with STX, which is neither a destination nor an alt-text character, so a
  region never contains a token, and `breaks token = true`: a token ends every open region like any other match;
* `FootnoteTreeprocessor` appends `NBSP_PLACEHOLDER` to the text of a paragraph: the regions of a block-tree text are
  CLOSED (`AdjC false`), so the token opens no region and continues none (`regionsOK_append_closed`);
* `FencedBlockPreprocessor` replaces `text[start:stop]`, from a line start to a line end, by a placeholder block: the
  regions of the text stay closed, because a region does not cross a line feed (`XT.fencedRunA_ownC`);
* the block stage on a text with placeholder blocks, for a class of ordinary blocks that is only closed under CUTS
  (dropping a prefix, cutting off an end without `)`/`]` before its first line feed) instead of arbitrary infixes
  (`Lemmas/F/PlaceholdersXCTBlock{,2,3,5}.lean`); the table processor cuts at `|`, where this fails: tables is off.

1. `C10X_inline_stage_links_foreign`: the inline stage.
2. `C10X_fenced_preprocessor_links`, `C10X_block_stage_fenced_links`: the preprocessor and the block stage.
3. `C10X_partial_footnotes_links`: end to end, footnotes × inline links (fenced_code off).
4. `C10X_partial_all_links`: end to end, all ten flags.
5. `C10X_links_leak_colon_abbr_rawhtml`: the hypothesis on the abbreviations is still needed.

Vocabulary: `Spec/NoCtlC.lean`, `Spec/F/*.lean`; helper lemmas: `Lemmas/F/Placeholders*.lean` (composition:
`Lemmas/F/PlaceholdersXCAllF.lean`).  Core Lean only.

(Worker amp: the chain now has a third parameter, `HtmlBound.amp` — does the character domain admit `&`? —; the theorems
of this file are the instance `amp = false`; `Props/C10XCAllAmp.lean` has the end-to-end theorem for sources with
ampersands, `C10X_partial_all_links_amp`.)
-/
import MdVerif.Lemmas.F.PlaceholdersXCAllF

namespace MdVerif.NoCtlXCF
open MdVerif.NoCtl (NoCtl DomB AdjC C10DomainC)
open MdVerif.NoCtlXC (C10DomainCW Qw QN)
open MdVerif.NoCtlXF (AbbrKeysOKA)
open Py

/-! ## 1. The inline stage -/

/-- **The inline stage with inline links, over the generalised token grammar.**  For every value of the parameters of
    the grammar (`HtmlBound`: number of live raw-HTML placeholders, footnotes flag): if every element of the tree is an
    F-`WNodeC 0` (texts and tails made of ordinary characters of the domain and foreign tokens, no backslash–backtick,
    simple regions behind `](` and `![` — possibly open at the end of a string —, `BACKTICK_RE` safe; atomic texts
    `WF false 0`) and satisfies `QN wl` (no `[` before a blank with wikilinks), and the pattern table is the one of
    `InlineX.table fn wl nl` (footnote references, wikilinks, nl2br on or off), then every element of the tree that
    `InlineX.runX` returns is again an F-`WNodeC 0` — no inline placeholder is left, foreign tokens are whole —, provided
    the raw-HTML stash behind the stage has at most `HtmlBound.h` entries; that stash has only grown by entries free of
    STX/ETX (the entities of the entity pattern) and is untouched when the character domain has no ampersand
    (`NoCtlF.HtmlOK`; third parameter `HtmlBound.amp`, with which `WNodeC` also asks that no region holds entity
    material: `NoCtlF.AdjCA`). -/
theorem C10X_inline_stage_links_foreign [NoCtlF.HtmlBound] {xc : InlineX.XCfg} (hesc : NoCtlF.EscOK xc.cfg.esc)
    (hrefs : MdVerif.NoCtl.RefsOK xc.cfg) (hkeys : ∀ k ∈ xc.fnKeys, NoCtl k) {fn wl nl : Bool}
    (htab : xc.table = InlineX.table fn wl nl) {tree t : Node} {html : List Str} {xs : InlineX.XSt}
    (ht : tree.Forall (NoCtlF.WNodeC 0)) (htq : tree.Forall (QN wl))
    (h : InlineX.runX xc tree html = some (t, xs)) (hb : xs.st.html.length ≤ NoCtlF.HtmlBound.h) :
    t.Forall (NoCtlF.WNodeC 0) ∧ NoCtlF.HtmlOK xs.st.html html :=
  runX_specB (hiSpecXB_tables hesc hrefs hkeys htab) ht htq h hb

/-! ## 2. The preprocessor and the block stage -/

/-- **`FencedBlockPreprocessor.run` keeps the regions closed.**  For a text without STX/ETX, of the domain (`DomA`: no
    `<`, and no `&` unless `HtmlBound.amp`), without backslash–backtick, in which every `](` is followed by a simple
    destination and every `![` by a simple alt text that are closed on the same line (`AdjCA false`: `AdjC false`, and
    with ampersands no `;`/`&#` inside a region), and (with wikilinks) without `[` before a blank:
    in the text handed on every STX/ETX belongs to a placeholder `STX wzxhzdk:n ETX`, `n` below the length of the
    stash, that is a block of its own (`OwnBlock`), the text has the same four properties, and no stash entry holds STX
    or ETX. -/
theorem C10X_fenced_preprocessor_links [NoCtlF.HtmlBound] (wl : Bool) {t t' : Str} {stash : List Str}
    (h : Fenced.fencedRunA t = .ok t' stash) (hn : NoCtl t) (hd : NoCtlF.DomA t) (ha : NoCtlF.AdjCA false t)
    (hq : Qw wl t) :
    (NoCtlF.OwnBlock stash.length t' ∧ NoCtlF.DomA t' ∧ NoCtlF.AdjCA false t' ∧ Qw wl t') ∧ ∀ e ∈ stash, NoCtl e :=
  XT.fencedRunA_ownC wl h hn hd ha hq

/-- **The extended block stage (tables off) on a text with placeholder blocks and inline links**: if every STX/ETX of
    the text belongs to a live raw-HTML placeholder that is a block of its own, and the text is of the domain, without
    backslash–backtick, with closed simple regions (and, with wikilinks, no `[` before a blank), then — for every
    combination of admonition, def_list, footnotes, abbr, sane_lists and every positive tab length — every element of the
    block tree is an `FnQC`: literal tag, attributes free of STX/ETX, tail and non-atomic text made of domain characters
    and WHOLE live placeholders with closed simple regions, atomic text only on `code` elements and free of STX/ETX;
    and every string of the log (reference ids, urls, titles; footnote ids and bodies; abbreviations and titles) is
    free of STX/ETX, footnote bodies are again texts of the class. -/
theorem C10X_block_stage_fenced_links [NoCtlF.HtmlBound] (wl : Bool) (xc : BlockExt.XCfg) {tab : Nat} (htab : 0 < tab)
    {text : Str} (ho : NoCtlF.OwnBlock NoCtlF.HtmlBound.h text) (hd : NoCtlF.DomA text) (ha : NoCtlF.AdjCA false text)
    (hq : Qw wl text) {root : Node} {log : Block.Refs}
    (hr : BlockExt.parseDocumentXT false xc tab text = some (root, log)) :
    root.Forall (FnQC wl) ∧ MdVerif.NoCtl.BlkX.LogC NoCtlXF.pDomA (PWC wl) log :=
  XT.block_stage_ownC wl xc htab ho hd ha hq hr

/-! ## 3. End to end: footnotes × inline links -/

/-- **End to end with footnotes and inline links** (`C10X_partial_footnotes_links`): fenced_code and tables off, the other
    nine flags — **footnotes**, admonition, def_list, abbr, sane_lists, nl2br, wikilinks, attr_list, toc — arbitrary.
    For a source without `<`, `&` whose normalised text has no backslash–backtick adjacency, in which every `](` is
    followed by a simple destination (with an optional title) and every `![` by a simple alt text, closed on the same
    line, and — when wikilinks is on — no `[` immediately followed by a blank (`C10DomainCW`, the domain of
    `C10X_partial_links_all_but_footnotes_fenced_tables`), and in which — when abbr is on — no abbreviation, in the
    document or inside a footnote body, is a number or the body of a footnote token (`AbbrKeysOKA`), whatever `convertX`
    returns (any tab length, output format, block-level set; escapable characters that occur in no token,
    `NoCtlF.EscOK`) contains neither STX nor ETX. -/
theorem C10X_partial_footnotes_links (x : PipelineX.Exts) (hfc : x.fencedCode = false) (htb : x.tables = false)
    (cfg : Pipeline.Cfg) (hcfg : NoCtlF.EscOK cfg.esc) {src out : Str} (hd : C10DomainCW x.wikilinks cfg.tab src)
    (habbr : AbbrKeysOKA x cfg src) (h : PipelineX.convertX x cfg src = .ok out) : NoCtl out :=
  convertX_noctl_links_fn hfc htb hcfg hd.1 hd.2 habbr h

/-- a footnote whose body holds an inline link with emphasis in its text and a title, and an inline image -/
example :
    let src := "A[^1]\n\n[^1]: see [a *b*](/u \"t\") ![i](/p.png)".toList
    C10DomainCW false 4 src ∧ AbbrKeysOKA { footnotes := true } {} src :=
  ⟨by decide +kernel, by decide +kernel⟩

/-- … and what `convertX` answers on it (= `markdown.markdown(src, extensions=['footnotes'])`): `NBSP_PLACEHOLDER` is
    appended to a text that ends behind the stashed `img` -/
example : PipelineX.convertX { footnotes := true } {} "A[^1]\n\n[^1]: see [a *b*](/u \"t\") ![i](/p.png)".toList =
    .ok ("<p>A<sup id=\"fnref:1\"><a class=\"footnote-ref\" href=\"#fn:1\">1</a></sup></p>\n<div class=\"footnote\">\n<hr />\n" ++
      "<ol>\n<li id=\"fn:1\">\n<p>see <a href=\"/u\" title=\"t\">a <em>b</em></a> <img alt=\"i\" src=\"/p.png\" />&#160;" ++
      "<a class=\"footnote-backref\" href=\"#fnref:1\" title=\"Jump back to footnote 1 in the text\">&#8617;</a></p>\n</li>\n" ++
      "</ol>\n</div>").toList := by
  decide +kernel

/-! ## 4. End to end: all ten flags -/

/-- **End to end with all extensions but tables, on the domain with inline links** (`C10X_partial_all_links`).
    **fenced_code, footnotes, admonition, def_list, abbr, sane_lists, nl2br, wikilinks, attr_list and toc are on or off,
    in every combination; tables is off.**  For a source without `<`, `&` whose normalised text has no backslash–backtick
    adjacency, in which every `](` is followed by a simple destination — characters other than backtick, backslash,
    `*`, `_`, brackets, parentheses, quotes, line feed, then `)` or a title `"…"`/`'…'` of such characters, blanks and
    `)` — and every `![` by a simple alt text — characters other than backtick, backslash, `*`, `_`, brackets, line
    feed, then `]` —, closed on the same line (fenced code included: the domain is a property of the source), and —
    when wikilinks is on — no `[` immediately followed by a blank (`C10DomainCW`), and in which — when abbr is on — no
    abbreviation definition, in the document or inside a footnote body, has a key made of ASCII digits only (F-C10-6),
    with footnotes a key equal to the body of a footnote token, with fenced_code one of the keys `wzxhzdk`, `wzxhzdk:`,
    `wzxhzdk:`+digits, `:`, `:`+digits, which cut a raw-HTML placeholder (`AbbrKeysOKA`, decidable), whatever `convertX`
    returns (any tab length — positive when fenced_code is on —, output format, block-level set; escapable characters
    ordinary ones that occur in no token — `NoCtlF.EscOK`: neither STX nor ETX nor a digit nor one of
    `k l z w x h : q d`) contains neither STX nor ETX.
    Known leaks that the domain keeps outside: F-C10-1 (markup inside a destination, title or alt text), F-C10-2 (a
    quote in a destination that does not close as a title), F-C10-4 (backslash before a backtick); with tables a cell
    boundary inside a region (`C10XC_table_cell_leaves_class`) leaves the class of the block stage.  (The model answers
    `ood` — nothing to prove — for fenced_code + attr_list when a fenced block carries options, and for admonition +
    `!!!` before a non-ASCII character.) -/
theorem C10X_partial_all_links (x : PipelineX.Exts) (htb : x.tables = false) (cfg : Pipeline.Cfg)
    (hcfg : NoCtlF.EscOK cfg.esc) (htab : x.fencedCode = true → 0 < cfg.tab) {src out : Str}
    (hd : C10DomainCW x.wikilinks cfg.tab src) (habbr : AbbrKeysOKA x cfg src)
    (h : PipelineX.convertX x cfg src = .ok out) : NoCtl out :=
  convertX_noctl_links_ten htb hcfg htab hd.1 hd.2 habbr h

/-- the default configuration satisfies the hypotheses on `cfg` -/
example (x : PipelineX.Exts) : NoCtlF.EscOK ({} : Pipeline.Cfg).esc ∧ (x.fencedCode = true → 0 < ({} : Pipeline.Cfg).tab) :=
  ⟨NoCtlXF.escOK_default0, fun _ => by decide⟩

/-- every source of the domain of `C10X_partial_all` (no `](`, no `![`) is in the domain used here: with tables off the
    theorem subsumes `C10X_partial_all` (and, with fenced_code and footnotes off, g3's theorem for `AbbrKeysOKA`) -/
example {wl : Bool} {tab : Nat} {src : Str} (h : NoCtlX.C10DomainW wl tab src) : C10DomainCW wl tab src :=
  ⟨⟨h.1.1, MdVerif.NoCtl.adjC_of_adj3 h.1.2 false⟩, h.2⟩

/-- all ten extensions -/
def tenExts : PipelineX.Exts :=
  { fencedCode := true, footnotes := true, tables := false, admonition := true, defList := true, abbr := true,
    saneLists := true, nl2br := true, wikilinks := true, attrList := true, toc := true }

/-- the hypotheses on a source with a heading with an inline link and an attribute list, a footnote reference, an
    abbreviation, an image with a title, a wikilink, a fenced block with a language, a footnote whose body holds an
    inline link (over an abbreviation) with a title and an image, `[TOC]`; all ten extensions on -/
example :
    let src := ("# H [l](u) {: #i }\n\nA[^n] HTML ![alt](i.png \"T\") [[W]]\n\n```python\nx = `1` *a*\n```\n\n" ++
      "[^n]: see [HTML](http://x.y/z \"t\") and ![im](p.png)\n\n*[HTML]: Hyper Text\n\n[TOC]").toList
    C10DomainCW tenExts.wikilinks 4 src ∧ AbbrKeysOKA tenExts {} src :=
  ⟨by decide +kernel, by decide +kernel⟩

/-- … and what `convertX` answers on it (= the output of the implementation with the ten extensions) -/
example : PipelineX.convertX tenExts {}
      ("# H [l](u) {: #i }\n\nA[^n] HTML ![alt](i.png \"T\") [[W]]\n\n```python\nx = `1` *a*\n```\n\n" ++
        "[^n]: see [HTML](http://x.y/z \"t\") and ![im](p.png)\n\n*[HTML]: Hyper Text\n\n[TOC]").toList =
    .ok ("<h1 id=\"i\">H <a href=\"u\">l</a></h1>\n<p>A<sup id=\"fnref:n\"><a class=\"footnote-ref\" href=\"#fn:n\">1</a></sup> " ++
      "<abbr title=\"Hyper Text\">HTML</abbr> <img alt=\"alt\" src=\"i.png\" title=\"T\" /> <a class=\"wikilink\" " ++
      "href=\"/W/\">W</a></p>\n<pre><code class=\"language-python\">x = `1` *a*\n</code></pre>\n<div class=\"toc\">\n<ul>\n" ++
      "<li><a href=\"#i\">H l</a></li>\n</ul>\n</div>\n<div class=\"footnote\">\n<hr />\n<ol>\n<li id=\"fn:n\">\n<p>see " ++
      "<a href=\"http://x.y/z\" title=\"t\"><abbr title=\"Hyper Text\">HTML</abbr></a> and <img alt=\"im\" src=\"p.png\" />" ++
      "&#160;<a class=\"footnote-backref\" href=\"#fnref:n\" title=\"Jump back to footnote 1 in the text\">&#8617;</a></p>\n" ++
      "</li>\n</ol>\n</div>").toList := by
  decide +kernel

/-- a fenced block directly between a link and an image (no blank lines), with a link and a code span in the code -/
example :
    let src := "[a](/u)\n```\n[x](y) `c`\n```\n![i](/p \"t\")".toList
    C10DomainCW false 4 src ∧ AbbrKeysOKA { fencedCode := true } {} src :=
  ⟨by decide +kernel, by decide +kernel⟩

example : PipelineX.convertX { fencedCode := true } {} "[a](/u)\n```\n[x](y) `c`\n```\n![i](/p \"t\")".toList =
    .ok ("<p><a href=\"/u\">a</a></p>\n<pre><code>[x](y) `c`\n</code></pre>\n<p><img alt=\"i\" src=\"/p\" title=\"t\" />" ++
      "</p>").toList := by
  decide +kernel

/-- links and images in the title of an admonition, in a definition term and a definition; a footnote whose second
    paragraph looks like a fence (it is indented, so it is no fenced block) -/
example :
    let x : PipelineX.Exts := { admonition := true, defList := true, footnotes := true, fencedCode := true }
    let src := ("!!! note \"[t](/u)\"\n    ![i](/p)\n\nterm [a](b)\n: def ![c](d)[^1]\n\n[^1]: n\n\n    ~~~\n    c\n" ++
      "    ~~~").toList
    C10DomainCW false 4 src ∧ AbbrKeysOKA x {} src :=
  ⟨by decide +kernel, by decide +kernel⟩

example : PipelineX.convertX { admonition := true, defList := true, footnotes := true, fencedCode := true } {}
      ("!!! note \"[t](/u)\"\n    ![i](/p)\n\nterm [a](b)\n: def ![c](d)[^1]\n\n[^1]: n\n\n    ~~~\n    c\n" ++
        "    ~~~").toList =
    .ok ("<div class=\"admonition note\">\n<p class=\"admonition-title\"><a href=\"/u\">t</a></p>\n<p><img alt=\"i\" " ++
      "src=\"/p\" /></p>\n</div>\n<dl>\n<dt>term <a href=\"b\">a</a></dt>\n<dd>def <img alt=\"c\" src=\"d\" /><sup " ++
      "id=\"fnref:1\"><a class=\"footnote-ref\" href=\"#fn:1\">1</a></sup></dd>\n</dl>\n<div class=\"footnote\">\n<hr />\n<ol>\n" ++
      "<li id=\"fn:1\">\n<p>n</p>\n<p>~~~\nc\n~~~&#160;<a class=\"footnote-backref\" href=\"#fnref:1\" title=\"Jump back to " ++
      "footnote 1 in the text\">&#8617;</a></p>\n</li>\n</ol>\n</div>").toList := by
  decide +kernel

/-- an unclosed destination in front of a fence is outside the domain (the region would have to cross a line feed) -/
example : ¬ C10DomainCW false 4 "[a](b\n```\nx\n```\n)".toList := by decide +kernel

/-! ## 5. The hypothesis on the abbreviations is needed -/

/-- **An abbreviation `:` cuts a raw-HTML placeholder also next to a footnote with an inline link** (F-C10-6, second
    form).  The source is in the domain; `AbbrKeysOKA` fails; the output holds STX and ETX.  (The implementation does
    the same: `markdown.markdown("a[^1]\n\n[^1]: [n](/u)\n\n```\nx\n```\n\n*[:]: T", extensions=['fenced_code','footnotes','abbr'])`.) -/
theorem C10X_links_leak_colon_abbr_rawhtml :
    C10DomainCW false 4 "a[^1]\n\n[^1]: [n](/u)\n\n```\nx\n```\n\n*[:]: T".toList ∧
    ¬ AbbrKeysOKA { fencedCode := true, footnotes := true, abbr := true } {}
      "a[^1]\n\n[^1]: [n](/u)\n\n```\nx\n```\n\n*[:]: T".toList ∧
    PipelineX.convertX { fencedCode := true, footnotes := true, abbr := true } {}
        "a[^1]\n\n[^1]: [n](/u)\n\n```\nx\n```\n\n*[:]: T".toList =
      .ok ("<p>a<sup id=\"fnref:1\"><a class=\"footnote-ref\" href=\"#fn:1\">1</a></sup></p>\n<p>\x02wzxhzdk<abbr title=\"T\">:" ++
        "</abbr>0\x03</p>\n<div class=\"footnote\">\n<hr />\n<ol>\n<li id=\"fn:1\">\n<p><a href=\"/u\">n</a>&#160;<a " ++
        "class=\"footnote-backref\" href=\"#fnref:1\" title=\"Jump back to footnote 1 in the text\">&#8617;</a></p>\n</li>\n" ++
        "</ol>\n</div>").toList :=
  ⟨by decide +kernel, by decide +kernel, by decide +kernel⟩

end MdVerif.NoCtlXCF
