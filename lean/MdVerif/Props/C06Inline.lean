/-
C06 — conservation of the reader's words, inline half.

"Every letter of running text in the source appears in the rendered text exactly once and in the same order:
conversion only removes markup characters and adds tags, it never drops, repeats or moves the reader's words, whatever
markup surrounds them."

Domain of this file: element texts without `[`, `&`, `<`, `>` (no link/reference syntax, no entity reference, no raw
HTML; `>` is excluded because `code_escape` writes it as `&gt;` inside a code span — letters `g`, `t` that only the
HTML reader turns back into `>`: see `C06_gt_in_code_adds_letters`) and without `STX` (no forged placeholder:
`normalize_whitespace` removes it from every source).  The block half (the block parser conserves the letters of the
source into such a tree) is a separate file.

While the inline processor works, the words are spread over a string with placeholders and the stash, and the
placeholder stem `klzzwxh:` is itself made of letters.  Letters are therefore measured on the placeholder-expanded view
of `Spec/Flat.lean`: `flat stash s` (`lettersF`), `nodeFlat`/`kidsFlat` (`lettersN`, `lettersK`).  "Is a letter" is an
arbitrary predicate `L` with `LetterClass L` (markup characters, white space, ASCII digits, `STX`, `ETX` are not
letters) and `EscNotLetter L cfg` (the escapable characters are not letters).  `ok L n s` (every `STX` of `s` starts a
complete escape token of a non-letter or a placeholder with id `< n`; no `[ & < >`), `nodeOk`, `stashOk` are the
invariants; they hold for every tree of the domain (`treeClean`) and the empty stash.

* `C06_pattern_conserves` — one `__applyPattern` step, any of the 16 core patterns, keeps invariants and letters;
* `C06_handleInline_conserves` — so does `__handleInline` (any nesting depth);
* `C06_processPlaceholders_order` — `__processPlaceholders` rebuilds exactly the expanded text, in document order;
* `C06_run_conserves` — `InlineProcessor.run` conserves the letters of the document and leaves no placeholder in it
  (`C06_run_conserves_flat`: the same in the expanded view, with the invariants of the final stash);
* `C06_prettify_conserves`, `C06_unescape_conserves`, `C06_treeproc_conserve` — the two later tree processors;
* `C06_inline_stage_conserves` — the three tree processors together.

Helper lemmas: `MdVerif/Lemmas/InlineConserve.lean` (and the parts it imports).
-/
import MdVerif.Lemmas.InlineConserve

namespace MdVerif.Flat
open Py Inline TreeProc

/-! ### the hypotheses are satisfiable -/

/-- the ASCII letters are a `LetterClass` -/
example : LetterClass isAsciiAlpha := letterClass_asciiAlpha

/-- so are the Unicode letters (`\w` characters other than decimal digits and `_`) -/
example : LetterClass isLetterU := letterClass_unicode

/-- the default `ESCAPED_CHARS` contain no letter -/
example : EscNotLetter isAsciiAlpha {} := escNotLetter_default
example : EscNotLetter isLetterU {} := escNotLetter_default_unicode

/-- a paragraph with emphasis, a code span, an escape and a hard line break is in the domain -/
def demoTree : Node :=
  { tag := .name "div".toList,
    children := [{ tag := .name "p".toList, text := some "a *b `c d` \\* e*  \nf __g__ klz".toList }] }

example : treeClean demoTree = true := by decide

/-- a data string in the middle of the work: one code span stashed, one escape token -/
example : ok isAsciiAlpha 1 ("x ".toList ++ placeholder 0 ++ " ".toList ++ escToken 42 ++ " *y*".toList) = true := by
  decide

example : stashOk isAsciiAlpha [.node { mkEl "code" with text := some "c d".toList, textAtomic := true }] = true := by
  decide

/-! ### one pattern, `__handleInline` -/

/-- **one `__applyPattern` step conserves the words.**  `pi` is any of the 16 core patterns (backtick, escape, the six
    link/reference patterns, autolink, automail, line break, inline html, entity, not_strong, em_strong, em_strong2 —
    in the domain the link, html and entity patterns never match), `hi` the nested `__handleInline`, assumed to
    conserve.  The stash only grows, the raw-HTML stash is untouched, the invariants are kept, and the visible letters
    of `data` are unchanged: the
    match is replaced by a placeholder whose stash entry shows the same letters in the same order (a code span: the
    code, stripped; an escape: nothing, the escaped character is not a letter; a line break, a lone `*`/`_` run:
    nothing; emphasis: the letters of the groups, delimiters dropped). -/
theorem C06_pattern_conserves {L : Char → Bool} (hL : LetterClass L) {cfg : Cfg} (hE : EscNotLetter L cfg)
    {hi : HI}
    (hhi : ∀ d pi st d' st', stashOk L st.stash = true → ok L st.stash.length d = true →
      hi d pi st = some (d', st') →
      (∃ e, st'.stash = st.stash ++ e) ∧ stashOk L st'.stash = true ∧ ok L st'.stash.length d' = true ∧
        lettersF L st'.stash d' = lettersF L st.stash d ∧ st'.html = st.html)
    {st st' : St} {data data' : Str} {pi startIndex startIndex' : Nat} {matched : Bool}
    (hs : stashOk L st.stash = true) (hd : ok L st.stash.length data = true)
    (h : applyPattern cfg hi pi data startIndex st = some (data', matched, startIndex', st')) :
    (∃ e, st'.stash = st.stash ++ e) ∧ stashOk L st'.stash = true ∧ ok L st'.stash.length data' = true ∧
      lettersF L st'.stash data' = lettersF L st.stash data ∧ st'.html = st.html := by
  have hhi' : HISpec L hi := fun d pi st d' st' a b c => by
    obtain ⟨h1, h2, h3, h4, h5⟩ := hhi d pi st d' st' a b c
    exact ⟨h1, h2, h3, h4, h5⟩
  have c := applyPattern_spec hL hE hhi' hs hd h
  exact ⟨c.ext, c.sok, c.dok, c.cons, c.html⟩

/-- **`__handleInline` conserves the words**, whatever the fuel (nesting depth) and the starting pattern index -/
theorem C06_handleInline_conserves {L : Char → Bool} (hL : LetterClass L) {cfg : Cfg} (hE : EscNotLetter L cfg)
    {fuel pi : Nat} {st st' : St} {data data' : Str}
    (hs : stashOk L st.stash = true) (hd : ok L st.stash.length data = true)
    (h : handleInline cfg fuel data pi st = some (data', st')) :
    (∃ e, st'.stash = st.stash ++ e) ∧ stashOk L st'.stash = true ∧ ok L st'.stash.length data' = true ∧
      lettersF L st'.stash data' = lettersF L st.stash data ∧ st'.html = st.html := by
  have c := handleInline_spec hL hE fuel data pi st data' st' hs hd h
  exact ⟨c.ext, c.sok, c.dok, c.cons, c.html⟩

/-- the hypothesis `hhi` of `C06_pattern_conserves` is met by `__handleInline` itself, at every depth -/
example {L : Char → Bool} (hL : LetterClass L) {cfg : Cfg} (hE : EscNotLetter L cfg) (f : Nat) :
    ∀ d pi st d' st', stashOk L st.stash = true → ok L st.stash.length d = true →
      handleInline cfg f d pi st = some (d', st') →
      (∃ e, st'.stash = st.stash ++ e) ∧ stashOk L st'.stash = true ∧ ok L st'.stash.length d' = true ∧
        lettersF L st'.stash d' = lettersF L st.stash d ∧ st'.html = st.html :=
  fun _ _ _ _ _ hs hd h => C06_handleInline_conserves hL hE hs hd h

/-- the same for a source string (no `STX`) and the empty stash: the visible letters of the result are the letters of
    the source -/
theorem C06_handleInline_source {L : Char → Bool} (hL : LetterClass L) {cfg : Cfg} (hE : EscNotLetter L cfg)
    {src data' : Str} {st' : St} (hsrc : strClean src = true)
    (h : handleInlineTop cfg src {} = some (data', st')) :
    lettersF L st'.stash data' = letters L src := by
  have hd : ok L ({} : St).stash.length src = true := ok_of_strClean hsrc
  have c := handleInline_spec hL hE _ src 0 {} data' st' rfl hd h
  rw [c.cons]
  simp only [lettersF, flat]
  rw [flatT_of_phFree _ (strClean_no_stem hsrc)]

example : strClean "a *b `c d` \\* e*  \nf __g__ klz".toList = true := by decide

/-! ### `__processPlaceholders` -/

/-- **`__processPlaceholders` re-assembles the text in order.**  For a well-formed `data` and a parent whose receiving
    field (`text` when `isText`, else `tail`) is empty: the text left with the parent followed by the expanded content
    of the new elements (each with its tail), in document order, is exactly the expansion of `data`; only that field
    of the parent changes; the text left with the parent and the own text and tail of every new element contain no
    placeholder any more (placeholders remain only deeper, in the grandchildren of elements taken out of the stash). -/
theorem C06_processPlaceholders_order {L : Char → Bool} {st : St} (hs : stashOk L st.stash = true)
    {data : Str} {atomic isText : Bool} {parent parent' : Node} {res : List Node}
    (hd : ok L st.stash.length data = true) (hf : field parent isText = [])
    (h : ppTop st data atomic parent isText = some (res, parent')) :
    flat st.stash (field parent' isText) ++ kidsFlat (table st.stash) res = flat st.stash data ∧
      parent'.children = parent.children ∧ (isText = true → parent'.tail = parent.tail) ∧
      (isText = false → parent'.text = parent.text) ∧
      kidsOk L st.stash.length res = true ∧ ok L 0 (field parent' isText) = true ∧
      (∀ r ∈ res, ok L 0 (r.text.getD []) = true ∧ ok L 0 (r.tail.getD []) = true) := by
  obtain ⟨p1, p2, _, p4, p5, p6⟩ := processPlaceholders_spec hs _ _ _ _ _ _ _ hd hf h
  refine ⟨p4, p1.kids, p1.tail, p1.text, p2, p5, ?_⟩
  intro r hr
  have := (p6 r hr).1
  simpa [topClean] using this

/-- the receiving field of the parents the code uses is empty: the dummy element of a tail, an element whose text
    has just been taken out -/
example : field (mkEl "d") false = [] := rfl
example : field { mkEl "p" with text := none, tail := some "x".toList } true = [] := rfl

/-! ### `InlineProcessor.run` -/

/-- **the tree walk conserves the words.**  For a document tree of the domain, the letters of the text content of
    the result are the letters of the tree, in order; and no text or tail of the result contains a placeholder any
    more (`nodeOk L 0`: every `STX` left starts an escape token `STX ddd ETX` of a non-letter, which
    `UnescapeTreeprocessor` turns back into its character), and the raw-HTML stash is untouched.  The second part is the coverage of the stack discipline
    of `run`: elements taken out of the stash still have placeholders in the texts of their grandchildren, and every
    such element is at or below a path of the stack until it is visited. -/
theorem C06_run_conserves {L : Char → Bool} (hL : LetterClass L) {cfg : Cfg} (hE : EscNotLetter L cfg)
    {tree tree' : Node} {st : St} {html : List Str} (hclean : treeClean tree = true)
    (h : Inline.run cfg tree html = some (tree', st)) :
    docLetters L tree' = docLetters L tree ∧ nodeOk L 0 tree' = true ∧ st.html = html := by
  obtain ⟨_, _, a3, a4, _, a6⟩ := run_spec hL hE hclean h
  refine ⟨?_, a4, a6⟩
  rw [← a3]
  simp only [lettersN, docLetters]
  rw [nodeFlat_of_ok0 _ a4]

/-- the same in the expanded view, with the invariants of the final stash -/
theorem C06_run_conserves_flat {L : Char → Bool} (hL : LetterClass L) {cfg : Cfg} (hE : EscNotLetter L cfg)
    {tree tree' : Node} {st : St} {html : List Str} (hclean : treeClean tree = true)
    (h : Inline.run cfg tree html = some (tree', st)) :
    lettersN L st.stash tree' = docLetters L tree ∧ stashOk L st.stash = true ∧
      nodeOk L st.stash.length tree' = true := by
  obtain ⟨a1, a2, a3, _, _, _⟩ := run_spec hL hE hclean h
  exact ⟨a3, a1, a2⟩

/-! ### the later tree processors -/

/-- `PrettifyTreeprocessor` only adds and replaces white space -/
theorem C06_prettify_conserves {L : Char → Bool} (hL : LetterClass L) (bl : List Str) (root : Node) :
    docLetters L (prettify root bl) = docLetters L root ∧
      letters L ((prettify root bl).tail.getD []) = letters L (root.tail.getD []) ∧
      (nodeOk L 0 root = true → nodeOk L 0 (prettify root bl) = true) := by
  obtain ⟨h1, h2⟩ := prettify_spec hL bl root
  exact ⟨docLetters_of_lettersT h2 (prettify_tail hL bl root), prettify_tail hL bl root, h1⟩

/-- `UnescapeTreeprocessor` only puts back escaped characters, which are not letters: for a tree without
    placeholders whose escape tokens denote non-letters (`nodeOk L 0`) -/
theorem C06_unescape_conserves {L : Char → Bool} (hL : LetterClass L) {root root' : Node}
    (hok : nodeOk L 0 root = true) (h : unescapeTree root = some root') :
    docLetters L root' = docLetters L root ∧ letters L (root'.tail.getD []) = letters L (root.tail.getD []) := by
  have h1 := unescapeTree_spec hL root root' hok h
  have htail := unescapeTree_tail hL hok h
  exact ⟨docLetters_of_lettersT h1 htail, htail⟩

/-- **prettify then unescape conserve the words** -/
theorem C06_treeproc_conserve {L : Char → Bool} (hL : LetterClass L) (bl : List Str) {root root' : Node}
    (hok : nodeOk L 0 root = true) (h : unescapeTree (prettify root bl) = some root') :
    docLetters L root' = docLetters L root := by
  obtain ⟨p1, _, p3⟩ := C06_prettify_conserves hL bl root
  rw [(C06_unescape_conserves hL (p3 hok) h).1, p1]

/-- a tree after the inline stage: escape tokens of `\*` and `\\`, a `br`, nested emphasis -/
example : nodeOk isAsciiAlpha 0
    { tag := .name "p".toList, text := some ("a ".toList ++ escToken 42 ++ " b".toList),
      children := [{ mkEl "em" with text := some "c".toList, tail := some (escToken 92) }, mkEl "br"] } = true := by
  decide

/-- **the three tree processors together** (`inline`, `prettify`, `unescape`): the letters of the final tree are the
    letters of the tree the block parser produced -/
theorem C06_inline_stage_conserves {L : Char → Bool} (hL : LetterClass L) {cfg : Cfg} (hE : EscNotLetter L cfg)
    (bl : List Str) {tree t1 t3 : Node} {st : St} {html : List Str} (hclean : treeClean tree = true)
    (h1 : Inline.run cfg tree html = some (t1, st)) (h3 : unescapeTree (prettify t1 bl) = some t3) :
    docLetters L t3 = docLetters L tree := by
  obtain ⟨a1, a2, _⟩ := C06_run_conserves hL hE hclean h1
  rw [C06_treeproc_conserve hL bl a2 h3, a1]

/-! ### why the hypotheses are there (kernel-checked) -/

def para (s : String) : Node :=
  { tag := .name "div".toList, children := [{ tag := .name "p".toList, text := some s.toList }] }

def lettersAfterRun (s : String) : Option String :=
  (Inline.run {} (para s)).map (fun r => String.ofList (docLetters isAsciiAlpha r.1))

/-- the domain conserves: markup of every kind around the words -/
example : lettersAfterRun "a *b `c d` \\* e*  \nf __g__ klz" = some "abcdefgklz" := by decide +kernel

/-- `>` inside a code span is written `&gt;` by `code_escape`: the tree text gains the letters `g`, `t` (the HTML
    reader turns them back into `>`; on the rendered text the property holds, on the tree text it needs `>` excluded) -/
theorem C06_gt_in_code_adds_letters : lettersAfterRun "`a>b`" = some "agtb" := by decide +kernel

/-- a forged placeholder (an `STX` in the source, which `normalize_whitespace` makes impossible) repeats the words of
    a stash entry -/
example : lettersAfterRun "`a`\x02klzzwxh:0000\x03" = some "aa" := by decide +kernel

/-- link syntax moves words into attributes: outside the domain -/
example : lettersAfterRun "[a](b)" = some "a" := by decide +kernel

/-- an entity reference is taken out into the HTML stash: outside the domain -/
example : lettersAfterRun "a &amp; b" = some "awzxhzdkb" := by decide +kernel

end MdVerif.Flat
