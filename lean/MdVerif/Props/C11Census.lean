/-
C11 / C12 — the structural hypotheses, tied to the source text.

`Props/C11.lean` proves "after `reset()` an instance is the fresh instance" from (H1) *`reset()` re-initialises
everything that a conversion writes* (since commit f86514b, the repair of F-C11-1, this includes the block parser's
nesting state, the `leak` of the model).  `Props/C12.lean` proves schedule independence from
*the state shared between threads is read-only or a write-once memo*.  Both are facts about where the code
**writes**.  `harness/translate.py` extracts from the AST of `markdown/**/*.py` the census of all writes
(`MdVerif/Generated/Census.lean`, regenerated from the working tree, never imported/executed):

* `instanceWrites`   every write to instance state outside `__init__` (assignment, augmented assignment, `del`,
                     item assignment, mutating method call; through `self`, through `self.md…`/`self.parser…` chains,
                     through one-level aliases);
* `resetWrites`, `resetCalls`, `registerExtensionCalls`   what the `reset` methods re-initialise, what
                     `Markdown.reset` calls, which extensions register themselves to be reset;
* `sharedWrites`, `memoDecorators`   every write *inside a function body* to module-level or class-level state,
                     including in-place mutation through `self` (`self.X += …`, `self.X.append(…)`, `self.X[k] = …`,
                     in any method, `__init__` included) of a name bound in a class body of the class, of a base class
                     or of a subclass (`classHierarchy`, `classLevelMutable`).

This file classifies every entry.  The theorems are `decide`d over the generated lists, so a change of the source
that adds conversion-time state which `reset()` forgets, or a run-time write to shared state, makes this file fail to
compile until a human has looked at the new entry and put it — with a justification — into one of the lists below.

The categories of `C11_conversion_writes_are_reset` and what they mean for the model of `Model/Instance.lean`:

* `resetFields`  (derived, not hand-written)  `fields`: cleared by `Markdown.reset()`, directly, through
                 `htmlStash.reset()` or through the `reset()` of a registered extension;
* `perRunReinit` `fields` that need no clearing: unconditionally re-assigned by every conversion before they are read
                 (the theorem checks that the re-initialising assignment is still there);
* `handshake`    set by a block processor's `test`, consumed by the `run` that `parseBlocks` calls immediately after;
* `perRunObjects` classes whose instances are created afresh inside every conversion (checked against the
                 construction sites), so their attributes are not instance state of `Markdown` at all;
* `configMethods`/`configWrites`  writes that happen while the instance is being configured (`cfg` of the model);
* `configMemo`   lazily computed values that are a function of the configuration only (idempotent caches);
* `aliasOf`      an attribute that holds *the same object* as a reset field — among them the `leak` of the model:
                 the `State` object is what `BlockParser.state` holds, and `Markdown.reset()` clears it;
* `carriedOver`  **not reset** — the documented exception and the suspicious ones; see the comments there.

Limits (what the census cannot see): writes through aliases deeper than one level or through loop variables
(`for x in self.items: x.attr = …`), mutation by methods of objects defined outside the package other than the listed
container mutators, `setattr`/`__dict__`/`exec` (these are reported by the translator as `translator-mismatch:census:…`
instead of being guessed; none occurs in the unchanged tree).  The dynamic checks of the harness (deep comparison of
instance state after `reset()`, and of module state before/after conversions) cover those.
-/
import MdVerif.Generated.Census

namespace MdVerif.Census
open MdVerif.Generated.Census

/-! ## C11: instance state -/

/-- `Markdown.reset` is the four statements the model assumes (the third one, clearing the block parser's nesting
    state, was added by the repair of F-C11-1) -/
theorem C11_reset_calls : resetCalls =
    ["self.htmlStash.reset()",
     "self.references.clear()",
     "self.parser.state.clear()",
     "for extension in self.registeredExtensions: if hasattr(extension, 'reset'): extension.reset()"] := by decide +kernel

/-- is the `reset` method of class `c` run by `Markdown.reset()`? -/
def resetReaches (c : String) : Bool :=
  c == "Markdown" ||
  (c == "HtmlStash" && resetCalls.contains "self.htmlStash.reset()") ||
  (registerExtensionCalls.contains c &&
    resetCalls.contains "for extension in self.registeredExtensions: if hasattr(extension, 'reset'): extension.reset()")

/-- **derived from the source**: the (owner class, attribute) pairs that `Markdown.reset()` re-initialises -/
def resetFields : List (String × String) :=
  (resetWrites.filter (fun w => resetReaches w.1)).map (fun w => (w.2.1, w.2.2))

/-- what that is on the unchanged tree (for the reader; the theorems below use `resetFields` itself) -/
theorem C11_reset_fields : resetFields =
    [("AbbrExtension", "abbrs"), ("FootnoteExtension", "footnotes"), ("FootnoteExtension", "found_refs"),
     ("FootnoteExtension", "used_refs"), ("HtmlStash", "html_counter"), ("HtmlStash", "rawHtmlBlocks"),
     ("BlockParser", "state"), ("Markdown", "references"), ("Markdown", "Meta"), ("Markdown", "toc"), ("Markdown", "toc_tokens")] := by decide +kernel

/-- (owner, attribute, `Class.method` that holds the re-initialising assignment).
    Each is assigned unconditionally by the conversion before anything reads it. -/
def perRunReinit : List (String × String × String) := [
  -- `convert`: `self.lines = source.split("\n")` before the preprocessors run
  ("Markdown", "lines", "Markdown.convert"),
  -- `parseDocument`: `self.root = etree.Element(self.md.doc_tag)` first statement
  ("BlockParser", "root", "BlockParser.parseDocument"),
  -- `treeprocessors.InlineProcessor.run`: `self.stashed_nodes = {}` first statement
  ("InlineProcessor", "stashed_nodes", "InlineProcessor.run"),
  -- … `self.parent_map = {c: p for …}` before the walk
  ("InlineProcessor", "parent_map", "InlineProcessor.run"),
  -- … `self.ancestors = parents` for every element taken from the stack, before `__build_ancestors`/`__applyPattern`
  ("InlineProcessor", "ancestors", "InlineProcessor.run"),
  -- `FootnotePostTreeprocessor.run`: `self.offset = 0` first statement
  ("FootnotePostTreeprocessor", "offset", "FootnotePostTreeprocessor.run"),
  -- `AbbrTreeprocessor.run`: `self.RE = re.compile(…)` from the (reset) `abbrs` before `iter_element`, which is the
  -- only reader; when there are no abbreviations `run` returns before and nothing reads `RE`
  ("AbbrTreeprocessor", "RE", "AbbrTreeprocessor.run"),
  -- `OListProcessor.get_items`: assigned for the first item of every `ol` before `run` reads it (`UListProcessor`
  -- never assigns and keeps the class default `'1'`)
  ("OListProcessor", "STARTSWITH", "OListProcessor.get_items")]

/-- (owner, attribute, `Class.method`): assigned by `test` whenever it returns `True`, read only by the `run` that
    `BlockParser.parseBlocks` calls right after a successful `test` -/
def handshake : List (String × String × String) := [
  -- `HRProcessor.test`: `self.match = m`; `run`: `match = self.match`
  ("HRProcessor", "match", "HRProcessor.test"),
  -- `TableProcessor.test` assigns `border` whenever there are two rows (a table has), `separator` when `is_table`
  ("TableProcessor", "border", "TableProcessor.test"),
  ("TableProcessor", "separator", "TableProcessor.test"),
  -- `AdmonitionProcessor.parse_content` (from `test`) stores the sibling found; the same method (from `run`) takes
  -- it and sets both back to `None` / `0`
  ("AdmonitionProcessor", "current_sibling", "AdmonitionProcessor.parse_content"),
  ("AdmonitionProcessor", "content_indent", "AdmonitionProcessor.parse_content")]

/-- classes whose instances live inside one conversion -/
def perRunObjects : List String := [
  -- `HtmlBlockPreprocessor.run`: `parser = HTMLExtractor(self.md)`, a local
  "HTMLExtractor",
  -- `md_in_html.HtmlBlockPreprocessor.run`: `parser = HTMLExtractorExtra(self.md)`, a local
  "HTMLExtractorExtra",
  -- `HiliteTreeprocessor.run` / `FencedBlockPreprocessor.run`: one `CodeHilite(…)` per code block, a local
  "CodeHilite"]

/-- the functions in which per-run objects may be constructed: all run inside `Markdown.convert` -/
def runTimeFunctions : List String :=
  ["HtmlBlockPreprocessor.run", "HiliteTreeprocessor.run", "FencedBlockPreprocessor.run"]

/-- methods that only run while an instance is configured (from `Markdown.__init__` → `registerExtensions`) -/
def configMethods : List String := ["extendMarkdown"]

/-- (owner, method): other configuration-time writes -/
def configWrites : List (String × String) := [
  -- `Markdown.__init__` → `build_parser` creates the five registries and the block parser
  ("Markdown", "build_parser"),
  -- `Markdown.__init__` → `set_output_format`
  ("Markdown", "set_output_format"),
  -- `extendMarkdown` → `md.registerExtension(self)`
  ("Markdown", "registerExtension"),
  -- `Registry.register` / `deregister`: called by the builders and by `extendMarkdown`
  ("Registry", "register"), ("Registry", "deregister"),
  -- `Extension.__init__` → `setConfigs` → `setConfig`
  ("Extension", "setConfig"),
  -- `AbbrExtension.extendMarkdown` → `load_glossary`; `reset_glossary` is API for the caller; both change the
  -- glossary, which is configuration (it survives `reset()` on purpose: `reset` refills `abbrs` from it)
  ("AbbrExtension", "load_glossary"), ("AbbrExtension", "reset_glossary")]

/-- (owner, attribute): computed lazily on first use from the configuration only, idempotent -/
def configMemo : List (String × String) := [
  -- `Registry._sort`: sorts `_priority` once after the last registration; a function of the registered items
  ("Registry", "_priority"), ("Registry", "_is_sorted"),
  -- `FencedBlockPreprocessor.run`: on the first run looks up whether `codehilite` / `attr_list` are registered
  ("FencedBlockPreprocessor", "checked_for_deps"), ("FencedBlockPreprocessor", "codehilite_conf"),
  ("FencedBlockPreprocessor", "use_attr_list")]

/-- (owner, attribute) ↦ (owner, attribute) of the reset field that is the same object -/
def aliasOf : List ((String × String) × (String × String)) := [
  -- `AbbrExtension.extendMarkdown`: `AbbrBlockprocessor(md.parser, self.abbrs)` stores the extension's dict
  (("AbbrBlockprocessor", "abbrs"), ("AbbrExtension", "abbrs")),
  -- the `leak` of `Model/Instance.lean`.  `State(list)`: `set` appends, `reset` pops (writes to the object itself);
  -- the only `State` is created by `BlockParser.__init__`: `self.state = State()` (`C11_leak_constructed_once`), and
  -- `Markdown.reset` does `self.parser.state.clear()` (`C11_reset_calls`; F-C11-1, fixed by f86514b — before, this
  -- entry was a category of its own: "balanced, not reset").  Every processor that calls `set` still calls `reset`
  -- after the nested parse (`Balanced`; it matters for conversions without `reset()` in between).
  (("State", "<self>"), ("BlockParser", "state"))]

/-- **not re-initialised by `reset()`** -/
def carriedOver : List (String × String) := [
  -- DOCUMENTED: `FootnoteExtension.reset` does `self.unique_prefix += 1` (option `UNIQUE_IDS`: "avoid name collisions
  -- across multiple calls to `reset()`").  With `UNIQUE_IDS=True` a reset instance deliberately differs from a fresh
  -- one in the footnote ids; with the default `False` the counter is never read.
  ("FootnoteExtension", "unique_prefix"),
  -- SUSPICIOUS: `HtmlStash.store_tag` appends to `tag_data` and counts `tag_counter`; `HtmlStash.reset` clears neither.
  -- Nothing in the package calls `store_tag` (`C11_store_tag_not_called`), so no bundled configuration is affected;
  -- a third-party extension that uses it leaks tags from one document into the next.
  ("HtmlStash", "tag_data"), ("HtmlStash", "tag_counter")]

/-- the classification of one write -/
def justified (w : String × String × String) : Bool :=
  resetFields.contains (w.1, w.2.1) ||
  perRunReinit.any (fun e => e.1 == w.1 && e.2.1 == w.2.1) ||
  handshake.any (fun e => e.1 == w.1 && e.2.1 == w.2.1) ||
  perRunObjects.contains w.1 ||
  configMethods.contains w.2.2 ||
  configWrites.contains (w.1, w.2.2) ||
  configMemo.contains (w.1, w.2.1) ||
  aliasOf.any (fun e => e.1 == (w.1, w.2.1) && resetFields.contains e.2) ||
  carriedOver.contains (w.1, w.2.1)

/-- **H1 of C11, on the source.**  Every write to instance state that the package performs outside `__init__` is
    a write to a field that `reset()` re-initialises (or to the very object such a field holds), or to one that
    every conversion re-initialises itself, or to an object that lives inside one conversion, or happens at
    configuration time, or is one of the three listed exceptions. -/
theorem C11_conversion_writes_are_reset : ∀ w ∈ instanceWrites, justified w = true := by decide +kernel

/-- the same in the words of the categories -/
theorem C11_conversion_writes_are_reset' : ∀ w ∈ instanceWrites,
    (w.1, w.2.1) ∈ resetFields ∨ (∃ e ∈ perRunReinit ++ handshake, e.1 = w.1 ∧ e.2.1 = w.2.1) ∨
    w.1 ∈ perRunObjects ∨
    w.2.2 ∈ configMethods ∨ (w.1, w.2.2) ∈ configWrites ∨ (w.1, w.2.1) ∈ configMemo ∨
    (∃ e ∈ aliasOf, e.1 = (w.1, w.2.1) ∧ e.2 ∈ resetFields) ∨ (w.1, w.2.1) ∈ carriedOver := by decide +kernel

/-- no write has an owner that the translator could not resolve -/
theorem C11_all_owners_resolved : ∀ w ∈ instanceWrites, w.1 ≠ "?" := by decide +kernel

/-- the re-initialising assignments that `perRunReinit` and `handshake` rely on are in the source -/
theorem C11_reinit_sites_present : ∀ e ∈ perRunReinit ++ handshake,
    instanceWriteSites.any (fun s => s.1 == e.1 && s.2.1 == e.2.1 && s.2.2.1 == "assign" && s.2.2.2.2 == e.2.2)
      = true := by decide +kernel

/-- per-run objects are constructed only inside conversions, and are constructed somewhere -/
theorem C11_per_run_objects_constructed_per_run : ∀ c ∈ perRunObjects,
    (constructions.any (fun k => k.1 == c) = true) ∧
    ∀ k ∈ constructions, k.1 = c → k.2.2 ∈ runTimeFunctions := by decide +kernel

/-- the nesting-state object is created once per instance, `BlockParser.__init__`: `self.state = State()` — so the
    `State` that the processors push to and pop from is the one that `Markdown.reset()` clears -/
theorem C11_leak_constructed_once : ∀ k ∈ constructions, k.1 = "State" → k.2.2 = "BlockParser.__init__" := by
  decide +kernel

/-- nothing in the package calls `HtmlStash.store_tag` -/
theorem C11_store_tag_not_called : "store_tag" ∉ calledNames := by decide +kernel

/-- what else the `reset` methods do besides re-initialising (read this when it changes) -/
theorem C11_reset_other : resetOther =
    [("AbbrExtension", "AbbrExtension", "abbrs", "call:update"),          -- refill from the glossary after `clear()`
     ("FootnoteExtension", "FootnoteExtension", "unique_prefix", "augassign"),  -- see `carriedOver`
     ("State", "State", "<self>", "call:pop")] := by decide +kernel       -- `State.reset` is *not* a reset: it pops

/-- the allow-lists contain nothing that does not occur (so they stay short) -/
theorem C11_allow_lists_not_stale :
    (∀ e ∈ perRunReinit ++ handshake, instanceWrites.any (fun w => w.1 == e.1 && w.2.1 == e.2.1) = true) ∧
    (∀ e ∈ configMemo ++ carriedOver ++ aliasOf.map (·.1),
      instanceWrites.any (fun w => w.1 == e.1 && w.2.1 == e.2) = true) ∧
    (∀ c ∈ perRunObjects, instanceWrites.any (fun w => w.1 == c) = true) ∧
    (∀ e ∈ configWrites, instanceWrites.any (fun w => w.1 == e.1 && w.2.2 == e.2) = true) := by decide +kernel

/-! ## C12: shared state -/

/-- (file, function, target) -/
def sharedAllow : List (String × String × String) := [
  -- `Extension.setConfig`: `self.config[key][0] = value`.  `config` is bound in the class body of `Extension` (`{}`)
  -- and `Extension.__init__` does not assign `self.config`, hence the entry.  Every bundled extension assigns
  -- `self.config = {…}` in its own `__init__` before `super().__init__`, so the dict that is written is the instance's own; on the bare class-level `{}` the write
  -- raises `KeyError` before it writes.  Configuration time only.  SUSPICIOUS for third-party extensions that
  -- follow the docstring of `Extension.config` literally (`config = {…}` in the class body): then constructing one
  -- instance with options changes the defaults of every later instance of that extension.
  ("markdown/extensions/__init__.py", "Extension.setConfig", "Extension.config via self (setitem)")]

/-- **"read-only or memo", on the source.**  No function body of the package writes module-level or class-level
    state, except the listed one (configuration time, instance-owned for all bundled extensions).  Import-time
    statements (module bodies, class bodies — e.g. the patching of `htmlparser` in `htmlparser.py`) are not function
    bodies: they run once, under the import lock, before any conversion. -/
theorem C12_no_unlisted_shared_write : ∀ w ∈ sharedWrites, w ∈ sharedAllow := by decide +kernel

/-- **the memo cells.**  The only memoising decorator is the `lru_cache` on `util.get_installed_extensions` — the
    `memo` cell of `Model/Threads.lean`; `f` is `metadata.entry_points(group='markdown.extensions')`. -/
theorem C12_memo_cells : memoDecorators =
    [("markdown/util.py", "get_installed_extensions", "lru_cache(maxsize=None)")] := by decide +kernel

/-- base classes that are not classes of the package (builtins, `typing`, `html.parser`, `unittest`) -/
def externalBases : List String :=
  ["str", "list", "dict", "type", "NamedTuple", "TypedDict", "Generic[_T]", "htmlparser.HTMLParser", "unittest.TestCase"]

/-- **the class hierarchy is resolved.**  "Through `self`" needs to know the base classes: `sharedWrites` contains
    every in-place mutation `self.X += …` / `self.X.append(…)` / `self.X[k] = …` (in any method, `__init__` included)
    of a name `X` that is bound in the class body of the class, of one of its base classes or of a subclass inside the
    package, unless `self.X = …` makes the object instance-owned first.  Base classes are resolved through the imports
    of the defining module (`from ..blockprocessors import ListIndentProcessor`, `util.Processor`); a base that the
    translator calls `external` must be one of `externalBases`.  (The class-level containers of the unchanged tree,
    `Generated.Census.classLevelMutable`: `ListIndentProcessor.{ITEM_TYPES, LIST_TYPES}` and their overrides in
    `DefListIndentProcessor`, `OListProcessor.SIBLING_TAGS` and its overrides in `sane_lists`, the `PATTERNS` of the
    emphasis processors, `Markdown.output_formats`, `Extension.config`; the code only reads them.) -/
theorem C12_external_bases : ∀ h ∈ classHierarchy, h.2.2.2 = "external" → h.2.2.1 ∈ externalBases := by
  decide +kernel

/-- every class that is named as a base class and is defined in the package has been found in the package (no base
    is called `external` while a class of that name exists in the package) -/
theorem C12_no_package_class_unresolved : ∀ h ∈ classHierarchy, h.2.2.2 = "external" →
    classes.all (fun c => c.1 != h.2.2.1) = true := by decide +kernel

theorem C12_shared_allow_not_stale : ∀ w ∈ sharedAllow, w ∈ sharedWrites := by decide +kernel

end MdVerif.Census
