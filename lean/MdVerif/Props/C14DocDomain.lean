/-
C14, document-level clause, continued: the hypotheses of `C14_doc_formats_agree_noctl` (`Props/C14Doc.lean`) follow
from a condition on the source text alone, on the source domain of `C10_partial_emph`.

(A separate file, because the proof libraries `Lemmas/Placeholders` — used here — and `Lemmas/InlineVocab` — used by
`Props/C14Doc.lean` — declare several lemmas under the same names (`Block.countPrefix_le`,
`Block.firstDownFrom_some`, …, in `Lemmas/BlockFuel` / `Lemmas/BlockVocab`) and cannot be imported into one file.
The two theorems chain by modus ponens: for `src` in `C10DomainE` and an `EscOK` escape set, every `u`, `html` with
`Pipeline.tree cfg src = some (some (u, html))` has `html = []` and `TreeNoCtl u` (here), hence the html and xhtml
outputs of `convert` read back to the same forest (there).)
-/
import MdVerif.Lemmas.DocFormatsDomain

namespace MdVerif.Ser
open Py NoCtl

/-- **where the hypotheses of the document-level theorem hold.**  For a source without `<`, `&`, `[`, `]` that has
    either no backtick, or no backslash and no `>` (`C10DomainE`: headings, lists, quotes, code blocks, rules, hard
    breaks, emphasis, and code spans or backslash escapes), and ordinary escapable characters: the raw-HTML stash is
    empty and the tree handed to the serializer contains neither STX nor ETX — in any configuration, for either output
    format. -/
theorem C14_doc_domain (cfg : Pipeline.Cfg) (hcfg : EscOK cfg.esc) {src : Str} (hd : C10DomainE src) {u : Node}
    {html : List Str} (ht : Pipeline.tree cfg src = some (some (u, html))) : html = [] ∧ TreeNoCtl u := by
  rcases hd with hd | hd
  · exact DocFormats.tree_domain (esc := true) (fun _ => hcfg) hd ht
  · exact DocFormats.tree_domain (esc := false) (fun h => by cases h) hd ht

/-- a heading, emphasis, a backslash escape, a hard break (void element), a rule (void element), a list -/
example : C10DomainE "# h\n\na *b* \\* c  \nd __e__ > f\n\n---\n\n* l1\n* l2".toList ∧ EscOK ({} : Pipeline.Cfg).esc :=
  ⟨by decide, escOK_default⟩

example : Pipeline.convert { fmt := .html } "a *b*  \nc\n\n---".toList = .ok "<p>a <em>b</em><br>\nc</p>\n<hr>".toList := by
  decide +kernel
example : Pipeline.convert { fmt := .xhtml } "a *b*  \nc\n\n---".toList =
    .ok "<p>a <em>b</em><br />\nc</p>\n<hr />".toList := by decide +kernel

end MdVerif.Ser
