/-
C10 on the extension model WITH THE FOOTNOTES EXTENSION — "The output never contains the STX/ETX control characters or
any of the placeholder tokens the converter uses internally …" for `PipelineX.convertX`
(`Markdown(extensions=[…]).convert`) when **footnotes** is enabled, together with every other extension of the model
but fenced_code (tables, admonition, def_list, abbr, sane_lists, nl2br, wikilinks, attr_list, toc on or off).

With footnotes on, `FootnoteTreeprocessor` (priority 50, BEFORE the inline stage) writes two more tokens into the
tree: `NBSP_PLACEHOLDER` = `STX qq3936677670287331zz ETX` behind the text of the last `p` of every footnote and
`FN_BACKLINK_TEXT` = `STX zz1337820767766393qq ETX` as the text of every back-link.  They travel through the inline
stage, `FootnotePostTreeprocessor`, prettify, attr_list, abbr, toc, unescape and the serialiser as part of ordinary
texts, and are replaced only by `FootnotePostprocessor` in the serialised string.  The token grammar `WF` of
`Spec/NoCtl.lean` does not admit them; `Spec/F/NoCtl.lean` (namespaces `MdVerif.NoCtlF`, `MdVerif.NoCtlXF`) generalises it
by one constructor (`WF.frn`, foreign tokens: the two footnote tokens and — for `Props/C10XAll.lean` — the live raw-HTML
placeholders of fenced_code; parameters in `Spec/F/HtmlBound.lean`), and `Lemmas/F/Placeholders*.lean` redo the whole invariant chain of C10/C10b/C10X for the
generalised grammar:

* a code span may now lie before — and enclose — a footnote token: `BtSafe` is relativised to the STX that do not
  start a footnote token, the text of a `code` element is `WF false 0` (ordinary characters and footnote tokens)
  instead of free of STX/ETX (`bt_first_match`, `wf_frn_of_stx`, `wf_codeEscape`);
* the tree after `UnescapeTreeprocessor` and the serialised string are `WF false 0` (`TreeFWF`, `serialize_fwf`), and
  `FootnotePostprocessor` turns such a string into one without STX/ETX (worker p1's `postprocess_noctl_of`);
* `AbbrTreeprocessor` cannot cut a footnote token unless an abbreviation EQUALS the body of one (`segs_frnToken`):
  that is the one new hypothesis (`noFrnAbbr`), and it is needed — `C10X_leak_token_abbr` in `Props/C10XFnLeak.lean`.

1. `C10X_inline_stage_footnotes`: the inline stage with the footnote pattern on a tree with footnote tokens.
2. `C10X_partial_footnotes`: end to end, fenced_code off, all other ten flags arbitrary.
3. `C10X_leak_token_abbr`, `C10X_leak_footnote_body_abbr` (in `Props/C10XFnLeak.lean`): the hypothesis on the
   abbreviations is needed, and it has to range over the abbreviations defined INSIDE footnote bodies as well.

Vocabulary: `Spec/F/NoCtl.lean`, `Spec/F/NoCtlB.lean`, `Spec/F/NoCtlX.lean`; helper lemmas: `Lemmas/F/Placeholders*.lean`
(composition: `Lemmas/F/PlaceholdersXFn.lean`, `Lemmas/F/PlaceholdersXAllF.lean`).  Core Lean only.
-/
import MdVerif.Lemmas.F.PlaceholdersXAllF

namespace MdVerif.NoCtlXF
open MdVerif.NoCtl (NoCtl C10DomainL RefsOK) 
open MdVerif.NoCtlX (C10DomainW AbbrKeysOK xcX QN)
open Py

/-! ## 1. The inline stage -/

/-- **The inline stage with the footnote pattern, on a tree that holds footnote tokens.**  If every element of the
    tree handed to `InlineX.runX` (pattern table with the footnote pattern, wikilinks and nl2br on or off) is a
    `WNodeB 0` of the generalised grammar — texts and tails made of ordinary characters of the domain, escape tokens
    and footnote tokens, the backtick pattern matching nowhere at or before an STX that does not start a footnote
    token — the escapable characters are ordinary ones, the reference definitions and the footnote ids hold no STX/ETX,
    and the raw-HTML stash behind the stage has at most `HtmlBound.h` entries (the number of raw-HTML placeholders that
    the grammar admits), then every element of the result is such an element again (no inline placeholder is left), and
    the raw-HTML stash has only grown by entries free of STX/ETX — the entities that the entity pattern stores, leaving a
    raw-HTML placeholder in the text — and is untouched when the character domain has no ampersand (`NoCtlF.HtmlOK`).
    (The grammar has three parameters, `NoCtlF.HtmlBound`: are footnote tokens admitted, how many raw-HTML placeholders
    `STX wzxhzdk:N ETX` — a third kind of foreign token, written by the fenced_code preprocessor and by the entity
    pattern, see `Props/C10XAll.lean`, `Props/C10XAllAmp.lean` —, and does the character domain admit `&`; the statement
    holds for every choice.) -/
theorem C10X_inline_stage_footnotes [NoCtlF.HtmlBound] {xc : InlineX.XCfg} (hcfg : NoCtlF.EscOK xc.cfg.esc) (hrefs : RefsOK xc.cfg)
    (hkeys : ∀ k ∈ xc.fnKeys, NoCtl k) {fn wl nl : Bool} (ht : xc.table = InlineX.table fn wl nl)
    {tree t : Node} {html : List Str} {xs : InlineX.XSt}
    (htree : tree.Forall (NoCtlF.WNodeB 0)) (htq : tree.Forall (QN wl))
    (h : InlineX.runX xc tree html = some (t, xs)) (hb : xs.st.html.length ≤ NoCtlF.HtmlBound.h) :
    t.Forall (NoCtlF.WNodeB 0) ∧ NoCtlF.HtmlOK xs.st.html html :=
  runX_specB (hiSpecXB_tables hcfg hrefs hkeys ht) htree htq h hb

/-! ## 2. End to end -/

/-- **End to end with the footnotes extension** (`C10X_partial_footnotes`).  **fenced_code is off; footnotes,
    tables, admonition, def_list, abbr, sane_lists, nl2br, wikilinks, attr_list and toc are on or off.**  For a source
    without `<`, `&` whose normalised text has none of the adjacencies backslash–backtick, `![`, `](` and — when
    wikilinks is on — no `[` immediately followed by a blank (`C10DomainW`, the domain of
    `C10X_partial_all_but_footnotes_fenced`), and in which — when abbr is on — no abbreviation definition
    `*[key]: title`, in the document or inside a footnote body, has a key made of ASCII digits only (F-C10-6) or equal to
    the body of a footnote token, `zz1337820767766393qq` or `qq3936677670287331zz` (`AbbrKeysOKF`, decidable; read off
    the log of the block stage and of `FootnoteTreeprocessor`), whatever `convertX` returns (any tab length, output
    format, block-level set; escapable characters ordinary ones that occur in no token — `NoCtlF.EscOK`: neither STX
    nor ETX nor a digit nor one of `k l z w x h : q`) contains neither STX nor ETX. -/
theorem C10X_partial_footnotes (x : PipelineX.Exts) (hx : x.fencedCode = false)
    (cfg : Pipeline.Cfg) (hcfg : NoCtlF.EscOK cfg.esc) {src out : Str} (hd : C10DomainW x.wikilinks cfg.tab src)
    (habbr : AbbrKeysOKF x cfg src) (h : PipelineX.convertX x cfg src = .ok out) : NoCtl out :=
  convertX_noctl_all_fn hx hcfg hd.1 hd.2 habbr h

/-- the default escapable characters satisfy the hypothesis -/
example : NoCtlF.EscOK ({} : Pipeline.Cfg).esc := escOK_default0

/-- with footnotes off the hypothesis on the abbreviations implies the one of
    `C10X_partial_all_but_footnotes_fenced` -/
example {x : PipelineX.Exts} (hfn : x.footnotes = false) {cfg : Pipeline.Cfg} {src : Str}
    (h : AbbrKeysOKF x cfg src) : AbbrKeysOK x cfg src := abbrKeysOK_of_F0 hfn h

/-- the hypotheses on a source with a heading with an attribute list, a footnote reference, an abbreviation used in
    the text and in the footnote, a code span in the footnote, `[TOC]`; every extension but fenced_code on -/
example :
    let x : PipelineX.Exts :=
      { footnotes := true, tables := true, admonition := true, defList := true, abbr := true, saneLists := true,
        nl2br := true, wikilinks := true, attrList := true, toc := true }
    let src := "# H {: #i }\n\nA[^n] HTML\n\n[^n]: see HTML `x`\n\n*[HTML]: Hyper Text\n\n[TOC]".toList
    x.fencedCode = false ∧ NoCtlF.EscOK ({} : Pipeline.Cfg).esc ∧ C10DomainW x.wikilinks 4 src ∧
    AbbrKeysOKF x {} src :=
  ⟨by decide, escOK_default0, by decide +kernel, by decide +kernel⟩

/-- … and what `convertX` answers on it: footnote + abbr + toc + attr_list -/
example : PipelineX.convertX
      { footnotes := true, tables := true, admonition := true, defList := true, abbr := true, saneLists := true,
        nl2br := true, wikilinks := true, attrList := true, toc := true } {}
      "# H {: #i }\n\nA[^n] HTML\n\n[^n]: see HTML `x`\n\n*[HTML]: Hyper Text\n\n[TOC]".toList =
    .ok ("<h1 id=\"i\">H</h1>\n<p>A<sup id=\"fnref:n\"><a class=\"footnote-ref\" href=\"#fn:n\">1</a></sup> <abbr " ++
      "title=\"Hyper Text\">HTML</abbr></p>\n<div class=\"toc\">\n<ul>\n<li><a href=\"#i\">H</a></li>\n</ul>\n</div>\n" ++
      "<div class=\"footnote\">\n<hr />\n<ol>\n<li id=\"fn:n\">\n<p>see <abbr title=\"Hyper Text\">HTML</abbr> " ++
      "<code>x</code>&#160;<a class=\"footnote-backref\" href=\"#fnref:n\" title=\"Jump back to footnote 1 in the " ++
      "text\">&#8617;</a></p>\n</li>\n</ol>\n</div>").toList := by
  decide +kernel

/-- a multi-paragraph footnote: `NBSP_PLACEHOLDER` goes behind the last paragraph, after a code span -/
example : PipelineX.convertX { footnotes := true } {} "A[^1]\n\n[^1]: first *p*\n\n    second `c` p".toList =
    .ok ("<p>A<sup id=\"fnref:1\"><a class=\"footnote-ref\" href=\"#fn:1\">1</a></sup></p>\n<div class=\"footnote\">\n" ++
      "<hr />\n<ol>\n<li id=\"fn:1\">\n<p>first <em>p</em></p>\n<p>second <code>c</code> p&#160;<a class=\"footnote-" ++
      "backref\" href=\"#fnref:1\" title=\"Jump back to footnote 1 in the text\">&#8617;</a></p>\n</li>\n</ol>\n</div>").toList := by
  decide +kernel

/-- a footnote that ends in ` *`: the `*` directly before `NBSP_PLACEHOLDER` is not taken by `not_strong` -/
example : PipelineX.convertX { footnotes := true } {} "A[^1]\n\n[^1]: note *".toList =
    .ok ("<p>A<sup id=\"fnref:1\"><a class=\"footnote-ref\" href=\"#fn:1\">1</a></sup></p>\n<div class=\"footnote\">\n" ++
      "<hr />\n<ol>\n<li id=\"fn:1\">\n<p>note *&#160;<a class=\"footnote-backref\" href=\"#fnref:1\" title=\"Jump back " ++
      "to footnote 1 in the text\">&#8617;</a></p>\n</li>\n</ol>\n</div>").toList := by
  decide +kernel

/-- two references to one footnote: `FootnotePostTreeprocessor` copies the back-link (with its `FN_BACKLINK_TEXT`) -/
example : PipelineX.convertX { footnotes := true } {} "A[^1] B[^1]\n\n[^1]: note".toList =
    .ok ("<p>A<sup id=\"fnref:1\"><a class=\"footnote-ref\" href=\"#fn:1\">1</a></sup> B<sup id=\"fnref2:1\"><a class=" ++
      "\"footnote-ref\" href=\"#fn:1\">1</a></sup></p>\n<div class=\"footnote\">\n<hr />\n<ol>\n<li id=\"fn:1\">\n<p>note" ++
      "&#160;<a class=\"footnote-backref\" href=\"#fnref:1\" title=\"Jump back to footnote 1 in the text\">&#8617;</a>" ++
      "<a class=\"footnote-backref\" href=\"#fnref2:1\" title=\"Jump back to footnote 1 in the text\">&#8617;</a></p>\n" ++
      "</li>\n</ol>\n</div>").toList := by
  decide +kernel

end MdVerif.NoCtlXF
