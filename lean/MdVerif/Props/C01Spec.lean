/-
C01 — sanity theorems about the *specification* (`MdVerif/Spec/Doc.lean`): the document type, the printer of
Markdown source under a spelling, the expected output `spec` and the canonical-spelling constraints `WF`.

These are not the C01 theorems themselves (those have the shape `convert (print d sp) = spec d` and need the model of
the converter); they state properties of the specification that the C01 proofs and the reader rely on.  The
specification is compared with the real converter by `harness/corr/doc.py` (`markdown.markdown (print d sp) = spec d`
for random well-formed documents and spellings).  Helper lemmas: `MdVerif/Lemmas/DocSpec.lean`.
-/
import MdVerif.Spec.Doc
import MdVerif.Lemmas.DocSpec

namespace MdVerif.DocSpec
open MdVerif MdVerif.Py

/-- a document with every construct of the grammar -/
def sampleDoc : Doc :=
  [.atx 2 [.text (S "Title "), .em [.text (S "x")]],
   .setext 1 [.text (S "Second")],
   .para [.text (S "see "), .link [.text (S "the site")] (S "http://a.b/c") (some (S "T")), .br, .code (S "a`b"),
          .esc '*', .strong [.em [.text (S "deep")], .text (S " end")]],
   .ulist false [[.para [.text (S "one")], .olist false [[.para [.strong [.text (S "two")]]]]],
                 [.para [.text (S "three")]]],
   .quote [.code [S "x <y>", [], S " z"], .rule],
   .olist true [[.para [.text (S "p")], .para [.text (S "q")]], [.para [.text (S "r")]]],
   .para [.image (S "pic") (S "/i.png") none, .autolink (S "http://x.y")]]

/-- **C01 (spelling independence of the specification).** The expected output is a function of the document alone:
    `spec` does not take the spelling, so two spellings of the same document are assigned the same rendering *by
    type*.  (The statement below is trivial on purpose; the content of C01 is that the converter, applied to
    `print d sp`, agrees with `spec d` for every `sp`.) -/
theorem C01_spec_spelling_free (d : Doc) (sp sp' : Spelling) :
    (fun (_ : Spelling) => spec d) sp = (fun (_ : Spelling) => spec d) sp' := rfl

/-- **C01 (the specification renders blocks independently).** The expected output of two documents written one
    after the other is the two expected outputs, one per line group: no block influences the rendering of another. -/
theorem C01_spec_append (d1 d2 : Doc) (h1 : d1 ≠ []) (h2 : d2 ≠ []) :
    spec (d1 ++ d2) = spec d1 ++ S "\n" ++ spec d2 :=
  specBlocks_append d1 d2 h1 h2

example : sampleDoc ≠ [] := by decide

/-- **C01 (printed source needs no normalisation).** The Markdown source of a well-formed document contains no tab,
    no carriage return and neither of the two placeholder delimiters STX and ETX, whatever the spelling — so the
    normalisation step of the converter changes nothing in it (it only appends the final blank line). -/
theorem C01_print_no_tab_cr (d : Doc) (sp : Spelling) (h : WF d = true) :
    ∀ c ∈ print d sp, c ≠ '\t' ∧ c ≠ '\r' ∧ c ≠ Char.ofNat 2 ∧ c ≠ Char.ofNat 3 := by
  have hc := print_clean d sp (clean_of_WF d h)
  simp only [clean, List.all_eq_true] at hc
  intro c hm
  have := hc c hm
  simp only [okCh, Bool.and_eq_true, bne_iff_ne, ne_eq] at this
  exact ⟨this.1.1.1, this.1.1.2, this.1.2, this.2⟩

example : WF sampleDoc = true := by decide +kernel

/-- the same for any document whose strings contain none of these characters (`WF` is not needed) -/
theorem C01_print_clean (d : Doc) (sp : Spelling) (h : cleanBlocks d = true) : clean (print d sp) = true :=
  print_clean d sp h

example : cleanBlocks sampleDoc = true := by decide +kernel

/-! ### the specification on the sample document -/

example : spec sampleDoc = S ("<h2>Title <em>x</em></h2>\n<h1>Second</h1>\n" ++
    "<p>see <a href=\"http://a.b/c\" title=\"T\">the site</a><br />\n<code>a`b</code>*" ++
    "<strong><em>deep</em> end</strong></p>\n" ++
    "<ul>\n<li>one<ol>\n<li><strong>two</strong></li>\n</ol>\n</li>\n<li>three</li>\n</ul>\n" ++
    "<blockquote>\n<pre><code>x &lt;y&gt;\n\n z\n</code></pre>\n<hr />\n</blockquote>\n" ++
    "<ol>\n<li>\n<p>p</p>\n<p>q</p>\n</li>\n<li>\n<p>r</p>\n</li>\n</ol>\n" ++
    "<p><img alt=\"pic\" src=\"/i.png\" /><a href=\"http://x.y\">http://x.y</a></p>") := by decide +kernel

/-- the default spelling (all choices `0`) -/
example : print sampleDoc ⟨[]⟩ = S ("## Title *x*\n\nSecond\n=\n\n" ++
    "see [the site](http://a.b/c \"T\")  \n``a`b``\\***_deep_ end**\n\n" ++
    "* one\n    0. **two**\n* three\n\n" ++
    ">     x <y>\n>\n>      z\n>\n> ***\n\n" ++
    "0. p\n\n    q\n\n0. r\n\n" ++
    "![pic](/i.png)<http://x.y>") := by decide +kernel

end MdVerif.DocSpec
