/-
C10 on the extension model — "The output never contains the STX/ETX control characters or any of the placeholder
tokens the converter uses internally …" for `PipelineX.convertX` (`Markdown(extensions=[…]).convert`) when the enabled
extensions act in the inline stage only: **nl2br** (`SubstituteTagInlineProcessor('\n', 'br')`, the last entry of the
pattern table) and **wikilinks** (`WikiLinksInlineProcessor`, `\[\[([\w0-9_ -]+)\]\]`, between `entity` and
`not_strong`).

`Model/InlineX.lean` runs the inline processor over a pattern TABLE (`InlineX.table footnotes wikilinks nl2br`: the
sixteen core patterns with the patterns of the extensions in registry order).  The invariant proofs of
`Props/C10b.lean` (`handleInline`, `run`) are ported to `handleInlineX`, `runX`, parametric in a contract of the table
entries (`FMSpecXB`), which is then established for the tables.

**Blank wikilink labels.**  For `[[   ]]` the wikilink pattern returns the EMPTY string; the engine stashes it, and
when the placeholder is replaced the texts on both sides are joined.  That can complete a code span around an escape
token on the second pass: `C10X_blank_wikilink_leak` (real implementation:
`markdown.markdown('*x __`[[ ]]`` \\* ```__ y*', extensions=['wikilinks'])` contains `\x0242\x03`).  The theorems
therefore require, when wikilinks is on, that the normalised text has no `[` immediately followed by a blank
(`C10DomainW`); the property is decidable on the source, kept by the block parser (infixes, newline-joins) and by the
inline engine (`Qw`, `Lemmas/PlaceholdersXQ.lean`).

Vocabulary: `Spec/NoCtl.lean`, `Spec/NoCtlB.lean`; helper lemmas: `Lemmas/PlaceholdersX*.lean`.  Core Lean only.

1. `C10X_inline_engine`: `handleInlineTopX` keeps the invariants for every table whose entries meet `FMSpecXB`.
2. `C10X_nl_entry`, `C10X_wikilink_entry`, `C10X_footnote_entry`, `C10X_inline_ids_bounded`: … and all eight tables do.
3. `C10X_inline_all_visited_run`: `runX` replaces every placeholder.
4. `C10X_partial_inline_flags`, `C10X_partial_nl2br`: end to end.  `C10X_blank_wikilink_leak`: the excluded point.
-/
import MdVerif.Lemmas.PlaceholdersX

namespace MdVerif.NoCtlX
open MdVerif.NoCtl Py Inline InlineX

/-! ## 1–2. `handleInlineX` -/

/-- **The inline engine over a pattern table.**  If every entry of the (non-empty) table meets the matcher contract
    `FMSpecXB` — the entry at index `pi` neither stashes nor touches the HTML stash, its match satisfies `FoundOKB`
    (and `FoundQ`: its strings keep the exclusion `Qw wl`), and without a match the backtick pattern is through with
    the data — then `handleInlineTopX` has the contract of the core `handleInline` (`HISpecB`): on a text of the tree
    (`StrT`) it returns a text in which moreover `BACKTICK_RE` matches nowhere (`StrB`), and a closed stash (`StOKB`);
    the HTML stash is untouched; `Qw wl` holds of the result and of every string of the stash (`QSt`). -/
theorem C10X_inline_engine {wl : Bool} {xc : XCfg} (hfm : FMSpecXB wl xc) (hcount : 1 ≤ xc.table.length) :
    HISpecXB wl xc := hiSpecXB_of_fmSpecXB hfm hcount

/-- the contract of the nl2br entry: the match is the single newline, the node a childless `br` element -/
theorem C10X_nl_entry {wl : Bool} {xc : XCfg} {pi : Nat} (hpi : 1 ≤ pi) : EntrySpecXB wl xc pi .nl := entry_nl hpi

/-- the contract of the wikilink entry: on a text without `[` immediately before a blank the label of a match
    `[[label]]` is not blank, and the node is an `a` element whose text (`strip label`), `href` and `class` consist of
    word characters, blanks, `-`, `_`, `/` -/
theorem C10X_wikilink_entry {xc : XCfg} {pi : Nat} (hpi : 1 ≤ pi) : EntrySpecXB true xc pi .wikilink :=
  entry_wikilink hpi

/-- the contract of the footnote-reference entry (`FootnoteInlineProcessor`, `\[\^([^\]]*)\]`): a match `[^id]` has
    an id that is a key of the footnote table; when the keys have no STX/ETX, the node is a `sup` element whose `id`
    (`fnref:ID`, made unique by `makeFootnoteRefId`), and whose `a` child's `href` (`#fn:ID`), `class` and text (the
    footnote number) have none either.  Only the footnote bookkeeping `x.fn` changes. -/
theorem C10X_footnote_entry {wl : Bool} {xc : XCfg} (hkeys : ∀ k ∈ xc.fnKeys, NoCtl k) {pi : Nat} (hpi : 1 ≤ pi) :
    EntrySpecXB wl xc pi .footnote := entry_footnote hkeys hpi

/-- **`ids_bounded`, all eight tables.**  For the pattern table of the core patterns with or without the footnote,
    wikilink and nl2br patterns, escapable characters that are ordinary ones, reference definitions and footnote keys
    without STX/ETX, `handleInlineTopX` meets `HISpecXB`. -/
theorem C10X_inline_ids_bounded {xc : XCfg} (hcfg : EscOK xc.cfg.esc) (hrefs : RefsOK xc.cfg)
    (hkeys : ∀ k ∈ xc.fnKeys, NoCtl k) {fn wl nl : Bool} (ht : xc.table = table fn wl nl) : HISpecXB wl xc :=
  hiSpecXB_tables hcfg hrefs hkeys ht

example : EscOK ({ table := table true true true } : XCfg).cfg.esc ∧
    RefsOK ({ cfg := { refs := [("x".toList, "/u".toList, some "T".toList)] }, table := table true true true } : XCfg).cfg ∧
    (∀ k ∈ ({ table := table true true true, fnKeys := ["1".toList, "note".toList] } : XCfg).fnKeys, NoCtl k) :=
  ⟨escOK_default, by intro r hr; simp at hr; subst hr; exact ⟨by decide, by decide⟩, by decide⟩

/-- the footnote pattern stands between `escape` (1) and `reference` (2), the wikilink pattern between `entity` (12)
    and `not_strong` (13), the nl2br pattern last -/
example : table true true true =
    [PatK.core 0, PatK.core 1, PatK.footnote] ++ (List.range' 2 11).map PatK.core ++
      [PatK.wikilink, PatK.core 13, PatK.core 14, PatK.core 15, PatK.nl] := by decide

/-! ## 3. `runX` -/

/-- **`all_visited`, `InlineProcessor.run` over a table.**  Given the contract of `handleInlineTopX`, `runX` turns a
    tree of `WNodeB 0` elements (no placeholder; atomic texts without STX/ETX) whose strings satisfy `Qw wl` into a tree
    of `WNodeB 0` elements: every placeholder that the patterns made has been replaced.  The HTML stash is the initial
    one. -/
theorem C10X_inline_all_visited_run {wl : Bool} {xc : XCfg} (hhi : HISpecXB wl xc) {tree t : Node} {html : List Str}
    {xs : XSt} (ht : tree.Forall (WNodeB 0)) (htq : tree.Forall (QN wl)) (h : runX xc tree html = some (t, xs)) :
    t.Forall (WNodeB 0) ∧ xs.st.html = html := runX_specB hhi ht htq h

/-! ## 4. End to end -/

/-- **End to end with nl2br and wikilinks.**  Every extension that acts on blocks or on the tree is off
    (`InlineFlagsOnly`); nl2br and wikilinks are on or off.  For a source without `<`, `&` whose normalised text has
    none of the adjacencies backslash–backtick, `![`, `](` (`C10DomainL`, the domain of `C10_partial_links`) and — when
    wikilinks is on — no `[` immediately followed by a blank (`C10DomainW`), whatever `convertX` returns (any tab
    length, output format, block-level set; escapable characters ordinary ones) contains neither STX nor ETX. -/
theorem C10X_partial_inline_flags {x : PipelineX.Exts} (hx : InlineFlagsOnly x)
    (cfg : Pipeline.Cfg) (hcfg : EscOK cfg.esc) {src out : Str} (hd : C10DomainW x.wikilinks cfg.tab src)
    (h : PipelineX.convertX x cfg src = .ok out) : NoCtl out := convertX_noctl_inline hx hcfg hd.1 hd.2 h

example : InlineFlagsOnly { nl2br := true, wikilinks := true } ∧ EscOK ({} : Pipeline.Cfg).esc ∧
    C10DomainW true 4 "a *b*\n[[Wiki Page]] \\* `c` [[x_y -z ]] [d][r] [[ä]]\n\n> q [[Q]]\n> r\n\n[r]: /u \"T\"".toList ∧
    ¬ C10DomainW true 4 "[[ ]]".toList ∧ ¬ C10DomainW true 4 "[[ a]]".toList ∧ C10DomainW false 4 "[[ ]]".toList :=
  ⟨by decide, escOK_default, by decide, by decide, by decide, by decide⟩

example : PipelineX.convertX { nl2br := true, wikilinks := true } {} "a *b*\n[[Wiki Page]] \\* `c`".toList =
    .ok "<p>a <em>b</em><br />\n<a class=\"wikilink\" href=\"/Wiki_Page/\">Wiki Page</a> * <code>c</code></p>".toList := by
  decide +kernel

/-- **End to end with nl2br** (wikilinks off): the domain is that of `C10_partial_links`. -/
theorem C10X_partial_nl2br {x : PipelineX.Exts} (hx : InlineFlagsOnly x) (hw : x.wikilinks = false)
    (cfg : Pipeline.Cfg) (hcfg : EscOK cfg.esc) {src out : Str} (hd : C10DomainL cfg.tab src)
    (h : PipelineX.convertX x cfg src = .ok out) : NoCtl out := convertX_noctl_nl hx hw hcfg hd h

example : InlineFlagsOnly { nl2br := true } ∧ ({ nl2br := true } : PipelineX.Exts).wikilinks = false ∧
    EscOK ({} : Pipeline.Cfg).esc ∧
    C10DomainL 4 "a *b*\nc \\* `d`  \ne [f][x] `g\nh`\n\n> q\n> r\n\n[x]: /u \"T\"".toList :=
  ⟨by decide, rfl, escOK_default, by decide⟩

example : PipelineX.convertX { nl2br := true } {} "a *b*\nc \\* `d`  \ne [f][x] `g\nh`\n\n[x]: /u \"T\"".toList =
    .ok "<p>a <em>b</em><br />\nc * <code>d</code><br />\ne <a href=\"/u\" title=\"T\">f</a> <code>g\nh</code></p>".toList := by
  decide +kernel

/-- **The excluded point: a blank wikilink label leaks.**  The source is in `C10DomainL` and violates only the
    exclusion of `[` before a blank; with the wikilinks extension the output contains STX and ETX (the escape token of
    `\*` inside a `code` element, which `UnescapeTreeprocessor` skips).  Without the extension the same source is
    converted without a leak. -/
theorem C10X_blank_wikilink_leak :
    C10DomainL 4 "*x __`[[ ]]`` \\* ```__ y*".toList ∧ ¬ C10DomainW true 4 "*x __`[[ ]]`` \\* ```__ y*".toList ∧
    PipelineX.convertX { wikilinks := true } {} "*x __`[[ ]]`` \\* ```__ y*".toList =
      .ok "<p><em>x <strong><code>\x0242\x03</code></strong> y</em></p>".toList ∧
    PipelineX.convertX {} {} "*x __`[[ ]]`` \\* ```__ y*".toList =
      .ok "<p><em>x <strong>`[[ ]]`` * ```</strong> y</em></p>".toList :=
  ⟨by decide, by decide, by decide +kernel, by decide +kernel⟩

end MdVerif.NoCtlX
