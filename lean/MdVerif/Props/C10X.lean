/-
C10 on the extension model — "The output never contains the STX/ETX control characters or any of the placeholder
tokens the converter uses internally …" for `PipelineX.convertX` (`Markdown(extensions=[…]).convert`) when the enabled
extensions act in the inline stage only: **nl2br** (`SubstituteTagInlineProcessor('\n', 'br')`, the last entry of the
pattern table).

`Model/InlineX.lean` runs the inline processor over a pattern TABLE (`InlineX.table footnotes wikilinks nl2br`: the
sixteen core patterns with the patterns of the extensions in registry order).  The invariant proofs of
`Props/C10b.lean` (`handleInline`, `run`) are ported to `handleInlineX`, `runX`, parametric in a contract of the table
entries (`FMSpecXB`), which is then established for the tables.

Vocabulary: `Spec/NoCtl.lean`, `Spec/NoCtlB.lean`; helper lemmas: `Lemmas/PlaceholdersX*.lean`.  Core Lean only.

1. `C10X_inline_engine`: `handleInlineTopX` keeps the invariants for every table whose entries meet `FMSpecXB`.
2. `C10X_inline_ids_bounded`: … and the tables with nl2br do.
3. `C10X_inline_all_visited_run`: `runX` replaces every placeholder.
4. `C10X_partial_nl2br`: end to end.
-/
import MdVerif.Lemmas.PlaceholdersX

namespace MdVerif.NoCtlX
open MdVerif.NoCtl Py Inline InlineX

/-! ## 1–2. `handleInlineX` -/

/-- **The inline engine over a pattern table.**  If every entry of the (non-empty) table meets the matcher contract
    `FMSpecXB` — the entry at index `pi` neither stashes nor touches the HTML stash, its match satisfies `FoundOKB`, and
    without a match the backtick pattern is through with the data — then `handleInlineTopX` has the contract of the
    core `handleInline` (`HISpecB`): on a text of the tree (`StrT`) it returns a text in which moreover `BACKTICK_RE`
    matches nowhere (`StrB`), and a closed stash (`StOKB`); the HTML stash is untouched. -/
theorem C10X_inline_engine {xc : XCfg} (hfm : FMSpecXB xc) (hcount : 1 ≤ xc.table.length) : HISpecXB xc :=
  hiSpecXB_of_fmSpecXB hfm hcount

/-- **`ids_bounded`, tables with nl2br.**  For the pattern table of the core patterns with or without the nl2br
    pattern (`'\n'` ↦ `br`, last entry), escapable characters that are ordinary ones and reference definitions without
    STX/ETX, `handleInlineTopX` meets `HISpecXB`. -/
theorem C10X_inline_ids_bounded {xc : XCfg} (hcfg : EscOK xc.cfg.esc) (hrefs : RefsOK xc.cfg) {nl : Bool}
    (ht : xc.table = table false false nl) : HISpecXB xc := hiSpecXB_nl hcfg hrefs ht

example : EscOK ({ table := table false false true } : XCfg).cfg.esc ∧
    RefsOK ({ cfg := { refs := [("x".toList, "/u".toList, some "T".toList)] }, table := table false false true } : XCfg).cfg :=
  ⟨escOK_default, by intro r hr; simp at hr; subst hr; exact ⟨by decide, by decide⟩⟩

/-- the nl2br pattern stands last in its table, behind the sixteen core patterns -/
example : table false false true = (List.range 16).map PatK.core ++ [PatK.nl] := by decide

/-- the contract of the nl2br entry: the match is the single newline, the node a childless `br` element -/
theorem C10X_nl_entry {xc : XCfg} {pi : Nat} (hpi : 1 ≤ pi) : EntrySpecXB xc pi .nl := entry_nl hpi

/-! ## 3. `runX` -/

/-- **`all_visited`, `InlineProcessor.run` over a table.**  Given the contract of `handleInlineTopX`, `runX` turns a
    tree of `WNodeB 0` elements (no placeholder; atomic texts without STX/ETX) into such a tree: every placeholder that
    the patterns made has been replaced.  The HTML stash is the initial one. -/
theorem C10X_inline_all_visited_run {xc : XCfg} (hhi : HISpecXB xc) {tree t : Node} {html : List Str} {xs : XSt}
    (ht : tree.Forall (WNodeB 0)) (h : runX xc tree html = some (t, xs)) :
    t.Forall (WNodeB 0) ∧ xs.st.html = html := runX_specB hhi ht h

/-! ## 4. End to end -/

/-- **End to end with nl2br.**  Every extension that acts on blocks or on the tree is off (`InlineFlagsOnly`), wikilinks
    is off, nl2br is on or off.  For a source without `<`, `&` whose normalised text has none of the adjacencies
    backslash–backtick, `![`, `](` (`C10DomainL`, the domain of `C10_partial_links`), whatever `convertX` returns (any
    tab length, output format, block-level set; escapable characters ordinary ones) contains neither STX nor ETX. -/
theorem C10X_partial_nl2br {x : PipelineX.Exts} (hx : InlineFlagsOnly x) (hw : x.wikilinks = false)
    (cfg : Pipeline.Cfg) (hcfg : EscOK cfg.esc) {src out : Str} (hd : C10DomainL cfg.tab src)
    (h : PipelineX.convertX x cfg src = .ok out) : NoCtl out := convertX_noctl_nl hx hw hcfg hd h

example : InlineFlagsOnly { nl2br := true } ∧ ({ nl2br := true } : PipelineX.Exts).wikilinks = false ∧
    EscOK ({} : Pipeline.Cfg).esc ∧
    C10DomainL 4 "a *b*\nc \\* `d`  \ne [f][x] `g\nh`\n\n> q\n> r\n\n[x]: /u \"T\"".toList :=
  ⟨by decide, rfl, escOK_default, by decide⟩

example : PipelineX.convertX { nl2br := true } {} "a *b*\nc \\* `d`  \ne [f][x] `g\nh`\n\n[x]: /u \"T\"".toList =
    .ok "<p>a <em>b</em><br />\nc * <code>d</code><br />\ne <a href=\"/u\" title=\"T\">f</a> <code>g\nh</code></p>".toList := by
  decide +kernel

end MdVerif.NoCtlX
