/-
C16 — "Enabling an extension does not change the rendering of a document that does not use that extension's syntax":
the trigger lemmas.

Every bundled extension enters the pipeline through processors whose entry condition is a regular-expression
`search`/`match` (or a `test` built from one).  `Model/Ext/Triggers.lean` has one recogniser per entry regex, each
compared with the real compiled pattern object by `harness/corr/triggers.py`.  This file proves, for each recogniser,
that it can only accept text that contains the extension's *trigger* substring, and composes that with the C18 dispatcher
result `C18_run_false_falls_through`: a block processor that rejects (or declines) a block is invisible, so on
a trigger-free block the extension's block processor is inert.

Vocabulary: `Py.contains s t = true` is the model of Python's `t in s` (`Lemmas.Triggers.contains_iff`: `t` occurs in `s` as
a contiguous substring); `LineStart pre`: `pre` is empty or ends with `\n`.  Only property statements live here.
Each hypothesis `<recogniser> s = true` is accompanied by a matching input and by an input that contains the trigger and
is *not* matched (the trigger is necessary, not sufficient).
-/
import MdVerif.Model.Ext.Triggers
import MdVerif.Lemmas.Triggers
import MdVerif.Props.C18

namespace MdVerif.Ext.Trig
open MdVerif.Py MdVerif.Dispatch

/-! ### admonition -/

/-- **admonition.**  `AdmonitionProcessor.RE` matches only at a line start that spells `!!!`. -/
theorem C16_admonition_trigger_at_line_start (s : Str) (h : admonitionSearch s = true) :
    ∃ pre post, s = pre ++ "!!!".toList ++ post ∧ LineStart pre := by
  rw [show "!!!".toList = ['!', '!', '!'] from by decide]
  exact lineStart_trigger (fun t ht => by obtain ⟨r, rfl⟩ := admonitionAt_head ht; exact ⟨r, rfl⟩) h

/-- `AdmonitionProcessor.RE.search(block)` succeeds only on blocks that contain `!!!`. -/
theorem C16_admonition_needs_trigger (s : Str) (h : admonitionSearch s = true) :
    Py.contains s "!!!".toList = true := by
  obtain ⟨pre, post, hs, _⟩ := C16_admonition_trigger_at_line_start s h
  exact contains_of_occurs ⟨pre, post, hs⟩

/-- contrapositive: no `!!!`, no admonition header -/
theorem C16_admonition_trigger_free (s : Str) (h : Py.contains s "!!!".toList = false) :
    admonitionSearch s = false :=
  false_of_needs (C16_admonition_needs_trigger s) h

example : admonitionSearch "!!! note\n    x".toList = true := by decide
example : admonitionSearch "p\n!!!danger  big \"T\"  \nx".toList = true := by decide
example : admonitionSearch "wow!!! note".toList = false ∧ Py.contains "wow!!! note".toList "!!!".toList = true := by decide
example : admonitionSearch "!!! note \"T".toList = false ∧ Py.contains "!!! note \"T".toList "!!!".toList = true := by decide

/-- `AdmonitionProcessor.test(parent, block)` (regex branch or continuation branch) answers true only if the block
    contains `!!!`, or a sibling was left pending by the previous `test`, or the last child of `parent` is a `div` whose
    class contains `admonition` and the block is indented by a tab-length. -/
theorem C16_admonition_test_needs_trigger (tab : Nat) (pending : Bool) (parent : Node) (block : Str)
    (h : admonitionTestPre tab pending parent block = true) :
    Py.contains block "!!!".toList = true ∨ pending = true ∨
      (lastChildIsAdmonitionDiv parent = true ∧ startsWith block (List.replicate tab ' ') = true) := by
  simp only [admonitionTestPre, admonitionContinuationPre, Bool.or_eq_true, Bool.and_eq_true] at h
  rcases h with h | h | h
  · exact Or.inl (C16_admonition_needs_trigger block h)
  · exact Or.inr (Or.inl h)
  · exact Or.inr (Or.inr h)

/-- the tree-side trigger of the continuation branch: an admonition `div` was built before (which took a `!!!` header) -/
theorem C16_admonition_continuation_needs_div (parent : Node) (h : lastChildIsAdmonitionDiv parent = true) :
    ∃ sib cls, parent.children.getLast? = some sib ∧ sib.isTag "div" = true ∧
      (sib.getAttr "class".toList).getD [] = cls ∧ Py.contains cls "admonition".toList = true := by
  unfold lastChildIsAdmonitionDiv Node.last? at h
  split at h
  · rename_i sib hs
    simp only [Bool.and_eq_true] at h
    exact ⟨sib, _, hs, h.1, rfl, h.2⟩
  · simp at h

private def admDiv : Node := { tag := .name "div".toList, attrs := [("class".toList, "admonition note".toList)] }
private def parentWithAdm : Node := { tag := .name "div".toList, children := [Node.el "p", admDiv] }
example : admonitionTestPre 4 false parentWithAdm "    more".toList = true := by decide
example : admonitionTestPre 4 false parentWithAdm "more".toList = false := by decide
example : admonitionTestPre 4 false (Node.el "div") "    more".toList = false := by decide
example : lastChildIsAdmonitionDiv parentWithAdm = true := by decide

/-! ### def_list -/

/-- **def_list.**  `DefListProcessor.RE` matches only where a line starts with at most three spaces and `: `. -/
theorem C16_defList_trigger_at_line_start (s : Str) (h : defListSearch s = true) :
    ∃ pre k post, s = pre ++ List.replicate k ' ' ++ ": ".toList ++ post ∧ k ≤ 3 ∧ LineStart pre := by
  rw [show ": ".toList = [':', ' '] from by decide]
  exact indented_lineStart_trigger (fun t ht => (startsWith_iff t _).1 ht) h

/-- `DefListProcessor.test(parent, block)` succeeds only on blocks that contain a colon followed by a space. -/
theorem C16_defList_needs_trigger (s : Str) (h : defListSearch s = true) : Py.contains s ": ".toList = true := by
  obtain ⟨pre, k, post, hs, _, _⟩ := C16_defList_trigger_at_line_start s h
  exact contains_of_occurs ⟨pre ++ List.replicate k ' ', post, hs⟩

theorem C16_defList_trigger_free (s : Str) (h : Py.contains s ": ".toList = false) : defListSearch s = false :=
  false_of_needs (C16_defList_needs_trigger s) h

example : defListSearch "term\n:   definition".toList = true := by decide
example : defListSearch "a: b".toList = false ∧ Py.contains "a: b".toList ": ".toList = true := by decide
example : defListSearch "    : too deep".toList = false ∧ Py.contains "    : too deep".toList ": ".toList = true := by decide

/-! ### footnotes -/

/-- **footnotes, definitions.**  `FootnoteBlockProcessor.RE` matches only where a line starts with at most three spaces
    and `[^`. -/
theorem C16_footnoteDef_trigger_at_line_start (s : Str) (h : footnoteDefSearch s = true) :
    ∃ pre k post, s = pre ++ List.replicate k ' ' ++ "[^".toList ++ post ∧ k ≤ 3 ∧ LineStart pre := by
  rw [show "[^".toList = ['[', '^'] from by decide]
  exact indented_lineStart_trigger (fun t ht => by obtain ⟨r, rfl⟩ := footnoteLabelAt_head ht; exact ⟨r, rfl⟩) h

/-- `FootnoteBlockProcessor.run` declines (returns `False`) every block that does not contain `[^`. -/
theorem C16_footnoteDef_needs_trigger (s : Str) (h : footnoteDefSearch s = true) : Py.contains s "[^".toList = true := by
  obtain ⟨pre, k, post, hs, _, _⟩ := C16_footnoteDef_trigger_at_line_start s h
  exact contains_of_occurs ⟨pre ++ List.replicate k ' ', post, hs⟩

theorem C16_footnoteDef_trigger_free (s : Str) (h : Py.contains s "[^".toList = false) : footnoteDefSearch s = false :=
  false_of_needs (C16_footnoteDef_needs_trigger s) h

example : footnoteDefSearch "text\n[^1]: the note".toList = true := by decide
example : footnoteDefSearch "[^a\nb]:".toList = true := by decide      -- the label may span lines
example : footnoteDefSearch "see [^1]: x".toList = false ∧ Py.contains "see [^1]: x".toList "[^".toList = true := by decide

/-- **footnotes, references.**  The inline pattern `\[\^([^\]]*)\]` matches only in text that contains `[^`. -/
theorem C16_footnoteRef_needs_trigger (s : Str) (h : footnoteRefSearch s = true) : Py.contains s "[^".toList = true := by
  rw [show "[^".toList = ['[', '^'] from by decide]
  exact contains_of_occurs (occurs_of_anySuffix
    (fun t ht => by obtain ⟨r, rfl⟩ := footnoteLabelAt_head ht; exact ⟨[], r, rfl⟩) h)

theorem C16_footnoteRef_trigger_free (s : Str) (h : Py.contains s "[^".toList = false) : footnoteRefSearch s = false :=
  false_of_needs (C16_footnoteRef_needs_trigger s) h

example : footnoteRefSearch "see[^1].".toList = true := by decide
example : footnoteRefSearch "see[^1 .".toList = false ∧ Py.contains "see[^1 .".toList "[^".toList = true := by decide

/-! ### abbr -/

/-- **abbr.**  `AbbrBlockprocessor.RE` matches only at a line start that spells `*[`. -/
theorem C16_abbr_trigger_at_line_start (s : Str) (h : abbrSearch s = true) :
    ∃ pre post, s = pre ++ "*[".toList ++ post ∧ LineStart pre := by
  rw [show "*[".toList = ['*', '['] from by decide]
  exact lineStart_trigger (fun t ht => by obtain ⟨r, rfl⟩ := abbrAt_head ht; exact ⟨r, rfl⟩) h

/-- `AbbrBlockprocessor.run` declines (returns `False`) every block that does not contain `*[`. -/
theorem C16_abbr_needs_trigger (s : Str) (h : abbrSearch s = true) : Py.contains s "*[".toList = true := by
  obtain ⟨pre, post, hs, _⟩ := C16_abbr_trigger_at_line_start s h
  exact contains_of_occurs ⟨pre, post, hs⟩

theorem C16_abbr_trigger_free (s : Str) (h : Py.contains s "*[".toList = false) : abbrSearch s = false :=
  false_of_needs (C16_abbr_needs_trigger s) h

example : abbrSearch "*[HTML]: Hyper Text".toList = true := by decide
example : abbrSearch "p\n*[A B] :\n  c".toList = true := by decide
example : abbrSearch "a *[HTML]: x".toList = false ∧ Py.contains "a *[HTML]: x".toList "*[".toList = true := by decide
example : abbrSearch "*[a\\b]: x".toList = false ∧ Py.contains "*[a\\b]: x".toList "*[".toList = true := by decide

/-! ### wikilinks -/

/-- **wikilinks.**  `WIKILINK_RE` matches only in text that contains `[[`. -/
theorem C16_wikilink_needs_trigger (s : Str) (h : wikilinkSearch s = true) : Py.contains s "[[".toList = true := by
  rw [show "[[".toList = ['[', '['] from by decide]
  exact contains_of_occurs (occurs_of_anySuffix
    (fun t ht => by obtain ⟨r, rfl⟩ := wikilinkAt_head ht; exact ⟨[], r, rfl⟩) h)

theorem C16_wikilink_trigger_free (s : Str) (h : Py.contains s "[[".toList = false) : wikilinkSearch s = false :=
  false_of_needs (C16_wikilink_needs_trigger s) h

example : wikilinkSearch "a [[Wiki Page_1-x]] b".toList = true := by decide
example : wikilinkSearch "[[a.b]]".toList = false ∧ Py.contains "[[a.b]]".toList "[[".toList = true := by decide
example : wikilinkSearch "[[]]".toList = false ∧ Py.contains "[[]]".toList "[[".toList = true := by decide

/-! ### attr_list -/

/-- **attr_list.**  `BASE_RE` (hence every pattern built from it) matches only in text that contains `{`. -/
theorem C16_attrBase_needs_trigger (s : Str) (h : attrBaseSearch s = true) : Py.contains s "{".toList = true := by
  rw [show "{".toList = ['{'] from by decide]
  exact contains_of_occurs (occurs_of_anySuffix
    (fun t ht => by obtain ⟨r, rfl⟩ := attrBaseAtWith_head ht; exact ⟨[], r, rfl⟩) h)

theorem C16_attrBase_trigger_free (s : Str) (h : Py.contains s "{".toList = false) : attrBaseSearch s = false :=
  false_of_needs (C16_attrBase_needs_trigger s) h

/-- `INLINE_RE.match(tail)` succeeds only on a tail that starts with `{`. -/
theorem C16_attrInline_needs_trigger (s : Str) (h : attrInlineMatch s = true) : startsWith s "{".toList = true := by
  rw [show "{".toList = ['{'] from by decide]
  obtain ⟨r, rfl⟩ := attrBaseAtWith_head h
  simp [startsWith]

/-- `HEADER_RE.search(text)` succeeds only on text that contains ` {`. -/
theorem C16_attrHeader_needs_trigger (s : Str) (h : attrHeaderSearch s = true) : Py.contains s " {".toList = true := by
  rw [show " {".toList = [' ', '{'] from by decide]
  refine contains_of_occurs (occurs_of_anySuffix (fun t ht => ?_) h)
  unfold attrHeaderAt at ht
  split at ht
  · obtain ⟨r, rfl⟩ := attrBaseAtWith_head ht
    exact ⟨[], r, rfl⟩
  · simp at ht

theorem C16_attrHeader_trigger_free (s : Str) (h : Py.contains s " {".toList = false) : attrHeaderSearch s = false :=
  false_of_needs (C16_attrHeader_needs_trigger s) h

/-- `BLOCK_RE.search(text)` succeeds only on text that contains a `\n` and a `{`. -/
theorem C16_attrBlock_needs_trigger (s : Str) (h : attrBlockSearch s = true) :
    Py.contains s "\n".toList = true ∧ Py.contains s "{".toList = true := by
  rw [show "\n".toList = ['\n'] from by decide, show "{".toList = ['{'] from by decide]
  obtain ⟨pre, t, hs, ht⟩ := anySuffix_elim h
  unfold attrBlockAt at ht
  split at ht
  · rename_i r
    obtain ⟨r', hr'⟩ := attrBaseAtWith_head ht
    refine ⟨contains_of_occurs ⟨pre, r, by simp [hs]⟩, contains_of_occurs (Occurs.of_suffix (t := r) (pre ++ ['\n']) (by simp [hs]) ?_)⟩
    exact lstripC_occurs hr'
  · simp at ht

theorem C16_attrBlock_trigger_free (s : Str) (h : Py.contains s "{".toList = false) : attrBlockSearch s = false :=
  false_of_needs (fun h' => (C16_attrBlock_needs_trigger s h').2) h

example : attrBaseSearch "a {: #id .cls} b".toList = true := by decide
example : attrBaseSearch "a {} b { }".toList = false ∧ Py.contains "a {} b { }".toList "{".toList = true := by decide
example : attrInlineMatch "{.c}tail".toList = true := by decide
example : attrInlineMatch " {.c}".toList = false := by decide
example : attrHeaderSearch "Title {#id} \n".toList = true := by decide
example : attrHeaderSearch "Title {#id} x".toList = false ∧ Py.contains "Title {#id} x".toList " {".toList = true := by decide
example : attrBlockSearch "para\n{: .c}".toList = true := by decide
example : attrBlockSearch "para {: .c}\nmore".toList = false ∧ Py.contains "para {: .c}\nmore".toList "{".toList = true := by decide

/-! ### fenced_code -/

/-- **fenced_code.**  The opening fence of `FENCED_BLOCK_RE` matches only at a line start that spells three backticks or
    three tildes. -/
theorem C16_fenceOpen_trigger_at_line_start (s : Str) (h : fenceOpenSearch s = true) :
    ∃ pre post, (s = pre ++ "~~~".toList ++ post ∨ s = pre ++ "```".toList ++ post) ∧ LineStart pre := by
  rw [show "~~~".toList = ['~', '~', '~'] from by decide, show "```".toList = ['`', '`', '`'] from by decide]
  obtain ⟨pre, t, hs, ht, hl⟩ := anyLineStart_elim h
  simp only [fenceOpenAt, Bool.or_eq_true] at ht
  rcases ht with ht | ht
  · obtain ⟨r, rfl⟩ := (startsWith_iff _ _).1 ht
    exact ⟨pre, r, Or.inl (by simp [hs]), hl⟩
  · obtain ⟨r, rfl⟩ := (startsWith_iff _ _).1 ht
    exact ⟨pre, r, Or.inr (by simp [hs]), hl⟩

/-- a fenced block needs three consecutive tildes or backticks -/
theorem C16_fenceOpen_needs_trigger (s : Str) (h : fenceOpenSearch s = true) :
    Py.contains s "~~~".toList = true ∨ Py.contains s "```".toList = true := by
  obtain ⟨pre, post, hs | hs, _⟩ := C16_fenceOpen_trigger_at_line_start s h
  · exact Or.inl (contains_of_occurs ⟨pre, post, hs⟩)
  · exact Or.inr (contains_of_occurs ⟨pre, post, hs⟩)

theorem C16_fenceOpen_trigger_free (s : Str) (h1 : Py.contains s "~~~".toList = false)
    (h2 : Py.contains s "```".toList = false) : fenceOpenSearch s = false := by
  cases h : fenceOpenSearch s with
  | false => rfl
  | true => rcases C16_fenceOpen_needs_trigger s h with h' | h' <;> simp_all

example : fenceOpenSearch "text\n```python\ncode\n```".toList = true := by decide
example : fenceOpenSearch "a ``` b".toList = false ∧ Py.contains "a ``` b".toList "```".toList = true := by decide

/-! ### meta -/

/-- **meta.**  `META_RE.match(line)` succeeds only on a line that contains a colon. -/
theorem C16_metaKeyLine_needs_trigger (l : Str) (h : metaKeyLine l = true) : Py.contains l ":".toList = true := by
  rw [show ":".toList = [':'] from by decide]
  exact contains_of_occurs (occurs_of_optSpaces (fun r hr => metaKey_colon hr) h)

/-- the entry condition of the meta-data preprocessor on the first line: a colon, or the line starts with `---` -/
theorem C16_meta_needs_trigger (l : Str) (h : metaFirstLine l = true) :
    Py.contains l ":".toList = true ∨ startsWith l "---".toList = true := by
  simp only [metaFirstLine, metaBeginLine, Meta.beginMatch, Bool.or_eq_true, Bool.and_eq_true] at h
  rcases h with h | h
  · exact Or.inl (C16_metaKeyLine_needs_trigger l h)
  · exact Or.inr (by rw [show "---".toList = ['-', '-', '-'] from by decide]; exact h.1)

/-- what `MetaPreprocessor.run` needs to change `lines`: the first line is blank, starts with `---` (the opener), or
    contains a colon (since the repair of F-C16-3 an end marker is honoured only after an opener or a key) -/
theorem C16_meta_consumes_needs_trigger (l : Str) (h : metaConsumes l = true) :
    isBlank l = true ∨ startsWith l "---".toList = true ∨ Py.contains l ":".toList = true := by
  rw [show "---".toList = ['-', '-', '-'] from by decide]
  simp only [metaConsumes, metaBeginLine, Meta.beginMatch, Bool.or_eq_true, Bool.and_eq_true] at h
  rcases h with (h | h) | h
  · exact Or.inr (Or.inl h.1)
  · exact Or.inl h
  · exact Or.inr (Or.inr (C16_metaKeyLine_needs_trigger l h))

/-- document level: the first line of `doc.split('\n')` passes the entry condition only if the document contains a colon
    or starts with `---` -/
theorem C16_meta_doc_needs_trigger (doc l : Str) (rest : List Str) (hl : lines doc = l :: rest)
    (h : metaFirstLine l = true) : Py.contains doc ":".toList = true ∨ startsWith doc "---".toList = true := by
  have hp := lines_head_prefix hl
  rcases C16_meta_needs_trigger l h with h | h
  · exact Or.inl (contains_of_occurs (occurs_of_occurs_prefix hp ((contains_iff _ _).1 h)))
  · exact Or.inr (startsWith_of_prefix hp h)

example : metaFirstLine "Title: My Doc".toList = true := by decide
example : metaFirstLine "---".toList = true := by decide
example : metaFirstLine "a b: c".toList = false ∧ Py.contains "a b: c".toList ":".toList = true := by decide
example : metaFirstLine "    key: too deep".toList = false := by decide
-- F-C16-3 (repaired): a first line that merely starts like a delimiter is no longer consumed
example : metaConsumes "... and so on".toList = false ∧ metaConsumes "...and so on".toList = false ∧
    metaConsumes "----".toList = false ∧ metaConsumes "...".toList = false ∧ metaConsumes "--- x".toList = true := by decide
example : metaConsumes "plain first line".toList = false := by decide
example : lines "Title: x\nbody".toList = "Title: x".toList :: ["body".toList] := by decide

/-! ### tables -/

/-- **tables.**  The necessary condition read off `TableProcessor.test` (two rows, a pipe in each) holds only for
    blocks that contain `|` and `\n`. -/
theorem C16_table_needs_trigger (block : Str) (h : tableTestPre block = true) :
    Py.contains block "|".toList = true ∧ Py.contains block "\n".toList = true := by
  rw [show "|".toList = ['|'] from by decide, show "\n".toList = ['\n'] from by decide]
  unfold tableTestPre at h
  split at h
  · rename_i r0 r1 rest hl
    simp only [Bool.and_eq_true] at h
    exact ⟨contains_of_occurs (occurs_of_occurs_prefix (lines_head_prefix hl) (list_contains_occurs h.1)),
           contains_of_occurs (lines_cons_occurs_nl hl)⟩
  · simp at h

theorem C16_table_trigger_free (block : Str) (h : Py.contains block "|".toList = false) : tableTestPre block = false :=
  false_of_needs (fun h' => (C16_table_needs_trigger block h').1) h

example : tableTestPre "a | b\n--|--\n1 | 2".toList = true := by decide
example : tableTestPre "a | b".toList = false ∧ Py.contains "a | b".toList "|".toList = true := by decide
example : tableTestPre "a | b\nplain".toList = false := by decide

/-! ### composition with the dispatcher (C18) -/

variable {X R : Type}

/-- **An extension's block processor is inert on blocks it rejects.**  With the processor `p` registered anywhere in the
    list, a block on which `p.test` answers false is dispatched exactly as if `p` were not registered. -/
theorem C16_inert (pre post : List (Proc X R)) (p : Proc X R) (x : X) (h : p.test x = false) :
    dispatch (pre ++ p :: post) x = dispatch (pre ++ post) x :=
  C18_run_false_falls_through pre post p x (Or.inl h)

/-- the same for processors whose `test` is constantly true and whose `run` returns `False` (footnotes, abbr) -/
theorem C16_inert_declined (pre post : List (Proc X R)) (p : Proc X R) (x : X) (h : p.run x = none) :
    dispatch (pre ++ p :: post) x = dispatch (pre ++ post) x :=
  C18_run_false_falls_through pre post p x (Or.inr h)

/-- **Trigger-free blocks never see the extension.**  If a processor accepts-and-handles a block only when `recogniser`
    accepts it, and `recogniser` needs the substring `trig`, then on a block without `trig` the processor is invisible. -/
theorem C16_inert_of_trigger_free (recogniser : Str → Bool) (trig : Str)
    (hneeds : ∀ s, recogniser s = true → Py.contains s trig = true)
    (pre post : List (Proc Str R)) (p : Proc Str R)
    (hp : ∀ b, recogniser b = false → p.test b = false ∨ p.run b = none)
    (block : Str) (hfree : Py.contains block trig = false) :
    dispatch (pre ++ p :: post) block = dispatch (pre ++ post) block :=
  C18_run_false_falls_through pre post p block (hp block (false_of_needs (hneeds block) hfree))

/-- instance: a processor whose `test` is the admonition header search, on a block without `!!!` -/
example (pre post : List (Proc Str R)) (run : Str → Option R) (block : Str)
    (h : Py.contains block "!!!".toList = false) :
    dispatch (pre ++ { name := "admonition", test := admonitionSearch, run := run } :: post) block
      = dispatch (pre ++ post) block :=
  C16_inert pre post _ block (C16_admonition_trigger_free block h)

/-- instance: the footnote block processor (`test` constantly true, `run` declines unless the definition pattern is found) -/
example (pre post : List (Proc Str R)) (run : Str → Option R) (block : Str)
    (h : Py.contains block "[^".toList = false) :
    dispatch (pre ++ { name := "footnote", test := fun _ => true,
                       run := fun b => if footnoteDefSearch b then run b else none } :: post) block
      = dispatch (pre ++ post) block :=
  C16_inert_of_trigger_free footnoteDefSearch "[^".toList C16_footnoteDef_needs_trigger pre post _
    (fun b hb => Or.inr (by simp [hb])) block h

/-- the hypotheses are satisfiable and the conclusion is not vacuous: a paragraph block goes to the catch-all -/
private def pAdm : Proc Str String := { name := "admonition", test := admonitionSearch, run := fun _ => some "admonition" }
private def pPara : Proc Str String := { name := "paragraph", test := fun _ => true, run := fun _ => some "paragraph" }
example : pAdm.test "just text".toList = false := by decide
example : dispatch [pAdm, pPara] "just text".toList = dispatch [pPara] "just text".toList := by decide
example : dispatch [pAdm, pPara] "!!! note".toList = some "admonition" := by decide

end MdVerif.Ext.Trig
