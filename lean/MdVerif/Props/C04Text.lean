/-
C04 — Raw HTML passes through verbatim and unwrapped (proof, TEXT level: the preprocessor on source text).

Only property statements live here.  Models: `MdVerif/Model/HtmlTok.lean` (the tokenizer `html.parser.HTMLParser.goahead`
under the patches and overrides of `markdown/htmlparser.py`, run together with the extractor callbacks; it answers
`none` outside its domain `TokDomain`), `MdVerif/Model/ExtractEv.lean` (the callbacks of `HTMLExtractor`), composed in
`MdVerif/Model/ExtractText.lean` (`extractText`, `preprocess` = `HtmlBlockPreprocessor.run`).  Both are tied to the real
code by differential testing (`harness/corr/htmltok.py`: event lists fact by fact, output lines and stash;
`harness/corr/extract.py`).  Grammar of the statements: `MdVerif/Spec/HtmlFrag.lean` (`Tok`, `Attr`, `renderToks`,
`toksOk`, `closesOk`, `blockText`).  Helper lemmas: `MdVerif/Lemmas/HtmlTokPos.lean` (line bookkeeping),
`HtmlTokTag.lean` (start-tag recognisers), `HtmlTokGo.lean` (one loop iteration per token), `HtmlTokDoc.lean`.

What is proved, for source TEXT of unbounded size:
* `C04_text_domain`: every sequence of well-formed tokens (text runs, `&name;`, `&#n;`, comments, start tags with
  attributes in all four quoting styles, end tags, self-closing tags; any nesting, balanced or not) is inside the
  model's domain, and the tokenizer reads it back token by token: the source texts of the events, concatenated, are
  the document.
* `C04_text_block_once`: a block element `<tag attrs> body </tag>` (tag block-level; `body` any token sequence that
  keeps the tag stack of the code non-empty: nested elements block or inline, unclosed `<br>`/`<img>`/`<li>`, stray end
  tags, comments, references, text with blank lines and Markdown syntax) standing between two blank lines, after a
  plain paragraph text `p1` and before `p2`: the preprocessor hands on the text in which exactly the block's text is
  replaced by `"\n" ++ placeholder 0 ++ "\n\n"`, and the stash holds exactly one entry, the block's source text
  character for character, followed by the `"\n"` that ends its last line.  Nothing else of the document changes.
* `C04_text_unit_once` with `C04_text_comment_once`, `_pi_once`, `_doctype_once`, `_hr_once`, `_selfclose_once`: the same
  for a comment, a processing instruction, a `<!DOCTYPE …>` declaration, `<hr>` and self-closing block tags as blocks
  of their own.
* `C04_text_many_once`: several raw items (blocks and units mixed) in one document: the `i`-th is replaced by the
  placeholder of index `i`, the stash holds their source texts in order.
* `C04_neg_indented_under_text` (F-C04-3), `C04_neg_tail_entity_moves`, `C04_neg_tail_entity_glued` (F-C04-6): the
  defect regions characterised by theorems: what the preprocessor does instead.
* `C04_text_block_state`: the same with the extractor's whole final state (no raw mode left over, empty `_cache`).
* `C04_text_end_to_end` (+ `_para`, `_pieces`): the whole of `Markdown.convert` (model `PipelineH.convertH`,
  `Model/PipelineH.lean`, tied to the real code by `harness/corr/pipelineh.py`) on flat Markdown, a raw block, flat
  Markdown: the output of the first part, the block's source text verbatim and unwrapped, the output of the second
  part.  `C04_text_end_to_end_anywhere`: the same with the part before and the part after each possibly absent;
  `C04_text_block_alone`: a raw block alone converts to itself.  `C04_text_end_to_end_unit` (+ `_comment`, `_pi`,
  `_unit_anywhere`): the same for comments, processing instructions, declarations, `<hr>`.
  Helper lemmas: `MdVerif/Lemmas/C04EndToEnd.lean` (on top of `Lemmas/DocParse.lean` and `Lemmas/StashAtomic.lean`).
* `C04_convertH_agrees`: `convertH` equals `Pipeline.convert` on every source without `<`.
* `C04_text_inline_verbatim`: a text made of inline tokens only (text, references, start / end / self-closing tags
  whose names are not block-level) passes the preprocessor unchanged, and nothing is stashed.

Outside these statements, and reproduced by the model where it is in its domain (the model mirrors the code):
F-C04-3 (indented raw block under a paragraph line: `p1` must be followed by a blank line here), F-C04-6 (text behind
the closing tag on the same line: the block must be followed by a blank line here); the known tokenizer defects
F-C04-1 / F-C04-2 are outside `TokDomain`.  A comment whose closing `--` and `>` are separated by white space
(`<!-- c --  >`) is re-spelled `<!-- c -->` by `handle_comment`; the grammar has comments closed by `-->` only.
-/
import MdVerif.Model.ExtractText
import MdVerif.Spec.HtmlFrag
import MdVerif.Spec.HtmlLex
import MdVerif.Lemmas.HtmlTokDoc
import MdVerif.Lemmas.HtmlTokUnits
import MdVerif.Lemmas.HtmlTokMany
import MdVerif.Lemmas.HtmlTokNeg
import MdVerif.Lemmas.PipelineH
import MdVerif.Lemmas.C04EndToEnd
import MdVerif.Props.C01

namespace MdVerif.HtmlTok
open Py Extract HtmlFrag

/-! ### 1. token sequences are in the domain -/

/-- **C04, text level, domain.**  The text of any sequence of well-formed tokens (`toksOk`: each token satisfies its
    side condition `Tok.ok`, and text runs are maximal) lies in the domain of the tokenizer model; the event list ends
    with the `close` event, and the source texts of the events before it, concatenated, are the text itself (the
    tokenizer neither drops nor invents a character). -/
theorem C04_text_domain (ts : List Tok) (h : toksOk ts = true) :
    TokDomain (renderToks ts) ∧
    ∃ evs, events (renderToks ts) = some (evs ++ [.close []]) ∧ evsText evs = renderToks ts := by
  have hev := events_of_toks ts h
  refine ⟨by unfold TokDomain; rw [hev]; rfl, _, hev, evsText_toksEvents _ ts [] h⟩

/-- **C04, text level, domain, as a decidable predicate on TEXT.**  `HtmlFrag.lex s` (`Spec/HtmlLex.lean`) reads a text
    as maximal text runs, `&name;`, `&#n;`, `<!--…-->`, start / end / self-closing tags with attributes, and bare `<` /
    `&` in front of a character that cannot start a tag / reference (`1 < 2`, `a & b`), and checks its own answer
    against `renderToks` and `toksOk`.  Every text it accepts — every text in which each `<` followed by a letter, `/`,
    `!`, `?` starts a complete tag or comment of the grammar, each `&` followed by a letter or `#` a complete reference,
    and neither is the last character — is inside the domain of the model, and the tokenizer reads it back without
    dropping or inventing a character.  (So an "out of domain" answer of the model can only come from a `<` or `&` that
    looks like the start of a token and is not: `AT&T`, `&#` without digits, an unterminated tag, a processing
    instruction / declaration / marked section, `<script>` / `<style>`; or from a final `<` / `&`.) -/
theorem C04_text_domain_lex (s : Str) (h : (HtmlFrag.lex s).isSome = true) :
    TokDomain s ∧ ∃ evs, events s = some (evs ++ [.close []]) ∧ evsText evs = s := by
  cases hl : HtmlFrag.lex s with
  | none => rw [hl] at h; cases h
  | some ts =>
    obtain ⟨hr, hok⟩ := HtmlFrag.lex_sound hl
    have := C04_text_domain ts hok
    rw [hr] at this
    exact this

example : (HtmlFrag.lex ("one\n\n<div class=\"a b > c\"\n  id='x' hidden data-x=v1>\n*md* # not a heading\n\n<P>x &amp;&#x41; y</p>" ++
    "<!-- </div> --><br><img src=\"s\" /></span>\n</div>\n\ntwo").toList).isSome = true := by decide +kernel
/-- prose with stray ampersands and less-than signs is accepted -/
example : (HtmlFrag.lex "a & b, 1 < 2 && x <= y; p<.05 &\n<b>t</b>".toList).isSome = true := by decide +kernel
/-- not accepted: `&` in front of a letter that is not a reference, a final `&`, an unterminated tag, a processing
    instruction -/
example : (HtmlFrag.lex "AT&T".toList).isSome = false ∧ (HtmlFrag.lex "a &".toList).isSome = false ∧
    (HtmlFrag.lex "<div".toList).isSome = false ∧ (HtmlFrag.lex "<?php ?>".toList).isSome = false := by decide +kernel

/-! ### 2. a raw block between paragraphs -/

/-- **C04, text level, block elements.**  For the document `p1 ¶ block ¶ p2`, where `p1`, `p2` are plain text (no `<`,
    no `&`; any other characters, several lines and paragraphs, or empty), `¶` is a blank line (`"\n\n"`), and `block`
    is `<name attrs trail> body </name>` with `name` a block-level tag other than `hr`, `script`, `style`, the
    preprocessor (`HtmlBlockPreprocessor.run`)
    * is inside the modelled domain,
    * returns the lines of `p1 ¶ "\n" placeholder(0) "\n\n" ¶ p2`: exactly the block's text is replaced, by one
      placeholder paragraph, and nothing of the block's text (Markdown syntax, blank lines, nested tags, references)
      remains in the text handed to the block parser,
    * leaves exactly one entry in the stash: the block's source text, verbatim, plus the `"\n"` ending its last line. -/
theorem C04_text_block_once (p1 p2 name : Str) (attrs : List Attr) (trail : Str) (body : List Tok)
    (hp1 : plainOk p1 = true) (hp2 : plainOk p2 = true)
    (hopen : (Tok.open_ name attrs trail).ok = true) (hblock : isBlockLevelTag (lower name) = true)
    (hhr : lower name ≠ hrTag) (hbody : toksOk body = true) (hcl : closesOk (lower name) body = true) :
    preprocess (p1 ++ nn ++ blockText name attrs trail body ++ nn ++ p2) =
      some (splitC '\n' (p1 ++ nn ++ ('\n' :: placeholder 0 ++ nn) ++ nn ++ p2),
            [blockText name attrs trail body ++ ['\n']]) := by
  unfold preprocess
  rw [extract_block_state p1 p2 name attrs trail body hp1 hp2 hopen hblock hhr hbody hcl]
  simp [cleanText, nn]

/-- the same, with the whole final state of the extractor: raw mode is left, the tag stack and `_cache` are empty,
    `cleandoc` consists of five pieces -/
theorem C04_text_block_state (p1 p2 name : Str) (attrs : List Attr) (trail : Str) (body : List Tok)
    (hp1 : plainOk p1 = true) (hp2 : plainOk p2 = true)
    (hopen : (Tok.open_ name attrs trail).ok = true) (hblock : isBlockLevelTag (lower name) = true)
    (hhr : lower name ≠ hrTag) (hbody : toksOk body = true) (hcl : closesOk (lower name) body = true) :
    extractText (p1 ++ nn ++ blockText name attrs trail body ++ nn ++ p2) =
      some { inraw := false, intail := false, stack := [], cache := [],
             cleandoc := [p1 ++ nn, ['\n'], placeholder 0, nn, nn ++ p2],
             stash := [blockText name attrs trail body ++ ['\n']] } :=
  extract_block_state p1 p2 name attrs trail body hp1 hp2 hopen hblock hhr hbody hcl

/-! #### the hypotheses are satisfiable: a block with attributes in all quoting styles, Markdown-looking text with a
    blank line, a nested block element, an entity, a comment holding a closing tag, an unclosed `<br>`, a
    self-closing tag, a stray end tag -/

def exName : Str := "div".toList
def exAttrs : List Attr :=
  [ ⟨" ".toList, "class".toList, .dq "a b > c".toList⟩, ⟨"\n  ".toList, "id".toList, .sq "x".toList⟩,
    ⟨" ".toList, "hidden".toList, .none⟩, ⟨" ".toList, "data-x".toList, .bare "v1".toList⟩ ]
def exBody : List Tok :=
  [ .text "\n*md* # not a heading\n\n".toList, .open_ "P".toList [] [], .text "x ".toList, .entity "amp".toList,
    .charref "x41".toList, .text " y".toList, .close "p".toList, .comment " </div> ".toList,
    .open_ "br".toList [] [], .selfClose "img".toList [⟨" ".toList, "src".toList, .dq "s".toList⟩] " ".toList,
    .close "span".toList, .text "\n".toList ]

example : plainOk "first paragraph\nsecond line".toList = true := by decide
example : (Tok.open_ exName exAttrs []).ok = true := by decide +kernel
example : isBlockLevelTag (lower exName) = true := by decide
example : lower exName ≠ hrTag := by decide
example : toksOk exBody = true := by decide +kernel
example : closesOk (lower exName) exBody = true := by decide +kernel
example : blockText exName exAttrs [] exBody =
    ("<div class=\"a b > c\"\n  id='x' hidden data-x=v1>\n*md* # not a heading\n\n<P>x &amp;&#x41; y</p>" ++
     "<!-- </div> --><br><img src=\"s\" /></span>\n</div>").toList := by decide +kernel
/-- the theorem's instance, evaluated by the kernel on the model -/
example : preprocess ("one".toList ++ nn ++ blockText exName exAttrs [] exBody ++ nn ++ "two".toList) =
    some (splitC '\n' ("one".toList ++ nn ++ ('\n' :: placeholder 0 ++ nn) ++ nn ++ "two".toList),
          [blockText exName exAttrs [] exBody ++ ['\n']]) := by decide +kernel

/-- the boundary `closesOk`: a body that closes the block itself (`</div>` inside) is excluded -- the raw block of
    the code ends at the FIRST end tag that empties the tag stack -/
example : closesOk (lower exName) [.text "a".toList, .close "div".toList, .text "b".toList] = false := by decide

/-! ### 2b. comments, processing instructions, declarations, `<hr>`: blocks of their own -/

/-- **C04, text level, units.**  A construct that the tokenizer consumes at a line start as one
    `handle_empty_tag(text, is_block=True)` call (`Unit.OK`; instances below), standing between two blank lines after
    plain text `p1` and before `p2`: the preprocessor replaces exactly its text by the placeholder line and stashes
    its source text verbatim (plus the `"\n"` ending its line). -/
theorem C04_text_unit_once (u : Unit) (hu : u.OK) (p1 p2 : Str) (hp1 : plainOk p1 = true) (hp2 : plainOk p2 = true) :
    preprocess (p1 ++ nn ++ u.text ++ nn ++ p2) =
      some (splitC '\n' (p1 ++ nn ++ (placeholder 0 ++ nn) ++ nn ++ p2), [u.text ++ ['\n']]) := by
  unfold preprocess
  rw [extract_unit_state u hu p1 p2 hp1 hp2]
  simp [cleanText, nn]

/-- a comment `<!--c-->` (`c` any text without `--`: several lines, blank lines, tags, Markdown) -/
theorem C04_text_comment_once (c p1 p2 : Str) (hc : Py.contains c ['-', '-'] = false)
    (hp1 : plainOk p1 = true) (hp2 : plainOk p2 = true) :
    preprocess (p1 ++ nn ++ (Tok.comment c).render ++ nn ++ p2) =
      some (splitC '\n' (p1 ++ nn ++ (placeholder 0 ++ nn) ++ nn ++ p2), [(Tok.comment c).render ++ ['\n']]) :=
  C04_text_unit_once (commentUnit c) (commentUnit_ok c hc) p1 p2 hp1 hp2

/-- a processing instruction `<?b?>` (`b` any text without `?>`) -/
theorem C04_text_pi_once (b p1 p2 : Str) (hb : Py.contains b ['?', '>'] = false)
    (hp1 : plainOk p1 = true) (hp2 : plainOk p2 = true) :
    preprocess (p1 ++ nn ++ ('<' :: '?' :: b ++ ['?', '>']) ++ nn ++ p2) =
      some (splitC '\n' (p1 ++ nn ++ (placeholder 0 ++ nn) ++ nn ++ p2), [('<' :: '?' :: b ++ ['?', '>']) ++ ['\n']]) :=
  C04_text_unit_once (piUnit b) (piUnit_ok b hb) p1 p2 hp1 hp2

/-- a declaration `<!DOCTYPE b>` / `<!doctype b>` (`b` any text without `>`) -/
theorem C04_text_doctype_once (upper : Bool) (b p1 p2 : Str) (hb : b.contains '>' = false)
    (hp1 : plainOk p1 = true) (hp2 : plainOk p2 = true) :
    preprocess (p1 ++ nn ++ (doctypeOpen upper ++ b ++ ['>']) ++ nn ++ p2) =
      some (splitC '\n' (p1 ++ nn ++ (placeholder 0 ++ nn) ++ nn ++ p2), [(doctypeOpen upper ++ b ++ ['>']) ++ ['\n']]) :=
  C04_text_unit_once (doctypeUnit upper b) (doctypeUnit_ok upper b hb) p1 p2 hp1 hp2

/-- `<hr>` with any attributes, in any letter case -/
theorem C04_text_hr_once (name : Str) (attrs : List Attr) (trail p1 p2 : Str)
    (hok : (Tok.open_ name attrs trail).ok = true) (hhr : lower name = hrTag)
    (hp1 : plainOk p1 = true) (hp2 : plainOk p2 = true) :
    preprocess (p1 ++ nn ++ (Tok.open_ name attrs trail).render ++ nn ++ p2) =
      some (splitC '\n' (p1 ++ nn ++ (placeholder 0 ++ nn) ++ nn ++ p2), [(Tok.open_ name attrs trail).render ++ ['\n']]) :=
  C04_text_unit_once (hrUnit name attrs trail) (hrUnit_ok name attrs trail hok hhr) p1 p2 hp1 hp2

/-- a self-closing tag with a block-level name (`<hr />`, `<div class="x"/>`) -/
theorem C04_text_selfclose_once (name : Str) (attrs : List Attr) (trail p1 p2 : Str)
    (hok : (Tok.selfClose name attrs trail).ok = true) (hb : isBlockLevelTag (lower name) = true)
    (hp1 : plainOk p1 = true) (hp2 : plainOk p2 = true) :
    preprocess (p1 ++ nn ++ (Tok.selfClose name attrs trail).render ++ nn ++ p2) =
      some (splitC '\n' (p1 ++ nn ++ (placeholder 0 ++ nn) ++ nn ++ p2),
        [(Tok.selfClose name attrs trail).render ++ ['\n']]) :=
  C04_text_unit_once (selfCloseUnit name attrs trail) (selfCloseUnit_ok name attrs trail hok hb) p1 p2 hp1 hp2

example : Py.contains " *x*\n\n# h <div> - ".toList ['-', '-'] = false := by decide
example : Py.contains "php echo \"</div>\"; $a->b ".toList ['?', '>'] = false := by decide
example : (" html PUBLIC \"-//W3C//DTD XHTML 1.0//EN\"".toList).contains '>' = false := by decide
example : (Tok.open_ "HR".toList [⟨" ".toList, "class".toList, .dq "x".toList⟩] []).ok = true ∧ lower "HR".toList = hrTag := by
  decide
example : preprocess "a\n\n<?php echo \"</div>\"; $a->b ?>\n\nb".toList =
    some (splitC '\n' ("a\n\n".toList ++ placeholder 0 ++ "\n\n\n\nb".toList), ["<?php echo \"</div>\"; $a->b ?>\n".toList]) := by
  decide +kernel

/-! #### the boundaries "blank line before" and "blank line after", on the model (which mirrors the code) -/

/-- F-C04-6: text behind the closing tag on the same line.  The entity is appended to `_cache` while `intail` is set
    and is glued in front of the NEXT raw block: the second stash entry does not start with `<`. -/
example : preprocess "<div>x</div> &amp; foo\n\n<div>y</div>\n\n".toList =
    some (["".toList, placeholder 0, "".toList, "  foo".toList, "".toList, "".toList, placeholder 1, "".toList, "".toList,
           "".toList, "".toList],
          ["<div>x</div>".toList, "&amp;<div>y</div>\n".toList]) := by decide +kernel

/-- F-C04-3: a raw block indented under a paragraph line: the indentation stays behind as a line of its own between
    the paragraph line and the placeholder -/
example : preprocess "para\n  <div>x</div>\n\n".toList =
    some (["para".toList, "  ".toList, placeholder 0, "".toList, "".toList, "".toList, "".toList],
          ["<div>x</div>\n".toList]) := by decide +kernel

/-- no blank line behind the block: the stash entry lacks the final line feed and `intail` mode swallows the line end -/
example : preprocess "a\n\n<div>x</div>\nb\n\n".toList =
    some (["a".toList, "".toList, "".toList, placeholder 0, "".toList, "".toList, "b".toList, "".toList, "".toList],
          ["<div>x</div>".toList]) := by decide +kernel

/-- outside the model's domain (F-C04-1 / F-C04-2): a stray `&#` before a raw block; an unterminated tag -/
example : preprocess "a &# b;\n\n<div>*x*</div>\n\n".toList = none ∧ preprocess "<div".toList = none := by decide +kernel

/-! ### 2c. several raw items in one document: the stash indices -/

/-- **C04, text level, several raw items.**  `t0` is plain text that ends with a blank line, or nothing; `secs` lists
    raw items (`RawSec`: block elements `blockSec_ok`, units `unitSec_ok`), each followed by plain text that starts with
    a blank line and — when another raw item follows — ends with one (`secsOk`).  The preprocessor replaces the `i`-th
    item by the placeholder of index `i` (with a line feed in front for block elements) and a blank line, keeps every
    plain text as it is, and the stash holds the items' source texts verbatim, in order, each exactly once. -/
theorem C04_text_many_once (t0 : Str) (secs : List (RawSec × Str))
    (ht0 : t0 = [] ∨ (plainOk t0 = true ∧ ∃ t, t0 = t ++ nn)) (hsecs : secsOk secs) :
    preprocess (t0 ++ flatSecs secs) =
      some (splitC '\n' (t0 ++ outSecs 0 secs), secs.map (fun x => x.1.text ++ ['\n'])) :=
  preprocess_many t0 secs ht0 hsecs

/-- a block, a comment, another block: the hypotheses, built from the instances -/
example : secsOk
    [ (⟨blockText exName exAttrs [] exBody, true⟩, "\n\ntext *a*\n\n".toList),
      (⟨(Tok.comment " c ".toList).render, false⟩, "\n\n".toList),
      (⟨blockText "P".toList [] [] [.text "x".toList], true⟩, "\n\nend".toList) ] :=
  ⟨blockSec_ok exName exAttrs [] exBody (by decide +kernel) (by decide) (by decide) (by decide +kernel) (by decide +kernel),
   ⟨_, rfl⟩, by decide, ⟨"\n\ntext *a*".toList, rfl⟩,
   unitSec_ok (commentUnit " c ".toList) (commentUnit_ok _ (by decide)), ⟨_, rfl⟩, by decide, ⟨[], rfl⟩,
   blockSec_ok "P".toList [] [] [.text "x".toList] (by decide) (by decide) (by decide) (by decide) (by decide),
   ⟨_, rfl⟩, by decide⟩

example : preprocess "a\n\n<div>*x*</div>\n\nb\n\n<!-- c -->\n\n<p>y</p>\n\nz".toList =
    some (splitC '\n' ("a\n\n\n".toList ++ placeholder 0 ++ "\n\n\n\nb\n\n".toList ++ placeholder 1 ++
            "\n\n\n\n\n".toList ++ placeholder 2 ++ "\n\n\n\nz".toList),
          ["<div>*x*</div>\n".toList, "<!-- c -->\n".toList, "<p>y</p>\n".toList]) := by decide +kernel

/-! ### 2d. the defect regions, characterised: what the code does INSTEAD (negative theorems) -/

/-- **F-C04-3, characterised.**  A raw block directly under a line of text `q` (no blank line between them), indented by
    `i ≤ 3` spaces: the tokenizer is "at a line start" (`at_line_start()` tolerates three spaces), the block is
    extracted and stashed verbatim — but the text handed on is `q`, a line feed, THE `i` SPACES, a line feed, the
    placeholder: for `i = 0` that is `q ¶ placeholder` exactly as with a blank line in the source (so the blank line
    before a raw block is NOT needed at the left margin); for `i = 1, 2, 3` the indentation stays behind as a line of
    spaces, no blank line separates the paragraph from the placeholder, and the block parser reads both as ONE
    paragraph (end to end: `<p>a` / `<br />` / the block / `</p>`, kernel-checked below). -/
theorem C04_neg_indented_under_text (q p2 name : Str) (i : Nat) (hi : i ≤ 3) (attrs : List Attr) (trail : Str)
    (body : List Tok) (hq : plainOk q = true) (hp2 : plainOk p2 = true)
    (hopen : (Tok.open_ name attrs trail).ok = true) (hblock : isBlockLevelTag (lower name) = true)
    (hhr : lower name ≠ hrTag) (hbody : toksOk body = true) (hcl : closesOk (lower name) body = true) :
    preprocess (q ++ ['\n'] ++ sp i ++ blockText name attrs trail body ++ nn ++ p2) =
      some (splitC '\n' (q ++ ['\n'] ++ sp i ++ ['\n'] ++ placeholder 0 ++ nn ++ nn ++ p2),
            [blockText name attrs trail body ++ ['\n']]) := by
  have hplain : plainOk (q ++ ['\n'] ++ sp i) = true := by
    simp only [plainOk, Bool.and_eq_true, Bool.not_eq_true', List.contains_eq_mem, decide_eq_false_iff_not,
      List.mem_append, not_or] at hq ⊢
    refine ⟨⟨⟨hq.1, by decide⟩, ?_⟩, ⟨⟨hq.2, by decide⟩, ?_⟩⟩ <;>
      (intro h; have := List.eq_of_mem_replicate h; revert this; decide)
  unfold preprocess
  rw [extract_block_state_tx (q ++ ['\n'] ++ sp i) p2 name attrs trail body hplain (by simp)
    (fun s => atLineStart_indent q s i hi) hp2 hopen hblock hhr hbody hcl]
  simp [cleanText, nn, List.append_assoc]

/-- **F-C04-6, characterised (no further raw block).**  An entity reference `&e;` behind the closing tag on the same
    line (after a text run `t1` without line feed, possibly empty; `t2` is the plain text behind it):
    * the block's stash entry LACKS the final line feed (no blank line follows the end tag: `intail` mode);
    * the entity reference DISAPPEARS from its place: the text handed on is `t1 ++ t2`;
    * it is stashed as a SECOND entry whose placeholder is appended at the very END of the document, glued to the last
      line of `p2` — end to end it comes out as a paragraph of its own (or inside the last one) after everything else. -/
theorem C04_neg_tail_entity_moves (p1 p2 t1 t2 ename name : Str) (attrs : List Attr) (trail : Str) (body : List Tok)
    (hp1 : plainOk p1 = true) (hp2 : plainOk p2 = true)
    (ht1 : plainOk t1 = true) (ht1nl : '\n' ∉ t1) (ht2 : plainOk t2 = true) (hen : entityNameOk ename = true)
    (hopen : (Tok.open_ name attrs trail).ok = true) (hblock : isBlockLevelTag (lower name) = true)
    (hhr : lower name ≠ hrTag) (hbody : toksOk body = true) (hcl : closesOk (lower name) body = true) :
    preprocess (p1 ++ nn ++ blockText name attrs trail body ++ t1 ++ ('&' :: ename ++ [';']) ++ t2 ++ nn ++ p2) =
      some (splitC '\n' (p1 ++ nn ++ ['\n'] ++ placeholder 0 ++ nn ++ t1 ++ t2 ++ nn ++ p2 ++ placeholder 1),
            [blockText name attrs trail body, '&' :: ename ++ [';']]) := by
  unfold preprocess
  rw [extract_tail_entity_state p1 p2 t1 t2 ename name attrs trail body hp1 hp2 ht1 ht1nl ht2 hen hopen hblock hhr
    hbody hcl]
  cases h : t1.isEmpty
  · simp [cleanText, nn, List.append_assoc]
  · have : t1 = [] := by simpa using h
    subst this
    simp [cleanText, nn, List.append_assoc]

/-- **F-C04-6, characterised (another raw block follows).**  The leftover entity reference in `_cache` is glued IN
    FRONT of the next raw block: the second stash entry is `&e;` followed by the second block — it does not start with
    `<`, so `RawHtmlPostprocessor.isblocklevel` rejects it and the second block comes out wrapped in `<p>…</p>` with
    the entity reference in front (kernel-checked below). -/
theorem C04_neg_tail_entity_glued (p1 p3 t1 t2 ename : Str)
    (n1 : Str) (a1 : List Attr) (tr1 : Str) (b1 : List Tok) (n2 : Str) (a2 : List Attr) (tr2 : Str) (b2 : List Tok)
    (hp1 : plainOk p1 = true) (hp3 : plainOk p3 = true)
    (ht1 : plainOk t1 = true) (ht1nl : '\n' ∉ t1) (ht2 : plainOk t2 = true) (hen : entityNameOk ename = true)
    (ho1 : (Tok.open_ n1 a1 tr1).ok = true) (hb1 : isBlockLevelTag (lower n1) = true) (hh1 : lower n1 ≠ hrTag)
    (hbd1 : toksOk b1 = true) (hc1 : closesOk (lower n1) b1 = true)
    (ho2 : (Tok.open_ n2 a2 tr2).ok = true) (hb2 : isBlockLevelTag (lower n2) = true) (hh2 : lower n2 ≠ hrTag)
    (hbd2 : toksOk b2 = true) (hc2 : closesOk (lower n2) b2 = true) :
    preprocess (p1 ++ nn ++ blockText n1 a1 tr1 b1 ++ t1 ++ ('&' :: ename ++ [';']) ++ t2 ++ nn ++
        blockText n2 a2 tr2 b2 ++ nn ++ p3) =
      some (splitC '\n' (p1 ++ nn ++ ['\n'] ++ placeholder 0 ++ nn ++ t1 ++ t2 ++ nn ++ ['\n'] ++ placeholder 1 ++ nn ++
              nn ++ p3),
            [blockText n1 a1 tr1 b1, ('&' :: ename ++ [';']) ++ blockText n2 a2 tr2 b2 ++ ['\n']]) := by
  unfold preprocess
  rw [extract_tail_entity_glued_state p1 p3 t1 t2 ename n1 a1 tr1 b1 n2 a2 tr2 b2 hp1 hp3 ht1 ht1nl ht2 hen ho1 hb1 hh1
    hbd1 hc1 ho2 hb2 hh2 hbd2 hc2]
  cases h : t1.isEmpty
  · simp [cleanText, nn, List.append_assoc]
  · have : t1 = [] := by simpa using h
    subst this
    simp [cleanText, nn, List.append_assoc]

/-- the end-to-end consequences, evaluated by the kernel on the model (= the real code on these inputs) -/
example : PipelineH.convertH {} "a\n  <div>x</div>\n\nb".toList =
    .ok "<p>a\n<br />\n<div>x</div>\n</p>\n<p>b</p>".toList := by decide +kernel
example : PipelineH.convertH {} "a\n<div>x</div>\n\nb".toList =
    .ok "<p>a</p>\n<div>x</div>\n\n<p>b</p>".toList := by decide +kernel
example : PipelineH.convertH {} "a\n\n<div>x</div> t &amp; u\n\nb".toList =
    .ok "<p>a</p>\n<div>x</div>\n<p>t  u</p>\n<p>b</p>\n<p>&amp;</p>".toList := by decide +kernel
example : PipelineH.convertH {} "a\n\n<div>x</div> &amp;\n\n<p>y</p>\n\nb".toList =
    .ok "<p>a</p>\n<div>x</div>\n<p>&amp;<p>y</p>\n</p>\n<p>b</p>".toList := by decide +kernel

/-! ### 3. inline markup stays in the text -/

/-- **C04, text level, inline tags and references.**  A text made of inline tokens only -- text runs, `&name;`,
    `&#n;`, and start, end and self-closing tags whose names are not block-level (attributes in all quoting styles) --
    passes the preprocessor unchanged (it is handed on line by line for the inline patterns to deal with), and nothing
    is stashed. -/
theorem C04_text_inline_verbatim (ts : List Tok) (hok : toksOk ts = true) (hin : ts.all inlineTok = true) :
    preprocess (renderToks ts) = some (splitC '\n' (renderToks ts), []) := by
  unfold preprocess
  rw [extract_inline_state ts hok hin]
  simp [cleanText, flatten_map_render]

def exInline : List Tok :=
  [ .text "a *b* ".toList, .open_ "span".toList [⟨" ".toList, "title".toList, .dq "t > u".toList⟩] [],
    .text "c".toList, .close "span".toList, .text " ".toList, .entity "copy".toList, .text " d\n\ne ".toList,
    .selfClose "br".toList [] " ".toList, .charref "169".toList ]

example : toksOk exInline = true := by decide +kernel
example : exInline.all inlineTok = true := by decide +kernel
example : renderToks exInline = "a *b* <span title=\"t > u\">c</span> &copy; d\n\ne <br />&#169;".toList := by decide +kernel

/-! ### 4. the end-to-end model with the text-level preprocessor -/

/-- **The two end-to-end models agree wherever both speak.**  `PipelineH.convertH` (`Model/PipelineH.lean`) is
    `Markdown.convert` with the raw-HTML preprocessor modelled on source text (tokenizer + extractor, HTML stash handed
    on to the inline stage); `Pipeline.convert` models the preprocessor for `<`-free text only (`Extract.extract`) and
    answers `ood` otherwise.  On every source without `<` — any configuration — the two are equal, so every theorem
    about `Pipeline.convert` is a theorem about `convertH`. -/
theorem C04_convertH_agrees (cfg : Pipeline.Cfg) (src : Str) (h : '<' ∉ src) :
    PipelineH.convertH cfg src = Pipeline.convert cfg src :=
  PipelineH.convertH_eq_convert cfg src h

/-- on text without `<` the text-level preprocessor model is `Extract.extract`: nothing is stashed, and character
    references are re-spelled exactly as the `<`-free model says (`&#38x` comes back as `&#38;x`) -/
theorem C04_text_ltfree (s : Str) (h : '<' ∉ s) :
    ∃ st, extractText s = some st ∧ cleanText st = Extract.extract s ∧ st.stash = [] :=
  let ⟨st, h1, h2, h3, _⟩ := PipelineH.extractText_ltfree s h
  ⟨st, h1, h2, h3⟩

example : '<' ∉ "a &amp; b &#38x AT&T &# c; d &".toList := by decide
example : (extractText "a &amp; b &#38x AT&T &# c; d &".toList).map cleanText =
    some "a &amp; b &#38;x AT&T &# c; d &".toList := by decide +kernel
/-- with a raw block in front, `convertH` answers where `Pipeline.convert` is out of domain -/
example : Pipeline.convert {} "<div>*x*</div>\n\n*y*".toList = .ood ∧
    PipelineH.convertH {} "<div>*x*</div>\n\n*y*".toList = .ok "<div>*x*</div>\n\n<p><em>y</em></p>".toList := by
  decide +kernel

/-! ### 5. end to end: the raw block reaches the output verbatim, once, unwrapped -/

/-- **C04, end to end (source text to output text).**  A flat Markdown document `dA` (rules, paragraphs, ATX and Setext
    headings of words and backslash escapes — the sub-grammar of `C01_flat`) in ANY spelling, a blank line, a raw block
    `<name attrs trail> body </name>` at the left margin, a blank line, another flat document `dB`:
    `Markdown.convert` returns the output of `dA`, a line feed, THE BLOCK'S SOURCE TEXT character for character, a
    blank line, the output of `dB`.  So the block is copied verbatim, exactly once, not wrapped in `<p>`, and the
    Markdown syntax inside it (`body` is any token sequence: text with blank lines and Markdown markup, nested
    elements, comments, references) is left untouched, while the Markdown around it is converted as usual.

    Hypotheses on the block beyond those of `C04_text_block_once`:
    * `hsafe`: input normalisation leaves every line of the block alone (no tab, CR, STX, ETX; no line of spaces only);
    * `hfs`: the character behind the tag name is a space or `>` — with a line feed there,
      `RawHtmlPostprocessor.isblocklevel` does not recognise the tag and the block stays inside `<p>…</p>` (F-C04-4). -/
theorem C04_text_end_to_end (dA dB : DocSpec.Doc) (spA spB : DocSpec.Spelling)
    (hwfA : DocSpec.WF dA = true) (hflatA : DocSpec.FlatDoc dA = true)
    (hwfB : DocSpec.WF dB = true) (hflatB : DocSpec.FlatDoc dB = true)
    (name : Str) (attrs : List Attr) (trail : Str) (body : List Tok)
    (hopen : (Tok.open_ name attrs trail).ok = true) (hblock : isBlockLevelTag (lower name) = true)
    (hhr : lower name ≠ hrTag) (hbody : toksOk body = true) (hcl : closesOk (lower name) body = true)
    (hsafe : ∀ l ∈ lines (blockText name attrs trail body), DocParse.lineSafe l = true)
    (hfs : C04E2E.firstSepOk attrs trail = true) :
    PipelineH.convertH {} (DocSpec.print dA spA ++ nn ++ blockText name attrs trail body ++ nn ++ DocSpec.print dB spB) =
      .ok (DocSpec.spec dA ++ ['\n'] ++ (blockText name attrs trail body ++ ['\n']) ++ ['\n'] ++ DocSpec.spec dB) :=
  C04E2E.convertH_flat_block dA dB spA spB hwfA hflatA hwfB hflatB name attrs trail body hopen hblock hhr hbody hcl
    hsafe hfs

/-- the simplest instance, in plain terms: a one-line paragraph `t1` (any characters other than `<`, `&`, tab, CR, STX,
    ETX, no white space at either end; written with every Markdown-special character backslash-escaped), the block, a
    one-line paragraph `t2`:  `<p>t1</p>`, the block's source text, a blank line, `<p>t2</p>` (the paragraph texts
    HTML-escaped). -/
theorem C04_text_end_to_end_para (t1 t2 : Str) (ht1 : DocParse.lineText t1 = true) (ht2 : DocParse.lineText t2 = true)
    (name : Str) (attrs : List Attr) (trail : Str) (body : List Tok)
    (hopen : (Tok.open_ name attrs trail).ok = true) (hblock : isBlockLevelTag (lower name) = true)
    (hhr : lower name ≠ hrTag) (hbody : toksOk body = true) (hcl : closesOk (lower name) body = true)
    (hsafe : ∀ l ∈ lines (blockText name attrs trail body), DocParse.lineSafe l = true)
    (hfs : C04E2E.firstSepOk attrs trail = true) :
    PipelineH.convertH {} (Escape.escAll Generated.escapedChars t1 ++ nn ++ blockText name attrs trail body ++ nn ++
        Escape.escAll Generated.escapedChars t2) =
      .ok ("<p>".toList ++ Ser.escCdata t1 ++ "</p>".toList ++ ['\n'] ++ (blockText name attrs trail body ++ ['\n']) ++
        ['\n'] ++ ("<p>".toList ++ Ser.escCdata t2 ++ "</p>".toList)) :=
  C04E2E.convertH_para_block t1 t2 ht1 ht2 name attrs trail body hopen hblock hhr hbody hcl hsafe hfs

/-- the same for every configuration that keeps what the proof uses (`EscOK`: the usual escapable characters are
    escapable; no character of an HTML placeholder is; default block-level list; XHTML output) and for any blocks
    before and after that are "pieces" in the sense of `Lemmas/DocParse.lean` -/
theorem C04_text_end_to_end_pieces (cfg : Pipeline.Cfg) (hE : DocParse.EscOK cfg.esc) (hF : C04E2E.PhFree cfg.esc)
    (hbl : cfg.blockLevel = TreeProc.defaultBlockLevel) (hfmt : cfg.fmt = .xhtml) (htab : 0 < cfg.tab)
    (A B : List DocParse.Piece) (hA : A ≠ []) (hB : B ≠ [])
    (hPA : ∀ p ∈ A, DocParse.PieceOK cfg.esc cfg.tab p) (hPB : ∀ p ∈ B, DocParse.PieceOK cfg.esc cfg.tab p)
    (name : Str) (attrs : List Attr) (trail : Str) (body : List Tok)
    (hopen : (Tok.open_ name attrs trail).ok = true) (hblock : isBlockLevelTag (lower name) = true)
    (hhr : lower name ≠ hrTag) (hbody : toksOk body = true) (hcl : closesOk (lower name) body = true)
    (hsafe : ∀ l ∈ lines (blockText name attrs trail body), DocParse.lineSafe l = true)
    (hbh : Post.isBlockLevelHtml TreeProc.defaultBlockLevel (blockText name attrs trail body ++ ['\n']) = true) :
    PipelineH.convertH cfg (C04E2E.srcOf A ++ nn ++ blockText name attrs trail body ++ nn ++ C04E2E.srcOf B) =
      .ok (DocParse.joinOut (A.map (·.leaf)) ++ ['\n'] ++ (blockText name attrs trail body ++ ['\n']) ++ ['\n'] ++
        DocParse.joinOut (B.map (·.leaf))) :=
  C04E2E.convertH_block cfg hE hF hbl hfmt htab A B hA hB hPA hPB name attrs trail body hopen hblock hhr hbody hcl
    hsafe hbh

/-- **C04, end to end, units.**  The same for a comment, a processing instruction, a `<!DOCTYPE …>` declaration or
    `<hr>` (any `Unit`) as a block of its own between flat Markdown documents. -/
theorem C04_text_end_to_end_unit (u : Unit) (hu : u.OK) (dA dB : DocSpec.Doc) (spA spB : DocSpec.Spelling)
    (hwfA : DocSpec.WF dA = true) (hflatA : DocSpec.FlatDoc dA = true)
    (hwfB : DocSpec.WF dB = true) (hflatB : DocSpec.FlatDoc dB = true)
    (hsafe : ∀ l ∈ lines u.text, DocParse.lineSafe l = true)
    (hbh : Post.isBlockLevelHtml TreeProc.defaultBlockLevel (u.text ++ ['\n']) = true) :
    PipelineH.convertH {} (DocSpec.print dA spA ++ nn ++ u.text ++ nn ++ DocSpec.print dB spB) =
      .ok (DocSpec.spec dA ++ ['\n'] ++ (u.text ++ ['\n']) ++ ['\n'] ++ DocSpec.spec dB) :=
  C04E2E.convertH_flat_unit u hu dA dB spA spB hwfA hflatA hwfB hflatB hsafe hbh

/-- a comment between flat Markdown documents reaches the output verbatim -/
theorem C04_text_end_to_end_comment (c : Str) (hc : Py.contains c ['-', '-'] = false)
    (dA dB : DocSpec.Doc) (spA spB : DocSpec.Spelling)
    (hwfA : DocSpec.WF dA = true) (hflatA : DocSpec.FlatDoc dA = true)
    (hwfB : DocSpec.WF dB = true) (hflatB : DocSpec.FlatDoc dB = true)
    (hsafe : ∀ l ∈ lines (Tok.comment c).render, DocParse.lineSafe l = true) :
    PipelineH.convertH {} (DocSpec.print dA spA ++ nn ++ (Tok.comment c).render ++ nn ++ DocSpec.print dB spB) =
      .ok (DocSpec.spec dA ++ ['\n'] ++ ((Tok.comment c).render ++ ['\n']) ++ ['\n'] ++ DocSpec.spec dB) :=
  C04_text_end_to_end_unit (commentUnit c) (commentUnit_ok c hc) dA dB spA spB hwfA hflatA hwfB hflatB hsafe
    (C04E2E.isBlockLevelHtml_bang _ '!' (Or.inl rfl) _)

/-- a processing instruction between flat Markdown documents reaches the output verbatim -/
theorem C04_text_end_to_end_pi (b : Str) (hb : Py.contains b ['?', '>'] = false)
    (dA dB : DocSpec.Doc) (spA spB : DocSpec.Spelling)
    (hwfA : DocSpec.WF dA = true) (hflatA : DocSpec.FlatDoc dA = true)
    (hwfB : DocSpec.WF dB = true) (hflatB : DocSpec.FlatDoc dB = true)
    (hsafe : ∀ l ∈ lines ('<' :: '?' :: b ++ ['?', '>']), DocParse.lineSafe l = true) :
    PipelineH.convertH {} (DocSpec.print dA spA ++ nn ++ ('<' :: '?' :: b ++ ['?', '>']) ++ nn ++ DocSpec.print dB spB) =
      .ok (DocSpec.spec dA ++ ['\n'] ++ (('<' :: '?' :: b ++ ['?', '>']) ++ ['\n']) ++ ['\n'] ++ DocSpec.spec dB) :=
  C04_text_end_to_end_unit (piUnit b) (piUnit_ok b hb) dA dB spA spB hwfA hflatA hwfB hflatB hsafe
    (C04E2E.isBlockLevelHtml_bang _ '?' (Or.inr rfl) _)

example : ∀ l ∈ lines (Tok.comment " *x*\n\n# h <div> - ".toList).render, DocParse.lineSafe l = true := by decide +kernel

/-- **C04, end to end, the block anywhere.**  `before` and `after` are each either absent or a well-formed flat
    Markdown document in some spelling (`flatOk`); the source is `before ¶`, the block, `¶ after` (`srcBefore`,
    `srcAfter`), the output is the output of `before` and a line feed, the block's source text verbatim, a blank line
    and the output of `after` (`outBefore`, `outAfter`).  With both absent: **a raw block alone converts to itself.** -/
theorem C04_text_end_to_end_anywhere (before after : Option (DocSpec.Doc × DocSpec.Spelling))
    (hb4 : C04E2E.flatOk before = true) (haf : C04E2E.flatOk after = true)
    (name : Str) (attrs : List Attr) (trail : Str) (body : List Tok)
    (hopen : (Tok.open_ name attrs trail).ok = true) (hblock : isBlockLevelTag (lower name) = true)
    (hhr : lower name ≠ hrTag) (hbody : toksOk body = true) (hcl : closesOk (lower name) body = true)
    (hsafe : ∀ l ∈ lines (blockText name attrs trail body), DocParse.lineSafe l = true)
    (hfs : C04E2E.firstSepOk attrs trail = true) :
    PipelineH.convertH {} (C04E2E.srcBefore before ++ blockText name attrs trail body ++ C04E2E.srcAfter after) =
      .ok (C04E2E.outBefore before ++ blockText name attrs trail body ++ C04E2E.outAfter after) :=
  C04E2E.convertH_flat_block_anywhere before after hb4 haf name attrs trail body hopen hblock hhr hbody hcl hsafe hfs

/-- a raw block that is the whole document -/
theorem C04_text_block_alone (name : Str) (attrs : List Attr) (trail : Str) (body : List Tok)
    (hopen : (Tok.open_ name attrs trail).ok = true) (hblock : isBlockLevelTag (lower name) = true)
    (hhr : lower name ≠ hrTag) (hbody : toksOk body = true) (hcl : closesOk (lower name) body = true)
    (hsafe : ∀ l ∈ lines (blockText name attrs trail body), DocParse.lineSafe l = true)
    (hfs : C04E2E.firstSepOk attrs trail = true) :
    PipelineH.convertH {} (blockText name attrs trail body) = .ok (blockText name attrs trail body) := by
  have := C04_text_end_to_end_anywhere none none rfl rfl name attrs trail body hopen hblock hhr hbody hcl hsafe hfs
  simpa [C04E2E.srcBefore, C04E2E.srcAfter, C04E2E.outBefore, C04E2E.outAfter] using this

/-- the same for units (comment, processing instruction, declaration, `<hr>`) -/
theorem C04_text_end_to_end_unit_anywhere (before after : Option (DocSpec.Doc × DocSpec.Spelling))
    (hb4 : C04E2E.flatOk before = true) (haf : C04E2E.flatOk after = true)
    (u : Unit) (hu : u.OK) (hsafe : ∀ l ∈ lines u.text, DocParse.lineSafe l = true)
    (hbh : Post.isBlockLevelHtml TreeProc.defaultBlockLevel (u.text ++ ['\n']) = true)
    (hbe : u.text.getLast? = some '>') :
    PipelineH.convertH {} (C04E2E.srcBefore before ++ u.text ++ C04E2E.srcAfter after) =
      .ok (C04E2E.outBefore before ++ u.text ++ C04E2E.outAfter after) :=
  C04E2E.convertH_flat_unit_anywhere before after hb4 haf u hu hsafe hbh hbe

example : C04E2E.flatOk (some (DocParse.sampleFlat, ⟨[2, 3, 3, 1, 4, 2, 2, 2, 5, 3, 10, 1]⟩)) = true ∧
    C04E2E.flatOk none = true := by decide

/-- `convert("<div class=…>…</div>") = the same text` for the block of section 2 -/
example : PipelineH.convertH {} (blockText exName exAttrs [] exBody) = .ok (blockText exName exAttrs [] exBody) :=
  C04_text_block_alone exName exAttrs [] exBody (by decide +kernel) (by decide) (by decide) (by decide +kernel)
    (by decide +kernel) (by decide +kernel) (by decide)

/-! #### the hypotheses are satisfiable (the block of section 2; `DocParse.sampleFlat` of `Props/C01.lean` has every
    kind of flat block) -/

example : ∀ l ∈ lines (blockText exName exAttrs [] exBody), DocParse.lineSafe l = true := by decide +kernel
example : C04E2E.firstSepOk exAttrs [] = true := by decide
example : DocParse.lineText "one *not em* 2 > 1".toList = true ∧ DocParse.lineText "two".toList = true := by decide
example : Escape.escAll Generated.escapedChars "one *not em* 2 > 1".toList = "one \\*not em\\* 2 \\> 1".toList := by
  decide

/-- the instance of `C04_text_end_to_end_para`, with the strings spelled out -/
example : PipelineH.convertH {}
    ("one \\*not em\\* 2 \\> 1\n\n<div class=\"a b > c\"\n  id='x' hidden data-x=v1>\n*md* # not a heading\n\n<P>x &amp;&#x41; y</p>" ++
     "<!-- </div> --><br><img src=\"s\" /></span>\n</div>\n\ntwo").toList =
    .ok ("<p>one *not em* 2 &gt; 1</p>\n<div class=\"a b > c\"\n  id='x' hidden data-x=v1>\n*md* # not a heading\n\n" ++
      "<P>x &amp;&#x41; y</p><!-- </div> --><br><img src=\"s\" /></span>\n</div>\n\n<p>two</p>").toList := by
  have h := C04_text_end_to_end_para "one *not em* 2 > 1".toList "two".toList (by decide) (by decide) exName exAttrs []
    exBody (by decide +kernel) (by decide) (by decide) (by decide +kernel) (by decide +kernel) (by decide +kernel)
    (by decide)
  have e1 : Escape.escAll Generated.escapedChars "one *not em* 2 > 1".toList ++ nn ++ blockText exName exAttrs [] exBody ++
      nn ++ Escape.escAll Generated.escapedChars "two".toList =
      ("one \\*not em\\* 2 \\> 1\n\n<div class=\"a b > c\"\n  id='x' hidden data-x=v1>\n*md* # not a heading\n\n<P>x &amp;&#x41; y</p>" ++
       "<!-- </div> --><br><img src=\"s\" /></span>\n</div>\n\ntwo").toList := by decide +kernel
  have e2 : "<p>".toList ++ Ser.escCdata "one *not em* 2 > 1".toList ++ "</p>".toList ++ ['\n'] ++
      (blockText exName exAttrs [] exBody ++ ['\n']) ++ ['\n'] ++
      ("<p>".toList ++ Ser.escCdata "two".toList ++ "</p>".toList) =
      ("<p>one *not em* 2 &gt; 1</p>\n<div class=\"a b > c\"\n  id='x' hidden data-x=v1>\n*md* # not a heading\n\n" ++
        "<P>x &amp;&#x41; y</p><!-- </div> --><br><img src=\"s\" /></span>\n</div>\n\n<p>two</p>").toList := by decide +kernel
  rw [e1, e2] at h
  exact h

/-- the boundary `hfs` (F-C04-4): with a line feed directly behind the tag name the stash entry is not recognised
    as block-level -/
example : C04E2E.firstSepOk [⟨"\n".toList, "id".toList, .dq "x".toList⟩] [] = false ∧
    Post.isBlockLevelHtml TreeProc.defaultBlockLevel "<div\nid=\"x\">y</div>\n".toList = false := by decide +kernel

end MdVerif.HtmlTok
