/-
C04 — Raw HTML passes through verbatim and unwrapped (proof, TEXT level: the preprocessor on source text).

Only property statements live here.  Models: `MdVerif/Model/HtmlTok.lean` (the tokenizer `html.parser.HTMLParser.goahead`
under the patches and overrides of `markdown/htmlparser.py`, run together with the extractor callbacks; it answers
`none` outside its domain `TokDomain`), `MdVerif/Model/ExtractEv.lean` (the callbacks of `HTMLExtractor`), composed in
`MdVerif/Model/ExtractText.lean` (`extractText`, `preprocess` = `HtmlBlockPreprocessor.run`).  Both are tied to the real
code by differential testing (`harness/corr/htmltok.py`: event lists fact by fact, output lines and stash;
`harness/corr/extract.py`).  Grammar of the statements: `MdVerif/Spec/HtmlFrag.lean` (`Tok`, `Attr`, `renderToks`,
`toksOk`, `closesOk`, `blockText`).  Helper lemmas: `MdVerif/Lemmas/HtmlTokPos.lean` (line bookkeeping),
`HtmlTokTag.lean` (start-tag recognisers), `HtmlTokGo.lean` (one loop iteration per token), `HtmlTokDoc.lean`.

What is proved, for source TEXT of unbounded size:
* `C04_text_domain`: every sequence of well-formed tokens (text runs, `&name;`, `&#n;`, comments, start tags with
  attributes in all four quoting styles, end tags, self-closing tags; any nesting, balanced or not) is inside the
  model's domain, and the tokenizer reads it back token by token: the source texts of the events, concatenated, are
  the document.
* `C04_text_block_once`: a block element `<tag attrs> body </tag>` (tag block-level; `body` any token sequence that
  keeps the tag stack of the code non-empty: nested elements block or inline, unclosed `<br>`/`<img>`/`<li>`, stray end
  tags, comments, references, text with blank lines and Markdown syntax) standing between two blank lines, after a
  plain paragraph text `p1` and before `p2`: the preprocessor hands on the text in which exactly the block's text is
  replaced by `"\n" ++ placeholder 0 ++ "\n\n"`, and the stash holds exactly one entry, the block's source text
  character for character, followed by the `"\n"` that ends its last line.  Nothing else of the document changes.
* `C04_text_block_state`: the same with the extractor's whole final state (no raw mode left over, empty `_cache`).
* `C04_text_inline_verbatim`: a text made of inline tokens only (text, references, start / end / self-closing tags
  whose names are not block-level) passes the preprocessor unchanged, and nothing is stashed.

Outside these statements, and reproduced by the model where it is in its domain (the model mirrors the code):
F-C04-3 (indented raw block under a paragraph line: `p1` must be followed by a blank line here), F-C04-6 (text behind
the closing tag on the same line: the block must be followed by a blank line here); the known tokenizer defects
F-C04-1 / F-C04-2 are outside `TokDomain`.  A comment whose closing `--` and `>` are separated by white space
(`<!-- c --  >`) is re-spelled `<!-- c -->` by `handle_comment`; the grammar has comments closed by `-->` only.
-/
import MdVerif.Model.ExtractText
import MdVerif.Spec.HtmlFrag
import MdVerif.Lemmas.HtmlTokDoc
import MdVerif.Lemmas.PipelineH

namespace MdVerif.HtmlTok
open Py Extract HtmlFrag

/-! ### 1. token sequences are in the domain -/

/-- **C04, text level, domain.**  The text of any sequence of well-formed tokens (`toksOk`: each token satisfies its
    side condition `Tok.ok`, and text runs are maximal) lies in the domain of the tokenizer model; the event list ends
    with the `close` event, and the source texts of the events before it, concatenated, are the text itself (the
    tokenizer neither drops nor invents a character). -/
theorem C04_text_domain (ts : List Tok) (h : toksOk ts = true) :
    TokDomain (renderToks ts) ∧
    ∃ evs, events (renderToks ts) = some (evs ++ [.close []]) ∧ evsText evs = renderToks ts := by
  have hev := events_of_toks ts h
  refine ⟨by unfold TokDomain; rw [hev]; rfl, _, hev, evsText_toksEvents _ ts [] h⟩

/-! ### 2. a raw block between paragraphs -/

/-- **C04, text level, block elements.**  For the document `p1 ¶ block ¶ p2`, where `p1`, `p2` are plain text (no `<`,
    no `&`; any other characters, several lines and paragraphs, or empty), `¶` is a blank line (`"\n\n"`), and `block`
    is `<name attrs trail> body </name>` with `name` a block-level tag other than `hr`, `script`, `style`, the
    preprocessor (`HtmlBlockPreprocessor.run`)
    * is inside the modelled domain,
    * returns the lines of `p1 ¶ "\n" placeholder(0) "\n\n" ¶ p2`: exactly the block's text is replaced, by one
      placeholder paragraph, and nothing of the block's text (Markdown syntax, blank lines, nested tags, references)
      remains in the text handed to the block parser,
    * leaves exactly one entry in the stash: the block's source text, verbatim, plus the `"\n"` ending its last line. -/
theorem C04_text_block_once (p1 p2 name : Str) (attrs : List Attr) (trail : Str) (body : List Tok)
    (hp1 : plainOk p1 = true) (hp2 : plainOk p2 = true)
    (hopen : (Tok.open_ name attrs trail).ok = true) (hblock : isBlockLevelTag (lower name) = true)
    (hhr : lower name ≠ hrTag) (hbody : toksOk body = true) (hcl : closesOk (lower name) body = true) :
    preprocess (p1 ++ nn ++ blockText name attrs trail body ++ nn ++ p2) =
      some (splitC '\n' (p1 ++ nn ++ ('\n' :: placeholder 0 ++ nn) ++ nn ++ p2),
            [blockText name attrs trail body ++ ['\n']]) := by
  unfold preprocess
  rw [extract_block_state p1 p2 name attrs trail body hp1 hp2 hopen hblock hhr hbody hcl]
  simp [cleanText, nn]

/-- the same, with the whole final state of the extractor: raw mode is left, the tag stack and `_cache` are empty,
    `cleandoc` consists of five pieces -/
theorem C04_text_block_state (p1 p2 name : Str) (attrs : List Attr) (trail : Str) (body : List Tok)
    (hp1 : plainOk p1 = true) (hp2 : plainOk p2 = true)
    (hopen : (Tok.open_ name attrs trail).ok = true) (hblock : isBlockLevelTag (lower name) = true)
    (hhr : lower name ≠ hrTag) (hbody : toksOk body = true) (hcl : closesOk (lower name) body = true) :
    extractText (p1 ++ nn ++ blockText name attrs trail body ++ nn ++ p2) =
      some { inraw := false, intail := false, stack := [], cache := [],
             cleandoc := [p1 ++ nn, ['\n'], placeholder 0, nn, nn ++ p2],
             stash := [blockText name attrs trail body ++ ['\n']] } :=
  extract_block_state p1 p2 name attrs trail body hp1 hp2 hopen hblock hhr hbody hcl

/-! #### the hypotheses are satisfiable: a block with attributes in all quoting styles, Markdown-looking text with a
    blank line, a nested block element, an entity, a comment holding a closing tag, an unclosed `<br>`, a
    self-closing tag, a stray end tag -/

def exName : Str := "div".toList
def exAttrs : List Attr :=
  [ ⟨" ".toList, "class".toList, .dq "a b > c".toList⟩, ⟨"\n  ".toList, "id".toList, .sq "x".toList⟩,
    ⟨" ".toList, "hidden".toList, .none⟩, ⟨" ".toList, "data-x".toList, .bare "v1".toList⟩ ]
def exBody : List Tok :=
  [ .text "\n*md* # not a heading\n\n".toList, .open_ "P".toList [] [], .text "x ".toList, .entity "amp".toList,
    .charref "x41".toList, .text " y".toList, .close "p".toList, .comment " </div> ".toList,
    .open_ "br".toList [] [], .selfClose "img".toList [⟨" ".toList, "src".toList, .dq "s".toList⟩] " ".toList,
    .close "span".toList, .text "\n".toList ]

example : plainOk "first paragraph\nsecond line".toList = true := by decide
example : (Tok.open_ exName exAttrs []).ok = true := by decide +kernel
example : isBlockLevelTag (lower exName) = true := by decide
example : lower exName ≠ hrTag := by decide
example : toksOk exBody = true := by decide +kernel
example : closesOk (lower exName) exBody = true := by decide +kernel
example : blockText exName exAttrs [] exBody =
    ("<div class=\"a b > c\"\n  id='x' hidden data-x=v1>\n*md* # not a heading\n\n<P>x &amp;&#x41; y</p>" ++
     "<!-- </div> --><br><img src=\"s\" /></span>\n</div>").toList := by decide +kernel
/-- the theorem's instance, evaluated by the kernel on the model -/
example : preprocess ("one".toList ++ nn ++ blockText exName exAttrs [] exBody ++ nn ++ "two".toList) =
    some (splitC '\n' ("one".toList ++ nn ++ ('\n' :: placeholder 0 ++ nn) ++ nn ++ "two".toList),
          [blockText exName exAttrs [] exBody ++ ['\n']]) := by decide +kernel

/-- the boundary `closesOk`: a body that closes the block itself (`</div>` inside) is excluded -- the raw block of
    the code ends at the FIRST end tag that empties the tag stack -/
example : closesOk (lower exName) [.text "a".toList, .close "div".toList, .text "b".toList] = false := by decide

/-! ### 3. inline markup stays in the text -/

/-- **C04, text level, inline tags and references.**  A text made of inline tokens only -- text runs, `&name;`,
    `&#n;`, and start, end and self-closing tags whose names are not block-level (attributes in all quoting styles) --
    passes the preprocessor unchanged (it is handed on line by line for the inline patterns to deal with), and nothing
    is stashed. -/
theorem C04_text_inline_verbatim (ts : List Tok) (hok : toksOk ts = true) (hin : ts.all inlineTok = true) :
    preprocess (renderToks ts) = some (splitC '\n' (renderToks ts), []) := by
  unfold preprocess
  rw [extract_inline_state ts hok hin]
  simp [cleanText, flatten_map_render]

def exInline : List Tok :=
  [ .text "a *b* ".toList, .open_ "span".toList [⟨" ".toList, "title".toList, .dq "t > u".toList⟩] [],
    .text "c".toList, .close "span".toList, .text " ".toList, .entity "copy".toList, .text " d\n\ne ".toList,
    .selfClose "br".toList [] " ".toList, .charref "169".toList ]

example : toksOk exInline = true := by decide +kernel
example : exInline.all inlineTok = true := by decide +kernel
example : renderToks exInline = "a *b* <span title=\"t > u\">c</span> &copy; d\n\ne <br />&#169;".toList := by decide +kernel

/-! ### 4. the end-to-end model with the text-level preprocessor -/

/-- **The two end-to-end models agree wherever both speak.**  `PipelineH.convertH` (`Model/PipelineH.lean`) is
    `Markdown.convert` with the raw-HTML preprocessor modelled on source text (tokenizer + extractor, HTML stash handed
    on to the inline stage); `Pipeline.convert` models the preprocessor for `<`-free text only (`Extract.extract`) and
    answers `ood` otherwise.  On every source without `<` — any configuration — the two are equal, so every theorem
    about `Pipeline.convert` is a theorem about `convertH`. -/
theorem C04_convertH_agrees (cfg : Pipeline.Cfg) (src : Str) (h : '<' ∉ src) :
    PipelineH.convertH cfg src = Pipeline.convert cfg src :=
  PipelineH.convertH_eq_convert cfg src h

/-- on text without `<` the text-level preprocessor model is `Extract.extract`: nothing is stashed, and character
    references are re-spelled exactly as the `<`-free model says (`&#38x` comes back as `&#38;x`) -/
theorem C04_text_ltfree (s : Str) (h : '<' ∉ s) :
    ∃ st, extractText s = some st ∧ cleanText st = Extract.extract s ∧ st.stash = [] :=
  let ⟨st, h1, h2, h3, _⟩ := PipelineH.extractText_ltfree s h
  ⟨st, h1, h2, h3⟩

example : '<' ∉ "a &amp; b &#38x AT&T &# c; d &".toList := by decide
example : (extractText "a &amp; b &#38x AT&T &# c; d &".toList).map cleanText =
    some "a &amp; b &#38;x AT&T &# c; d &".toList := by decide +kernel
/-- with a raw block in front, `convertH` answers where `Pipeline.convert` is out of domain -/
example : Pipeline.convert {} "<div>*x*</div>\n\n*y*".toList = .ood ∧
    PipelineH.convertH {} "<div>*x*</div>\n\n*y*".toList = .ok "<div>*x*</div>\n\n<p><em>y</em></p>".toList := by
  decide +kernel

end MdVerif.HtmlTok
