/-
C06 — "Every letter of running text in the source appears in the rendered text exactly once and in the same order:
conversion only removes markup characters and adds tags, it never drops, repeats or moves the reader's words, whatever
markup surrounds them."  Extension of `Props/C06.lean` (domain without `[ & < >`) to paragraphs with
**reference-style links**, where "text legitimately moves into attributes or is consumed as a definition"
(quantifier of the property).

**What "visible text" means here.**  The document is: any reference definitions, a paragraph, any reference
definitions (`docOf before line after`).  The paragraph is a line `c₀ [t₁][l₁] c₁ … [tₘ][lₘ] cₘ` (`printLine`).

* VISIBLE: the contents `cᵢ` and the link TEXTS `tⱼ` — `visibleLine c₀ us st`: the line as printed, with the
  brackets and the labels left out.
* NOT visible: the labels `lⱼ` at the place of use and what they resolve to — the destination becomes the value of
  the `href` attribute, the title the value of the `title` attribute; attribute values are not text content
  (`visibleText` of `Lemmas/C06Compose/Trees.lean`: tags and attributes contribute nothing).
* NOT visible at all: a reference DEFINITION (`before`, `after`): it produces no output (C15), so none of its
  letters — label, destination, title — reaches the rendered text.

`C06_links`: for such a document `convert` returns an `out` that the strict reader of `Spec/Reader.lean` accepts, and
`visibleLetters L fmt out = letters L (visibleLine c₀ us st)`: the letters of the visible part of the source, each
once, in order; none of the letters of labels, destinations, titles, definitions.  `L` is any predicate "is a letter"
with `Flat.LetterClass L` (not white space, digit, `*`, `_`, backtick, backslash, `STX`, `ETX`); the contents and link
texts are of the `mixRun` kind (words, escapes, code spans, `em`/`strong`: `Props/C15Text.lean`, whose theorem
`C15_text_markup` gives the output), the line has no `>` besides the hypotheses of that theorem (so that no code body
is changed by `code_escape`: with `>` in a code span the TREE text gains the letters of `&gt;`,
`C06_gt_in_code_adds_letters`).  `C06_links_chunks`: the same at the level of chunks, any escapable set.

**Inline links** (`C06_inline_links`): the paragraph is `c₀ [t₁](d₁) c₁ … [tₘ](dₘ) cₘ` (`printLineI`) with simple
destinations `dⱼ` = `url` or `url "title"` / `url 'title'` (`DestOK`: `url` of non-space destination characters of
`Spec/NoCtlC.lean` (`destChar`, the C10c domain) without `!`, not starting with `<`; the title of such characters and
blanks, not empty, no blank at either end).  Visible: the contents and the link texts (`visibleLineI`); not visible:
`(destination "title")`.  `C06_inline_links_output` gives the output itself (`href` = the destination, `title` = the
title text, the link text rendered inside `<a>`), `C06_getLink_dest` what `LinkInlineProcessor.getLink` returns on such
a destination.  Proof: `Lemmas/RefTextInl*.lean` (the reference pattern rejects `[text](`, the link pattern takes the
links out left to right with the nested `__handleInline` on the link text; the later stages are those of the
reference case), `Lemmas/LettersLinksInl.lean`.

**Either output format** (`C06_links_fmt`, `C06_inline_links_fmt`, `C06_inline_links_output_fmt`): the same
theorems without the hypothesis `cfg.fmt = .xhtml` — the reader `Ser.readForest cfg.fmt` and `visibleLetters … cfg.fmt`
are those of the format; in the html format a boolean attribute (`href` with the value `href`, `title` with the value
`title`) is written as the bare name, and is still no text (`Lemmas/RefTextFmt.lean`, `Lemmas/RefTextFmtSpec.lean`).

Helper lemmas: `Lemmas/LettersLinks.lean` (text content of the document tree, letters of a chunk),
`Lemmas/LettersLinksDoc.lean` (the tree is a vocabulary tree without `&` in its texts; `visibleLetters_inner` of C06),
`Lemmas/LettersLinksSpec.lean` (bridge to `printInlines`).
-/
import MdVerif.Lemmas.LettersLinksSpec
import MdVerif.Lemmas.LettersLinksInl
import MdVerif.Props.C15Text
import MdVerif.Props.C06

namespace MdVerif.RefText
open Py Inline InlineRef RefDef

/-- **C06 with reference-style links.**  Definitions, the paragraph `c₀ [t₁][l₁] c₁ … [tₘ][lₘ] cₘ`, definitions
    (hypotheses as in `C15_text_markup`, plus: no `>` in the line).  The output is well-formed and its visible
    letters are the letters of the visible part of the source line (`visibleLine`: contents and link texts) — the
    labels, the destinations and titles they stand for, and the definitions contribute nothing. -/
theorem C06_links {L : Char → Bool} (hL : Flat.LetterClass L) (cfg : Pipeline.Cfg) (hfmt : cfg.fmt = .xhtml)
    (hbl : cfg.blockLevel = TreeProc.defaultBlockLevel) (htab : 0 < cfg.tab) (hesc : cfg.esc = DocParse2.ESC)
    (before after : List DefSpec) (hb : ∀ d ∈ before, d.ok cfg.tab = true)
    (ha : ∀ d ∈ after, d.ok cfg.tab = true) (c0 : List DocSpec.Inline) (us : List MUse) (st : DocSpec.PSt)
    (hne : us ≠ []) (h0 : mixOK c0 = true) (hus : ∀ u ∈ us, u.ok = true)
    (hlook : ∀ u ∈ us, Block.lookupRef ((before ++ after).map DefSpec.entry) (normUse u.label) = some (u.url, u.title))
    (hstart : startPlain (printLine c0 us st) = true) (hchars : (printLine c0 us st).all lineCh = true)
    (hgt : '>' ∉ printLine c0 us st) (hnoref : Block.refMatchAt (printLine c0 us st) 0 = none) :
    ∃ out, Pipeline.convert cfg (docOf before (printLine c0 us st) after) = .ok out ∧
      (Ser.readForest cfg.fmt out).isSome = true ∧
      C06.visibleLetters L cfg.fmt out = Flat.letters L (visibleLine c0 us st) :=
  letters_mixLine hL cfg hfmt hbl htab hesc before after hb ha c0 us st hne h0 hus hlook hstart hchars hgt hnoref

/-- the visible line, spelled out: the printed contents and link texts in order (the state of the spelling threaded
    as in `printLine`) -/
theorem C06_visibleLine_spec (c0 : List DocSpec.Inline) (u : MUse) (r : List MUse) (st : DocSpec.PSt) :
    visibleLine c0 [] st = (DocSpec.printInlines none true true c0 st).1 ∧
    (visUses (u :: r) st).1 =
      (DocSpec.printInlines none true true u.text st).1 ++
        ((DocSpec.printInlines none true true u.after (DocSpec.printInlines none true true u.text st).2).1 ++
          (visUses r (DocSpec.printInlines none true true u.after
            (DocSpec.printInlines none true true u.text st).2).2).1) :=
  ⟨by simp [visibleLine, visUses], rfl⟩

/-- **The same at chunk level**: `lineRaw` is the source line, `visibleSrc` its visible part (the sources of the
    chunks `C₀, T₁, C₁, …`), any escapable set with `EscOK`; the code bodies have none of `&`, `<`, `>`
    (`Chunk.CodeClean`). -/
theorem C06_links_chunks {L : Char → Bool} (hL : Flat.LetterClass L) (cfg : Pipeline.Cfg) (hfmt : cfg.fmt = .xhtml)
    (hbl : cfg.blockLevel = TreeProc.defaultBlockLevel) (htab : 0 < cfg.tab) (hE : DocParse.EscOK cfg.esc)
    (hrb : ']' ∈ cfg.esc) (before after : List DefSpec) (hb : ∀ d ∈ before, d.ok cfg.tab = true)
    (ha : ∀ d ∈ after, d.ok cfg.tab = true) (C0 : Chunk) (us : List RUse) (hne : us ≠ [])
    (h0 : ChunkOK cfg.esc C0) (hus : ∀ u ∈ us, UseSpec cfg.esc (before ++ after) u)
    (hc0 : C0.CodeClean) (hcu : ∀ u ∈ us, u.T.CodeClean ∧ u.C.CodeClean)
    (hstart : startPlain (lineRaw cfg.esc C0 us) = true) (hchars : (lineRaw cfg.esc C0 us).all lineCh = true)
    (hnoref : Block.refMatchAt (lineRaw cfg.esc C0 us) 0 = none) :
    ∃ out, Pipeline.convert cfg (docOf before (lineRaw cfg.esc C0 us) after) = .ok out ∧
      (Ser.readForest cfg.fmt out).isSome = true ∧
      C06.visibleLetters L cfg.fmt out = Flat.letters L (visibleSrc cfg.esc C0 us) :=
  letters_line_conv hL cfg hfmt hbl htab hE hrb before after hb ha C0 us hne h0 hus hc0 hcu hstart hchars hnoref

/-- **the text content of the document tree**: the contents and the link texts in order — the step where the labels,
    destinations and titles drop out (they are in no text or tail of the tree: `href`/`title` attribute values) -/
theorem C06_links_tree_content (C0 : Chunk) (us : List RUse) :
    Flat.content (pFin C0 us) = C0.content ++ usContent us := content_pFin C0 us

/-- **the letters of a chunk's source are the letters of its text content**: escapes, code fences and padding,
    emphasis delimiters are no letters -/
theorem C06_chunk_letters {L : Char → Bool} (hL : Flat.LetterClass L) (esc : List Char) (c : Chunk)
    (hc : c.CodeClean) (hok : DocParse2.MSegsOK c.segs) :
    Flat.letters L (c.raw esc) = Flat.letters L c.content := letters_chunk hL esc c hc hok

/-! ### inline links -/

/-- **C06 with inline links.**  Any definitions around (they are not used), the paragraph
    `c₀ [t₁](d₁) c₁ … [tₘ](dₘ) cₘ`: contents and link texts of the `mixRun` kind under any spelling, simple
    destinations (`MLink.ok`), no `>` in the line.  The output is well-formed and its visible letters are the letters
    of the visible part of the source line (`visibleLineI`: contents and link texts) — destinations and titles
    contribute nothing. -/
theorem C06_inline_links {L : Char → Bool} (hL : Flat.LetterClass L) (cfg : Pipeline.Cfg) (hfmt : cfg.fmt = .xhtml)
    (hbl : cfg.blockLevel = TreeProc.defaultBlockLevel) (htab : 0 < cfg.tab) (hesc : cfg.esc = DocParse2.ESC)
    (before after : List DefSpec) (hb : ∀ d ∈ before, d.ok cfg.tab = true)
    (ha : ∀ d ∈ after, d.ok cfg.tab = true) (c0 : List DocSpec.Inline) (ls : List MLink) (st : DocSpec.PSt)
    (hne : ls ≠ []) (h0 : mixOK c0 = true) (hls : ∀ u ∈ ls, u.ok = true)
    (hstart : startPlain (printLineI c0 ls st) = true) (hchars : (printLineI c0 ls st).all lineCh = true)
    (hgt : '>' ∉ printLineI c0 ls st) (hnoref : Block.refMatchAt (printLineI c0 ls st) 0 = none) :
    ∃ out, Pipeline.convert cfg (docOf before (printLineI c0 ls st) after) = .ok out ∧
      (Ser.readForest cfg.fmt out).isSome = true ∧
      C06.visibleLetters L cfg.fmt out = Flat.letters L (visibleLineI c0 ls st) :=
  letters_mixLineI hL cfg hfmt hbl htab hesc before after hb ha c0 ls st hne h0 hls hstart hchars hgt hnoref

/-- **the output for a line with inline links**: the contents rendered as the syntax rules say, each link as
    `<a href="url" title="title">` + the rendered link text + `</a>` (`specLinks`) -/
theorem C06_inline_links_output (cfg : Pipeline.Cfg) (hfmt : cfg.fmt = .xhtml)
    (hbl : cfg.blockLevel = TreeProc.defaultBlockLevel) (htab : 0 < cfg.tab) (hesc : cfg.esc = DocParse2.ESC)
    (before after : List DefSpec) (hb : ∀ d ∈ before, d.ok cfg.tab = true)
    (ha : ∀ d ∈ after, d.ok cfg.tab = true) (c0 : List DocSpec.Inline) (ls : List MLink) (st : DocSpec.PSt)
    (hne : ls ≠ []) (h0 : mixOK c0 = true) (hls : ∀ u ∈ ls, u.ok = true)
    (hstart : startPlain (printLineI c0 ls st) = true) (hchars : (printLineI c0 ls st).all lineCh = true)
    (hnoref : Block.refMatchAt (printLineI c0 ls st) 0 = none) :
    Pipeline.convert cfg (docOf before (printLineI c0 ls st) after) =
      .ok ("<p>".toList ++ (DocSpec.specInlines c0 ++ specLinks ls) ++ "</p>".toList) :=
  convert_mixLineI cfg hfmt hbl htab hesc before after hb ha c0 ls st hne h0 hls hstart hchars hnoref

/-- the rendering of the links, spelled out -/
theorem C06_specLinks_spec (u : MLink) (r : List MLink) :
    specLinks [] = [] ∧
    specLinks (u :: r) = ("<a href=\"".toList ++ Ser.escAttrHtml u.url ++ ['"'] ++
        InlineRef.titleAttr (u.dtitle.map (·.2)) ++ ['>']) ++
      (DocSpec.specInlines u.text ++ ("</a>".toList ++ DocSpec.specInlines u.after)) ++ specLinks r :=
  ⟨rfl, rfl⟩

/-! ### either output format -/

/-- **C06 with reference-style links, either output format** (`C06_links` without `cfg.fmt = .xhtml`) -/
theorem C06_links_fmt {L : Char → Bool} (hL : Flat.LetterClass L) (cfg : Pipeline.Cfg)
    (hbl : cfg.blockLevel = TreeProc.defaultBlockLevel) (htab : 0 < cfg.tab) (hesc : cfg.esc = DocParse2.ESC)
    (before after : List DefSpec) (hb : ∀ d ∈ before, d.ok cfg.tab = true)
    (ha : ∀ d ∈ after, d.ok cfg.tab = true) (c0 : List DocSpec.Inline) (us : List MUse) (st : DocSpec.PSt)
    (hne : us ≠ []) (h0 : mixOK c0 = true) (hus : ∀ u ∈ us, u.ok = true)
    (hlook : ∀ u ∈ us, Block.lookupRef ((before ++ after).map DefSpec.entry) (normUse u.label) = some (u.url, u.title))
    (hstart : startPlain (printLine c0 us st) = true) (hchars : (printLine c0 us st).all lineCh = true)
    (hgt : '>' ∉ printLine c0 us st) (hnoref : Block.refMatchAt (printLine c0 us st) 0 = none) :
    ∃ out, Pipeline.convert cfg (docOf before (printLine c0 us st) after) = .ok out ∧
      (Ser.readForest cfg.fmt out).isSome = true ∧
      C06.visibleLetters L cfg.fmt out = Flat.letters L (visibleLine c0 us st) :=
  letters_mixLine_fmt hL cfg hbl htab hesc before after hb ha c0 us st hne h0 hus hlook hstart hchars hgt hnoref

/-- **C06 with inline links, either output format** (`C06_inline_links` without `cfg.fmt = .xhtml`) -/
theorem C06_inline_links_fmt {L : Char → Bool} (hL : Flat.LetterClass L) (cfg : Pipeline.Cfg)
    (hbl : cfg.blockLevel = TreeProc.defaultBlockLevel) (htab : 0 < cfg.tab) (hesc : cfg.esc = DocParse2.ESC)
    (before after : List DefSpec) (hb : ∀ d ∈ before, d.ok cfg.tab = true)
    (ha : ∀ d ∈ after, d.ok cfg.tab = true) (c0 : List DocSpec.Inline) (ls : List MLink) (st : DocSpec.PSt)
    (hne : ls ≠ []) (h0 : mixOK c0 = true) (hls : ∀ u ∈ ls, u.ok = true)
    (hstart : startPlain (printLineI c0 ls st) = true) (hchars : (printLineI c0 ls st).all lineCh = true)
    (hgt : '>' ∉ printLineI c0 ls st) (hnoref : Block.refMatchAt (printLineI c0 ls st) 0 = none) :
    ∃ out, Pipeline.convert cfg (docOf before (printLineI c0 ls st) after) = .ok out ∧
      (Ser.readForest cfg.fmt out).isSome = true ∧
      C06.visibleLetters L cfg.fmt out = Flat.letters L (visibleLineI c0 ls st) :=
  letters_mixLineI_fmt hL cfg hbl htab hesc before after hb ha c0 ls st hne h0 hls hstart hchars hgt hnoref

/-- **the output for a line with inline links, either output format**: the opening tags in the spelling of the
    format (`specLinksF`, `C06_specLinksF_spec`) -/
theorem C06_inline_links_output_fmt (cfg : Pipeline.Cfg)
    (hbl : cfg.blockLevel = TreeProc.defaultBlockLevel) (htab : 0 < cfg.tab) (hesc : cfg.esc = DocParse2.ESC)
    (before after : List DefSpec) (hb : ∀ d ∈ before, d.ok cfg.tab = true)
    (ha : ∀ d ∈ after, d.ok cfg.tab = true) (c0 : List DocSpec.Inline) (ls : List MLink) (st : DocSpec.PSt)
    (hne : ls ≠ []) (h0 : mixOK c0 = true) (hls : ∀ u ∈ ls, u.ok = true)
    (hstart : startPlain (printLineI c0 ls st) = true) (hchars : (printLineI c0 ls st).all lineCh = true)
    (hnoref : Block.refMatchAt (printLineI c0 ls st) 0 = none) :
    Pipeline.convert cfg (docOf before (printLineI c0 ls st) after) =
      .ok ("<p>".toList ++ (DocSpec.specInlines c0 ++ specLinksF cfg.fmt ls) ++ "</p>".toList) :=
  convert_mixLineI_fmt cfg hbl htab hesc before after hb ha c0 ls st hne h0 hls hstart hchars hnoref

/-- the rendering of the links in format `fmt`, spelled out (`attrHtml`: `Props/C15Forms.lean`); for xhtml it is
    `specLinks` -/
theorem C06_specLinksF_spec (fmt : Ser.Fmt) (u : MLink) (r : List MLink) :
    specLinksF fmt [] = [] ∧
    specLinksF fmt (u :: r) = ("<a".toList ++ attrHtml fmt "href".toList u.url ++
        (if Node.truthy (u.dtitle.map (·.2)) then attrHtml fmt "title".toList ((u.dtitle.map (·.2)).getD []) else []) ++
        ['>']) ++
      (DocSpec.specInlines u.text ++ ("</a>".toList ++ DocSpec.specInlines u.after)) ++ specLinksF fmt r ∧
    specLinksF .xhtml (u :: r) = specLinks (u :: r) :=
  ⟨rfl, rfl, specLinksF_xhtml _⟩

/-- **`getLink` on a simple destination**: for `(url)` / `(url "title")` after any prefix `X`, before any rest:
    the destination, the title text, the position behind `)`, handled -/
theorem C06_getLink_dest (stash : List StashItem) (X url rest : Str) (title : Option (Char × Str))
    (h : DestOK url title) :
    getLink (unescape stash) (X ++ '(' :: (destSrc url title ++ ')' :: rest)) X.length =
      (url, title.map (·.2), ((X.length + 1 + (destSrc url title).length + 1 : Nat) : Int), true) :=
  getLink_dest stash X url rest title h

/-! ### the theorem at work (kernel-checked) -/

section examples
open DocSpec

/-- the Unicode letters satisfy the hypothesis -/
example : Flat.LetterClass Flat.isLetterU := Flat.letterClass_unicode

/-- the instance of `Props/C15Text.lean`: the visible part of the line … -/
example : visibleLine sampleC0 [sampleU1, sampleU2] sampleSt =
    "see _it_ and ``a[b]``\\! **the docs** of ``x*y``\\_ then \\*plain 2\\.``` ` ```".toList := by decide +kernel

/-- … through the theorem: the visible letters of the output are its letters -/
example : ∃ out, Pipeline.convert {}
    (docOf [⟨0, S "foo bar", S "/old", none, false⟩, ⟨0, S "Foo Bar", S "/u?a=b", some (.dq, S "T"), false⟩]
      (printLine sampleC0 [sampleU1, sampleU2] sampleSt) [⟨1, S "X", S "/v", none, false⟩]) = .ok out ∧
    (Ser.readForest .xhtml out).isSome = true ∧
    C06.visibleLetters Flat.isLetterU .xhtml out =
      Flat.letters Flat.isLetterU (visibleLine sampleC0 [sampleU1, sampleU2] sampleSt) :=
  C06_links Flat.letterClass_unicode {} rfl rfl (by decide) rfl _ _ (by decide) (by decide) sampleC0
    [sampleU1, sampleU2] sampleSt (by simp) (by decide) (by decide) (by decide +kernel) (by decide +kernel)
    (by decide +kernel) (by decide +kernel) (by decide +kernel)

/-- the same evaluated by the kernel on the model: the visible letters of the output, the letters of the visible
    line — and the letters of the whole source, which has the letters of the labels, destinations, titles and
    definitions in addition (`foobarold…`, `FooBAR`, `x`, `Xv`) -/
example :
    (match Pipeline.convert {}
        (docOf [⟨0, S "foo bar", S "/old", none, false⟩, ⟨0, S "Foo Bar", S "/u?a=b", some (.dq, S "T"), false⟩]
          (printLine sampleC0 [sampleU1, sampleU2] sampleSt) [⟨1, S "X", S "/v", none, false⟩]) with
      | .ok o => some (C06.visibleLetters Flat.isLetterU .xhtml o)
      | _ => none) = some "seeitandabthedocsofxythenplain".toList ∧
    Flat.letters Flat.isLetterU (visibleLine sampleC0 [sampleU1, sampleU2] sampleSt) =
      "seeitandabthedocsofxythenplain".toList ∧
    Flat.letters Flat.isLetterU
        (docOf [⟨0, S "foo bar", S "/old", none, false⟩, ⟨0, S "Foo Bar", S "/u?a=b", some (.dq, S "T"), false⟩]
          (printLine sampleC0 [sampleU1, sampleU2] sampleSt) [⟨1, S "X", S "/v", none, false⟩]) =
      "foobaroldFooBaruabTseeitandabthedocsofxyFooBARthenplainxXv".toList := by decide +kernel

/-- inline links: a destination with a title, one without -/
def sampleL1 : MLink :=
  ⟨[.strong [.text (S "the docs")], .text (S " of "), .code (S "x*y"), .esc '_'], S "http://e.org/a?b=c#d",
    some ('"', S "The Title"), [.text (S " then "), .esc '*']⟩
def sampleL2 : MLink := ⟨[.text (S "plain 2")], S "/v", none, [.esc '.', .code (S "`")]⟩

example : sampleL1.ok = true ∧ sampleL2.ok = true := by decide

example : printLineI sampleC0 [sampleL1, sampleL2] sampleSt =
    ("see _it_ and ``a[b]``\\! [**the docs** of ``x*y``\\_](http://e.org/a?b=c#d \"The Title\") then " ++
     "\\*[plain 2](/v)\\.``` ` ```").toList := by decide +kernel

/-- through the theorems: the output, and its visible letters -/
example : Pipeline.convert {} (docOf [] (printLineI sampleC0 [sampleL1, sampleL2] sampleSt) []) =
    .ok ("<p>".toList ++ (specInlines sampleC0 ++ specLinks [sampleL1, sampleL2]) ++ "</p>".toList) :=
  C06_inline_links_output {} rfl rfl (by decide) rfl [] [] (by simp) (by simp) sampleC0 [sampleL1, sampleL2] sampleSt
    (by simp) (by decide) (by decide) (by decide +kernel) (by decide +kernel) (by decide +kernel)

example : ∃ out, Pipeline.convert {} (docOf [] (printLineI sampleC0 [sampleL1, sampleL2] sampleSt) []) = .ok out ∧
    (Ser.readForest .xhtml out).isSome = true ∧
    C06.visibleLetters Flat.isLetterU .xhtml out =
      Flat.letters Flat.isLetterU (visibleLineI sampleC0 [sampleL1, sampleL2] sampleSt) :=
  C06_inline_links Flat.letterClass_unicode {} rfl rfl (by decide) rfl [] [] (by simp) (by simp) sampleC0
    [sampleL1, sampleL2] sampleSt (by simp) (by decide) (by decide) (by decide +kernel) (by decide +kernel)
    (by decide +kernel) (by decide +kernel)

/-- the same evaluated by the kernel on the model; the letters of the whole source have those of the destinations and
    the title in addition (`httpeorgabcd`, `TheTitle`, `v`) -/
example :
    Pipeline.convert {} (docOf [] (printLineI sampleC0 [sampleL1, sampleL2] sampleSt) []) =
      .ok ("<p>see <em>it</em> and <code>a[b]</code>! <a href=\"http://e.org/a?b=c#d\" title=\"The Title\">" ++
        "<strong>the docs</strong> of <code>x*y</code>_</a> then *<a href=\"/v\">plain 2</a>.<code>`</code></p>").toList ∧
    Flat.letters Flat.isLetterU (visibleLineI sampleC0 [sampleL1, sampleL2] sampleSt) =
      "seeitandabthedocsofxythenplain".toList ∧
    Flat.letters Flat.isLetterU (printLineI sampleC0 [sampleL1, sampleL2] sampleSt) =
      "seeitandabthedocsofxyhttpeorgabcdTheTitlethenplainv".toList := by decide +kernel

/-- the html format with boolean attributes: `[go](href "title")` gives `<a href title>`; the visible letters are
    still those of the contents and the link texts -/
def sampleL3 : MLink := ⟨[.em [.text (S "go")]], S "href", some ('"', S "title"), []⟩

example : sampleL3.ok = true := by decide

example : ∃ out, Pipeline.convert { fmt := .html } (docOf [] (printLineI sampleC0 [sampleL1, sampleL3] sampleSt) []) = .ok out ∧
    (Ser.readForest .html out).isSome = true ∧
    C06.visibleLetters Flat.isLetterU .html out =
      Flat.letters Flat.isLetterU (visibleLineI sampleC0 [sampleL1, sampleL3] sampleSt) :=
  C06_inline_links_fmt Flat.letterClass_unicode { fmt := .html } rfl (by decide) rfl [] [] (by simp) (by simp) sampleC0
    [sampleL1, sampleL3] sampleSt (by simp) (by decide) (by decide) (by decide +kernel) (by decide +kernel)
    (by decide +kernel) (by decide +kernel)

example :
    Pipeline.convert { fmt := .html } (docOf [] (printLineI sampleC0 [sampleL1, sampleL3] sampleSt) []) =
      .ok ("<p>see <em>it</em> and <code>a[b]</code>! <a href=\"http://e.org/a?b=c#d\" title=\"The Title\">" ++
        "<strong>the docs</strong> of <code>x*y</code>_</a> then *<a href title><em>go</em></a></p>").toList ∧
    Flat.letters Flat.isLetterU (visibleLineI sampleC0 [sampleL1, sampleL3] sampleSt) =
      "seeitandabthedocsofxythengo".toList := by decide +kernel

end examples

end MdVerif.RefText
