/-
C06 — "Every letter of running text in the source appears in the rendered text exactly once and in the same order:
conversion only removes markup characters and adds tags, it never drops, repeats or moves the reader's words, whatever
markup surrounds them."  Extension of `Props/C06.lean` (domain without `[ & < >`) to paragraphs with
**reference-style links**, where "text legitimately moves into attributes or is consumed as a definition"
(quantifier of the property).

**What "visible text" means here.**  The document is: any reference definitions, a paragraph, any reference
definitions (`docOf before line after`).  The paragraph is a line `c₀ [t₁][l₁] c₁ … [tₘ][lₘ] cₘ` (`printLine`).

* VISIBLE: the contents `cᵢ` and the link TEXTS `tⱼ` — `visibleLine c₀ us st`: the line as printed, with the
  brackets and the labels left out.
* NOT visible: the labels `lⱼ` at the place of use and what they resolve to — the destination becomes the value of
  the `href` attribute, the title the value of the `title` attribute; attribute values are not text content
  (`visibleText` of `Lemmas/C06Compose/Trees.lean`: tags and attributes contribute nothing).
* NOT visible at all: a reference DEFINITION (`before`, `after`): it produces no output (C15), so none of its
  letters — label, destination, title — reaches the rendered text.

`C06_links`: for such a document `convert` returns an `out` that the strict reader of `Spec/Reader.lean` accepts, and
`visibleLetters L fmt out = letters L (visibleLine c₀ us st)`: the letters of the visible part of the source, each
once, in order; none of the letters of labels, destinations, titles, definitions.  `L` is any predicate "is a letter"
with `Flat.LetterClass L` (not white space, digit, `*`, `_`, backtick, backslash, `STX`, `ETX`); the contents and link
texts are of the `mixRun` kind (words, escapes, code spans, `em`/`strong`: `Props/C15Text.lean`, whose theorem
`C15_text_markup` gives the output), the line has no `>` besides the hypotheses of that theorem (so that no code body
is changed by `code_escape`: with `>` in a code span the TREE text gains the letters of `&gt;`,
`C06_gt_in_code_adds_letters`).  `C06_links_chunks`: the same at the level of chunks, any escapable set.

Helper lemmas: `Lemmas/LettersLinks.lean` (text content of the document tree, letters of a chunk),
`Lemmas/LettersLinksDoc.lean` (the tree is a vocabulary tree without `&` in its texts; `visibleLetters_inner` of C06),
`Lemmas/LettersLinksSpec.lean` (bridge to `printInlines`).
-/
import MdVerif.Lemmas.LettersLinksSpec
import MdVerif.Props.C15Text
import MdVerif.Props.C06

namespace MdVerif.RefText
open Py Inline InlineRef RefDef

/-- **C06 with reference-style links.**  Definitions, the paragraph `c₀ [t₁][l₁] c₁ … [tₘ][lₘ] cₘ`, definitions
    (hypotheses as in `C15_text_markup`, plus: no `>` in the line).  The output is well-formed and its visible
    letters are the letters of the visible part of the source line (`visibleLine`: contents and link texts) — the
    labels, the destinations and titles they stand for, and the definitions contribute nothing. -/
theorem C06_links {L : Char → Bool} (hL : Flat.LetterClass L) (cfg : Pipeline.Cfg) (hfmt : cfg.fmt = .xhtml)
    (hbl : cfg.blockLevel = TreeProc.defaultBlockLevel) (htab : 0 < cfg.tab) (hesc : cfg.esc = DocParse2.ESC)
    (before after : List DefSpec) (hb : ∀ d ∈ before, d.ok cfg.tab = true)
    (ha : ∀ d ∈ after, d.ok cfg.tab = true) (c0 : List DocSpec.Inline) (us : List MUse) (st : DocSpec.PSt)
    (hne : us ≠ []) (h0 : mixOK c0 = true) (hus : ∀ u ∈ us, u.ok = true)
    (hlook : ∀ u ∈ us, Block.lookupRef ((before ++ after).map DefSpec.entry) (normUse u.label) = some (u.url, u.title))
    (hstart : startPlain (printLine c0 us st) = true) (hchars : (printLine c0 us st).all lineCh = true)
    (hgt : '>' ∉ printLine c0 us st) (hnoref : Block.refMatchAt (printLine c0 us st) 0 = none) :
    ∃ out, Pipeline.convert cfg (docOf before (printLine c0 us st) after) = .ok out ∧
      (Ser.readForest cfg.fmt out).isSome = true ∧
      C06.visibleLetters L cfg.fmt out = Flat.letters L (visibleLine c0 us st) :=
  letters_mixLine hL cfg hfmt hbl htab hesc before after hb ha c0 us st hne h0 hus hlook hstart hchars hgt hnoref

/-- the visible line, spelled out: the printed contents and link texts in order (the state of the spelling threaded
    as in `printLine`) -/
theorem C06_visibleLine_spec (c0 : List DocSpec.Inline) (u : MUse) (r : List MUse) (st : DocSpec.PSt) :
    visibleLine c0 [] st = (DocSpec.printInlines none true true c0 st).1 ∧
    (visUses (u :: r) st).1 =
      (DocSpec.printInlines none true true u.text st).1 ++
        ((DocSpec.printInlines none true true u.after (DocSpec.printInlines none true true u.text st).2).1 ++
          (visUses r (DocSpec.printInlines none true true u.after
            (DocSpec.printInlines none true true u.text st).2).2).1) :=
  ⟨by simp [visibleLine, visUses], rfl⟩

/-- **The same at chunk level**: `lineRaw` is the source line, `visibleSrc` its visible part (the sources of the
    chunks `C₀, T₁, C₁, …`), any escapable set with `EscOK`; the code bodies have none of `&`, `<`, `>`
    (`Chunk.CodeClean`). -/
theorem C06_links_chunks {L : Char → Bool} (hL : Flat.LetterClass L) (cfg : Pipeline.Cfg) (hfmt : cfg.fmt = .xhtml)
    (hbl : cfg.blockLevel = TreeProc.defaultBlockLevel) (htab : 0 < cfg.tab) (hE : DocParse.EscOK cfg.esc)
    (hrb : ']' ∈ cfg.esc) (before after : List DefSpec) (hb : ∀ d ∈ before, d.ok cfg.tab = true)
    (ha : ∀ d ∈ after, d.ok cfg.tab = true) (C0 : Chunk) (us : List RUse) (hne : us ≠ [])
    (h0 : ChunkOK cfg.esc C0) (hus : ∀ u ∈ us, UseSpec cfg.esc (before ++ after) u)
    (hc0 : C0.CodeClean) (hcu : ∀ u ∈ us, u.T.CodeClean ∧ u.C.CodeClean)
    (hstart : startPlain (lineRaw cfg.esc C0 us) = true) (hchars : (lineRaw cfg.esc C0 us).all lineCh = true)
    (hnoref : Block.refMatchAt (lineRaw cfg.esc C0 us) 0 = none) :
    ∃ out, Pipeline.convert cfg (docOf before (lineRaw cfg.esc C0 us) after) = .ok out ∧
      (Ser.readForest cfg.fmt out).isSome = true ∧
      C06.visibleLetters L cfg.fmt out = Flat.letters L (visibleSrc cfg.esc C0 us) :=
  letters_line_conv hL cfg hfmt hbl htab hE hrb before after hb ha C0 us hne h0 hus hc0 hcu hstart hchars hnoref

/-- **the text content of the document tree**: the contents and the link texts in order — the step where the labels,
    destinations and titles drop out (they are in no text or tail of the tree: `href`/`title` attribute values) -/
theorem C06_links_tree_content (C0 : Chunk) (us : List RUse) :
    Flat.content (pFin C0 us) = C0.content ++ usContent us := content_pFin C0 us

/-- **the letters of a chunk's source are the letters of its text content**: escapes, code fences and padding,
    emphasis delimiters are no letters -/
theorem C06_chunk_letters {L : Char → Bool} (hL : Flat.LetterClass L) (esc : List Char) (c : Chunk)
    (hc : c.CodeClean) (hok : DocParse2.MSegsOK c.segs) :
    Flat.letters L (c.raw esc) = Flat.letters L c.content := letters_chunk hL esc c hc hok

/-! ### the theorem at work (kernel-checked) -/

section examples
open DocSpec

/-- the Unicode letters satisfy the hypothesis -/
example : Flat.LetterClass Flat.isLetterU := Flat.letterClass_unicode

/-- the instance of `Props/C15Text.lean`: the visible part of the line … -/
example : visibleLine sampleC0 [sampleU1, sampleU2] sampleSt =
    "see _it_ and ``a[b]``\\! **the docs** of ``x*y``\\_ then \\*plain 2\\.``` ` ```".toList := by decide +kernel

/-- … through the theorem: the visible letters of the output are its letters -/
example : ∃ out, Pipeline.convert {}
    (docOf [⟨0, S "foo bar", S "/old", none, false⟩, ⟨0, S "Foo Bar", S "/u?a=b", some (.dq, S "T"), false⟩]
      (printLine sampleC0 [sampleU1, sampleU2] sampleSt) [⟨1, S "X", S "/v", none, false⟩]) = .ok out ∧
    (Ser.readForest .xhtml out).isSome = true ∧
    C06.visibleLetters Flat.isLetterU .xhtml out =
      Flat.letters Flat.isLetterU (visibleLine sampleC0 [sampleU1, sampleU2] sampleSt) :=
  C06_links Flat.letterClass_unicode {} rfl rfl (by decide) rfl _ _ (by decide) (by decide) sampleC0
    [sampleU1, sampleU2] sampleSt (by simp) (by decide) (by decide) (by decide +kernel) (by decide +kernel)
    (by decide +kernel) (by decide +kernel) (by decide +kernel)

/-- the same evaluated by the kernel on the model: the visible letters of the output, the letters of the visible
    line — and the letters of the whole source, which has the letters of the labels, destinations, titles and
    definitions in addition (`foobarold…`, `FooBAR`, `x`, `Xv`) -/
example :
    (match Pipeline.convert {}
        (docOf [⟨0, S "foo bar", S "/old", none, false⟩, ⟨0, S "Foo Bar", S "/u?a=b", some (.dq, S "T"), false⟩]
          (printLine sampleC0 [sampleU1, sampleU2] sampleSt) [⟨1, S "X", S "/v", none, false⟩]) with
      | .ok o => some (C06.visibleLetters Flat.isLetterU .xhtml o)
      | _ => none) = some "seeitandabthedocsofxythenplain".toList ∧
    Flat.letters Flat.isLetterU (visibleLine sampleC0 [sampleU1, sampleU2] sampleSt) =
      "seeitandabthedocsofxythenplain".toList ∧
    Flat.letters Flat.isLetterU
        (docOf [⟨0, S "foo bar", S "/old", none, false⟩, ⟨0, S "Foo Bar", S "/u?a=b", some (.dq, S "T"), false⟩]
          (printLine sampleC0 [sampleU1, sampleU2] sampleSt) [⟨1, S "X", S "/v", none, false⟩]) =
      "foobaroldFooBaruabTseeitandabthedocsofxyFooBARthenplainxXv".toList := by decide +kernel

end examples

end MdVerif.RefText
